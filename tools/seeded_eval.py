#!/venv/bin/python
"""Run the relevant checks against every seeded change under /verif/seeded/<id>/ (scratch copy per change, never
/repo) and write /verif/seeded/RESULTS.json + RESULTS.md.
usage: seeded_eval.py [--only id,id] [--tier quick|thorough] [--checks C03,C04 (default: meta.json 'checks')]"""
import argparse
import json
import os
import re
import subprocess

ap = argparse.ArgumentParser()
ap.add_argument("--only")
ap.add_argument("--tier", default="quick")
ap.add_argument("--checks")
ap.add_argument("--seed", default="0")
ap.add_argument("--shard", help="i/n: evaluate every n-th change starting at i, results in RESULTS.<i>.json (merge with --merge)")
ap.add_argument("--merge", action="store_true", help="merge RESULTS.<i>.json shards into RESULTS.json and rewrite RESULTS.md")
a = ap.parse_args()
VERIF = os.path.dirname(os.path.dirname(os.path.abspath(__file__)))
root = os.path.join(VERIF, "seeded")
if os.environ.get("SEEDED_RESULTS_DIR"):      # results elsewhere (evaluation from a snapshot)
    os.makedirs(os.environ["SEEDED_RESULTS_DIR"], exist_ok=True)
res_path = os.path.join(os.environ.get("SEEDED_RESULTS_DIR") or root, "RESULTS.json")
results = json.load(open(res_path)) if os.path.exists(res_path) else {}
ids = sorted(d for d in os.listdir(root) if os.path.isdir(os.path.join(root, d)))
if a.only:
    ids = [i for i in ids if i in a.only.split(",")]
if a.shard:
    si, sn = (int(x) for x in a.shard.split("/"))
    ids = ids[si::sn]
    res_path = os.path.join(os.environ.get("SEEDED_RESULTS_DIR") or root, "RESULTS.%d.json" % si)
    shard_results = json.load(open(res_path)) if os.path.exists(res_path) else {}
if a.merge:
    import glob
    for f in sorted(glob.glob(os.path.join(root, "RESULTS.[0-9]*.json"))):
        for k, v in json.load(open(f)).items():
            results.setdefault(k, {}).update(v)
        os.remove(f)
    json.dump(results, open(res_path, "w"), indent=1)
    ids = []
for i in ids:
    meta = json.load(open(os.path.join(root, i, "meta.json")))
    checks = a.checks or ",".join(meta.get("checks", [meta["property"]]))
    p = subprocess.run([os.path.join(VERIF, "tools", "mutcheck.py"), "--patch", os.path.join(root, i, "patch.diff"), "--checks", checks,
                        "--tier", a.tier, "--seed", a.seed], capture_output=True, text=True)
    m = re.search(r"RESULT (\{.*\})", p.stdout)
    rcs = eval(m.group(1)) if m else {"error": p.stdout[-500:] + p.stderr[-500:]}
    first = [ln.strip() for ln in p.stdout.splitlines() if ln.startswith("     ")][:2]
    results.setdefault(i, {})[a.tier] = {"rc": rcs, "first": first}
    print(i, a.tier, rcs, first[:1], flush=True)
    if a.shard:
        shard_results.setdefault(i, {})[a.tier] = results[i][a.tier]
        json.dump(shard_results, open(res_path, "w"), indent=1)
    else:
        json.dump(results, open(res_path, "w"), indent=1)
lines = ["# Seeded changes vs checks", "", "| change | property | needs | quick | thorough |", "|---|---|---|---|---|"]
for i in sorted(results):
    meta = json.load(open(os.path.join(root, i, "meta.json")))

    def fmt(t):
        r = results[i].get(t)
        if not r:
            return "-"
        return ", ".join("%s:%s" % (k, {0: "missed", 1: "CAUGHT", 2: "machinery error"}.get(v, v)) for k, v in r["rc"].items())
    lines.append("| %s | %s | %s | %s | %s |" % (i, meta["property"], meta.get("needs", "")[:90], fmt("quick"), fmt("thorough")))
if not a.shard:
    open(os.path.join(root, "RESULTS.md"), "w").write("\n".join(lines) + "\n")
