#!/venv/bin/python
"""Prompt for an independent sub-agent that writes realistic regressions for one property (DESIGN.md section 13).
The agent sees only the property text and its own scratch worktree; nothing from /verif.
usage: adv_prompt.py <cXX> > /tmp/adv-<cxx>-prompt.txt"""
import json, os, sys
pid = sys.argv[1]
props = {json.loads(l)['id']: json.loads(l) for l in open('/verif/properties.jsonl')}
p = props[pid.upper()]
wt = "/tmp/adv-%s" % pid.lower()
done = sorted(d.split("-", 2)[2].replace("-", " ") for d in os.listdir("/verif/seeded") if d.startswith(pid.lower() + "-"))
print(f"""You are a software engineer asked to write *realistic regressions* for a robustness study. You have your own scratch git worktree of the Python project nxp-imx/ethos-u-vela (Vela: a compiler that lowers quantised TFLite graphs to Arm Ethos-U NPU command streams) at {wt} (work ONLY there and in {wt}-out; never touch /repo, never look into /verif — it is off limits for this task). Python interpreter: /venv/bin/python (numpy, flatbuffers, pytest installed; no network). The compiled C extension is already copied into {wt}/ethosu/. Run things from inside the worktree so that `import ethosu.vela` resolves to the worktree (check `ethosu.vela.__file__`).

The semantic property under study:
  title: {p['title']}
  statement: {p['statement']}
  quantified over: {p['quantifier']['text']}
  code anchors: {', '.join(p['anchors']['files'])}
  mechanisms: {json.dumps(p['anchors'].get('mechanism', []))}

Task: produce 3 DIFFERENT changes to the project's source (each one a small, plausible edit a developer could make by mistake or as a misguided 'simplification/optimisation': off-by-one, wrong field, dropped special case, stale cache, reordered statements, wrong rounding, condition narrowed/widened ...) such that with the change
  (a) the project still imports and the existing test suite still passes exactly as before — run `cd {wt} && /venv/bin/python -m pytest -q -p no:cacheprovider --timeout=900 -n 8 ethosu` ; NOTE: on the unchanged tree 4 tests already fail (test_quant_static_optimisations, test_constraint_padded_dimensions, test_optimise_quantize_multiple_values, test_build_correct_readme_links) and 539 pass: the same 539 must still pass;
  (b) the property above is violated for some input/configuration/history;
  (c) the violation needs something SPECIFIC to manifest — a particular interleaving or order of operations, a multi-step sequence, an unusual but valid input or option combination, a particular accelerator/memory mode, or two cooperating code sites that each look fine alone — NOT something every ordinary compilation would expose at once (a change that breaks every compile is useless).
For each change provide a demonstration: a small self-contained Python script `demo.py` (it may build a tiny .tflite model with the flatbuffers package and the generated classes in ethosu/vela/tflite, call the public API in ethosu/vela/api.py, or call the compiler via `python -m ethosu.vela` / ethosu.vela.vela.main) that exits 0 on the unchanged worktree and exits non-zero (printing what is wrong) with the change applied. The demo must decide the violation from observable artefacts (return values, emitted command stream words, output file contents, exit status), not by inspecting the patched line. Keep the three changes in different functions/mechanisms.
Deliver, for i in 1..3, the directory {wt}-out/m<i>/ containing: patch.diff (output of `git diff` in the worktree, applies with `git apply` at the worktree root), demo.py, and notes.md (what the change is, why it breaks the property, what specific situation is needed to manifest it, and the commands you ran with their results: test-suite summary line with the patch, demo exit status with and without the patch). After finishing each one, restore the worktree with `git checkout -- .` (leave it clean at the end). Use only files inside {wt} and {wt}-out. Never use `git stash` (it is shared between worktrees); save diffs to files instead. Report a short summary at the end.""")
if done:
    print("\nAlready submitted by earlier reviewers (do NOT repeat these mechanisms; find different ones, preferably in other "
          "files/functions): " + "; ".join(done) + ".")
if pid.lower() == "c07":
    print("\nAdditional note for this property: the C sources live in ethosu/mlw_codec/*.c; the extension in the worktree "
          "(ethosu/mlw_codec*.so) is a stale copy, so if you change C code rebuild it in place with `cd <worktree> && "
          "/venv/bin/python setup.py build_ext --inplace` (gcc is available) before running tests and the demo, and say so in "
          "notes.md. Changes to the Python side (ethosu/vela/weight_compressor.py, api.py) are equally welcome.")
