#!/usr/bin/env python3
"""Build seeded/RESULTS.json + RESULTS.md from evaluation result directories (later directories win):
usage: merge_results.py <dir> [<dir> ...]   each holding RESULTS.<i>.json shard files written by seeded_eval.py --shard"""
import glob, json, os, sys
root = os.path.join(os.path.dirname(os.path.dirname(os.path.abspath(__file__))), "seeded")
res = {}
for d in sys.argv[1:]:
    for f in sorted(glob.glob(os.path.join(d, "RESULTS.*.json"))):
        for k, v in json.load(open(f)).items():
            res.setdefault(k, {}).update(v)
            res[k]["evaluated_in"] = os.path.basename(d.rstrip("/"))
ids = sorted(d for d in os.listdir(root) if os.path.isdir(os.path.join(root, d)))
json.dump({k: res[k] for k in ids if k in res}, open(os.path.join(root, "RESULTS.json"), "w"), indent=1)
lab = {0: "missed", 1: "CAUGHT", 2: "machinery error"}
lines = ["# Seeded changes vs checks", "",
         "Quick tier, VERIF_SEED=0, evaluated with tools/seeded_eval.py from a snapshot of the committed framework against a patched copy "
         "of /repo. `scope` = the reviewer's change does not violate the property as stated (see meta.json).", "",
         "| change | property | needs | result | first violation |", "|---|---|---|---|---|"]
n = caught = 0
for i in ids:
    meta = json.load(open(os.path.join(root, i, "meta.json")))
    r = res.get(i, {}).get("quick")
    if not r:
        lines.append("| %s | %s | %s | not evaluated | |" % (i, meta["property"], meta.get("needs", "")[:80]))
        continue
    rc = r["rc"]
    txt = ", ".join("%s:%s" % (k, lab.get(v, v)) for k, v in rc.items()) if "error" not in rc else "patch does not apply"
    if meta.get("scope_note"):
        txt += " (scope)"
    else:
        n += 1
        caught += any(v == 1 for v in rc.values() if isinstance(v, int))
    first = (r.get("first") or [""])[0].replace("|", "/")[:150]
    lines.append("| %s | %s | %s | %s | %s |" % (i, meta["property"], meta.get("needs", "")[:80].replace("|", "/"), txt, first))
lines += ["", "%d of %d in-scope changes caught by at least one check." % (caught, n)]
open(os.path.join(root, "RESULTS.md"), "w").write("\n".join(lines) + "\n")
print(caught, "of", n, "caught;", len(ids) - len([i for i in ids if i in res]), "not evaluated")
