#!/bin/bash
# usage: adv_setup.sh c05 c07 ...   creates /tmp/adv-<id> worktrees (detached at /repo HEAD) + prompt files /tmp/adv-<id>-prompt.txt
set -e
for id in "$@"; do
  wt=/tmp/adv-$id
  git -C /repo worktree remove --force $wt 2>/dev/null || true
  rm -rf $wt $wt-out
  git -C /repo worktree add --detach $wt HEAD >/dev/null 2>&1
  cp /repo/ethosu/*.so $wt/ethosu/
  mkdir -p $wt-out
  /verif/tools/adv_prompt.py $id > $wt-prompt.txt
  echo "$wt ready ($(wc -c < $wt-prompt.txt) bytes of prompt)"
done
