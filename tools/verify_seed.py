#!/venv/bin/python
"""Confirm a candidate seeded change in its scratch worktree and, if confirmed, store it under /verif/seeded/<id>/.
usage: verify_seed.py <worktree> <candidate dir with patch.diff, demo.py, notes.md> <id> <property> "<needs>" [checks]"""
import json
import os
import shutil
import subprocess
import sys

wt, cand, sid, prop, needs = sys.argv[1:6]
checks = sys.argv[6].split(",") if len(sys.argv) > 6 else [prop]
env = dict(os.environ, PYTHONPATH=wt, VELA_ROOT=wt)


def sh(cmd, **kw):
    return subprocess.run(cmd, shell=True, cwd=wt, capture_output=True, text=True, env=env, **kw)


log = {}
assert sh("git status --porcelain --untracked-files=no").stdout.strip() == "", "worktree not clean"
r = sh("/venv/bin/python %s/demo.py" % cand, timeout=1800)
log["demo_without_patch"] = r.returncode
r = sh("git apply %s/patch.diff" % cand)
assert r.returncode == 0, "patch does not apply: " + r.stderr
REBUILD = "/venv/bin/python setup.py build_ext --inplace >/dev/null 2>&1"      # changes to ethosu/mlw_codec/*.c
touches_c = "mlw_codec/" in open(os.path.join(cand, "patch.diff")).read()
try:
    if touches_c:
        assert sh(REBUILD).returncode == 0, "extension does not build"
        log["extension_rebuilt"] = True
    r = sh("/venv/bin/python -m pytest -q -p no:cacheprovider --timeout=900 -n 8 ethosu 2>&1 | tail -1", timeout=3600)
    log["tests_with_patch"] = r.stdout.strip()
    r = sh("/venv/bin/python %s/demo.py" % cand, timeout=1800)
    log["demo_with_patch"] = r.returncode
    log["demo_output_tail"] = (r.stdout + r.stderr)[-600:]
finally:
    sh("git checkout -- .")
    if touches_c:
        sh(REBUILD)
ok = log["demo_without_patch"] == 0 and log["demo_with_patch"] != 0 and "539 passed" in log["tests_with_patch"] \
    and "4 failed" in log["tests_with_patch"]
print(json.dumps(log, indent=1))
print("CONFIRMED" if ok else "NOT CONFIRMED")
if ok:
    dst = os.path.join("/verif/seeded", sid)
    os.makedirs(dst, exist_ok=True)
    for f in ("patch.diff", "demo.py", "notes.md"):
        shutil.copy(os.path.join(cand, f), dst)
    json.dump({"id": sid, "property": prop, "needs": needs, "checks": checks, "source": "independent sub-agent, worktree " + wt,
               "confirmed": log, "ran": ["git apply patch.diff", "pytest -n 8 ethosu (539 passed, 4 baseline failures)",
                                         "demo.py with and without the patch"]}, open(os.path.join(dst, "meta.json"), "w"), indent=1)
