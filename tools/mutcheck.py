#!/venv/bin/python
"""Run checks against a mutated scratch copy of /repo (never touches /repo).
usage: mutcheck.py [--patch file.diff | --edit 'relpath::old::new' ...] --checks C06,C04 [--tier quick] [--seed N]
The copy lives in /var/tmp/mut-<pid> and is removed afterwards.  Evidence/replay files written by these runs
are redirected to the scratch directory so the committed evidence is not disturbed."""
import argparse
import os
import shutil
import subprocess
import sys

ap = argparse.ArgumentParser()
ap.add_argument("--patch")
ap.add_argument("--edit", action="append", default=[])
ap.add_argument("--checks", required=True)
ap.add_argument("--tier", default="quick")
ap.add_argument("--seed", default="0")
ap.add_argument("--keep", action="store_true")
a = ap.parse_args()
VERIF = os.path.dirname(os.path.dirname(os.path.abspath(__file__)))     # the tree this script lives in (may be a snapshot)
d = "/var/tmp/mut-%d" % os.getpid()
repo = os.path.join(d, "repo")
os.makedirs(d)
try:
    subprocess.run(["rsync", "-a", "--exclude", ".git", "--exclude", "__pycache__", "--exclude", "*.so", "/repo/", repo + "/"], check=True)
    if a.patch:
        subprocess.run(["patch", "-p1", "-d", repo, "-i", os.path.abspath(a.patch)], check=True, stdout=subprocess.DEVNULL)
    for e in a.edit:
        rel, old, new = e.split("::")
        p = os.path.join(repo, rel)
        s = open(p).read()
        if old not in s:
            sys.exit("edit target not found in %s: %r" % (rel, old))
        open(p, "w").write(s.replace(old, new, 1))
    env = dict(os.environ, VERIF_REPO=repo, VERIF_SEED=a.seed, VERIF_EVIDENCE_DIR=os.path.join(d, "evidence"),
               VERIF_REPLAY_DIR=os.path.join(d, "replay"))
    rcs = {}
    for c in a.checks.split(","):
        p = subprocess.run([os.path.join(VERIF, "check"), c, "--tier", a.tier], env=env, cwd=VERIF, capture_output=True, text=True)
        lines = [ln for ln in p.stdout.splitlines() if ln.startswith(("VIOLATION", "KNOWN", "MACHINERY", c + " "))]
        detail = [ln for ln in p.stdout.splitlines() if ln.startswith("  ")][:3]
        print("== %s rc=%d" % (c, p.returncode))
        for ln in lines[:6] + detail:
            print("   " + ln[:300])
        if p.returncode == 2:
            print(p.stdout[-1500:], p.stderr[-1500:])
        rcs[c] = p.returncode
    print("RESULT", rcs)
finally:
    if not a.keep:
        shutil.rmtree(d, ignore_errors=True)
