------------------------- MODULE WeightTensorTrace -------------------------
(* Trace validation for C08 (layout half): every line is what the real
   weight_compressor.encode_weight_and_scale_tensor of the working tree returned for one generated
   operator, together with the inputs of the call:
     n, nc, D, B                      OFM depth, cores, depth-slice list, OFM block depth
     kh, kw, id, acc, trav, bits, dily, dilx, flip     what fixes the hardware weight order
                                      (trav = traversal recorded in the returned tensor, "dw" for depthwise)
     wraw, zp                         raw weights, flattened OHWI over all n channels; zero point per channel
     bias, mult, shift                per channel: 40-bit bias limbs, 32-bit multiplier limbs, shift
     wranges, sranges                 ranges of the tensor holding the weights / holding the scales
                                      (the same tensor unless a scales-only tensor was returned)
     wbuflen, sbuflen, db             buffer lengths, recorded double-buffer sizes of the weight tensor
     sbytes                           per range of sranges: the bytes of its scale section
     wdec                             per range of wranges: the weight section decoded by the reference decoder
     outcome                          "tensor", or "raised" when the call threw
   The layout predicates are those of WeightTensor, the weight order is WeightOrder!Order. *)
EXTENDS WeightTensor, MlwStream, Json, IOUtils

Trace == ndJsonDeserialize(IOEnv.TRACE_FILE)
VARIABLES l, viol
vars == <<l, viol>>
Ev == Trace[l]

(* zero-point-corrected weights of the channels chans (OHWI), transpose convolution reads the kernel flipped *)
SubVolume(e, chans) ==
    LET per == e.kh * e.kw * e.id
    IN [j \in 1..(Len(chans) * per) |->
          LET k == (j - 1) \div per
              r == (j - 1) % per
              y == r \div (e.kw * e.id)
              x == (r \div e.id) % e.kw
              i == r % e.id
              sy == IF e.flip THEN e.kh - 1 - y ELSE y
              sx == IF e.flip THEN e.kw - 1 - x ELSE x
              ch == chans[k + 1]
          IN e.wraw[((ch * e.kh + sy) * e.kw + sx) * e.id + i + 1] - e.zp[ch + 1]]

OrderCfg(e, core, cnt) ==
    [od |-> cnt, kh |-> e.kh, kw |-> e.kw, id |-> e.id, iub |-> UBlocks(e.acc)[1], oub |-> UBlocks(e.acc)[2],
     oblk |-> CoreBlockDepth(e.B, e.nc, core), trav |-> e.trav, bits |-> e.bits, dily |-> e.dily, dilx |-> e.dilx]

WeightSectionOK(e, k) ==
    LET r == e.wranges[k]
        chans == Channels(e.D, e.nc, r.core, SliceOfKey(e.D, <<r.core, r.depth>>))
        c == OrderCfg(e, r.core, Len(chans))
    IN IF Len(chans) = 0 THEN r.weight_bytes = 0 /\ Len(e.wdec[k]) = 0
       ELSE /\ ValidCfg(c)
            /\ r.weight_bytes > 0
            /\ ExpectedThenZeros(e.wdec[k], Reordered(c, SubVolume(e, chans)))

ScaleSectionOK(e, k) ==
    LET r == e.sranges[k]
        recs == [ch \in 1..e.n |-> Record(e.bias[ch], e.mult[ch], e.shift[ch])]
        want == ScaleSection(recs, e.D, e.nc, r.core, SliceOfKey(e.D, <<r.core, r.depth>>))
    IN r.scale_bytes = Len(want) /\ e.sbytes[k] = want

WellFormed(e) ==
    /\ WellFormedSlices(e.n, e.D) /\ e.nc \in {1, 2} /\ e.B >= e.nc /\ e.acc \in Accelerators
    /\ Len(e.wraw) = e.n * e.kh * e.kw * e.id /\ Len(e.zp) = e.n
    /\ Len(e.bias) = e.n /\ Len(e.mult) = e.n /\ Len(e.shift) = e.n
    /\ \A ch \in 1..e.n : WellFormedRecordInput(e.bias[ch], e.mult[ch], e.shift[ch])

Keyed(rs, e) == KeyedByCoreAndSlice(rs, e.n, e.nc, e.D, e.B)

Failures(e) ==
    IF e.kind # "tensor" THEN {}
    ELSE IF e.outcome # "tensor" THEN {<<e.t, "Assembled">>}         \* the call threw on a valid operator
    ELSE IF ~WellFormed(e) THEN {<<e.t, "MalformedObservation">>}
    ELSE IF ~Keyed(e.wranges, e) \/ ~Keyed(e.sranges, e) THEN {<<e.t, "KeyedByCoreAndSlice">>}
    ELSE  (IF RangesAligned16(e.wranges) /\ RangesAligned16(e.sranges) THEN {} ELSE {<<e.t, "Aligned16">>})
     \cup (IF Disjoint(e.wranges) /\ Disjoint(e.sranges) THEN {} ELSE {<<e.t, "Disjoint">>})
     \cup (IF InStreamOrder(e.wranges, e.wbuflen) /\ InStreamOrder(e.sranges, e.sbuflen)
              /\ SectionsInsideRange(e.wranges) /\ SectionsInsideRange(e.sranges) THEN {} ELSE {<<e.t, "InStreamOrder">>})
     \cup (IF ChannelCoverage(e.n, e.nc, e.D, e.B) THEN {} ELSE {<<e.t, "ChannelCoverage">>})
     \cup (IF DoubleBufferBound(e.wranges, e.D, e.db) THEN {} ELSE {<<e.t, "DoubleBufferBound">>})
     \cup {<<e.t, "ScaleSection", k - 1>> : k \in {j \in 1..Len(e.sranges) : ~ScaleSectionOK(e, j)}}
     \cup {<<e.t, "WeightSection", k - 1>> : k \in {j \in 1..Len(e.wranges) : ~WeightSectionOK(e, j)}}

(* ---- artefact level: one stripe command of a compiled network -------------------------------
   kind "stripe": what the output file makes the hardware read for one NPU convolution-like operation
     n, nc, B           channels of this stripe (source channels c0 .. c0+n-1), cores, OFM block depth register
     kh, kw, id, acc, trav, bits, dily, dilx   from the source model (kernel, IFM depth) and the registers
                        (KERNEL_STRIDE: traversal and dilation, IFM_PRECISION: bit depth); flip is FALSE
     wraw, zp, bias     source model: weights of these channels (flattened OHWI), zero points, 40-bit bias limbs
     cores              for core 0 .. nc-1: [core, defined, slen, sbytes, wlen, wdec]
                        slen / wlen = SCALE(1)_LENGTH / WEIGHT(1)_LENGTH registers; sbytes = the bytes at
                        SCALE(1)_BASE in the programmed region (a scratch region is followed back through the
                        DMA operations of the stream to the flash image); wdec = the bytes at WEIGHT(1)_BASE
                        decoded by the reference decoder; defined = every byte could be traced to the flash image
   Multiplier bytes are not decided here (float derivation of the scales, property C09): the record count,
   the 5 bias bytes and the range of the shift byte are. *)
StripeChans(e, core) == Channels(<<0, e.n>>, e.nc, core, 1)

StripeScaleOK(e, k) ==
    LET c == e.cores[k]
        ch == StripeChans(e, c.core)
        cnt == Len(ch)
    IN /\ c.slen = Round16(10 * cnt) /\ Len(c.sbytes) = c.slen
       /\ \A j \in 1..cnt :
             LET rec == Record(e.bias[ch[j] + 1], <<0, 0>>, 0)
             IN /\ \A b \in 1..5 : c.sbytes[10 * (j - 1) + b] = rec[b]
                /\ c.sbytes[10 * j] \in 0..63

StripeWeightOK(e, k) ==
    LET c == e.cores[k]
        ch == StripeChans(e, c.core)
        cfg == OrderCfg(e, c.core, Len(ch))
    IN IF Len(ch) = 0 THEN c.wlen = 0
       ELSE /\ ValidCfg(cfg) /\ c.wlen > 0 /\ c.wlen % 16 = 0
            /\ ExpectedThenZeros(c.wdec, Reordered(cfg, SubVolume(e, ch)))

StripeWellFormed(e) ==
    /\ e.n >= 1 /\ e.nc \in {1, 2} /\ e.B >= e.nc /\ e.acc \in Accelerators /\ ~e.flip
    /\ Len(e.wraw) = e.n * e.kh * e.kw * e.id /\ Len(e.zp) = e.n /\ Len(e.bias) = e.n
    /\ \A ch \in 1..e.n : WellFormedRecordInput(e.bias[ch], <<0, 0>>, 0)
    /\ Len(e.cores) = e.nc /\ \A k \in 1..e.nc : e.cores[k].core = k - 1

StripeFailures(e) ==
    IF ~StripeWellFormed(e) THEN {<<e.t, "MalformedObservation">>}
    ELSE {<<e.t, "SectionBytesDefined", k - 1>> : k \in {j \in 1..e.nc : ~e.cores[j].defined}}
    \cup {<<e.t, "ScaleSection", k - 1>> : k \in {j \in 1..e.nc : e.cores[j].defined /\ ~StripeScaleOK(e, j)}}
    \cup {<<e.t, "WeightSection", k - 1>> : k \in {j \in 1..e.nc : e.cores[j].defined /\ ~StripeWeightOK(e, j)}}

Init == l = 1 /\ viol = {}
Next == /\ l <= Len(Trace)
        /\ viol' = viol \cup (IF Ev.kind = "stripe" THEN StripeFailures(Ev) ELSE Failures(Ev))
        /\ l' = l + 1
Spec == Init /\ [][Next]_vars

Consumed == TLCGet("stats").diameter = Len(Trace) + 1
Report == l = Len(Trace) + 1 => PrintT(<<"VERDICT", ToJson(viol)>>)
=============================================================================
