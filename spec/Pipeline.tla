------------------------------ MODULE Pipeline ------------------------------
(* Growth of the specification beyond the listed properties: the control flow of one compilation
   (vela.process -> compiler_driver.compiler_driver -> tflite_writer), as a DEPENDENCY specification.

   The driver is sequential code; what a later phase needs from an earlier one is implicit in it (addresses assigned
   by an allocation pass are read by the register generator, the flash tensor is filled subgraph by subgraph in the
   order in which the constant tensors were laid out, the CPU-side call operators are rewired after every NPU
   subgraph has been serialised, the output file is written last).  Each phase is an action enabled by its DATA
   dependencies, not by a program counter, so that every order the dependencies allow is a behaviour: the trace
   specification (PipelineTrace.tla) then accepts exactly the real event sequences that respect the dependencies,
   and a driver that skips, repeats or reorders a phase across a dependency is rejected.

     Reset                     process-wide caches forgotten (compiler_driver.reset_process_wide_state)
     Optimise, Pack, Extract   graph optimisation, pass packing, subgraph extraction (fixes N = # NPU subgraphs,
                               C = # CPU subgraphs other than the root... here: all CPU subgraphs)
     Schedule                  scheduler.schedule_passes: schedules, weight encoding and arena allocation of all subgraphs
     FlashLr(i), FlashAlloc    live ranges of the constant NPU tensors of subgraph i; one linear allocation of all of them
     Hlcs(i), Lut(i), Regs(i)  high-level command stream, LUT DMA elision, register command stream of NPU subgraph i
     Ser(i)                    serialisation of subgraph i into the shared flash / scratch tensors (in subgraph order)
     Call(j)                   rewrite_npu_call_ops of CPU subgraph j
     CpuAlloc, Perf, Write     constant CPU tensors, performance report, output file
     Fail                      a VelaError (diagnosis) ends the compilation: nothing may follow, in particular no Write

   Addr records, for the negative control, whether the register stream of a subgraph was generated after the constant
   tensors had their final addresses.                                                                             *)
EXTENDS Integers, FiniteSets, TLC

CONSTANTS MaxN, MaxC,
          RegsNeedFlashAlloc      \* TRUE = the real dependency; FALSE = negative control (Regs enabled without FlashAlloc)

VARIABLES N, C,                \* number of NPU / CPU subgraphs, -1 before Extract
          done,                \* set of phases that happened: <<name, index>> pairs
          failed, regsOk
vars == <<N, C, done, failed, regsOk>>

Npu == IF N < 0 THEN {} ELSE 1..N
Cpu == IF C < 0 THEN {} ELSE 1..C
Did(p) == p \in done

Init == N = -1 /\ C = -1 /\ done = {} /\ failed = FALSE /\ regsOk = TRUE

(* the data dependencies of a phase p (a pair <<name, index>>; index 0 for phases that happen once), as a state predicate shared with PipelineTrace.tla *)
G(nm) == <<nm, 0>>          \* a phase that happens once per compilation
Name(p) == p[1]
Idx(p) == p[2]
Pre(p) ==
  LET nm == Name(p)
      i == Idx(p) IN
  CASE nm = "Reset" -> done = {}
    [] nm = "Optimise" -> Did(G("Reset"))
    [] nm = "Pack" -> Did(G("Optimise"))
    [] nm = "Extract" -> Did(G("Pack"))
    [] nm = "Schedule" -> Did(G("Extract"))
    [] nm = "FlashLr" -> i \in Npu /\ Did(G("Schedule")) /\ ~Did(G("FlashAlloc"))
    [] nm = "FlashAlloc" -> N > 0 /\ \A k \in Npu : Did(<<"FlashLr", k>>)
    [] nm = "Hlcs" -> i \in Npu /\ Did(G("Schedule"))
    [] nm = "Lut" -> i \in Npu /\ Did(<<"Hlcs", i>>)
    [] nm = "Regs" -> i \in Npu /\ Did(<<"Lut", i>>) /\ (RegsNeedFlashAlloc => Did(G("FlashAlloc")))
    [] nm = "Ser" -> i \in Npu /\ Did(<<"Regs", i>>) /\ \A k \in Npu : k < i => Did(<<"Ser", k>>)   \* flash tensor filled in subgraph order
    [] nm = "Call" -> i \in Cpu /\ Did(G("Schedule")) /\ \A k \in Npu : Did(<<"Ser", k>>)
    [] nm = "CpuAlloc" -> Did(G("Schedule")) /\ (\A k \in Cpu : Did(<<"Call", k>>)) /\ (\A k \in Npu : Did(<<"Ser", k>>))
    [] nm = "Perf" -> Did(G("CpuAlloc"))
    [] nm = "Write" -> Did(G("CpuAlloc"))
    [] OTHER -> FALSE
Can(p) == ~failed /\ ~Did(p) /\ Pre(p)
Phase(p) == /\ Can(p) /\ done' = done \cup {p}
            /\ regsOk' = IF Name(p) = "Regs" THEN regsOk /\ Did(G("FlashAlloc")) ELSE regsOk
            /\ UNCHANGED <<N, C, failed>>
Extract(n, c) == Can(G("Extract")) /\ done' = done \cup {G("Extract")} /\ N' = n /\ C' = c /\ UNCHANGED <<failed, regsOk>>
CanFail == ~failed /\ Did(G("Reset")) /\ ~Did(G("Write"))
Fail == CanFail /\ failed' = TRUE /\ UNCHANGED <<N, C, done, regsOk>>

Phases == {G(nm) : nm \in {"Reset", "Optimise", "Pack", "Schedule", "FlashAlloc", "CpuAlloc", "Perf", "Write"}}
          \cup ({"FlashLr", "Hlcs", "Lut", "Regs", "Ser"} \X (1..MaxN)) \cup ({"Call"} \X (1..MaxC))
Next == \/ \E p \in Phases : Phase(p)
        \/ \E n \in 0..MaxN, c \in 1..MaxC : Extract(n, c)
        \/ Fail
Spec == Init /\ [][Next]_vars

(* ---- what the dependencies guarantee ------------------------------------------------------------ *)
\* an output file is complete: every NPU subgraph has a register stream and is serialised, every CPU subgraph rewired
WriteComplete == Did(G("Write")) => /\ \A i \in Npu : Did(<<"Regs", i>>) /\ Did(<<"Ser", i>>) /\ Did(<<"Lut", i>>)
                                 /\ \A j \in Cpu : Did(<<"Call", j>>)
                                 /\ Did(G("CpuAlloc")) /\ (N > 0 => Did(G("FlashAlloc")))
\* no register stream was generated before the constant tensors it addresses had their final addresses
RegsSeeFinalAddresses == regsOk
\* a diagnosed failure writes nothing (the CLI protocol of Cli.tla: a rejection has no output file)
NoWriteAfterFail == failed => ~Did(G("Write"))
\* nothing is allocated twice: the flash layout is fixed once, before any serialisation
FlashFixedBeforeSer == \A i \in Npu : Did(<<"Ser", i>>) => Did(G("FlashAlloc"))
=============================================================================
