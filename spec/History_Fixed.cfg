SPECIFICATION Spec
CONSTANT Letters <- MCLetters
CONSTANT VK <- MCVK
CONSTANT WK <- MCWK
CONSTANT Acc <- MCAcc
CONSTANT MaxLen = 3
CONSTANT Policy = "clear_at_entry"
CONSTANT SeedsRng = TRUE
INVARIANT TypeOK
INVARIANT HistoryIndependent
INVARIANT NoFailureFromHistory
INVARIANT NoExposure
CHECK_DEADLOCK FALSE
