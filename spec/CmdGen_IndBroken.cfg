SPECIFICATION IndSpec
CONSTANTS Regs = {"a"}
 DmaRegs = {"d"}
 Vals = {0, 1}
 MaxOps = 1
 NBanks = 2
CONSTRAINT IndOneStep
INVARIANT OpSeesIntendedRegisters
INVARIANT ShadowMatchesHardware
CHECK_DEADLOCK FALSE
