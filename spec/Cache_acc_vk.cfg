SPECIFICATION Spec
CONSTANT Weights = {"w1", "w2"}
CONSTANT Shapes = {"a"}
CONSTANT Biases = {"b1", "b2"}
CONSTANT Kinds = {"conv"}
CONSTANT BlockDepths = {16}
CONSTANT SliceLists = {"s1", "s2"}
CONSTANT Dilations = {1}
CONSTANT MaxLen = 3
CONSTANT VKWeights = {"w1"}
CONSTANT Bits = {8}
CONSTANT Flips = {FALSE}
CONSTANT Accs = {"U55_128", "U65_512"}
CONSTANT ClearOnCompile = FALSE
CONSTANT ExtendedKey = FALSE
CONSTANT Assume = FALSE
INVARIANT Coherent
CHECK_DEADLOCK FALSE
