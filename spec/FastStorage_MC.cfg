SPECIFICATION Spec
CONSTANT ResetScoreC = TRUE
INVARIANT WithinLimit
INVARIANT OptimalSingle
CHECK_DEADLOCK FALSE
