------------------------- MODULE AllocHillClimbTrace -------------------------
(* Conformance of the hill-climb transcription (AllocHillClimb.tla) with the real
   HillClimbAllocator: a batch of step traces recorded from real runs (real RNG, real constants).
     start  the heuristic order and the size of the initial allocation
     iter   `indices` as attempt_bottleneck_fix left them and the size allocate_indices returned
     raise  attempt_bottleneck_fix raised
     end    the addresses handed out and the number of iterations
   Each observed step must be a step of the transcription (the ordering is one MayProduce admits, the
   size equals the transcription's, the loop ends when LoopCond says so, a raise happens only where the
   transcription predicts a single-element turn_list).  Every disagreement is recorded as DRIFT: it says the
   model is not the code (never, by itself, that the code is wrong).  Nothing here is a property violation. *)
EXTENDS Integers, Sequences, FiniteSets, Json, IOUtils, TLC

Trace == ndJsonDeserialize(IOEnv.TRACE_FILE)
CONSTANTS MinImprove, MaxStuck
VARIABLES l, drift, R, phase, par, h
vars == <<l, drift, R, phase, par, h>>

HC == INSTANCE AllocHillClimb WITH MaxN <- 0, T <- 0, Sizes <- {}, Aligns <- {}, Eqs <- {}, MaxAddr <- 0, AddrStep <- 1,
                                   MaxIters <- {}, MemLimits <- {}, Guarded <- TRUE
Ev == Trace[l]
Ranges(e) == [i \in 1..Len(e.r) |-> [s |-> e.r[i][1], e |-> e.r[i][2], size |-> e.r[i][3],
                                     al |-> e.r[i][4], eq |-> e.r[i][5]]] \o <<>>
D(cond, what) == IF cond THEN {} ELSE {<<Ev.t, l, what>>}

Init == l = 1 /\ drift = {} /\ R = <<>> /\ phase = "build" /\ par = [maxit |-> 0, limit |-> 0] /\ h = HC!H0(<<>>)

OnStart == LET Q == Ranges(Ev)
               ind == Ev.ind \o <<>>
               r == HC!AllocIndices(Q, HC!H0(Q), ind, -1)
           IN /\ R' = Q
              /\ par' = [maxit |-> Ev.maxit, limit |-> Ev.limit]
              /\ h' = [HC!With(HC!H0(Q), HC!Fields(r[1])) EXCEPT !.indices = ind, !.best_indices = ind,
                                                                !.best_size = r[2], !.best_addr = r[1].addr]
              /\ phase' = IF r[2] > h'.minreq THEN "search" ELSE "done"
              /\ drift' = drift \cup D(ind = SortSeq(HC!Ids(Q), LAMBDA x, y : HC!HcLess(Q, x, y)), "heuristic order")
                                \cup D(r[2] = Ev.size, "initial size")
OnIter == LET ind == Ev.ind \o <<>>
              nx == HC!AfterIteration(R, h, ind)
          IN /\ h' = nx.h /\ phase' = nx.phase
             /\ drift' = drift \cup D(phase = "search" /\ HC!LoopCondOf(h, par), "iteration although the loop is over")
                               \cup D(HC!MayProduce(R, h, h.indices, h.i - h.last, ind), "ordering not produced by the model")
                               \cup D(nx.size = Ev.size, "size of the re-allocation")
             /\ UNCHANGED <<R, par>>
OnRaise == /\ drift' = drift \cup D(phase = "search" /\ HC!LoopCondOf(h, par) /\ HC!WouldRaise(R, h), "raise not predicted")
           /\ phase' = "raised"
           /\ UNCHANGED <<R, par, h>>
OnEnd == /\ drift' = drift \cup D(phase = "done" \/ (phase = "search" /\ ~HC!LoopCondOf(h, par)), "loop ended early")
                           \cup D(Ev.addr \o <<>> = h.best_addr, "addresses")
                           \cup D(Ev.iters = h.iters, "iteration count")
         /\ phase' = "done"
         /\ UNCHANGED <<R, par, h>>
Next == /\ l <= Len(Trace)
        /\ CASE Ev.ev = "start" -> OnStart
             [] Ev.ev = "iter" -> OnIter
             [] Ev.ev = "raise" -> OnRaise
             [] Ev.ev = "end" -> OnEnd
        /\ l' = l + 1
Spec == Init /\ [][Next]_vars

Consumed == TLCGet("stats").diameter = Len(Trace) + 1
Report == l = Len(Trace) + 1 => PrintT(<<"VERDICT", ToJson(drift)>>)
=============================================================================
