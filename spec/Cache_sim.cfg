SPECIFICATION Spec
CONSTANT Weights = {"w1", "w2"}
CONSTANT Shapes = {"a", "b"}
CONSTANT Biases = {"b1", "b2"}
CONSTANT Kinds = {"conv"}
CONSTANT BlockDepths = {16, 32}
CONSTANT SliceLists = {"s1", "s2"}
CONSTANT Dilations = {1, 2}
CONSTANT MaxLen = 5
CONSTANT VKWeights = {"w1"}
CONSTANT Bits = {8, 16}
CONSTANT Flips = {FALSE, TRUE}
CONSTANT Accs = {"U55_128", "U55_32", "U65_512"}
CONSTANT ClearOnCompile = FALSE
CONSTANT ExtendedKey = FALSE
CONSTANT Assume = FALSE
CHECK_DEADLOCK FALSE
