SPECIFICATION Spec
CONSTANTS MaxH = 16
 EmitCases = FALSE
 Wide = TRUE
 YPad = "right"
INVARIANT BlockDepSafe
CHECK_DEADLOCK FALSE
