----------------------------- MODULE StripesMC -----------------------------
(* Model check of the transcription in Stripes.tla against the oracle, over the parameter lattice of C10:
   one behaviour = one operator axis, its stripes taken in the order of the stripe loop of
   generate_high_level_commands_for_sched_op (range(start, end, step)).

   ExactWhereClaimed  the algorithm is exact for SAME/VALID operators without a split read offset (any stripe
                      height, concat write offsets, kernels, strides, dilations; x2 upscaling as one stripe)
   Candidates         always true; prints <<"CAND", case, failing clauses>> for every stripe outside the claimed
                      region where the transcription is not exact.  The harness replays these cases on the REAL
                      code; only what the real code does is a verdict.
   Partition          the stripes of the loop tile the written extent *)
EXTENDS Stripes, TLC, Json

CONSTANTS MaxI, MaxK, MaxD, MaxS,
          EmitCases     \* TRUE: print every case of the lattice (<<"CASE", json>>) so that the harness replays exactly this lattice on the real code

VARIABLES p, h, a, cov
vars == <<p, h, a, cov>>

OutExt(q) ==
    IF q.up = 2 THEN (IF q.pt = "SAME" THEN 2 * q.rl ELSE 2 * q.rl + Max(q.k - 2, 0))
    ELSE LET n == q.rl * U(q) IN
         CASE q.pt = "SAME" -> CeilDiv(n, q.s)
           [] q.pt = "VALID" -> IF n >= KD(q) THEN (n - KD(q)) \div q.s + 1 ELSE 0
           [] q.pt = "EXPLICIT" -> IF n + q.epb + q.epa >= KD(q) THEN (n + q.epb + q.epa - KD(q)) \div q.s + 1 ELSE 0

(* variants: padding type, explicit pads, split window, concat offset, upscaling, axis, whether striped *)
PlainV == [pt : {"SAME", "VALID"}, epb : {0}, epa : {0}, split : {"none"}, wo : {0, 3}, up : {0}, ax : {"H"}, striped : {TRUE}]
ExplV == [pt : {"EXPLICIT"}, epb : 0..4, epa : 0..4, split : {"none"}, wo : {0}, up : {0}, ax : {"H", "W"}, striped : {TRUE}]
SplitV == [pt : {"SAME", "VALID"}, epb : {0}, epa : {0}, split : {"head", "mid", "tail"}, wo : {0}, up : {0}, ax : {"H", "W"}, striped : {FALSE}]
WideV == [pt : {"SAME", "VALID"}, epb : {0}, epa : {0}, split : {"none"}, wo : {0, 3}, up : {0}, ax : {"W"}, striped : {FALSE}]
UpV == [pt : {"SAME", "VALID", "EXPLICIT"}, epb : {0}, epa : {1, 3}, split : {"none"}, wo : {0}, up : {1, 2}, ax : {"H", "W"}, striped : {FALSE}]
NearV == [pt : {"SAME", "EXPLICIT"}, epb : {0}, epa : {1, 3}, split : {"none"}, wo : {0}, up : {1}, ax : {"H"}, striped : {TRUE}]
Variants == PlainV \cup ExplV \cup SplitV \cup WideV \cup UpV \cup NearV

LeadingPadOk(pad, s, kd) == pad = kd \div 2 \/ kd \div 2 <= s \/ pad % s = 0        \* _leading_pad_ok
Mk(i, k, d, s, v) ==
    LET ro == CASE v.split = "none" -> 0 [] v.split = "head" -> 0 [] v.split = "mid" -> 1 [] v.split = "tail" -> 2
        rl == IF v.split = "none" THEN i ELSE i - 2
        q0 == [ax |-> v.ax, kind |-> "win", I |-> i, ro |-> ro, rl |-> rl, sp |-> v.split # "none", wo |-> v.wo, O |-> 0,
               k |-> k, d |-> d, s |-> s, pt |-> v.pt, epb |-> v.epb, epa |-> v.epa, up |-> v.up]
    IN [q0 EXCEPT !.O = OutExt(q0)]

(* the part of the space the graph optimiser can produce *)
Valid(q, v) ==
    /\ q.rl >= 1 /\ q.O >= 1
    /\ (q.d > 1 => q.k > 1)
    /\ (q.pt = "EXPLICIT" /\ q.up = 0 =>                                              \* replace_pad_by_hw_pad
           /\ q.epb + q.epa > 0 /\ q.epb <= KD(q) \div 2 /\ q.epa <= KD(q) \div 2 /\ LeadingPadOk(q.epb, q.s, KD(q)))
    /\ (q.up = 1 => /\ q.s = 1 /\ q.d = 1                                             \* resize -> x2 nearest + average pool
                    /\ \/ q.pt = "SAME" /\ q.k = 1
                       \/ q.pt = "EXPLICIT" /\ q.k \in {2, 4} /\ q.epa = q.k - 1)
    /\ (q.up = 2 => q.s = 1 /\ q.d = 1 /\ q.pt # "EXPLICIT" /\ q.epa = 1)             \* stride-2 transpose convolution

End == p.wo + p.O
B == Min(a + h, End)
Rec == Code(p, a, B, a = p.wo, B >= End)

Init == \E i \in 1..MaxI, k \in 1..MaxK, d \in 1..MaxD, s \in 1..MaxS, v \in Variants :
          LET q == Mk(i, k, d, s, v) IN
            /\ Valid(q, v)
            /\ p = q /\ a = q.wo /\ cov = <<>>
            /\ h \in (IF v.striped /\ v.ax = "H"
                      THEN (IF v.up = 1 THEN { x \in 2..q.O : x % 2 = 0 } ELSE 1..q.O)   \* the scheduler forces even stripes on x2 nearest
                      ELSE {q.O})

Step == /\ a < End
        /\ cov' = Append(cov, <<a, B>>)
        /\ a' = a + h
        /\ UNCHANGED <<p, h>>
Spec == Init /\ [][Step]_vars

Claimed(q) == TRUE      \* every case since the repairs of F1-F4 (split read offsets included)
CaseTuple == <<p.ax, p.I, p.ro, p.rl, p.sp, p.wo, p.O, p.k, p.d, p.s, p.pt, p.epb, p.epa, p.up, h, a>>

ExactWhereClaimed == (a < End /\ (Claimed(p) \/ (p.up = 1 /\ p.pt = "EXPLICIT"))) => Exact(p, Rec)
Candidates == (a < End /\ ~Claimed(p)) => (Exact(p, Rec) \/ PrintT(<<"CAND", ToJson(<<CaseTuple, Failing(p, Rec)>>)>>))
Cases == (EmitCases /\ cov = <<>>) => PrintT(<<"CASE", ToJson(CaseTuple)>>)
Partition == a >= End => Tiles(cov, p.wo, End)
TypeOK == h >= 1 /\ a >= p.wo /\ p.O >= 1
=============================================================================
