SPECIFICATION Spec
CONSTANTS NB = 3
 MaxLen = 6
CHECK_DEADLOCK FALSE
