------------------------------- MODULE Config -------------------------------
(* Resolution of the system configuration and memory mode of a compilation (property C18),
   written from OPTIONS.md ("Configuration File", "Memory Modes", "Config", "System Config",
   "Memory Mode", "Arena Cache Size") and the bundled ethosu/config_files/Arm/vela.ini.

   A configuration file is a function  section name -> [inherit, opts]  where inherit is the
   name of the parent section ("" = none) and opts a function from the option names that the
   section defines to their values (strings, in canonical form).

   Documented rules modelled here
     R1  "An option in the child overwrites an identical option in the parent" (transitively):
         the value of an option is that of the nearest section on the inheritance chain that
         defines it.
     R2  "All options are optional.  If they are not specified, then they will be assigned a
         value of 1 (or the equivalent).  They will not be assigned the value of internal-default."
         arena_cache_size: "a size equal to the maximum address supported by the Ethos-U".
     R3  "--arena-cache-size ... If specified, this option overrides the memory mode attribute
         with the same name".
     R4  internal-default = Ethos_U65_Client_Server + Dedicated_Sram (Ethos-U65),
         Ethos_U55_High_End_Embedded + Shared_Sram (Ethos-U55) of the example vela.ini.
     R5  errors: a selected or inherited section that does not exist, a section that inherits
         itself, a memory area mapped to a memory type that cannot hold it, an arena/cache size
         below 0 or above the address space.
     R6  (module ConfigTrace) "--config Dir/file.ini" names a file of the bundled config_files
         directory whatever the working directory; other paths are used as given.
   Cycles of inheritance of length >= 2 are outside the documented rules (only self-reference
   is mentioned): files containing them are excluded by NoLongCycle. *)
EXTENDS Integers, Sequences, FiniteSets, TLC

(* ------------------------------------------------------------------ R1: inheritance *)
RECURSIVE ChainErr(_, _, _), Find(_, _, _, _), Depth(_, _, _)
(* "ok", or the reason why the chain starting at s cannot be used *)
ChainErr(F, s, fuel) ==
  IF s \notin DOMAIN F THEN "UnknownSection"
  ELSE IF F[s].inherit = s THEN "SelfInherit"
  ELSE IF F[s].inherit = "" THEN "ok"
  ELSE IF fuel = 0 THEN "LongCycle"
  ELSE ChainErr(F, F[s].inherit, fuel - 1)
(* <<distance of the defining section (0 = the section itself), value>> or <<-1, "">>;
   only used on chains with ChainErr = "ok" *)
Find(F, s, k, d) ==
  IF k \in DOMAIN F[s].opts THEN <<d, F[s].opts[k]>>
  ELSE IF F[s].inherit = "" THEN <<-1, "">>
  ELSE Find(F, F[s].inherit, k, d + 1)
Fuel(F) == Cardinality(DOMAIN F)
ChainStatus(F, s) == ChainErr(F, s, Fuel(F))
Lookup(F, s, k) == Find(F, s, k, 0)
Resolve(F, s, k, dflt) == LET r == Lookup(F, s, k) IN IF r[1] >= 0 THEN r[2] ELSE dflt

(* s, parent(s), ... as long as no section repeats within |F| steps *)
Depth(F, s, fuel) == IF s \notin DOMAIN F \/ F[s].inherit = "" \/ F[s].inherit = s THEN 0
                     ELSE IF fuel = 0 THEN 1000 ELSE 1 + Depth(F, F[s].inherit, fuel - 1)
NoLongCycle(F) == \A s \in DOMAIN F : Depth(F, s, Fuel(F)) < 1000

(* a file given as a sequence of [name, inherit, opts = sequence of <<option, value>>] (JSON form) *)
SeqToSet(q) == {q[i] : i \in 1..Len(q)}
ToFile(js) == [s \in {r.name : r \in SeqToSet(js)} |->
                 LET r == CHOOSE x \in SeqToSet(js) : x.name = s IN
                   [inherit |-> r.inherit,
                    opts |-> [k \in {p[1] : p \in SeqToSet(r.opts)} |-> (CHOOSE p \in SeqToSet(r.opts) : p[1] = k)[2]]]]

(* ------------------------------------------------------------------ documented tables *)
Areas == {"Sram", "Dram", "OnChipFlash", "OffChipFlash"}
Ports == {"Axi0", "Axi1"}
AreaAttrs == {"clock_scale", "burst_length", "read_latency", "write_latency"}
Attr(a, x) == a \o "_" \o x
MemAreaKeys == {"const_mem_area", "arena_mem_area", "cache_mem_area"}

(* R2.  "1 (or the equivalent)": numeric options 1; a memory type: the first of the list; a latency
   may also be 0 (nothing is said about "equivalent" for a delay); a port name: either of the two *)
DefaultSet(k) ==
  IF k = "core_clock" THEN {"1"}
  ELSE IF k \in {"axi0_port", "axi1_port"} THEN {"Sram"}
  ELSE IF k \in MemAreaKeys THEN Ports
  ELSE IF \E a \in Areas : k \in {Attr(a, "read_latency"), Attr(a, "write_latency")} THEN {"0", "1"}
  ELSE {"1"}

(* sizes: token -> <<MiB, rest>> so that nothing reaches 2^31; negative tokens separately *)
SizeTok == [t \in {"0", "4096", "100000", "393216", "524288", "2097152", "4294967295", "4294967296",
                   "4294967297", "1099511627776", "1099511627777"} |->
              CASE t = "0" -> <<0, 0>> [] t = "4096" -> <<0, 4096>> [] t = "100000" -> <<0, 100000>>
                [] t = "393216" -> <<0, 393216>> [] t = "524288" -> <<0, 524288>> [] t = "2097152" -> <<2, 0>>
                [] t = "4294967295" -> <<4095, 1048575>> [] t = "4294967296" -> <<4096, 0>>
                [] t = "4294967297" -> <<4096, 1>> [] t = "1099511627776" -> <<1048576, 0>>
                [] t = "1099511627777" -> <<1048576, 1>>]
NegSizes == {"-1", "-4096"}
SizeTokens == DOMAIN SizeTok \cup NegSizes
MaxAddr(fam) == IF fam = "u65" THEN "1099511627776" ELSE "4294967296"     \* 2^40, 2^32
Leq(a, b) == a[1] < b[1] \/ (a[1] = b[1] /\ a[2] <= b[2])
SizeInRange(t, fam) == t \in DOMAIN SizeTok /\ Leq(SizeTok[t], SizeTok[MaxAddr(fam)])

(* R4 *)
U65ClientServer == [core_clock |-> "1e+09", axi0_port |-> "Sram", axi1_port |-> "Dram",
                    Sram_clock_scale |-> "1", Sram_burst_length |-> "32", Sram_read_latency |-> "32",
                    Sram_write_latency |-> "32", Dram_clock_scale |-> "0.75", Dram_burst_length |-> "128",
                    Dram_read_latency |-> "500", Dram_write_latency |-> "250"]
U55HighEndEmbedded == [core_clock |-> "5e+08", axi0_port |-> "Sram", axi1_port |-> "OffChipFlash",
                    Sram_clock_scale |-> "1", Sram_burst_length |-> "32", Sram_read_latency |-> "32",
                    Sram_write_latency |-> "32", OffChipFlash_clock_scale |-> "0.125",
                    OffChipFlash_burst_length |-> "128", OffChipFlash_read_latency |-> "64",
                    OffChipFlash_write_latency |-> "64"]
(* this fork: without --config and without selections the i.MX93 system is used (vela.Imx93ArchitectureFeatures:
   Ethos-U65 High-End, DRAM at 3.75 GB/s) for every accelerator *)
Imx93 == [U65ClientServer EXCEPT !.Dram_clock_scale = "0.234375"]
DedicatedSram == [const_mem_area |-> "Axi1", arena_mem_area |-> "Axi1", cache_mem_area |-> "Axi0",
                  arena_cache_size |-> "393216"]
SharedSram(fam) == [const_mem_area |-> "Axi1", arena_mem_area |-> "Axi0", cache_mem_area |-> "Axi0",
                    arena_cache_size |-> MaxAddr(fam)]
IntDefaultSys(q) == IF q.imx93 THEN Imx93 ELSE IF q.fam = "u65" THEN U65ClientServer ELSE U55HighEndEmbedded
IntDefaultMem(q) == IF q.fam = "u65" THEN DedicatedSram ELSE SharedSram(q.fam)
DEFAULT == "internal-default"

(* ------------------------------------------------------------------ a request
   q = [F, hascfg, fam, sys, mem, cli, imx93]; d = the choice made for unspecified memory-area ports *)
SysSec(q) == "System_Config." \o q.sys
MemSec(q) == "Memory_Mode." \o q.mem
SysFromFile(q) == q.hascfg /\ SysSec(q) \in DOMAIN q.F
MemFromFile(q) == q.hascfg /\ MemSec(q) \in DOMAIN q.F
SelErr(q, fromFile, sec, name) ==
  IF fromFile THEN (IF ChainStatus(q.F, sec) = "ok" THEN {} ELSE {ChainStatus(q.F, sec)})
  ELSE IF name = DEFAULT THEN {}
  ELSE IF q.hascfg THEN {"UnknownSection"} ELSE {"NoConfigFile"}
SelectionErrors(q) == SelErr(q, SysFromFile(q), SysSec(q), q.sys) \cup SelErr(q, MemFromFile(q), MemSec(q), q.mem)

(* allowed values of a system option (a set: singleton unless the documentation leaves a choice) *)
SysAllowed(q, k) ==
  IF SysFromFile(q) THEN LET r == Lookup(q.F, SysSec(q), k) IN IF r[1] >= 0 THEN {r[2]} ELSE DefaultSet(k)
  ELSE IF k \in DOMAIN IntDefaultSys(q) THEN {IntDefaultSys(q)[k]} ELSE DefaultSet(k)
SysSrc(q, k) ==
  IF SysFromFile(q) THEN LET r == Lookup(q.F, SysSec(q), k) IN
        IF r[1] = 0 THEN "own" ELSE IF r[1] > 0 THEN "inherited" ELSE "default"
  ELSE "internal-default"
PortArea(q, p) == LET k == IF p = "Axi0" THEN "axi0_port" ELSE "axi1_port" IN CHOOSE a \in SysAllowed(q, k) : TRUE

MemFound(q, k) == MemFromFile(q) /\ Lookup(q.F, MemSec(q), k)[1] >= 0
MemPortOf(q, d, k) ==
  IF MemFromFile(q) THEN (IF MemFound(q, k) THEN Lookup(q.F, MemSec(q), k)[2] ELSE d[k])
  ELSE IntDefaultMem(q)[k]
FileSize(q) ==
  IF MemFromFile(q) THEN (IF MemFound(q, "arena_cache_size") THEN Lookup(q.F, MemSec(q), "arena_cache_size")[2]
                          ELSE MaxAddr(q.fam))
  ELSE IntDefaultMem(q)["arena_cache_size"]
FinalSize(q) == IF q.cli # "" THEN q.cli ELSE FileSize(q)                                    \* R3
Origin(q) == IF q.cli # "" THEN "CLI option"
             ELSE IF MemFound(q, "arena_cache_size") THEN "Configuration file" ELSE "Default"
MemSrc(q, k) ==
  IF k = "arena_cache_size" /\ q.cli # "" THEN "cli"
  ELSE IF MemFromFile(q) THEN LET r == Lookup(q.F, MemSec(q), k) IN
        IF r[1] = 0 THEN "own" ELSE IF r[1] > 0 THEN "inherited" ELSE "default"
  ELSE "internal-default"

(* Sram-only systems: all three areas on one port that is SRAM (the constant data then lives in a second
   region of the same SRAM, OPTIONS.md "Sram Only Mode") *)
SramOnly(q, d) == LET c == MemPortOf(q, d, "const_mem_area") IN
  /\ PortArea(q, c) = "Sram"
  /\ c = MemPortOf(q, d, "arena_mem_area") /\ c = MemPortOf(q, d, "cache_mem_area")
MappingErrors(q, d) ==
     (IF PortArea(q, MemPortOf(q, d, "const_mem_area")) \in {"Dram", "OnChipFlash", "OffChipFlash"} \/ SramOnly(q, d)
      THEN {} ELSE {"IllegalMapping"})
\cup (IF PortArea(q, MemPortOf(q, d, "arena_mem_area")) \in {"Sram", "Dram"} THEN {} ELSE {"IllegalMapping"})
\cup (IF PortArea(q, MemPortOf(q, d, "cache_mem_area")) = "Sram" THEN {} ELSE {"IllegalMapping"})
SizeErrors(q) == IF SizeInRange(FinalSize(q), q.fam) THEN {} ELSE {"SizeRange"}

Errors(q, d) == IF SelectionErrors(q) # {} THEN SelectionErrors(q) ELSE MappingErrors(q, d) \cup SizeErrors(q)

(* what is compared on an accepted configuration *)
SelectedAreas(q, d) == IF SramOnly(q, d) THEN {"Sram"} ELSE {PortArea(q, "Axi0"), PortArea(q, "Axi1")}
Compare(q, d) ==
     {"core_clock", "arena_mem_area", "cache_mem_area", "arena_cache_size"}
\cup (IF SramOnly(q, d) THEN {} ELSE {"const_mem_area", "axi0_port", "axi1_port"})
\cup {Attr(a, x) : a \in SelectedAreas(q, d), x \in AreaAttrs}
Allowed(q, d, k) ==
  IF k = "arena_cache_size" THEN (IF q.imx93 /\ q.cli = "" THEN {FinalSize(q), "393216"} ELSE {FinalSize(q)})
  ELSE IF k \in MemAreaKeys THEN {MemPortOf(q, d, k)}
  ELSE SysAllowed(q, k)
Src(q, k) == IF k \in MemAreaKeys \cup {"arena_cache_size"} THEN MemSrc(q, k) ELSE SysSrc(q, k)

DefaultChoices == [MemAreaKeys -> Ports]
ErrRank(e) == CASE e = "ConfigNotFound" -> 0 [] e = "NoConfigFile" -> 1 [] e = "UnknownSection" -> 2
                [] e = "SelfInherit" -> 3 [] e = "LongCycle" -> 4 [] e = "IllegalMapping" -> 5 [] e = "SizeRange" -> 6
FirstErr(E) == CHOOSE e \in E : \A f \in E : ErrRank(e) <= ErrRank(f)

(* obs = [status ("ok" | "error" | "crash"), vals (option -> canonical string), origin ("" = not observed)] *)
FailuresUnder(q, d, obs) ==
  IF obs.status = "crash" THEN {<<"NoInternalError", "", "">>}
  ELSE IF Errors(q, d) # {} THEN (IF obs.status = "error" THEN {} ELSE {<<"Rejects", FirstErr(Errors(q, d)), "">>})
  ELSE IF obs.status # "ok" THEN {<<"Accepts", "", "">>}
  ELSE LET bad == {k \in Compare(q, d) : obs.vals[k] \notin Allowed(q, d, k)} IN
          {<<IF k = "arena_cache_size" THEN "ArenaOverride" ELSE "Resolve", k, Src(q, k)>> : k \in bad}
     \cup (IF "arena_cache_size" \notin bad /\ obs.origin # "" /\ ~(q.imx93 /\ q.cli = "") /\ obs.origin # Origin(q)
           THEN {<<"ArenaOrigin", Origin(q), obs.origin>>} ELSE {})
(* the documentation leaves the default port of an unspecified memory area open: the observation is judged
   under the choice that explains it best (first: same accept/reject outcome, then: fewest differing options) *)
Score(q, d, obs) == LET fu == FailuresUnder(q, d, obs) IN
  IF \E f \in fu : f[1] \in {"Rejects", "Accepts"} THEN 1000 ELSE Cardinality(fu)
Failures(q, obs) ==
  LET best == CHOOSE d \in DefaultChoices : \A d2 \in DefaultChoices : Score(q, d, obs) <= Score(q, d2, obs)
  IN FailuresUnder(q, best, obs)
(* summary used by the generator to stratify what it hands to the driver *)
Expect(q) == LET d0 == [k \in MemAreaKeys |-> "Axi0"] IN
  [status |-> IF Errors(q, d0) = {} THEN "ok" ELSE FirstErr(Errors(q, d0)),
   origin |-> IF Errors(q, d0) = {} THEN Origin(q) ELSE "",
   sram_only |-> Errors(q, d0) = {} /\ SramOnly(q, d0)]

(* ------------------------------------------------------------------ design model (MC)
   The reader the documentation describes operationally: climb from the selected section to the
   root of its chain, then apply the sections downwards, each overwriting what it inherited.
   Checked against the declarative rule R1 (nearest definition wins) for every small file. *)
CONSTANTS Secs, Keys, Vals, Unknown,
          Overlay                 \* "child" (documented) | "parent" (negative control: must violate ChildWins)
SecRecs == [inherit : {""} \cup Secs \cup {Unknown}, opts : UNION {[K -> Vals] : K \in SUBSET Keys}]
VARIABLES file, sel, stack, acc, phase, steps
vars == <<file, sel, stack, acc, phase, steps>>

Init == /\ file \in {F \in [Secs -> SecRecs] : NoLongCycle(F)}
        /\ sel \in Secs \cup {Unknown}
        /\ stack = <<>> /\ acc = <<>> /\ phase = "climb" /\ steps = 0
Top == IF stack = <<>> THEN sel ELSE file[stack[Len(stack)]].inherit
Climb == /\ phase = "climb" /\ Top \in DOMAIN file /\ file[Top].inherit # Top
         /\ stack' = Append(stack, Top)
         /\ phase' = IF file[Top].inherit = "" THEN "apply" ELSE "climb"
         /\ steps' = steps + 1 /\ UNCHANGED <<file, sel, acc>>
HitUnknown == /\ phase = "climb" /\ Top \notin DOMAIN file
              /\ phase' = "UnknownSection" /\ steps' = steps + 1 /\ UNCHANGED <<file, sel, stack, acc>>
HitSelf == /\ phase = "climb" /\ Top \in DOMAIN file /\ file[Top].inherit = Top
           /\ phase' = "SelfInherit" /\ steps' = steps + 1 /\ UNCHANGED <<file, sel, stack, acc>>
Apply == /\ phase = "apply" /\ stack # <<>>
         /\ acc' = IF Overlay = "child" THEN file[stack[Len(stack)]].opts @@ acc   \* the child overwrites what it inherited
                   ELSE acc @@ file[stack[Len(stack)]].opts
         /\ stack' = SubSeq(stack, 1, Len(stack) - 1)
         /\ phase' = IF Len(stack) = 1 THEN "done" ELSE "apply"
         /\ steps' = steps + 1 /\ UNCHANGED <<file, sel>>
Next == Climb \/ HitUnknown \/ HitSelf \/ Apply
Spec == Init /\ [][Next]_vars

Final == phase \in {"done", "UnknownSection", "SelfInherit"}
TypeOK == /\ phase \in {"climb", "apply", "done", "UnknownSection", "SelfInherit"}
          /\ DOMAIN acc \subseteq Keys /\ steps \in 0..(2 * Cardinality(Secs) + 1)
(* R1: the operational reader and the declarative rule agree on every option *)
NearestWins == phase = "done" =>
   /\ ChainStatus(file, sel) = "ok"
   /\ \A k \in Keys : LET r == Lookup(file, sel, k) IN
        IF r[1] >= 0 THEN k \in DOMAIN acc /\ acc[k] = r[2] ELSE k \notin DOMAIN acc
ChildWins == phase = "done" => \A k \in DOMAIN file[sel].opts : acc[k] = file[sel].opts[k]
(* transitivity: an option defined only by the grandparent reaches the selected section *)
Depth2(k) == LET p == file[sel].inherit IN
   /\ sel \in Secs /\ p \in Secs /\ file[p].inherit \in Secs
   /\ k \notin DOMAIN file[sel].opts /\ k \notin DOMAIN file[p].opts /\ k \in DOMAIN file[file[p].inherit].opts
Transitive == phase = "done" => \A k \in Keys : Depth2(k) => acc[k] = file[file[file[sel].inherit].inherit].opts[k]
(* non-vacuity witness: must be VIOLATED (a finished lookup through a grandparent exists) *)
NoDepth2Witness == ~(phase = "done" /\ \E k \in Keys : Depth2(k))
ErrorsAgree == /\ phase = "UnknownSection" => ChainStatus(file, sel) = "UnknownSection"
               /\ phase = "SelfInherit" => ChainStatus(file, sel) = "SelfInherit"
(* well defined: without long cycles the reader always finishes, within 2|Secs|+1 steps *)
WellDefined == (~ENABLED Next) => Final
NeverLongCycle == ChainStatus(file, sel) # "LongCycle"
=============================================================================
