---------------------------- MODULE StripesTrace ----------------------------
(* Trace validation for C10 (function level): a batch of cases, each the sequence of stripes the REAL
   generate_high_level_commands_for_sched_op emitted for a chain of operators, with the IFM boxes returned by the
   REAL Box.transform_with_strides_and_skirt and the padding returned by the REAL create_padding
   (harness/c10_driver.py).  For every stripe and every axis TLC evaluates the oracle of Stripes.tla; at the end
   of a case the OFM boxes of every operator must partition the volume it writes.

   The same specification validates stripes decoded from COMPILED command streams (c10.validate_compiled): there the
   OFM positions and the IFM start come from the logical command, the OFM extents, the IFM extents (the extent the
   hardware derives, A-HW4) and the pads from the decoded registers; "model" is FALSE (no transcription drift).

   Events:  {"t", "e":"Hdr", "n", "model", "ops":[{"cls","sp","up","pt","chk","full","i2":[h,w,c] | [], "ax":{"H":{I,ro,rl,wo,O,k,d,s,ep}, "W":.., "C":..}} ..]}
            chk  = FALSE: the operator reads through edge-replicating tiles or another mechanism outside the oracle: only Partition
            full = TRUE : the operator must write its whole volume (FALSE: it feeds a rolling buffer and must tile a prefix of the rows)
            {"t", "e":"S", "q", "op", "first", "last", "H":[a,b,c,e,pb,pa], "W":[..], "C":[..], "b2":[[c,e] x3] | []}
            {"t", "e":"End"}
   viol  : <<t, q, op, axis, clause>>      property violations (the verdict)
   drift : <<t, q, op, axis>>              stripes where the transcription of Stripes.tla differs from the code
                                           (reported as model drift, never a verdict) *)
EXTENDS Stripes, Json, IOUtils, TLC

Trace == ndJsonDeserialize(IOEnv.TRACE_FILE)

VARIABLES l, viol, drift, hdr, boxes
vars == <<l, viol, drift, hdr, boxes>>

Ev == Trace[l]
Axes == <<"H", "W", "C">>
Reducing == {"conv", "fc", "rsum", "tconv"}
KindOf(o, ax) == IF ax = "C" THEN (IF o.cls \in Reducing THEN "full" ELSE "ew")
                 ELSE IF o.cls \in {"ew1", "ew2"} THEN "ew" ELSE "win"
Param(o, ax) ==
    LET x == o.ax[ax] IN
    [ax |-> ax, kind |-> KindOf(o, ax), I |-> x.I, ro |-> x.ro, rl |-> x.rl, sp |-> o.sp, wo |-> x.wo, O |-> x.O,
     k |-> x.k, d |-> x.d, s |-> x.s, pt |-> o.pt, epb |-> x.ep[1], epa |-> x.ep[2], up |-> IF ax = "C" THEN 0 ELSE o.up]
RecOf(v) == [a |-> v[1], b |-> v[2], c |-> v[3], e |-> v[4], pb |-> v[5], pa |-> v[6]]

(* second input of a binary elementwise operator: same positions as the output, or the single broadcast position *)
Fail2(o, e, i) ==
    LET x == o.ax[Axes[i]]  v == e[Axes[i]]  w == e.b2[i]  ext == o.i2[i]
        bcast == ext = 1 /\ x.O > 1
    IN IF bcast THEN (IF w[1] = 0 /\ w[2] = 1 THEN {} ELSE {"Covers2"})
       ELSE (IF w[1] = v[1] - x.wo /\ w[2] = v[2] - x.wo /\ w[2] <= ext THEN {} ELSE {"Covers2"})

StripeViol(o, e) == IF ~o.chk THEN {} ELSE
    UNION { { <<e.t, e.q, e.op, Axes[i], f>> : f \in Failing(Param(o, Axes[i]), RecOf(e[Axes[i]])) } : i \in 1..3 }
    \cup (IF Len(e.b2) = 3 THEN UNION { { <<e.t, e.q, e.op, Axes[i], f>> : f \in Fail2(o, e, i) } : i \in 1..3 } ELSE {})
StripeDrift(o, e) == IF ~(o.chk /\ hdr.model) THEN {} ELSE
    { <<e.t, e.q, e.op, Axes[i]>> : i \in { j \in 1..3 :
        LET p == Param(o, Axes[j])  r == RecOf(e[Axes[j]])
        IN Code(p, r.a, r.b, e.first, e.last) # r } }

(* ---- partition of the written volume ---- *)
BoxOf(e) == << <<e.H[1], e.H[2]>>, <<e.W[1], e.W[2]>>, <<e.C[1], e.C[2]>> >>
VolOf(o) == << <<o.ax.H.wo, o.ax.H.wo + o.ax.H.O>>, <<o.ax.W.wo, o.ax.W.wo + o.ax.W.O>>, <<o.ax.C.wo, o.ax.C.wo + o.ax.C.O>> >>
Size(b) == (b[1][2] - b[1][1]) * (b[2][2] - b[2][1]) * (b[3][2] - b[3][1])
RECURSIVE SumSize(_, _)
SumSize(s, n) == IF n = 0 THEN 0 ELSE Size(s[n]) + SumSize(s, n - 1)
Partition3(s, vol) ==
    /\ \A i \in 1..Len(s) : \A x \in 1..3 : vol[x][1] <= s[i][x][1] /\ s[i][x][1] < s[i][x][2] /\ s[i][x][2] <= vol[x][2]
    /\ \A i \in 1..Len(s) : \A j \in (i + 1)..Len(s) : \E x \in 1..3 : s[i][x][2] <= s[j][x][1] \/ s[j][x][2] <= s[i][x][1]
    /\ SumSize(s, Len(s)) = Size(vol)
(* the last operator of a case writes its whole volume; an operator that feeds a rolling buffer inside a cascade is only
   pulled as far as its consumer needs (generate_high_level_commands_for_sched_op never drains the producer), so its
   stripes must tile a prefix of the rows - that every row read was produced is CascadeTrace's ReadBeforeProduced *)
VolFor(j) == LET v == VolOf(hdr.ops[j]) IN
             IF hdr.ops[j].full \/ Len(boxes[j]) = 0 THEN v
             ELSE << <<v[1][1], MaxOf({ boxes[j][i][1][2] : i \in 1..Len(boxes[j]) })>>, v[2], v[3] >>
EndViol(t) == { <<t, -1, i - 1, "HWC", "Partition">> : i \in { j \in 1..Len(hdr.ops) : ~Partition3(boxes[j], VolFor(j)) } }

NoHdr == [t |-> -1, ops |-> <<>>, model |-> TRUE]
Init == l = 1 /\ viol = {} /\ drift = {} /\ hdr = NoHdr /\ boxes = <<>>

Next == /\ l <= Len(Trace)
        /\ l' = l + 1
        /\ CASE Ev.e = "Hdr" -> /\ hdr' = Ev /\ boxes' = [i \in 1..Len(Ev.ops) |-> <<>>]
                                /\ UNCHANGED <<viol, drift>>
             [] Ev.e = "S" -> LET o == hdr.ops[Ev.op + 1] IN
                                /\ viol' = viol \cup StripeViol(o, Ev)
                                /\ drift' = drift \cup StripeDrift(o, Ev)
                                /\ boxes' = [boxes EXCEPT ![Ev.op + 1] = Append(@, BoxOf(Ev))]
                                /\ UNCHANGED hdr
             [] Ev.e = "End" -> /\ viol' = viol \cup EndViol(Ev.t)
                                /\ UNCHANGED <<drift, hdr, boxes>>
Spec == Init /\ [][Next]_vars

Consumed == TLCGet("stats").diameter = Len(Trace) + 1
Report == l = Len(Trace) + 1 => PrintT(<<"VERDICT", ToJson(viol)>>) /\ PrintT(<<"DRIFT", ToJson(drift)>>)
=============================================================================
