---------------------------- MODULE ConfigSpace ----------------------------
(* Generator of configuration files, selections and command-line overrides for C18 (spec -> code).
   One Pick per dimension of Plan; a behaviour builds up to three System_Config and three
   Memory_Mode sections (option subsets, values, inheritance from an earlier section of either
   kind, self-inheritance, inheritance from a missing section), chooses the accelerator, whether a
   file is given at all, the selected names (present, absent, internal-default) and the
   --arena-cache-size override.  Inheritance always points to an EARLIER section (or to the section
   itself, or to a missing one), so no cycle of length >= 2 is ever generated.
   TLC -simulate draws behaviours; the last step prints the case as one JSON line together with the
   outcome the specification expects (used by the driver only to stratify its selection).
   Weighted choices are sequences with repeated elements. *)
EXTENDS Integers, Sequences, FiniteSets, Json, TLC

VARIABLES step, o, cur          \* cur: the section being filled is present
C == INSTANCE Config WITH Secs <- {}, Keys <- {}, Vals <- {}, Unknown <- "", Overlay <- "child",
                          file <- <<>>, sel <- "", stack <- <<>>, acc <- <<>>, phase <- "", steps <- 0

A == "-"                        \* option absent
SysNames == <<"System_Config.S0", "System_Config.S1", "System_Config.S2">>
MemNames == <<"Memory_Mode.M0", "Memory_Mode.M1", "Memory_Mode.M2">>
Names == SysNames \o MemNames
SysKeys == <<"core_clock", "axi0_port", "axi1_port",
             "Sram_clock_scale", "Sram_burst_length", "Sram_read_latency", "Sram_write_latency",
             "Dram_clock_scale", "Dram_burst_length", "Dram_read_latency", "Dram_write_latency",
             "OffChipFlash_clock_scale", "OffChipFlash_burst_length", "OnChipFlash_clock_scale">>
MemKeys == <<"const_mem_area", "arena_mem_area", "cache_mem_area", "arena_cache_size">>
KeysOf(i) == IF i <= 3 THEN SysKeys ELSE MemKeys

SecPlan(i) == <<<<"present", i, "">>, <<"inherit", i, "">>>> \o [j \in 1..Len(KeysOf(i)) |-> <<"opt", i, KeysOf(i)[j]>>]
Plan == <<<<"accel", 0, "">>>> \o SecPlan(1) \o SecPlan(2) \o SecPlan(3) \o SecPlan(4) \o SecPlan(5) \o SecPlan(6)
        \o <<<<"hascfg", 0, "">>, <<"sys", 0, "">>, <<"mem", 0, "">>, <<"cli", 0, "">>>>

Sizes == <<"393216", "100000", "2097152", "4096", "0", "524288", "4294967295", "4294967296", "4294967297",
           "1099511627776", "1099511627777", "-1">>
OptChoices(k) ==
  CASE k = "core_clock" -> <<"1e+09", "5e+08", "2e+08", A, A>>
    [] k = "axi0_port" -> <<"Sram", "Sram", "Sram", "Sram", "Dram", "OffChipFlash", A, A, A>>
    [] k = "axi1_port" -> <<"Dram", "Dram", "OffChipFlash", "OffChipFlash", "OnChipFlash", "Sram", A, A>>
    [] k \in {"Sram_clock_scale", "Dram_clock_scale", "OffChipFlash_clock_scale", "OnChipFlash_clock_scale"}
         -> <<"1", "0.5", "0.125", "0.75", A, A, A, A>>
    [] k \in {"Sram_burst_length", "Dram_burst_length", "OffChipFlash_burst_length"} -> <<"32", "128", A, A>>
    [] k \in {"Sram_read_latency", "Sram_write_latency", "Dram_read_latency", "Dram_write_latency"}
         -> <<"32", "500", "64", A, A, A>>
    [] k = "const_mem_area" -> <<"Axi1", "Axi1", "Axi1", "Axi0", A, A, A>>
    [] k = "arena_mem_area" -> <<"Axi0", "Axi0", "Axi1", A, A>>
    [] k = "cache_mem_area" -> <<"Axi0", "Axi0", "Axi0", "Axi1", A, A>>
    [] k = "arena_cache_size" -> Sizes \o <<A, A, A, A, A, A, A, A, A, A>>

Present == {o.secs[j].name : j \in 1..Len(o.secs)}
(* candidates for `inherit` of section i: nothing (x4), the nearest earlier present section of the same
   kind (x3), the earliest present section of any kind, itself, a section that does not exist *)
EarlierSame(i) == {j \in 1..(i - 1) : Names[j] \in Present /\ (j <= 3) = (i <= 3)}
EarlierAny(i) == {j \in 1..(i - 1) : Names[j] \in Present}
Max(S) == CHOOSE x \in S : \A y \in S : y <= x
Min(S) == CHOOSE x \in S : \A y \in S : x <= y
InheritChoices(i) ==
  <<"", "", "", "", "", "">>
  \o (IF EarlierSame(i) # {} THEN <<Names[Max(EarlierSame(i))], Names[Max(EarlierSame(i))], Names[Max(EarlierSame(i))],
                                    Names[Max(EarlierSame(i))], Names[Min(EarlierSame(i))]>> ELSE <<"">>)
  \o (IF EarlierAny(i) # {} THEN <<Names[Min(EarlierAny(i))]>> ELSE <<>>)
  \o <<Names[i], IF i <= 3 THEN "System_Config.Nowhere" ELSE "Memory_Mode.Nowhere">>

Short(nm) == CASE nm = "System_Config.S0" -> "S0" [] nm = "System_Config.S1" -> "S1" [] nm = "System_Config.S2" -> "S2"
               [] nm = "Memory_Mode.M0" -> "M0" [] nm = "Memory_Mode.M1" -> "M1" [] nm = "Memory_Mode.M2" -> "M2"
SelChoices(lo, hi) ==
  LET pres == {j \in lo..hi : Names[j] \in Present}
      abs == {j \in lo..hi : Names[j] \notin Present} IN
  (IF pres # {} THEN <<Short(Names[Max(pres)]), Short(Names[Max(pres)]), Short(Names[Max(pres)]), Short(Names[Max(pres)]),
                       Short(Names[Min(pres)]), Short(Names[Min(pres)]), Short(Names[Min(pres)])>> ELSE <<>>)
  \o (IF abs # {} THEN <<Short(Names[Min(abs)])>> ELSE <<"Missing">>) \o <<"internal-default", "internal-default">>

Choices(d) ==
  CASE d[1] = "accel" -> <<"ethos-u55-32", "ethos-u55-64", "ethos-u55-128", "ethos-u55-256", "ethos-u65-256", "ethos-u65-512">>
    [] d[1] = "present" -> <<TRUE, TRUE, TRUE, FALSE>>
    [] d[1] = "inherit" -> IF cur THEN InheritChoices(d[2]) ELSE <<A>>
    [] d[1] = "opt" -> IF cur THEN OptChoices(d[3]) ELSE <<A>>
    [] d[1] = "hascfg" -> <<TRUE, TRUE, TRUE, TRUE, TRUE, TRUE, TRUE, TRUE, TRUE, FALSE>>
    [] d[1] = "sys" -> SelChoices(1, 3)
    [] d[1] = "mem" -> SelChoices(4, 6)
    [] d[1] = "cli" -> <<"", "", "", "", "", "", "", "">> \o Sizes

Last == Len(o.secs)
Apply(d, v) ==
  CASE d[1] = "accel" -> [o EXCEPT !.accel = v]
    [] d[1] = "present" -> IF v THEN [o EXCEPT !.secs = Append(@, [name |-> Names[d[2]], inherit |-> "", opts |-> <<>>])] ELSE o
    [] d[1] = "inherit" -> IF cur THEN [o EXCEPT !.secs[Last].inherit = v] ELSE o
    [] d[1] = "opt" -> IF cur /\ v # A THEN [o EXCEPT !.secs[Last].opts = Append(@, <<d[3], v>>)] ELSE o
    [] d[1] = "hascfg" -> [o EXCEPT !.hascfg = v]
    [] d[1] = "sys" -> [o EXCEPT !.sys = v]
    [] d[1] = "mem" -> [o EXCEPT !.mem = v]
    [] d[1] = "cli" -> [o EXCEPT !.cli = v]

Init == /\ step = 1 /\ cur = FALSE
        /\ o = [accel |-> "", secs |-> <<>>, hascfg |-> TRUE, sys |-> "", mem |-> "", cli |-> ""]
Pick == /\ step <= Len(Plan)
        /\ LET d == Plan[step] IN \E i \in 1..Len(Choices(d)) :
             /\ o' = Apply(d, Choices(d)[i])
             /\ cur' = IF d[1] = "present" THEN Choices(d)[i] ELSE cur
        /\ step' = step + 1
Fam(a) == IF a \in {"ethos-u65-256", "ethos-u65-512"} THEN "u65" ELSE "u55"
Request == [F |-> C!ToFile(o.secs), hascfg |-> o.hascfg, fam |-> Fam(o.accel), sys |-> o.sys, mem |-> o.mem,
            cli |-> o.cli, imx93 |-> FALSE]
Emit == /\ step = Len(Plan) + 1
        /\ PrintT(ToJson([case |-> o, exp |-> C!Expect(Request)]))
        /\ step' = step + 1 /\ UNCHANGED <<o, cur>>
Next == Pick \/ Emit
Spec == Init /\ [][Next]_<<step, o, cur>>
(* what is generated never contains a long cycle *)
Acyclic == step = Len(Plan) + 1 => C!NoLongCycle(C!ToFile(o.secs))
=============================================================================
