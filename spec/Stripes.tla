------------------------------ MODULE Stripes ------------------------------
(* Property C10, one axis at a time (the code treats H, W and C independently).

   PART 1 - the declarative oracle.  An operator reads, for OFM positions a..b-1 of
   one axis, the kernel windows  { (y - wo)*s - Pb + j*d : y \in a..b-1, j \in 0..k-1 }
   of its (possibly upscaled, possibly sliced) input; positions outside the input
   are padding.  A stripe description (ofm [a,b), ifm [c,e), padb, pada) handed to the
   hardware is Exact iff the hardware, which derives everything from the IFM base
   (row c), the two pad registers and the OFM extent (A-HW4), reads exactly that.

   PART 2 - a transcription of what Vela does on one axis (calc_padding_and_skirt,
   Box.transform_with_strides_and_skirt, create_padding).  It is only used to
   (a) model-check the algorithm against the oracle (StripesMC) and find candidate
   defects that are then replayed on the real code, (b) report model drift in trace
   validation.  A disagreement between the transcription and the code is never a
   verdict; verdicts come from Exact evaluated on what the real code returned.

   A parameter record p has the fields
     ax   "H" | "W" | "C"
     kind "win"  kernel-window operator (conv, depthwise, pool)
          "ew"   elementwise / 1x1 no-kernel (k = s = d = 1, no padding registers)
          "full" reducing axis: the whole (sliced) input extent is consumed (IFM depth of conv / fc / reduce_sum)
          "bc"   broadcast input of a binary elementwise operator (input extent 1)
     I    extent of the IFM *tensor* on the axis        ro, rl  slice window of the operator's input (split read)
     sp   TRUE iff a split read offset is attached      wo      concat write offset; O extent written
     k, d, s   kernel, dilation, stride                 pt  "SAME" | "VALID" | "EXPLICIT";  epb, epa  explicit pads
     up   0 none | 1 nearest x2 | 2 transpose x2 (zero insertion)                                              *)
EXTENDS Integers, Sequences, FiniteSets

Max(x, y) == IF x >= y THEN x ELSE y
Min(x, y) == IF x <= y THEN x ELSE y
MaxOf(S) == CHOOSE x \in S : \A y \in S : y <= x

KD(p) == p.d * (p.k - 1) + 1                 \* dilated kernel extent
U(p) == IF p.up = 0 THEN 1 ELSE 2            \* upscale factor
Eff(p) == p.rl * U(p)                        \* extent of the operator's logical (upscaled) input

(* ---- original padding before the first input position, by the TensorFlow Lite definitions ---- *)
CeilDiv(x, y) == (x + y - 1) \div y
SameTotal(n, k, s) == Max(0, (CeilDiv(n, s) - 1) * s + k - n)
OrigPb(p) ==
    IF p.kind # "win" THEN 0
    ELSE IF p.up = 2 THEN p.k - 1 - (IF p.pt = "SAME" THEN Max(p.k - 2, 0) \div 2 ELSE 0)
    ELSE CASE p.pt = "SAME" -> SameTotal(Eff(p), KD(p), p.s) \div 2
           [] p.pt = "VALID" -> 0
           [] p.pt = "EXPLICIT" -> p.epb

(* ---- the oracle -------------------------------------------------------------------------- *)
Lo(p, a) == (a - p.wo) * p.s - OrigPb(p)                 \* first window position of OFM position a (slice-local, upscaled)
Hi(p, b) == (b - 1 - p.wo) * p.s - OrigPb(p) + KD(p)     \* one past the last window position of OFM position b-1
Need(p, a, b) == { (y - p.wo) * p.s - OrigPb(p) + j * p.d : y \in a..(b - 1), j \in 0..(p.k - 1) }
Real(p, a, b) == { x \in Need(p, a, b) : 0 <= x /\ x < Eff(p) }
Off(p) == p.ro * U(p)                                    \* slice-local -> tensor coordinates (upscaled)

Aligned(p, r) == r.c * U(p) - r.pb = Lo(p, r.a) + Off(p)
Covers(p, r) == \A x \in Real(p, r.a, r.b) : r.c * U(p) <= x + Off(p) /\ x + Off(p) < r.e * U(p)
Inside(p, r) == 0 <= r.c /\ r.c < r.e /\ r.e <= p.I
PadBefore(p, r) == r.pb = Max(0, 0 - Lo(p, r.a))
PadAfter(p, r) == r.pa = Max(0, Hi(p, r.b) - Eff(p))
Derived(p, r) == (r.b - r.a - 1) * p.s + KD(p) - r.pb - r.pa      \* extent the hardware derives (upscaled positions)
DerivedExtentFits(p, r) == Derived(p, r) >= 1 /\ r.c * U(p) + Derived(p, r) <= r.e * U(p)

ClauseNames == <<"Aligned", "Covers", "Inside", "PadBefore", "PadAfter", "DerivedExtentFits">>
Clause(n, p, r) == CASE n = "Aligned" -> Aligned(p, r) [] n = "Covers" -> Covers(p, r) [] n = "Inside" -> Inside(p, r)
                     [] n = "PadBefore" -> PadBefore(p, r) [] n = "PadAfter" -> PadAfter(p, r)
                     [] n = "DerivedExtentFits" -> DerivedExtentFits(p, r)

(* clauses that fail; the empty set means Exact *)
Failing(p, r) ==
    CASE p.kind = "full" -> IF r.c = p.ro /\ r.e = p.ro + p.rl /\ r.e <= p.I THEN {} ELSE {"Covers"}
      [] p.kind = "bc" -> IF r.c = 0 /\ r.e = 1 THEN {} ELSE {"Covers"}
      [] OTHER -> { ClauseNames[i] : i \in { j \in 1..Len(ClauseNames) : ~Clause(ClauseNames[j], p, r) } }
Exact(p, r) == Failing(p, r) = {}

(* rows the hardware reads for this stripe under A-HW4 (IFM rows, not upscaled) *)
ReadRows(p, r) == r.c..(r.c + CeilDiv(Derived(p, r), U(p)) - 1)

(* one axis of the output: consecutive stripes tile [wo, wo+O) *)
Tiles(seq, lo, hi) == /\ Len(seq) >= 1 /\ seq[1][1] = lo /\ seq[Len(seq)][2] = hi
                      /\ \A i \in 1..Len(seq) : seq[i][1] < seq[i][2]
                      /\ \A i \in 1..(Len(seq) - 1) : seq[i][2] = seq[i + 1][1]

(* ---- PART 2: transcription of the code ------------------------------------------------------ *)
CONSTANT Mutant       \* "none", or the name of a seeded defect of the transcription (negative controls of the MC)

NeededTotal(n, s, kd) == IF n % s = 0 THEN Max(kd - s, 0) ELSE Max(kd - (n % s), 0)           \* needed_total_padding
ExplicitAfter(total, s, pb, pa) ==                                                            \* calc_explicit_padding
    LET cand == { q \in 1..pa : q % s = (total - pb + 64 * s) % s } IN IF cand = {} THEN 0 ELSE MaxOf(cand)

(* calc_padding_and_skirt / calc_upscaled_padding_and_skirt -> [pb, pa, skb, ska]  (add_padding_fields passes the
   operator's IFM shape, i.e. the slice, not upscaled) *)
CalcPad(p) ==
    IF p.kind # "win" THEN [pb |-> 0, pa |-> 0, skb |-> 0, ska |-> 0]
    ELSE IF p.up = 2 THEN
        LET tot == NeededTotal(p.rl * 2, 1, p.k)
            aft == IF p.pt = "SAME" THEN Max(((tot + 1) \div 2) - 1, 0) ELSE Max(p.k - 2, 0)
            bef == IF p.pt = "SAME" THEN Max(p.k - 1 - aft, 0) ELSE p.k - 1
        IN [pb |-> bef, pa |-> aft, skb |-> bef, ska |-> aft]
    ELSE
        LET tot == NeededTotal(p.rl, p.s, KD(p))
            bef == CASE p.pt = "SAME" -> tot \div 2 [] p.pt = "VALID" -> 0 [] p.pt = "EXPLICIT" -> p.epb
            aft == CASE p.pt = "SAME" -> (tot + 1) \div 2 [] p.pt = "VALID" -> 0
                     \* since the repair of F3 the remainder is taken from the unclamped total (k - I - pad_before)
                     [] p.pt = "EXPLICIT" -> ExplicitAfter(IF Mutant = "explicit_after_from_clamped_total" THEN tot ELSE KD(p) - p.rl,
                                                           p.s, p.epb, p.epa)
        IN [pb |-> bef, pa |-> aft, skb |-> bef, ska |-> tot - bef]

(* Box.transform_with_strides_and_skirt, height axis, followed by the first-and-last-stripe rule of create_padding.
   Since the repair of F1 / F2 an operator fused with a split / slice read computes its box WITHIN the slice (extent rl) and
   the read offset ro is added once at the end; Mutant = "split_offset_before_stride" is the code before the repair (offset
   added before the multiplication by the stride, clamps against the whole tensor). *)
OldSplit == Mutant = "split_offset_before_stride"
Ext(p) == IF p.sp /\ ~OldSplit THEN p.rl ELSE p.I            \* the extent the box and the pads are clamped to
Pre(p) == IF p.sp /\ OldSplit THEN p.ro ELSE 0               \* offset added before the stride multiplication (old code)
Post(p) == IF p.sp /\ ~OldSplit THEN p.ro ELSE 0             \* offset added at the end (repaired code)
CodeH(p, a, b, first, last) ==
    LET cp == CalcPad(p)
        u == U(p)
        I == Ext(p)
        ns0 == a - p.wo + Pre(p)
        ne0 == b - p.wo + Pre(p)
        ne1 == Min(ne0, I * u)
        rem == cp.skb % u
        \* since the repair of F4 the unclamped OFM end is used for the total stride and for the pad_bottom guard
        neT == IF Mutant = "pad_bottom_from_clamped_end" THEN ne1 ELSE ne0
        tstride == p.s * (neT - ns0 - 1)
        ns1 == ns0 * p.s - cp.skb + rem
        ptop0 == Max(0, 0 - ns1) + rem
        ns2 == Max(ns1, 0)
        ptop == IF Mutant = "pad_top_after_clamp" THEN Max(0, 0 - ns2) + rem ELSE ptop0
        pbot == IF neT * p.s + cp.ska > I * u
                THEN IF u # 1 /\ ne0 > I * u THEN ne0 - I * u
                     ELSE Max(0, ns2 - ptop + tstride + KD(p) - I * u)
                ELSE 0
        ska2 == IF Mutant = "skirt_remainder_removed" THEN cp.ska ELSE cp.ska + (cp.ska % u)
        c == Max(ns2 \div u, 0)
        e == Max(Min((ne1 * p.s + ska2) \div u, I), 1)
        whole == first /\ last
    IN [a |-> a, b |-> b, c |-> c + Post(p), e |-> e + Post(p), pb |-> IF whole THEN cp.pb ELSE ptop, pa |-> IF whole THEN cp.pa ELSE pbot]

(* the same for the width axis, followed by the left/right reset of create_padding *)
CodeW(p, a, b) ==
    LET cp == CalcPad(p)
        u == U(p)
        off == IF p.sp THEN (IF Mutant = "split_offset_twice" THEN 2 * p.ro ELSE p.ro) ELSE 0
        I == Ext(p)
        ns0 == a - p.wo + (IF OldSplit THEN off ELSE 0)
        ne1 == Min(b - p.wo + (IF OldSplit THEN off ELSE 0), I * u)
        c0 == IF p.sp /\ OldSplit THEN Max(ns0 * p.s - cp.skb, p.ro) ELSE Max(ns0 * p.s - cp.skb, 0)
        e0 == IF p.sp /\ OldSplit THEN Min(ne1 * p.s + cp.ska, p.ro + p.rl) ELSE Min(ne1 * p.s + cp.ska, I)
        c == c0 + (IF OldSplit THEN 0 ELSE off)
        e == e0 + (IF OldSplit THEN 0 ELSE off)
        cmin == IF p.sp THEN p.ro ELSE 0
        emax == IF p.sp THEN p.rl ELSE p.I
        left == IF (IF Mutant = "lt_le_pad_reset" THEN c >= cmin ELSE c > cmin) THEN 0 ELSE cp.pb
        right == IF e < emax THEN 0 ELSE cp.pa
    IN [a |-> a, b |-> b, c |-> c, e |-> e, pb |-> left, pa |-> right]

(* no skirt (elementwise) or the depth axis: offsets and clamps only *)
CodePlain(p, a, b) ==
    LET I == Ext(p)
    IN [a |-> a, b |-> b, c |-> a - p.wo + Pre(p) + Post(p), e |-> Min(b - p.wo + Pre(p), I * U(p)) + Post(p), pb |-> 0, pa |-> 0]

Code(p, a, b, first, last) ==
    CASE p.kind = "full" -> [a |-> a, b |-> b, c |-> IF p.sp THEN p.ro ELSE 0,
                             e |-> Min(IF p.sp THEN p.ro + p.rl ELSE p.I, p.I), pb |-> 0, pa |-> 0]
      [] p.kind = "bc" -> [a |-> a, b |-> b, c |-> 0, e |-> 1, pb |-> 0, pa |-> 0]
      [] p.kind = "ew" \/ p.ax = "C" -> CodePlain(p, a, b)
      [] p.ax = "H" -> CodeH(p, a, b, first, last)
      [] p.ax = "W" -> CodeW(p, a, b)
=============================================================================
