SPECIFICATION Spec
CONSTANT OfmDepths = {3}
CONSTANT IfmDepths = {1, 7}
CONSTANT KernelHs = {3}
CONSTANT KernelWs = {3}
CONSTANT Decomposing = FALSE
CONSTANT BlockDepths = {8}
INVARIANT NeverPads
CHECK_DEADLOCK FALSE
