SPECIFICATION Spec
CONSTANT MaxN = 3
CONSTANT T = 5
CONSTANT Sizes = {16, 32, 48, 80}
CONSTANT Aligns = {16, 32, 64, 128}
CONSTANT Eqs = {0}
CONSTANT MaxAddr = 100000
CONSTANT AddrStep = 1
INVARIANT InvNoOverlapLive
INVARIANT InvAligned
INVARIANT InvTotalOK
INVARIANT InvAboveLowerBound
INVARIANT InvCur
INVARIANT InvFold
CHECK_DEADLOCK FALSE
