------------------------------ MODULE WaitDep ------------------------------
(* Design-level model check for C04: a transcription of Vela's wait insertion
   (register_command_stream_util.get_wait_dependency: two lists of outstanding operations, pop(0) on
   overflow, backwards scan for the last conflicting operation of the *other* queue, watermark =
   number of younger operations, older ones dropped) composed with the hardware model NpuHw.
   TLC explores every operation sequence of length <= N over small read/write sets and every
   completion order, and checks that the emitted waits make the stream hazard free.              *)
EXTENDS Integers, Sequences, FiniteSets, TLC

CONSTANTS Cells, MaxDma, MaxKern, N,
          KernelWatermarkSlack      \* 0 = Vela's algorithm; 1 = deliberately broken (negative control)

Sub1 == {{}} \cup {{c} : c \in Cells}
Ops == [kind : {"k", "d"}, rd : Sub1, wr : Sub1]

VARIABLES gd, gn,            \* generator: outstanding_dma_ops, outstanding_npu_ops (sequences of op records)
          kq, dq,            \* hardware queues (sequences of op records)
          phase, cur, kw, dw, cnt
vars == <<gd, gn, kq, dq, phase, cur, kw, dw, cnt>>

HW == INSTANCE NpuHw WITH OpR <- LAMBDA o : o.rd, OpW <- LAMBDA o : o.wr

Trunc(s, m) == IF Len(s) > m THEN Tail(s) ELSE s
LastConf(s, o) == LET I == {i \in 1..Len(s) : HW!Conflict(s[i], o)}
                  IN IF I = {} THEN 0 ELSE CHOOSE i \in I : \A j \in I : j <= i

Init == /\ gd = <<>> /\ gn = <<>> /\ HW!HwInit /\ phase = "gen"
        /\ cur = [kind |-> "k", rd |-> {}, wr |-> {}] /\ kw = -1 /\ dw = -1 /\ cnt = 0

Gen == /\ phase = "gen" /\ cnt < N
       /\ \E o \in Ops :
            /\ cur' = o /\ cnt' = cnt + 1
            /\ IF o.kind = "d"
               THEN LET idx == LastConf(gn, o) IN          \* DMA branch: look at outstanding kernel ops
                    /\ gd' = Trunc(Append(gd, o), MaxDma)
                    /\ gn' = IF idx = 0 THEN gn ELSE SubSeq(gn, idx + 1, Len(gn))
                    /\ kw' = IF idx = 0 THEN -1 ELSE Len(gn) - idx + KernelWatermarkSlack
                    /\ dw' = -1
               ELSE LET idx == LastConf(gd, o) IN          \* kernel branch: look at outstanding DMAs
                    /\ gn' = Trunc(Append(gn, o), MaxKern)
                    /\ gd' = IF idx = 0 THEN gd ELSE SubSeq(gd, idx + 1, Len(gd))
                    /\ dw' = IF idx = 0 THEN -1 ELSE Len(gd) - idx
                    /\ kw' = -1
       /\ phase' = "kwait" /\ UNCHANGED <<kq, dq>>

KWait == /\ phase = "kwait" /\ (kw < 0 \/ HW!KernelWait(kw)) /\ phase' = "dwait"
         /\ UNCHANGED <<gd, gn, kq, dq, cur, kw, dw, cnt>>
DWait == /\ phase = "dwait" /\ (dw < 0 \/ HW!DmaWait(dw)) /\ phase' = "issue"
         /\ UNCHANGED <<gd, gn, kq, dq, cur, kw, dw, cnt>>
Issue == /\ phase = "issue"
         /\ IF cur.kind = "k" THEN HW!IssueKernel(cur) ELSE HW!IssueDma(cur, MaxDma)
         /\ phase' = "gen" /\ UNCHANGED <<gd, gn, cur, kw, dw, cnt>>
DoneK == HW!CompleteKernel /\ UNCHANGED <<gd, gn, phase, cur, kw, dw, cnt>>
DoneD == HW!CompleteDma /\ UNCHANGED <<gd, gn, phase, cur, kw, dw, cnt>>

Next == Gen \/ KWait \/ DWait \/ Issue \/ DoneK \/ DoneD
Spec == Init /\ [][Next]_vars

NoHazard == HW!NoDmaKernelHazard
(* the generator's picture of what may be outstanding never under-approximates the hardware *)
GenCoversHw == /\ \A i \in 1..Len(kq) : \E j \in 1..Len(gn) : gn[j] = kq[i]
               /\ \A i \in 1..Len(dq) : \E j \in 1..Len(gd) : gd[j] = dq[i]
=============================================================================
