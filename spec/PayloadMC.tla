----------------------------- MODULE PayloadMC -----------------------------
(* Model-checking wrapper of Payload: prints the (length) lattice once so that the
   driver replays exactly the lengths the model checker covered. *)
EXTENDS Payload
ASSUME Lattice
=============================================================================
