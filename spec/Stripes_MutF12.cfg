SPECIFICATION Spec
CONSTANT MaxI = 12
CONSTANT MaxK = 5
CONSTANT MaxD = 2
CONSTANT MaxS = 3
CONSTANT EmitCases = FALSE
CONSTANT Mutant = "split_offset_before_stride"
INVARIANT TypeOK
INVARIANT ExactWhereClaimed
INVARIANT Candidates
INVARIANT Partition
INVARIANT Cases
CHECK_DEADLOCK FALSE
