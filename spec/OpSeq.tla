------------------------------- MODULE OpSeq -------------------------------
(* Generator of operation lists for the public command-stream generator (spec -> code, C04 and C06).
   An operation is chosen field by field (one Pick per field) so that TLC -simulate draws uniformly
   without enumerating the product space; after the last field the record is appended to `ops`.
   Buffers 1..NB are 1 KiB blocks of the scratch region that operations share, so that read-after-write,
   write-after-read and write-after-write conflicts between DMA and kernel operations, weight buffers
   refilled by DMA (wb), LUT slots loaded by DMA (lut) and consecutive kernel operations with block
   dependencies all occur.                                                                           *)
EXTENDS Integers, Sequences, TLC
CONSTANTS NB, MaxLen
VARIABLES ops, cur, f
Fields == <<"kind", "chain", "r", "w", "wb", "kh", "kw", "s", "sx", "pt", "pl", "pb", "pr", "blk", "lut", "lay", "tile", "tileo", "hi", "shift", "w1", "sc2", "rev">>
Vals(fld) ==
  CASE fld = "kind" -> {"dma", "pool", "ew", "conv", "dw", "lutdma"}
    [] fld = "chain" -> 0..1          \* 1: read what the previous operation wrote (producer/consumer pair)
    [] fld = "r" -> 1..NB
    [] fld = "w" -> 1..NB
    [] fld = "wb" -> 0..NB            \* 0: weights / second operand straight from the constants region
    [] fld = "kh" -> 1..3
    [] fld = "kw" -> 1..3
    [] fld = "s" -> 1..3             \* vertical stride
    [] fld = "sx" -> 0..3            \* horizontal stride; 0: same as the vertical one
    [] fld \in {"pt", "pl", "pb", "pr"} -> 0..1
    [] fld = "blk" -> 0..3            \* which of the offered block configurations
    [] fld = "lut" -> 0..2            \* 0: no table lookup, 1..2: LUT slot + 1
    [] fld = "lay" -> 0..3            \* bit 0: IFM NHCWB16, bit 1: OFM NHCWB16
    [] fld = "tile" -> 0..3           \* IFM tiling: 0 one tile, 1 split by height, 2 split by width, 3 three tiles (h1 # h0)
    [] fld = "tileo" -> 0..1          \* OFM split by height
    [] fld = "hi" -> 0..1             \* (first operation only) buffers above 4 GiB on Ethos-U65
    [] fld = "w1" -> 0..1             \* 1: give a single weight/scale range even on a two-core accelerator
    [] fld = "sc2" -> 0..2            \* scale of the second elementwise operand: equal / smaller / larger than the first
    [] fld = "rev" -> 0..1            \* elementwise: reversed operand order
    [] fld = "shift" -> 0..7          \* >= 4: the IFM starts that many rows into the buffer (aliases the tail of what a
                                      \* producer wrote there without being the same feature map)
Init == ops = <<>> /\ cur = <<>> /\ f = 1
Pick == /\ Len(ops) < MaxLen
        /\ \E v \in Vals(Fields[f]) :
             LET c == (Fields[f] :> v) @@ cur IN
             IF f = Len(Fields) THEN ops' = Append(ops, c) /\ cur' = <<>> /\ f' = 1
             ELSE ops' = ops /\ cur' = c /\ f' = f + 1
Spec == Init /\ [][Pick]_<<ops, cur, f>>
=============================================================================
