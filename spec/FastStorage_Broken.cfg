SPECIFICATION Spec
CONSTANTS Quick = FALSE
 ResetScoreC = FALSE
INVARIANT WithinLimit
INVARIANT OptimalSingle
CHECK_DEADLOCK FALSE
