SPECIFICATION Spec
CONSTANT ResetScoreC = FALSE
INVARIANT WithinLimit
INVARIANT OptimalSingle
CHECK_DEADLOCK FALSE
