SPECIFICATION Spec
CONSTANTS N = 3
 MaxExtraOut = 1
 VarChoices = {1, 2}
 PreStart = "earlier"
 Shorten = "notlast"
 CascadeTime = "shared"
 OutputsAt = "end"
 Protect = "fixed"
 VarsAt = "uses"
INVARIANT CoversUse
INVARIANT FuseSafe
CHECK_DEADLOCK FALSE
