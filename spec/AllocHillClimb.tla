--------------------------- MODULE AllocHillClimb ---------------------------
(* Transcription of ethosu/vela/hillclimb_allocation.py (HillClimbAllocator) together with the
   wrapper tensor_allocation.hillclimb_allocate_live_ranges (total = highest end address), with
   the pseudo random generator replaced by nondeterministic choice.

   What is kept on purpose, because it matters:
     * the per-live-range fields address / end_address / predecessor / turn are only written when a
       range is (re)allocated; allocate_indices() resets the *addresses* and stops as soon as the
       running size exceeds best_size, and search() restores `indices` but NOT these fields when it
       rejects an allocation.  attempt_bottleneck_fix() therefore reads end_address, predecessor
       and turn of ranges that were not reached by the last (aborted) allocation: stale values from
       older orderings.  Stale turns may coincide, turn_list can shrink to a single element and
       `random.randint(0, len(turn_list) - 2)` raises ValueError (defect D10).
       Guarded = FALSE models the code as written (action Raise); Guarded = TRUE models the proposed
       repair (nothing to swap: skip the swap, the re-allocation refreshes the fields).
     * loop counters i / last_improvement_iteration and the three tuning constants
       (MAX_ITERATIONS_STUCK, MIN_ITERATIONS_IMPROVE and the caller's max_iterations / memory_limit),
       scaled down through CONSTANTS so that the state space stays finite and small.

   random: ix1 is any element of turn_list (non_nb_turn_list is a sub-list), ix2 is any *other*
   element (index 0..len-2, replaced by the last element when it equals ix1); in the "stuck" branch
   both are arbitrary elements of the extended list.  Probabilities are abstracted away.

   Turns are 1-based positions in `indices` here (0-based in Python); NO_PREDECESSOR is 0. *)
EXTENDS Integers, Sequences, FiniteSets, TLC

CONSTANTS MaxN, T, Sizes, Aligns, Eqs, MaxAddr, AddrStep,
          MaxIters,      \* set of values of the caller's max_iterations
          MemLimits,     \* set of values of the caller's memory_limit
          MinImprove,    \* MIN_ITERATIONS_IMPROVE (500 in the code)
          MaxStuck,      \* MAX_ITERATIONS_STUCK   (50 in the code)
          Guarded        \* FALSE: code as written; TRUE: with the single-turn guard

VARIABLES R, phase,
          par,           \* [maxit, limit]
          h              \* allocator state
vars == <<R, phase, par, h>>

RoundUp(a, b) == ((a + b - 1) \div b) * b
Max2(a, b) == IF a >= b THEN a ELSE b
Dom(Q) == 1..Len(Q)
Range(q) == {q[x] : x \in 1..Len(q)}
Ids(Q) == [x \in Dom(Q) |-> x]
LiveTogether(a, b) == a.s <= b.e /\ b.s <= a.e                  \* LiveRangeInfo.is_neighbour
RECURSIVE SumSizes(_, _, _)
SumSizes(Q, t, x) == IF x > Len(Q) THEN 0
                     ELSE (IF Q[x].s <= t /\ t <= Q[x].e THEN Q[x].size ELSE 0) + SumSizes(Q, t, x + 1)
RECURSIVE MaxSizeAt(_, _, _)
MaxSizeAt(Q, lo, hi) == IF lo > hi THEN 0 ELSE Max2(SumSizes(Q, lo, 1), MaxSizeAt(Q, lo + 1, hi))
RECURSIVE MaxAtStarts(_, _)                                      \* the accumulated size only grows at start times
MaxAtStarts(Q, x) == IF x > Len(Q) THEN 0 ELSE Max2(SumSizes(Q, Q[x].s, 1), MaxAtStarts(Q, x + 1))
MinRequired(Q) == MaxAtStarts(Q, 1)                              \* min_required_size = max(size_at_time)
Urgency(Q, x) == MaxSizeAt(Q, Q[x].s, Q[x].e)
(* LiveRangeInfo.__lt__ *)
HcLess(Q, x, y) ==
    LET ux == Urgency(Q, x) uy == Urgency(Q, y)
        dx == Q[x].e - Q[x].s dy == Q[y].e - Q[y].s
    IN IF ux # uy THEN ux > uy
       ELSE IF dx # dy THEN dx > dy
       ELSE IF Q[x].s # Q[y].s THEN Q[x].s < Q[y].s
       ELSE IF Q[x].size # Q[y].size THEN Q[x].size > Q[y].size
       ELSE x < y
(* lr.neighbours: scanned over t = start..end, within a time step in id order, first occurrence kept *)
Neigh(Q, x) == SortSeq(SelectSeq(Ids(Q), LAMBDA y : y # x /\ LiveTogether(Q[x], Q[y])),
                       LAMBDA y, z : LET fy == Max2(Q[y].s, Q[x].s) fz == Max2(Q[z].s, Q[x].s)
                                     IN fy < fz \/ (fy = fz /\ y < z))

(* ---- allocate_lr ---- *)
RECURSIVE Pass(_, _, _, _, _, _, _, _)
Pass(Q, st, x, nb, n, address, pred, fits) ==
    IF n > Len(nb) THEN <<address, pred, fits>>
    ELSE LET y == nb[n] IN
         IF st.addr[y] = -1 \/ st.endaddr[y] <= address
         THEN Pass(Q, st, x, nb, n + 1, address, pred, fits)
         ELSE IF st.addr[y] < address + Q[x].size /\ address < st.endaddr[y]          \* lr2.overlaps
              THEN Pass(Q, st, x, nb, n + 1, RoundUp(st.endaddr[y], Q[x].al), y, FALSE)
              ELSE Pass(Q, st, x, nb, n + 1, address, pred, fits)
RECURSIVE UntilFits(_, _, _, _, _, _)
UntilFits(Q, st, x, nb, address, pred) ==
    LET r == Pass(Q, st, x, nb, 1, address, pred, TRUE)
    IN IF r[3] THEN <<r[1], r[2]>> ELSE UntilFits(Q, st, x, nb, r[1], r[2])

(* ---- allocate_indices: returns <<state, size>>; best = -1 stands for 1 << 63 ---- *)
RECURSIVE AllocFrom(_, _, _, _, _, _)
AllocFrom(Q, st, indices, n, size, best) ==
    IF n > Len(indices) THEN <<st, size>>
    ELSE LET x == indices[n]
             r == UntilFits(Q, st, x, st.nb[x], 0, 0)
             st1 == [st EXCEPT !.addr[x] = r[1], !.endaddr[x] = r[1] + Q[x].size, !.pred[x] = r[2], !.turn[x] = n]
             size1 == Max2(size, r[1] + Q[x].size)
         IN IF best # -1 /\ size1 > best THEN <<st1, size1>>             \* worse than the best known: break
            ELSE AllocFrom(Q, st1, indices, n + 1, size1, best)
AllocIndices(Q, st, indices, best) ==
    AllocFrom(Q, [st EXCEPT !.addr = [x \in Dom(Q) |-> -1]], indices, 1, 0, best)

(* ---- attempt_bottleneck_fix ---- *)
RECURSIVE Bottleneck(_, _, _, _)
Bottleneck(Q, st, x, m) == IF x > Len(Q) THEN m
                           ELSE Bottleneck(Q, st, x + 1, IF st.endaddr[x] > st.endaddr[m] THEN x ELSE m)
AddTurn(list, t) == IF t \in Range(list) THEN list ELSE Append(list, t)
RECURSIVE Chain(_, _, _)
Chain(st, list, id) == IF st.pred[id] = 0 THEN list ELSE Chain(st, AddTurn(list, st.turn[st.pred[id]]), st.pred[id])
AddPredecessorTurns(st, list, x) == Chain(st, AddTurn(list, st.turn[x]), x)
RECURSIVE AddAll(_, _, _, _)
AddAll(st, list, nb, n) == IF n > Len(nb) THEN list ELSE AddAll(st, AddPredecessorTurns(st, list, nb[n]), nb, n + 1)
TurnList(Q, st) == LET m == Bottleneck(Q, st, 2, 1)
                   IN AddAll(st, AddPredecessorTurns(st, <<>>, m), st.nb[m], 1)
NonNb(Q, st, indices, tl) == LET m == Bottleneck(Q, st, 2, 1)
                             IN SelectSeq(tl, LAMBDA t : ~LiveTogether(Q[m], Q[indices[t]]))
Swap(ind, a, b) == [ind EXCEPT ![a] = ind[b], ![b] = ind[a]]
(* more neighbours in the "stuck" branch: turns of the neighbours of the non-neighbour ranges *)
RECURSIVE MoreOf(_, _, _, _)
MoreOf(st, list, nb, n) == IF n > Len(nb) THEN list ELSE MoreOf(st, AddTurn(list, st.turn[nb[n]]), nb, n + 1)
RECURSIVE More(_, _, _, _, _, _)
More(Q, st, ind, list, nonnb, n) == IF n > Len(nonnb) THEN list
                                    ELSE More(Q, st, ind, MoreOf(st, list, st.nb[ind[nonnb[n]]], 1), nonnb, n + 1)
(* set of orderings attempt_bottleneck_fix may leave in `indices` *)
FirstSwaps(Q, st, ind) == LET tl == TurnList(Q, st)
                          IN IF Len(tl) < 2 THEN {ind}            \* only reached when Guarded
                             ELSE {Swap(ind, a, b) : <<a, b>> \in {p \in Range(tl) \X Range(tl) : p[1] < p[2]}}
FixOutcomes(Q, st, ind, stuck) ==
    IF stuck <= MaxStuck THEN FirstSwaps(Q, st, ind)
    ELSE LET tl == TurnList(Q, st)
             nonnb == NonNb(Q, st, ind, tl)                       \* computed before the first swap
         IN UNION {LET tl2 == More(Q, st, ind1, tl, nonnb, 1)
                   IN {Swap(ind1, a, b) : <<a, b>> \in Range(tl2) \X Range(tl2)} : ind1 \in FirstSwaps(Q, st, ind)}
WouldRaise(Q, st) == Len(TurnList(Q, st)) < 2

(* ---- the state machine ---------------------------------------------------------------------- *)
H0(Q) == [addr |-> [x \in Dom(Q) |-> 0], endaddr |-> [x \in Dom(Q) |-> 0], pred |-> [x \in Dom(Q) |-> 0],
          turn |-> [x \in Dom(Q) |-> 0], indices |-> <<>>, best_indices |-> <<>>, best_size |-> -1,
          best_addr |-> <<>>, i |-> 0, last |-> 0, impr |-> 0, iters |-> 0,
          nb |-> [x \in Dom(Q) |-> Neigh(Q, x)], minreq |-> MinRequired(Q)]   \* static: neighbours, min_required_size
Fields(st) == [addr |-> st.addr, endaddr |-> st.endaddr, pred |-> st.pred, turn |-> st.turn]
With(st, f) == [st EXCEPT !.addr = f.addr, !.endaddr = f.endaddr, !.pred = f.pred, !.turn = f.turn]
RECURSIVE MaxEnd(_, _, _)
MaxEnd(Q, addr, x) == IF x > Len(Q) THEN 0 ELSE Max2(addr[x] + Q[x].size, MaxEnd(Q, addr, x + 1))

A == INSTANCE Alloc WITH phase <- IF phase \in {"done", "raised"} THEN phase ELSE "build",
                         out <- IF phase = "done" THEN [addr |-> h.best_addr, total |-> MaxEnd(R, h.best_addr, 1)]
                                ELSE [addr |-> <<>>, total |-> -1]

Init == R = <<>> /\ phase = "build" /\ par = [maxit |-> 0, limit |-> 0] /\ h = H0(<<>>)
Extend == /\ phase = "build" /\ Len(R) < MaxN
          /\ \E d \in A!Desc : (IF R = <<>> THEN TRUE ELSE A!Key(R[Len(R)]) <= A!Key(d)) /\ R' = Append(R, d)
          /\ UNCHANGED <<phase, par, h>>
(* allocate(): heuristic order, initial allocation, search only if not optimal *)
Start == /\ phase = "build" /\ Len(R) > 0
         /\ \E m \in MaxIters, lim \in MemLimits : par' = [maxit |-> m, limit |-> lim]
         /\ LET ind == SortSeq(Ids(R), LAMBDA x, y : HcLess(R, x, y))
                r == AllocIndices(R, H0(R), ind, -1)
            IN /\ h' = [With(H0(R), Fields(r[1])) EXCEPT !.indices = ind, !.best_indices = ind, !.best_size = r[2],
                                                        !.best_addr = r[1].addr]
               /\ phase' = IF r[2] > h'.minreq THEN "search" ELSE "done"
         /\ UNCHANGED R
LoopCondOf(st, pr) == (st.best_size > pr.limit /\ st.i < pr.maxit) \/ (st.i - st.last < MinImprove)
LoopCond == LoopCondOf(h, par)
(* one pass of the loop body of search() once attempt_bottleneck_fix has left `ind` in indices:
   the new allocator state and whether the search goes on *)
AfterIteration(Q, st, ind) ==
    LET r == AllocIndices(Q, st, ind, st.best_size)
        st1 == With(st, Fields(r[1]))
        new == r[2]
    IN IF new <= st.best_size
       THEN LET st2 == [st1 EXCEPT !.last = IF new < st.best_size THEN st.i ELSE st.last,
                                    !.impr = IF new < st.best_size THEN st.impr + 1 ELSE st.impr,
                                    !.best_size = new, !.indices = ind, !.best_indices = ind,
                                    !.best_addr = r[1].addr, !.iters = st.iters + 1]
            IN IF new <= st.minreq
               THEN [h |-> st2, phase |-> "done", size |-> new]                              \* target reached
               ELSE [h |-> [st2 EXCEPT !.i = st.i + 1], phase |-> "search", size |-> new]
       ELSE [h |-> [st1 EXCEPT !.indices = st.best_indices, !.i = st.i + 1, !.iters = st.iters + 1],
             phase |-> "search", size |-> new]
Iterate == /\ phase = "search" /\ LoopCond
           /\ (IF Guarded THEN TRUE ELSE ~WouldRaise(R, h))
           /\ \E ind \in FixOutcomes(R, h, h.indices, h.i - h.last) :
                LET nx == AfterIteration(R, h, ind) IN h' = nx.h /\ phase' = nx.phase
           /\ UNCHANGED <<R, par>>
(* is `ind` an ordering attempt_bottleneck_fix may produce?  (the test form of FixOutcomes, used by the
   trace specification: no set of orderings is built) *)
FirstSwapTo(Q, st, ind0, ind1) == LET tl == TurnList(Q, st)
                                  IN IF Len(tl) < 2 THEN ind1 = ind0
                                     ELSE \E a, b \in Range(tl) : a < b /\ ind1 = Swap(ind0, a, b)
MayProduce(Q, st, ind0, stuck, ind) ==
    IF stuck <= MaxStuck THEN FirstSwapTo(Q, st, ind0, ind)
    ELSE LET tl == TurnList(Q, st)
             nonnb == NonNb(Q, st, ind0, tl)
         IN \E ind1 \in FirstSwaps(Q, st, ind0) :
               LET tl2 == More(Q, st, ind1, tl, nonnb, 1)
               IN \E a, b \in Range(tl2) : ind = Swap(ind1, a, b)
Raise == /\ phase = "search" /\ LoopCond /\ ~Guarded /\ WouldRaise(R, h)
         /\ phase' = "raised"
         /\ UNCHANGED <<R, par, h>>
Exit == /\ phase = "search" /\ ~LoopCond
        /\ phase' = "done"
        /\ UNCHANGED <<R, par, h>>
Next == Extend \/ Start \/ Iterate \/ Raise \/ Exit
Spec == Init /\ [][Next]_vars

(* the input on which the unchanged code raises ValueError (D10), as a fixed initial condition *)
D10Input == << [s |-> 2, e |-> 4, size |-> 32, al |-> 128, eq |-> 0], [s |-> 0, e |-> 2, size |-> 16, al |-> 128, eq |-> 0],
               [s |-> 1, e |-> 4, size |-> 32, al |-> 16, eq |-> 0], [s |-> 3, e |-> 3, size |-> 32, al |-> 64, eq |-> 0],
               [s |-> 0, e |-> 1, size |-> 80, al |-> 128, eq |-> 0] >>
SpecD10 == (R = D10Input /\ phase = "build" /\ par = [maxit |-> 0, limit |-> 0] /\ h = H0(<<>>)) /\ [][Start \/ Iterate \/ Raise \/ Exit]_vars

Refines == A!SpecR
InvNoOverlapLive == A!InvNoOverlapLive
InvAligned == A!InvAligned
InvTotalOK == A!InvTotalOK
InvAboveLowerBound == A!InvAboveLowerBound
Terminates == A!Terminates
(* the iteration bound: every iteration either is within the caller's budget or within MinImprove of an
   improvement, and improvements are strict *)
IterationBound == h.iters <= par.maxit + MinImprove * (h.impr + 1)
(* the allocator's own bookkeeping is consistent with what it hands out *)
BestIsHighEnd == phase \in {"search", "done"} => h.best_size = MaxEnd(R, h.best_addr, 1)
NeverBelowMinimum == phase \in {"search", "done"} => h.best_size >= MinRequired(R)
=============================================================================
