--------------------------- MODULE LiveRangeProps ---------------------------
(* The two predicates shared by the design model (LiveRange.tla) and the trace validation (LiveRangeTrace.tla).
   A use interval is [lo, hi] in points of the execution order, a live range [s, e] in time slots, both inclusive. *)
EXTENDS Integers, FiniteSets
LrMin(a, b) == IF a < b THEN a ELSE b
LrMax(a, b) == IF a > b THEN a ELSE b
UseOverlap(ua, ub) == LrMax(ua.lo, ub.lo) <= LrMin(ua.hi, ub.hi)
RangesIntersect(ra, rb) == LrMax(ra.s, rb.s) <= LrMin(ra.e, rb.e)
(* two buffers with separate ranges: in use at a common point => the allocator sees them alive at a common time *)
CoversPair(ua, ub, ra, rb) == UseOverlap(ua, ub) => RangesIntersect(ra, rb)

(* An operator `wop` that overwrites, from point `wfirst` on, the bytes of a value it shares a range with:
   `readers` = set of [op, last] (the last point at which consumer `op` reads the value), isOut = the value is read
   by the application after the inference.  Safe iff every other consumer has finished before. *)
ClobberSafe(readers, isOut, wop, wfirst) == ~isOut /\ \A x \in readers : x.op = wop \/ x.last < wfirst
=============================================================================
