SPECIFICATION Spec
CONSTANTS MaxH = 8
 YPad = "top"
INVARIANT NeverThree
CHECK_DEADLOCK FALSE
