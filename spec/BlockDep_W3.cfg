SPECIFICATION Spec
CONSTANTS MaxH = 8
 EmitCases = FALSE
 Wide = FALSE
 YPad = "top"
INVARIANT NeverThree
CHECK_DEADLOCK FALSE
