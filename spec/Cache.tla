------------------------------- MODULE Cache -------------------------------
(* The process-wide compressed-weight cache of Vela (property C08, second half):
       "a cached encoding is reused only when it is byte-identical to what a fresh encoding
        would produce".
   A request to encode is identified by everything the encoded bytes may depend on:
       w      the weight tensor: its (flattened) values and zero points
       shape  the shape of the weight tensor (kernel height/width, depths)
       bias   value id of the bias/scale tensor together with the IFM/OFM scales
       kind   NPU block type (conv / depthwise / vector product)
       blk    OFM block depth, clipped to the OFM depth
       sl     the list of depth slices
       dil    dilation
       bits   IFM bit depth            (fixes the IFM block depth and the traversal choice)
       flip   transpose convolution    (kernel is read flipped)
       acc    the accelerator of the compilation (micro-block depths, number of cores)
   Vela's cache key is the projection  <<kind, blk, sl, dil, value id of w>>.
   Value ids are per tensor object and therefore per compilation, except for tensors whose id
   is derived from their values (tensor.create_equivalence_id is memoised process-wide): those
   are the weights in VKWeights; such an id is computed from the *flattened* values, so it is also
   blind to the shape.  The cache is never cleared (ClearOnCompile = FALSE).

   FreshW abstracts the encoder as injective in the fields the bytes may depend on; the trace
   specification (CacheTrace) replaces it by digests of real encodings.                      *)
EXTENDS Integers, Sequences, FiniteSets, TLC

CONSTANTS Weights, VKWeights, Shapes, Biases, Kinds, BlockDepths, SliceLists, Dilations, Bits, Flips, Accs,
          MaxLen,            \* bound on the number of requests in a history
          ClearOnCompile,    \* TRUE: cache and value-id memo are emptied at every compilation start
                             \* (compiler_driver.reset_process_wide_state)
          ExtendedKey,       \* TRUE: the key also carries weight shape, IFM bit depth and kernel flip
          Assume             \* TRUE: histories are restricted by the environment assumption below

VARIABLES cache,   \* Key -> [wb, scc, by]   by = the request that filled the entry (history variable)
          acc,     \* accelerator of the compilation in progress
          epoch,   \* number of compilation starts so far
          hist     \* sequence of events: [op |-> "comp", acc] or [op |-> "enc", req, acc, epoch, hit, coherent]
vars == <<cache, acc, epoch, hist>>

Requests == [w : Weights, shape : Shapes, bias : Biases, kind : Kinds, blk : BlockDepths, sl : SliceLists, dil : Dilations,
             bits : Bits, flip : Flips]

(* value id seen by the cache: a tensor object's id identifies values and shape within one compilation;
   an id derived from the flattened values survives compilation boundaries and ignores the shape *)
Vid(w, shape, ep) == IF w \in VKWeights THEN <<w, "flat", IF ClearOnCompile THEN ep ELSE 0>> ELSE <<w, shape, ep>>

(* Vela's projection.  The original key is <<kind, blk, sl, dil, value id>>; the extended key (ExtendedKey)
   adds weight_shape, ifm_bitdepth and flip_kernel.  The accelerator is in neither. *)
Key(r, ep) == IF ExtendedKey THEN <<r.kind, r.blk, r.sl, r.dil, Vid(r.w, r.shape, ep), r.shape, r.bits, r.flip>>
              ELSE <<r.kind, r.blk, r.sl, r.dil, Vid(r.w, r.shape, ep)>>
OmittedFields == {"bits", "flip", "acc", "shape"}          \* omitted by the original key
Omitted(r, a) == [bits |-> r.bits, flip |-> r.flip, acc |-> a, shape |-> r.shape]
FreshW(r, a, ep) == <<Key(r, ep), Omitted(r, a)>>                           \* abstract weight bytes
(* scale compression config: value id of the bias tensor (one per IFM type: int32 / int64 biases; a new object in
   every compilation) and the IFM/OFM scales, which the bias id stands for here *)
Scc(r, ep) == <<r.bias, r.bits, ep>>

Init == cache = <<>> /\ acc \in Accs /\ epoch = 0 /\ hist = <<>>

NewCompilation(a) ==
    /\ Len(hist) < MaxLen /\ Len(hist) > 0 /\ hist[Len(hist)].op = "enc"
    /\ acc' = a /\ epoch' = epoch + 1
    /\ cache' = IF ClearOnCompile THEN <<>> ELSE cache
    /\ hist' = Append(hist, [op |-> "comp", acc |-> a])

(* environment assumption under which the design is coherent: two requests that meet in one cache
   entry agree on every field the key omits *)
EnvOK(r) == LET k == Key(r, epoch) IN
            k \in DOMAIN cache => Omitted(cache[k].by.req, cache[k].by.acc) = Omitted(r, acc)

Encode(r) ==
    /\ Len(hist) < MaxLen
    /\ (Assume => EnvOK(r))
    /\ LET k == Key(r, epoch)
           hit == k \in DOMAIN cache
           full == hit /\ cache[k].scc = Scc(r, epoch)         \* weights and scales reused
           ev == [op |-> "enc", req |-> r, acc |-> acc, epoch |-> epoch,
                  hit |-> IF full THEN "full" ELSE IF hit THEN "weights" ELSE "miss",
                  coherent |-> hit => cache[k].wb = FreshW(r, acc, epoch)]
       IN /\ hist' = Append(hist, ev)
          /\ cache' = IF hit THEN cache          \* a scales-only tensor is not cached
                      ELSE (k :> [wb |-> FreshW(r, acc, epoch), scc |-> Scc(r, epoch), by |-> ev]) @@ cache
    /\ UNCHANGED <<acc, epoch>>

Next == (\E r \in Requests : Encode(r)) \/ (\E a \in Accs : NewCompilation(a))
Spec == Init /\ [][Next]_vars

(* ---- the property ------------------------------------------------------------------------ *)
Coherent == \A i \in 1..Len(hist) : hist[i].op = "enc" => hist[i].coherent

(* every entry still describes what a fresh encoding of its filling request would give *)
EntriesFresh == \A k \in DOMAIN cache : cache[k].wb = FreshW(cache[k].by.req, cache[k].by.acc, cache[k].by.epoch)
SomeHit == \A i \in 1..Len(hist) : hist[i].op = "enc" => hist[i].hit = "miss"      \* violated = hits are reachable
=============================================================================
