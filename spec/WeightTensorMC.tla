--------------------------- MODULE WeightTensorMC ---------------------------
(* Design-level model checking of WeightTensor: for every OFM depth n <= MaxN, 1 or 2 cores,
   every list of depth slices (every set of cut points), block depths and abstract weight-stream
   sizes, the assembly loop yields ranges keyed (core, slice) that are aligned, disjoint, in
   stream order, cover every channel exactly once, and whose double-buffer sizes bound every
   slice.  BrokenDoubleBuffer is the negative control (sizes recorded under index `idx & 0`). *)
EXTENDS WeightTensor

CONSTANTS MaxN, BlockDepths

VARIABLES stage, n, nc, D, B, salt
vars == <<stage, n, nc, D, B, salt>>

(* all slice lists of 0..n: choose the interior cut points *)
SliceLists(m) == { LET cuts == {0, m} \cup S
                       sorted[k \in 1..Cardinality(cuts)] == CHOOSE x \in cuts : Cardinality({y \in cuts : y < x}) = k - 1
                   IN sorted : S \in SUBSET (1..(m - 1)) }

Init == /\ stage = 0 /\ n \in 1..MaxN /\ nc \in {1, 2} /\ D = <<0, n>> /\ B = 1 /\ salt = 0
Pick == /\ stage = 0 /\ stage' = 1
        /\ D' \in SliceLists(n) /\ B' \in BlockDepths /\ salt' \in 0..2
        /\ UNCHANGED <<n, nc>>
Next == Pick
Spec == Init /\ [][Next]_vars

WSize(core, i) == 16 * ((core + i + salt) % 3)
Ranges == Assemble(n, nc, D, B, WSize)

LayoutOK == stage = 1 =>
    /\ WellFormedSlices(n, D)
    /\ KeyedByCoreAndSlice(Ranges, n, nc, D, B)
    /\ RangesAligned16(Ranges) /\ Disjoint(Ranges) /\ InStreamOrder(Ranges, BufLen(Ranges)) /\ SectionsInsideRange(Ranges)
CoverageOK == stage = 1 => ChannelCoverage(n, nc, D, B)
DoubleBufferOK == stage = 1 => DoubleBufferBound(Ranges, D, DoubleBufferOf(Ranges, D))

(* Environment assumption made explicit by the model checker: with BlockDepths = {1} and two cores
   CoverageOK fails (core 1's share of the block depth is 0, its channels are never encoded);
   every real block depth is at least the OFM micro-block depth (>= 4), so B >= nc. *)
BlockDepthAssumption == B >= nc

(* negative controls *)
BrokenDoubleBuffer == stage = 1 =>
    LET db == DoubleBufferOf(Ranges, D) IN DoubleBufferBound(Ranges, D, <<IF db[1] > db[2] THEN db[1] ELSE db[2], 0>>)
(* channels dealt without the core offset: both cores would get the same channels *)
BrokenCoverage == stage = 1 =>
    LET keys == KeySeq(n, nc, D, B)
        chans(k) == Channels(D, nc, 0, SliceOfKey(D, keys[k]))
        owners(ch) == {k \in 1..Len(keys) : \E j \in 1..Len(chans(k)) : chans(k)[j] = ch}
    IN \A ch \in 0..(n - 1) : Cardinality(owners(ch)) = 1
=============================================================================
