---------------------------- MODULE CascadeTrace ----------------------------
(* Trace validation of recorded cascades against Cascade.tla.  A case is the event sequence the REAL
   generate_high_level_commands_for_sched_op emitted for a chain of operators whose stripe heights came from the
   REAL Scheduler.propose_schedule_striping, whose rolling buffers came from the REAL rolling_buffer_shape /
   Scheduler.apply_schedule, and whose tile addresses came from the REAL create_feature_map
   (Tensor.addresses_for_rolling_buffer).  The variables g, done, buf of Cascade are driven by the trace:

     Hdr  -> g := geometry as the code decided it (stripe heights, stripe input heights, buffer heights)
     S    -> the emitted stripe must (property) read only rows that were produced and are still held in the slot
             the code addresses (NoEarlyOverwrite / ReadBeforeProduced); then done and buf advance with what the
             code wrote.  Whether the stripe is the one Cascade!Emit would take, and whether the geometry equals
             Cascade!MkGeo, is recorded as drift (the property does not prescribe the interleaving).             *)
EXTENDS Cascade, IOUtils

Trace == ndJsonDeserialize(IOEnv.TRACE_FILE)

VARIABLES l, viol, drift, cur
tvars == <<l, viol, drift, cur, g, done, buf>>

Ev == Trace[l]
ParamH(o) == LET x == o.ax.H IN
    [ax |-> "H", kind |-> IF o.cls \in {"ew1", "ew2"} THEN "ew" ELSE "win", I |-> x.I, ro |-> x.ro, rl |-> x.rl, sp |-> o.sp,
     wo |-> x.wo, O |-> x.O, k |-> x.k, d |-> x.d, s |-> x.s, pt |-> o.pt, epb |-> x.ep[1], epa |-> x.ep[2], up |-> o.up]
Plain(e) == e.model /\ \A i \in 2..e.n : ~e.ops[i].sp /\ e.ops[i].up = 0 /\ e.ops[i].ax.H.wo = 0 /\ e.ops[i].pt \in {"SAME", "VALID"}
GeoOf(e) == [n |-> e.n, O |-> [i \in 1..e.n |-> e.ops[i].ax.H.O], p |-> [i \in 1..e.n |-> ParamH(e.ops[i])],
             h |-> [i \in 1..e.n |-> e.ops[i].h], hin |-> [i \in 1..e.n |-> e.ops[i].hin],
             bufh |-> [i \in 1..e.n |-> IF i = 1 THEN 0 ELSE e.ops[i].store], plain |-> Plain(e),
             cend |-> [i \in 1..e.n |-> e.ops[i].ax.C.wo + e.ops[i].ax.C.O]]
(* the geometry Cascade.tla computes for the same operators and the same final stripe height *)
ModelGeo(e) == LET shs == [i \in 2..e.n |-> [k |-> e.ops[i].ax.H.k, d |-> e.ops[i].ax.H.d, s |-> e.ops[i].ax.H.s, pt |-> e.ops[i].pt]]
               IN MkGeo(e.n, e.ops[1].ax.H.O, shs, e.ops[e.n].h)
GeoDrift(e) == IF ~Plain(e) THEN {} ELSE
    LET m == ModelGeo(e) IN
      { <<e.t, -1, i - 1, "Geometry">> : i \in { j \in 2..e.n :
            m.h[j - 1] # e.ops[j - 1].h \/ m.hin[j] # e.ops[j].hin \/ m.bufh[j] # e.ops[j].store \/ m.O[j] # e.ops[j].ax.H.O } }

RecH(e) == [a |-> e.H[1], b |-> e.H[2], c |-> e.H[3], e |-> e.H[4], pb |-> e.H[5], pa |-> e.H[6]]
Slot(tiles, first, y) == IF y - first < tiles[2] THEN tiles[1] + (y - first) ELSE tiles[3] + (y - first - tiles[2])

(* the buffer is tracked per (slot, channel): a depth-wise consumer may legitimately run on the channels of a row whose
   other channels are still to come, so "produced" and "still held" are statements about (row, channel) cells *)
CellsRead(e) == LET i == e.op + 1  r == RecH(e) IN
    { <<y, ch>> : y \in ReadRows(g.p[i], r), ch \in e.C[3]..(e.C[4] - 1) }
HeldVal(i, e, cell) == LET sl == Slot(e.rd, e.H[3], cell[1]) IN
    IF <<sl, cell[2]>> \in DOMAIN buf[i] THEN buf[i][<<sl, cell[2]>>] ELSE 1000000
ReadViol(e) ==
    LET i == e.op + 1 IN
    IF i = 1 THEN {} ELSE
      { <<e.t, e.q, e.op, "ReadBeforeProduced">> : c \in { x \in CellsRead(e) : HeldVal(i, e, x) < x[1] } }
      \cup { <<e.t, e.q, e.op, "NoEarlyOverwrite">> : c \in { x \in CellsRead(e) : HeldVal(i, e, x) > x[1] } }
StepDrift(e) ==
    LET i == e.op + 1  r == RecH(e) IN
    IF ~g.plain THEN {} ELSE
      (IF i # Chosen(g.n) THEN {<<e.t, e.q, e.op, "Interleaving">>} ELSE {})
      \cup (IF r.a # done[i] \/ r.b # Min(done[i] + g.h[i], g.O[i] + g.p[i].wo) THEN {<<e.t, e.q, e.op, "StripeRows">>} ELSE {})
Written(e) ==
    LET i == e.op + 1  r == RecH(e) IN
      [cell \in DOMAIN buf[i + 1] |->
          LET rows == { y \in r.a..(r.b - 1) : Slot(e.wr, r.a, y) = cell[1] } IN
            IF rows = {} \/ cell[2] < e.C[1] \/ cell[2] >= e.C[2] THEN buf[i + 1][cell] ELSE MaxOf(rows)]
WriteViol(e) ==
    LET i == e.op + 1  r == RecH(e) IN
      IF i = g.n THEN {} ELSE
        { <<e.t, e.q, e.op, "TileAddressing">> : y \in { z \in r.a..(r.b - 1) : <<Slot(e.wr, r.a, z), e.C[1]>> \notin DOMAIN buf[i + 1] } }

NoGeo == [n |-> 0]
TInit == l = 1 /\ viol = {} /\ drift = {} /\ cur = -1 /\ g = NoGeo /\ done = <<>> /\ buf = <<>>
TNext ==
    /\ l <= Len(Trace)
    /\ l' = l + 1
    /\ CASE Ev.e = "Hdr" ->
              /\ g' = GeoOf(Ev) /\ cur' = Ev.t
              /\ done' = [i \in 1..Ev.n |-> Ev.ops[i].ax.H.wo]
              /\ buf' = [i \in 1..Ev.n |-> IF i = 1 THEN <<>>
                                           ELSE [cell \in (0..(Ev.ops[i].store - 1)) \X (0..(Ev.ops[i].ax.C.I - 1)) |-> -1]]
              /\ drift' = drift \cup GeoDrift(Ev)
              /\ UNCHANGED viol
         [] Ev.e = "S" ->
              LET i == Ev.op + 1
                  \* a stripe split into depth slices counts as produced when its last slice has been emitted
                  whole == Ev.C[2] >= g.cend[i]
              IN
              /\ viol' = viol \cup ReadViol(Ev) \cup WriteViol(Ev)
              /\ drift' = drift \cup StepDrift(Ev)
              /\ done' = IF whole THEN [done EXCEPT ![i] = Ev.H[2]] ELSE done
              /\ buf' = IF i < g.n THEN [buf EXCEPT ![i + 1] = Written(Ev)] ELSE buf
              /\ UNCHANGED <<g, cur>>
         [] Ev.e = "End" ->
              /\ viol' = viol \cup (IF done[g.n] # g.O[g.n] + g.p[g.n].wo THEN {<<Ev.t, -1, g.n - 1, "Incomplete">>} ELSE {})
              /\ UNCHANGED <<drift, cur, g, done, buf>>
TSpec == TInit /\ [][TNext]_tvars

Consumed == TLCGet("stats").diameter = Len(Trace) + 1
Report == l = Len(Trace) + 1 => PrintT(<<"VERDICT", ToJson(viol)>>) /\ PrintT(<<"DRIFT", ToJson(drift)>>)
=============================================================================
