------------------------ MODULE WaitDepInd_Refines ------------------------
(* TLC side of WaitDepInd: (1) every behaviour of WaitDepInd (stream bounded by N) is a behaviour of the
   TLC-checked transcription WaitDep (PROPERTY RefinesWaitDep; same variables), so the Apalache-typed copy of
   the algorithm cannot drift from it unnoticed; (2) IndInv holds in every reachable state (INVARIANT IndInv):
   the inductive invariant really is an invariant of the bounded model too, and its conjuncts are exercised by
   real reachable states (coverage). *)
EXTENDS WaitDepInd
WD == INSTANCE WaitDep
RefinesWaitDep == WD!Spec
===========================================================================
