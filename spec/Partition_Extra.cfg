SPECIFICATION Spec
CONSTANT MaxN = 3
CONSTANT MinN = 1
CONSTANT Places = {"Cpu", "Npu", "MemN", "MemC"}
CONSTANT MultiOut = FALSE
CONSTANT SinkSees = "all"
CONSTANT AllowExtra = TRUE
INVARIANT TypeOK
INVARIANT TopoOrder
INVARIANT StartupFirst
INVARIANT QuotientTopo
INVARIANT RunsWellFormed
INVARIANT RunsAreMaximal
INVARIANT CallOpAtRunStart
INVARIANT RunsBounded
CHECK_DEADLOCK FALSE
