--------------------------- MODULE PayloadTrace ---------------------------
(* Trace validation for C17: a batch of observation records, one per payload produced by the real
   api.npu_create_driver_payload or found as command-stream tensor of a compiled model.

   record: t, accel, n (number of input words), rejected (a VelaError was raised), crashed (another
   exception), and for produced payloads: total_bytes, bytes (the whole payload in "full" mode, its
   first 64 bytes in "digest" mode), mode, input (full mode: the given words as [lo, hi] limbs),
   tail_match (digest mode: the driver compared the last 4n bytes of the payload with the
   little-endian image of the input by SHA-256).
   Words are assembled from bytes here, so the little-endian clause is decided by TLC. *)
EXTENDS Integers, Sequences, FiniteSets, Json, IOUtils, TLC

Trace == ndJsonDeserialize(IOEnv.TRACE_FILE)

VARIABLES l, viol
P == INSTANCE Payload WITH MaxSmall <- 0, PadRule <- "align", accel <- "", n <- 0, out <- <<>>, nbody <- 0, phase <- ""

Ev == Trace[l]
WordAt(b, i) == <<b[4 * i - 3] + 256 * b[4 * i - 2], b[4 * i - 1] + 256 * b[4 * i]>>     \* 1-based word index
Words(b) == [i \in 1..(Len(b) \div 4) |-> WordAt(b, i)]

(* records with src = "gen": a stream produced by the real generator at the hardware limit (n = its length in words) *)
GenFailures(e) ==
  IF e.crashed THEN {"NoInternalError"}
  ELSE IF e.rejected THEN (IF 4 * e.n >= P!HwLimitBytes THEN {} ELSE {"AcceptsRepresentableLength"})
  ELSE IF 4 * e.n >= P!HwLimitBytes THEN {"RejectsBeyondHardwareLimit"}
  ELSE (IF e.framed_len < 0 \/ ~e.tail_match THEN {"BodyUnmodifiedLittleEndian"} ELSE {})

Failures(e) ==
  IF e.src = "gen" THEN GenFailures(e)
  ELSE IF e.crashed THEN {"NoInternalError"}
  ELSE IF e.rejected THEN (IF e.n >= P!MaxLen THEN {} ELSE {"AcceptsRepresentableLength"})
  ELSE IF e.n >= P!MaxLen THEN {"RejectsTooLong"}
  ELSE LET ws == Words(e.bytes)
           total == e.total_bytes \div 4
           ff == P!FrameFailures(ws, total, e.accel, e.n)
           h == IF Len(ws) >= 5 THEN P!HeaderAt(ws) ELSE 0
       IN  ff
      \cup (IF e.total_bytes % 4 # 0 THEN {"WholeWords"} ELSE {})
      \cup (IF ff = {} /\ e.mode = "full" /\ Len(e.bytes) # e.total_bytes THEN {"Harness"} ELSE {})
      \cup (IF ff = {} /\ e.mode = "full" /\ Len(e.bytes) = e.total_bytes
               /\ \E i \in 1..e.n : ws[h + i] # <<e.input[i][1], e.input[i][2]>>
            THEN {"BodyUnmodifiedLittleEndian"} ELSE {})
      \cup (IF ff = {} /\ e.mode = "digest" /\ ~e.tail_match THEN {"BodyUnmodifiedLittleEndian"} ELSE {})

Init == l = 1 /\ viol = {}
Next == /\ l <= Len(Trace)
        /\ viol' = viol \cup { <<Ev.t, f>> : f \in Failures(Ev) }
        /\ l' = l + 1
Spec == Init /\ [][Next]_<<l, viol>>

Consumed == TLCGet("stats").diameter = Len(Trace) + 1
Report == l = Len(Trace) + 1 => PrintT(<<"VERDICT", ToJson(viol)>>)
=============================================================================
