----------------------------- MODULE CliCorners -----------------------------
(* Corner lattices of the MODEL space of property C13 (spec -> code), the counterpart of CliSpace.tla for the option
   space.  Every initial state is one parameter record; TLC enumerates them all and prints each one (invariant Emit);
   harness/corners.py builds the network of a record, harness/checks/c13.py runs it through the real command line and
   CliTrace.tla decides the outcome - and decides, by recomputing Required here, that the batch it validates contains
   every record of the plan (CornersCovered), so a generator that silently drops a sub-lattice is not a green run.

   qscale    extreme but valid quantisation parameters.  An operator rescales by  r = m * 2^e
             (convolution-like: ifm_scale * weight_scale / ofm_scale; MUL: ifm1 * ifm2 / ofm; ADD / SUB: operand / ofm;
             pooling, MEAN, LEAKY_RELU, QUANTIZE: ifm / ofm).  The NPU applies r as a MulBits-bit multiplier and a
             right shift of ShiftBits bits, so Shift(e) = MulBits - 1 - e has to lie in 0 .. 2^ShiftBits - 1; outside
             the compiler has to flush the scale (or reject the operator), never to pass the value on.  Frontier = the
             binades next to both ends of that range, next to the ends of the reduced 16-bit multiplier's shift
             (Shift - 16), and around r = 1.  Zero points sit at the ends of the type range, per-channel scales mix the
             extreme value with ordinary ones (chan = "mixed").
   cpumulti  an operator with several outputs that stays on the CPU, inside a CPU/NPU interleaving:
             npu   which of its outputs an NPU operator reads (first / another one / both / none)
             src   what produces its input (the network input, an NPU operator, a CPU operator, NPU then CPU)
             tail  what runs after the NPU reader (nothing, a CPU operator, an NPU operator, CPU then NPU, an independent
                   CPU pass elsewhere in the network)
             cpu   which output another CPU operator reads; cpuop / which: the operator and which "other" output.
   deep      a chain of Depth operators: the recursion depth of the graph traversals grows with the model, not with
             anything the user could be blamed for.

   quick tier: the frontier binades x every operator (mantissa, data type, zero points, channel mode rotate with the
   seed and the position), an interior sample, every (npu, src, tail) interleaving (operator kinds rotating), the deep
   chains; thorough tier: every binade x operator x mantissa, every interleaving x operator kind (cpu reader rotating).

   PendingTriage: sub-lattices on which the UNCHANGED compiler dies with an internal exception (found when this family
   was first run, reported to the lead with reproductions, not yet triaged).  They are part of the lattice and are
   switched off here - and only here - until the findings are recorded or repaired:
     int16_convlike_e15_30   int16 CONV_2D / DEPTHWISE / TRANSPOSE_CONV / FULLY_CONNECTED with r in [2^15, 2^31):
                             AssertionError in weight_compressor.encode_bias (reduced shift = shift - 16 < 0)
     lrelu_e23_up            8-bit LEAKY_RELU with ifm_scale / ofm_scale >= 2^23: AssertionError in fp_math
     mean_em33               MEAN with ifm_scale / ofm_scale in [2^-33, 2^-32): ValueError negative shift count *)
EXTENDS Integers, Sequences, FiniteSets, TLC, Json, IOUtils

IncludePendingTriage == TRUE

Tier == IF "CORNER_TIER" \in DOMAIN IOEnv THEN IOEnv.CORNER_TIER ELSE "quick"
SeedS == IF "CORNER_SEED" \in DOMAIN IOEnv THEN IOEnv.CORNER_SEED ELSE "0"
Seed == IF \E n \in 0..11 : ToString(n) = SeedS THEN CHOOSE n \in 0..11 : ToString(n) = SeedS ELSE 0

(* ---- qscale ---------------------------------------------------------------------------------------- *)
ShiftBits == 6
MulBits == 31
EMin == -40
EMax == 32
Shift(e) == MulBits - 1 - e
ShiftLimit == 2 ^ ShiftBits
NearEnds(s, lo, hi) == \E d \in -2..2 : s = lo + d \/ s = hi + d
Frontier == {e \in EMin..EMax : \/ NearEnds(Shift(e), 0, ShiftLimit - 1)          \* full multiplier
                                \/ \E d \in -1..1 : Shift(e) - 16 = d             \* reduced (16-bit) multiplier
                                \/ e \in -1..1}
OpsQ == <<"conv", "dwconv", "tconv", "fc", "add", "sub", "mul", "avgpool", "maxpool", "lrelu", "mean", "quantize">>
ConvLike == {"conv", "dwconv", "tconv", "fc"}
Mants == <<"one", "mid", "top">>          \* m = 1, 1.5, 2 - 2^-20
Dts == <<"int8", "uint8", "int16">>
Zps == <<"lo", "hi", "mid">>
Chans == <<"tensor", "mixed">>
Rot(q, n) == q[(n % Len(q)) + 1]

Pending(r) == \/ r.dt = "int16" /\ r.op \in ConvLike /\ r.e \in 15..30
              \/ r.op = "lrelu" /\ r.dt # "int16" /\ r.e >= 23
              \/ r.op = "mean" /\ r.e = -33
(* the rotating attributes: a data type under which the record is not pending is preferred, so that a pending sub-lattice
   of one data type does not take the binade away from the others *)
QRec(i, e, mi, k) ==
    LET base == [fam |-> "qscale", op |-> OpsQ[i], e |-> e, m |-> Mants[mi],
                 zp |-> Rot(Zps, e - EMin + i + k), chan |-> Rot(Chans, e - EMin + i + mi + k)]
        cand == [j \in 0..2 |-> base @@ [dt |-> Rot(Dts, e - EMin + i + k + j)]]
        okj == {j \in 0..2 : ~Pending(cand[j])}
    IN IF okj = {} \/ IncludePendingTriage THEN cand[0] ELSE cand[CHOOSE j \in okj : \A j2 \in okj : j <= j2]
Interior == {e \in EMin..EMax : e \notin Frontier /\ (e - EMin) % 6 = Seed % 6}
QQuick == {QRec(i, e, ((e - EMin + i + Seed) % 2) * 2 + 1, Seed) : i \in 1..Len(OpsQ), e \in Frontier}
     \cup {QRec(i, e, 2, Seed) : i \in {j \in 1..Len(OpsQ) : j % 3 = Seed % 3}, e \in Interior}
QThorough == {QRec(i, e, mi, Seed) : i \in 1..Len(OpsQ), e \in EMin..EMax, mi \in 1..3}
          \cup {QRec(i, e, 1, Seed + 1) : i \in 1..Len(OpsQ), e \in Frontier}
QPlan == {r \in (IF Tier = "quick" THEN QQuick ELSE QThorough) : IncludePendingTriage \/ ~Pending(r)}

(* ---- cpumulti --------------------------------------------------------------------------------------- *)
CpuOps == <<"custom3", "topk", "custom2", "splitdyn">>
Npus == <<"first", "other", "both", "none">>
Srcs == <<"input", "npu", "cpu", "npu_cpu">>
Tails == <<"none", "cpu", "npu", "cpu_npu", "cpu_indep">>
Cpus == <<"none", "first", "other">>
Whichs == <<"second", "last">>
CRec(a, b, c, k) == [fam |-> "cpumulti", npu |-> Npus[a], src |-> Srcs[b], tail |-> Tails[c],
                     cpuop |-> Rot(CpuOps, a + b + c + k), cpu |-> Rot(Cpus, a + 2 * b + c + k), which |-> Rot(Whichs, b + c + k)]
CQuick == {CRec(a, b, c, Seed) : a \in 1..3, b \in 1..Len(Srcs), c \in 1..Len(Tails)}
       \cup {CRec(4, b, 1, Seed) : b \in 1..Len(Srcs)}
QuickSrcs == {b \in 1..Len(Srcs) : b # 1 + (Seed % Len(Srcs))}       \* three of the four producers per seed
CThorough == {[fam |-> "cpumulti", npu |-> Npus[a], src |-> Srcs[b], tail |-> Tails[c], cpuop |-> CpuOps[d],
               cpu |-> Rot(Cpus, a + 2 * b + c + d + Seed), which |-> Rot(Whichs, b + c + d + Seed)] :
                 a \in 1..4, b \in 1..4, c \in 1..5, d \in 1..4}
CPlan == IF Tier = "quick" THEN {r \in CQuick : \E b \in QuickSrcs : r.src = Srcs[b]} ELSE CThorough

(* ---- deep -------------------------------------------------------------------------------------------- *)
DeepOps == <<"add", "pool", "cpu">>
DPlan == IF Tier = "quick" THEN {[fam |-> "deep", op |-> Rot(DeepOps, Seed), depth |-> 450]}
         ELSE {[fam |-> "deep", op |-> o, depth |-> d] : o \in {"add", "pool", "cpu"}, d \in {300, 450, 700}}

Plan == QPlan \cup CPlan \cup DPlan

(* identity of a record in a trace (harness/corners.py key()) *)
Key(r) == CASE r.fam = "qscale" -> "qscale/" \o r.op \o "/" \o ToString(r.e) \o "/" \o r.m
            [] r.fam = "cpumulti" -> "cpumulti/" \o r.npu \o "/" \o r.src \o "/" \o r.tail
            [] OTHER -> "deep/" \o r.op \o "/" \o ToString(r.depth)
Required == {Key(r) : r \in Plan}

VARIABLE rec
Init == rec \in Plan
Next == UNCHANGED rec
Spec == Init /\ [][Next]_rec
Emit == PrintT(<<"CORNER", ToJson(rec)>>)

(* ---- sanity of the lattice itself (model checked with the enumeration) -------------------------------- *)
(* both ends of the shift range, the value just outside each of them, and the first value of the reduced shift are planned
   for every convolution-like operator; every interleaving in which an NPU operator reads a non-first output is planned *)
FrontierComplete ==
    /\ \A s \in {-1, 0, ShiftLimit - 1, ShiftLimit, ShiftLimit + 1} : \E e \in Frontier : Shift(e) = s
    /\ \A op \in ConvLike : \A e \in Frontier :
          (IncludePendingTriage \/ \E dt \in {"int8", "uint8", "int16"} : ~Pending([op |-> op, dt |-> dt, e |-> e]))
              => \E r \in QPlan : r.op = op /\ r.e = e
    /\ \A b \in (IF Tier = "quick" THEN QuickSrcs ELSE 1..Len(Srcs)), c \in 1..Len(Tails) :
          \E r \in CPlan : r.npu = "other" /\ r.src = Srcs[b] /\ r.tail = Tails[c]
=============================================================================
