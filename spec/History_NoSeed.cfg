SPECIFICATION Spec
CONSTANT Letters <- MCLetters
CONSTANT VK <- MCVK
CONSTANT WK <- MCWK
CONSTANT Acc <- MCAcc
CONSTANT MaxLen = 3
CONSTANT Policy = "clear_at_entry"
CONSTANT SeedsRng = FALSE
INVARIANT HistoryIndependent
CHECK_DEADLOCK FALSE
