SPECIFICATION Spec
CONSTANT Letters <- MCLetters
CONSTANT VK <- MCVK
CONSTANT WK <- MCWK
CONSTANT Acc <- MCAcc
CONSTANT Opt <- MCOpt
CONSTANT Mdl <- MCMdl
CONSTANT InPlace <- MCInPlace
CONSTANT Needs <- MCNeeds
CONSTANT Establishes <- MCEst
CONSTANT MaxLen = 3
CONSTANT Policy = "clear_at_entry"
CONSTANT SeedsRng = FALSE
CONSTANT ReaderCopies = TRUE
INVARIANT HistoryIndependent
CHECK_DEADLOCK FALSE
