SPECIFICATION Spec
CONSTANTS
  OptWriter = "skip_falsy"
  OptKnown = TRUE
  InWriter = "positional"
  OutWriter = "all"
  CloneKeeps = {"min", "max", "qdim", "peraxis"}
  TableKept = "always"
  CloneQuant = "private"
  MaxIn = 4
INVARIANT OptionRoundTrip
INVARIANT OperandPositions
INVARIANT TensorRoundTrip
INVARIANT WeightRoundTrip
INVARIANT OutputsDeclared
CHECK_DEADLOCK FALSE
