SPECIFICATION Spec
CONSTANTS
  OptWriter = "skip_falsy"
  OptKnown = TRUE
  InWriter = "positional"
  OutWriter = "all"
  CloneKeeps = {"minmax", "qdim", "peraxis"}
  MaxIn = 4
INVARIANT OptionRoundTrip
INVARIANT OperandPositions
INVARIANT TensorRoundTrip
INVARIANT OutputsDeclared
CHECK_DEADLOCK FALSE
