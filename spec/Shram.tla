------------------------------- MODULE Shram -------------------------------
(* C15 - what a block configuration and its shared-buffer (SHRAM) layout must satisfy to be
   valid for an Ethos-U accelerator.  This module is the *requirement*: it is written from the
   hardware rules as the repository documents them, NOT from the allocator's control flow (that is
   ShramAlloc.tla).  Everything below that is a fact about the hardware is an ASSUMPTION of the
   check and is labelled A-SHn; the source of each fact is given.

   A-SH1 (architecture_features.py, table accelerator_configs and ArchitectureFeatures.__init__)
         SHRAM is an array of 1 KiB banks: 16 banks on U55-32/64, 24 on U55-128, 48 on U55-256,
         U65-256 and U65-512.  The micro-block (w,h,d) is (1,1,4) U55-32, (1,1,8) U55-64,
         (2,1,8) U55-128, (2,2,8) on the 256/512-MAC parts.  Maximum OFM block is 64 x 32 x 128
         (w x h x d).  Bank granules per element class
         [IFM8, IFM16, IFM8-elementwise, IFM16-elementwise, IFM32, Acc16, Acc32, Acc40]:
         U55-32 [2,2,2,2,4,4,4,4]  U55-64 [2,2,2,2,4,4,4,8]  U55-128 [4,4,4,4,8,4,8,12]
         256/512-MAC parts [8,8,8,8,16,8,16,20].
   A-SH2 (architecture_features.py "Shared Buffer Block allocations", SharedBufferArea,
         architecture_allocator._try_block_config)  Layout, in banks, low to high:
         [0,2) OFM output buffers; IFM input buffers start at bank 2 and end at IB_END; in a binary
         elementwise operation the second operand's buffers start at IFM2_IB_START and end at
         IB_END; accumulators occupy [AB_START, lut_start); the activation lookup table, when one
         is used, occupies the two banks below the end of SHRAM; parts with more than 16 banks
         never use their last two banks for IFM/accumulator data (reserved, they hold the LUT:
         shram_lut_address = 1024 * (banks - 2) on every part).
   A-SH3 (architecture_features.generate_block_config: "For IFM: size = H*W*Align(D*BYTE_WIDTH, 8);
         For ACC: size = H*W*Align(D,8)*BYTE_WIDTH"; "Double buffer the IFM/Acc"; "Round bank
         requirement to bank granularity")  A region must hold two copies of its block, each
         rounded up to whole banks, the sum rounded up to the granule of its element class.
   A-SH4 (architecture_allocator._get_ifm_blocksize/_required_size/_ifm_blockdepth,
         architecture_features.get_ifm_block_size)  The IFM block the hardware fetches for one OFM
         block: each spatial dimension is ceil(((ofm-1)*stride + min(dilated kernel extent, 8)
         + [nearest-neighbour upscaling]) / upscale) rounded up to the micro-block; the depth is
         the OFM block depth for depthwise / pooling / elementwise operations and otherwise a
         function of IFM depth, precision and weight traversal (IfmBlockDepth).
   A-SH5 (architecture_allocator.fit_block_for_ofm "256/512 Conv1D optimisation")  On parts whose
         micro-block is two rows high, an operation whose OFM is one row high and whose kernel is
         one row high accumulates one row only: the accumulator block height is 1.
   A-SH6 (architecture_allocator._acc_type) accumulators are 40 bit for 16-bit IFM with scaling
         outside pooling, else 32 bit.  Used only as the *expected* format (drift evidence); the
         size requirement AccFits is stated for the format that is actually programmed. *)
EXTENDS Integers, Sequences, FiniteSets

Accels == {"ethos-u55-32", "ethos-u55-64", "ethos-u55-128", "ethos-u55-256", "ethos-u65-256", "ethos-u65-512"}
BankBytes == 1024
MaxBlock == [w |-> 64, h |-> 32, d |-> 128]

Banks(a) == CASE a \in {"ethos-u55-32", "ethos-u55-64"} -> 16
              [] a = "ethos-u55-128" -> 24
              [] OTHER -> 48
UBlock(a) == CASE a = "ethos-u55-32" -> [w |-> 1, h |-> 1, d |-> 4]
               [] a = "ethos-u55-64" -> [w |-> 1, h |-> 1, d |-> 8]
               [] a = "ethos-u55-128" -> [w |-> 2, h |-> 1, d |-> 8]
               [] OTHER -> [w |-> 2, h |-> 2, d |-> 8]
(* granules indexed 1..8 in the order of A-SH1 *)
Granules(a) == CASE a = "ethos-u55-32" -> <<2, 2, 2, 2, 4, 4, 4, 4>>
                 [] a = "ethos-u55-64" -> <<2, 2, 2, 2, 4, 4, 4, 8>>
                 [] a = "ethos-u55-128" -> <<4, 4, 4, 4, 8, 4, 8, 12>>
                 [] OTHER -> <<8, 8, 8, 8, 16, 8, 16, 20>>
IfmGranule(a, bits, elementwise) ==
    Granules(a)[CASE bits = 32 -> 5
                  [] bits = 16 -> IF elementwise THEN 4 ELSE 2
                  [] OTHER -> IF elementwise THEN 3 ELSE 1]
AccGranule(a, accbits) == Granules(a)[CASE accbits = 16 -> 6 [] accbits = 40 -> 8 [] OTHER -> 7]
OutputBanks == 2                                          \* A-SH2: [0,2) belongs to the OFM
ReservedEnd(a) == IF Banks(a) > 16 THEN 2 ELSE 0           \* A-SH2
LutBanks == 2
(* first bank that IFM / accumulator data may not use *)
UsableEnd(a, lut) == Banks(a) - (IF lut \/ ReservedEnd(a) > 0 THEN 2 ELSE 0)

Min(a, b) == IF a < b THEN a ELSE b
Max(a, b) == IF a > b THEN a ELSE b
CeilDiv(a, b) == (a + b - 1) \div b
RoundUp(a, b) == CeilDiv(a, b) * b

(* ---- operation descriptor ------------------------------------------------------------------
   o.accel; o.kind \in {"conv","dw","pool","rsum","ew"}; o.bits (IFM) \in {8,16,32};
   o.accbits \in {16,32,40}; o.lut; o.kah, o.kaw dilated kernel extent; o.sy, o.sx strides;
   o.up \in {0 none, 1 nearest, 2 transpose}; o.ifm_d IFM depth; o.part part-kernel-first weights;
   o.ofm_h OFM height; o.binary (elementwise with a second, non-scalar operand);
   o.bc = <<h,w,c>> broadcast of that operand; o.blk = [w,h,d] the OFM block. *)
Elementwise(o) == o.kind = "ew"
EqualDepth(o) == o.kind \in {"dw", "pool", "ew"}

BlockOK(a, b) ==
    /\ b.w > 0 /\ b.h > 0 /\ b.d > 0
    /\ b.w % UBlock(a).w = 0 /\ b.h % UBlock(a).h = 0 /\ b.d % UBlock(a).d = 0
    /\ b.w <= MaxBlock.w /\ b.h <= MaxBlock.h /\ b.d <= MaxBlock.d

(* A-SH4 *)
Upscale(up) == IF up = 0 THEN 1 ELSE 2
Nearest(up) == IF up = 1 THEN 1 ELSE 0
Required(v, stride, border, up) == CeilDiv((v - 1) * stride + border + Nearest(up), Upscale(up))
IfmBlockDepth(a, depth, bits, part) ==
    IF bits = 16 THEN RoundUp(Min(depth, 16), 4)
    ELSE RoundUp(Min(depth, IF part THEN 16 ELSE 32), 8)
IfmBlock(o) ==
    [h |-> RoundUp(Required(o.blk.h, o.sy, Min(o.kah, 8), o.up), UBlock(o.accel).h),
     w |-> RoundUp(Required(o.blk.w, o.sx, Min(o.kaw, 8), o.up), UBlock(o.accel).w),
     d |-> IF EqualDepth(o) THEN o.blk.d ELSE IfmBlockDepth(o.accel, o.ifm_d, o.bits, o.part)]
(* the second operand of a binary elementwise operation: same block, broadcast dimensions are 1 *)
Ifm2Block(o) == [h |-> IF o.bc[1] THEN 1 ELSE IfmBlock(o).h,
                 w |-> IF o.bc[2] THEN 1 ELSE IfmBlock(o).w,
                 d |-> IF o.bc[3] THEN 1 ELSE IfmBlock(o).d]
(* A-SH5 *)
OneRow(o) == o.ofm_h = 1 /\ o.kah = 1 /\ UBlock(o.accel).h = 2
AccBlock(o) == [h |-> IF OneRow(o) THEN 1 ELSE o.blk.h, w |-> o.blk.w, d |-> o.blk.d]

(* A-SH3 *)
IfmBytes(b, bits) == b.w * b.h * RoundUp((b.d * bits) \div 8, 8)
AccBytes(b, accbits) == (b.w * b.h * RoundUp(b.d, 8) * accbits) \div 8
BanksNeeded(bytes, granule) == RoundUp(2 * CeilDiv(bytes, BankBytes), granule)
IfmNeed(o) == BanksNeeded(IfmBytes(IfmBlock(o), o.bits), IfmGranule(o.accel, o.bits, Elementwise(o)))
Ifm2Need(o) == BanksNeeded(IfmBytes(Ifm2Block(o), o.bits), IfmGranule(o.accel, o.bits, TRUE))
AccNeed(o) == BanksNeeded(AccBytes(AccBlock(o), o.accbits), AccGranule(o.accel, o.accbits))

(* A-SH6 *)
ExpectedAccBits(kind, bits, scaled) == IF bits = 16 /\ kind # "pool" /\ scaled THEN 40 ELSE 32

(* ---- the requirements on a layout L = [ib_start, ib_end, ib_start2, ab_start, lut_start] ----- *)
Ordered(o, L) ==
    /\ L.ib_start = OutputBanks
    /\ L.ib_start <= L.ib_start2 /\ L.ib_start2 <= L.ib_end
    /\ L.ib_end <= L.ab_start /\ L.ab_start <= L.lut_start
    /\ L.lut_start <= Banks(o.accel) - ReservedEnd(o.accel)
LutReserved(o, L) == o.lut => L.lut_start <= Banks(o.accel) - LutBanks
IfmFits(o, L) ==
    IF Elementwise(o) /\ o.binary THEN L.ib_start2 - L.ib_start >= IfmNeed(o)
    ELSE L.ib_end - L.ib_start >= IfmNeed(o)
Ifm2Fits(o, L) == (Elementwise(o) /\ o.binary) => L.ib_end - L.ib_start2 >= Ifm2Need(o)
AccFits(o, L) == ~Elementwise(o) => L.lut_start - L.ab_start >= AccNeed(o)

Requirements == <<"BlockOK", "Ordered", "LutReserved", "IfmFits", "Ifm2Fits", "AccFits">>
Holds(name, o, L) ==
    CASE name = "BlockOK" -> BlockOK(o.accel, o.blk)
      [] name = "Ordered" -> Ordered(o, L)
      [] name = "LutReserved" -> LutReserved(o, L)
      [] name = "IfmFits" -> IfmFits(o, L)
      [] name = "Ifm2Fits" -> Ifm2Fits(o, L)
      [] name = "AccFits" -> AccFits(o, L)
Failing(o, L) == { Requirements[i] : i \in { j \in 1..Len(Requirements) : ~Holds(Requirements[j], o, L) } }
Valid(o, L) == Failing(o, L) = {}
=============================================================================
