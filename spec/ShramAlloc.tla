----------------------------- MODULE ShramAlloc -----------------------------
(* C15 - TLA+ transcription of the bank arithmetic of ethosu/vela/architecture_allocator.py
   (_try_block_config, try_block_config, fit_block_for_ofm, _get_ifm_blocksize, _ifm_blockdepth,
   _acc_type, the candidate enumeration of find_block_config) and of the candidate enumeration of
   api.npu_find_block_configs.  It is a model of the *code*; the requirement it has to meet is
   Shram.tla.  ShramAllocMC.tla lets the model checker show, for every point of a grid of operations x blocks x
   six accelerators, that a layout produced by this arithmetic satisfies Shram!Valid.
   ShramTrace.tla re-uses Try() to report where the real code and this transcription disagree
   (model drift - evidence, never a violation). *)
EXTENDS Integers, Sequences, FiniteSets, TLC
S == INSTANCE Shram

NoLayout == [none |-> TRUE]

(* ---- _try_block_config(shram, ew_usage, ofm_block, ifm_block, ifm_bits, ifm_granule,
                          acc_bits, acc_granule, lut_banks) ---------------------------------------- *)
TryLayout(total_banks, ew, ofm_block, ifm_block, ifm_bits, ifm_granule, acc_bits, acc_granule, lut_banks) ==
    LET ifm_bytes == ifm_block.w * ifm_block.h * S!RoundUp((ifm_block.d * ifm_bits) \div 8, 8)
        ifm_banks == S!RoundUp(S!CeilDiv(ifm_bytes, 1024) * 2, ifm_granule)
        lut_start == total_banks - lut_banks
        ifm_end0  == 2 + ifm_banks                        \* shram.reserved_output_banks = 2
        ifm2_start == ifm_end0
        acc_bytes == (ofm_block.w * ofm_block.h * S!RoundUp(ofm_block.d, 8) * acc_bits) \div 8
        acc_banks == S!RoundUp(S!CeilDiv(acc_bytes, 1024) * 2, acc_granule)
        acc_start == IF ew = "no" THEN lut_start - acc_banks ELSE lut_start
        ifm2_banks == IF ew = "full" THEN ifm_banks ELSE 0
        ifm_end == IF ew = "no" THEN ifm_end0 ELSE acc_start
    IN  IF ew # "no" /\ ifm2_start + ifm2_banks > acc_start THEN NoLayout
        ELSE IF ifm_end > acc_start THEN NoLayout
        ELSE [ib_start |-> 2, ib_start2 |-> ifm2_start, ib_end |-> ifm_end, ab_start |-> acc_start,
              lut_start |-> lut_start]

(* ---- helpers of try_block_config / find_block_config ----------------------------------------
   case record c: accel, kind \in {"conv","dw","pool","rsum","ew"}, scalar, bits, scaled, lut,
   kah, kaw (kernel.area_height/width), sy, sx, up (0 NONE, 1 NEAREST, 2 TRANSPOSE), ifm_d, part, ofm_h *)
EwUsage(c) == IF c.kind = "ew" THEN (IF c.scalar THEN "scalar" ELSE "full") ELSE "no"
AccType(c) == IF c.bits = 16 /\ c.kind # "pool" /\ c.scaled THEN 40 ELSE 32
IsEqualDepthOp(c) == EwUsage(c) # "no" \/ c.kind = "pool" \/ c.kind = "dw"
IfmBlockDepthT(c) ==
    IF c.bits = 16 THEN S!RoundUp(S!Min(c.ifm_d, 16), 4)
    ELSE S!RoundUp(S!Min(c.ifm_d, IF c.part THEN 16 ELSE 32), 8)      \* arch.ifm_ublock.depth = 8 on all parts
RequiredSize(value, stride, border, upscale, nearest) == S!CeilDiv((value - 1) * stride + border + nearest, upscale)
GetIfmBlocksize(c, b) ==
    LET ub == S!UBlock(c.accel)
        upscale == IF c.up = 0 THEN 1 ELSE 2
        nearest == IF c.up = 1 THEN 1 ELSE 0
    IN [h |-> S!RoundUp(RequiredSize(b.h, c.sy, S!Min(c.kah, 8), upscale, nearest), ub.h),     \* SubKernelMax = 8 x 8
        w |-> S!RoundUp(RequiredSize(b.w, c.sx, S!Min(c.kaw, 8), upscale, nearest), ub.w),
        d |-> b.d]
(* kernel.height == 1 <=> kernel.area_height() == 1 *)
FitBlockForOfm(c, b) ==
    IF c.ofm_h = 1 /\ c.kah = 1 /\ S!UBlock(c.accel).h = 2 THEN [h |-> S!Min(b.h, c.ofm_h), w |-> b.w, d |-> b.d] ELSE b
ValidityCheck(a, b) ==
    LET ub == S!UBlock(a) IN
    /\ b.w > 0 /\ b.w <= 64 /\ b.w % ub.w = 0
    /\ b.h > 0 /\ b.h <= 32 /\ b.h % ub.h = 0
    /\ b.d > 0 /\ b.d <= 128 /\ b.d % ub.d = 0

(* arithmetic shared by try_block_config and the body of find_block_config's loop, for a given accumulator width *)
Place(c, b, accbits) ==
    LET ew == EwUsage(c)
        ifm_granule == S!IfmGranule(c.accel, c.bits, ew # "no")
        acc_granule == S!AccGranule(c.accel, accbits)
        lut_banks == S!Max(IF c.lut THEN 2 ELSE 0, S!ReservedEnd(c.accel))
        ib0 == GetIfmBlocksize(c, b)
        ifm_block == IF IsEqualDepthOp(c) THEN ib0 ELSE [ib0 EXCEPT !.d = IfmBlockDepthT(c)]
    IN TryLayout(S!Banks(c.accel), ew, FitBlockForOfm(c, b), ifm_block, c.bits, ifm_granule, accbits, acc_granule, lut_banks)
TryAcc(c, b, accbits) == IF ~ValidityCheck(c.accel, b) THEN NoLayout ELSE Place(c, b, accbits)
Try(c, b) == TryAcc(c, b, AccType(c))

(* ---- candidate enumeration -------------------------------------------------------------------- *)
Steps(lo, hi, step) == { lo + k * step : k \in 0..((hi - lo) \div step) }    \* range(lo, hi + 1, step), hi >= lo - step
(* find_block_config: depth loop *)
RECURSIVE FindDepths(_, _, _, _)
Bump(depth, ofm_d) == IF depth < ofm_d THEN S!RoundUp(depth, 16) ELSE depth
FindDepths(depth, ss_d, ub_d, ofm_d) ==
    IF depth > ss_d THEN {} ELSE {depth} \cup FindDepths(Bump(depth + ub_d, ofm_d), ss_d, ub_d, ofm_d)
FindCandidates(a, ofm) ==
    LET ub == S!UBlock(a)
        ss == [h |-> S!RoundUp(S!Min(ofm.h, 32), ub.h), w |-> S!RoundUp(S!Min(ofm.w, 64), ub.w),
               d |-> S!RoundUp(S!Min(ofm.d, 128), ub.d)]
        d0 == Bump(S!Max(ub.d, S!Min(ss.d, 16)), ofm.d)
    IN { [h |-> h, w |-> w, d |-> d] : h \in Steps(ub.h, ss.h, ub.h), w \in Steps(ub.w, ss.w, ub.w),
                                        d \in FindDepths(d0, ss.d, ub.d, ofm.d) }
(* api.npu_find_block_configs: the loops before try_block_config filters.  As written the code compares a
   register-level resampling_mode with NpuResamplingMode.NONE, which is never equal, so the minimum
   height/width step is max(micro-block, 2) for every operation; QueryMin models a correct comparison
   when Literal = FALSE and the code as written when Literal = TRUE. *)
QueryMin(u, up, literal) == S!Max(u, IF literal \/ up # 0 THEN 2 ELSE 1)
QueryCandidates(a, ofm, up, literal) ==
    LET ub == S!UBlock(a)
        mw == S!Min(64, ofm.w)  mh == S!Min(32, ofm.h)  md == S!Min(128, ofm.d)
        minw == QueryMin(ub.w, up, literal)  minh == QueryMin(ub.h, up, literal)
    IN { [h |-> h, w |-> w, d |-> d] : w \in Steps(minw, mw + minw - 1, minw), h \in Steps(minh, mh + minh - 1, minh),
             d \in { x \in Steps(ub.d, md + ub.d - 1, ub.d) : x >= md \/ x % 16 = 0 } }
=============================================================================
