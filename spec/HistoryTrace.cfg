SPECIFICATION Spec
CONSTANT PolicyC = "as_is"
INVARIANT Report
POSTCONDITION Consumed
CHECK_DEADLOCK FALSE
