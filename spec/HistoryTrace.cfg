SPECIFICATION Spec
CONSTANT PolicyC = "clear_at_entry"
INVARIANT Report
POSTCONDITION Consumed
CHECK_DEADLOCK FALSE
