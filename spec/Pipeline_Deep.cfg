SPECIFICATION Spec
CONSTANTS MaxN = 6
 MaxC = 4
 RegsNeedFlashAlloc = TRUE
INVARIANT WriteComplete
INVARIANT RegsSeeFinalAddresses
INVARIANT NoWriteAfterFail
INVARIANT FlashFixedBeforeSer
CHECK_DEADLOCK FALSE
