---------------------------- MODULE WeightOrder ----------------------------
(* The order in which an Ethos-U weight decoder hands weights to the MAC array
   (property C07, reused by C08).  Written from the architecture description:

   * The OFM depth is processed in OFM blocks of `oblk` channels (the last one clipped).
   * For every OFM block the IFM depth is walked in IFM blocks: 32 channels deep for 8-bit
     IFM in depth-first traversal, 16 channels deep for 16-bit IFM and for part-kernel-first
     traversal.  A depthwise operator has a single IFM "block" (each OFM channel reads only
     its own IFM channel; the source volume has IFM depth 1).
   * A kernel larger than the 8x8 sub-kernel limit is decomposed into sub-kernels, rows
     first.  Under dilation d the limit is 8 DIV d in that axis.
   * Inside one (OFM block, IFM block, sub-kernel):
       depth-first        for each OFM ublock, for each kernel element (row major),
                          for each IFM ublock of the *full* IFM block depth
       part-kernel-first  for each IFM ublock of the IFM block *clipped to the IFM depth*,
                          for each OFM ublock, for each kernel element, the element count padded
                          to a multiple of 4 (8-bit IFM) or 2 (16-bit IFM)
       depthwise          for each OFM ublock, for each kernel element, count padded to 4
     and innermost, for every position, the OFM ublock depth x IFM ublock depth weights
     (OFM major).  Depthwise has IFM ublock depth 1 here.
   * Every position that falls outside the source volume (channel beyond the depth, element
     beyond the sub-kernel) is a Pad: the stream carries a zero there.

   Order(c) is the resulting sequence of source coordinates <<o, y, x, i>> or Pad.
   The definition is a nest of comprehensions over index sequences; it shares no text
   with mlw_encode.c:reorder(). *)
EXTENDS Integers, Sequences, FiniteSets, TLC

Pad == <<-1, -1, -1, -1>>

Lesser(a, b) == IF a < b THEN a ELSE b
RoundUp(a, m) == ((a + m - 1) \div m) * m

(* the sequence lo, lo+step, ... of values below hi *)
Steps(lo, hi, step) == [k \in 1..((hi - lo + step - 1) \div step) |-> lo + (k - 1) * step]

(* concatenation of a sequence of sequences *)
Flatten(ss) == IF Len(ss) = 0 THEN <<>>
               ELSE LET f[i \in 1..Len(ss)] == IF i = 1 THEN ss[1] ELSE f[i - 1] \o ss[i] IN f[Len(ss)]
(* concatenation of Body(S[1]), Body(S[2]), ... *)
For(S, Body(_)) == Flatten([k \in 1..Len(S) |-> Body(S[k])])

(* micro-block depths of the six accelerators: <<IFM ublock depth, OFM ublock depth>> *)
Accelerators == {"U55_32", "U55_64", "U55_128", "U55_256", "U65_256", "U65_512"}
UBlocks(acc) == IF acc = "U55_32" THEN <<8, 4>> ELSE <<8, 8>>

SubKernelLimit == 8

(* A configuration:
     od, kh, kw, id  source volume (OHWI);  iub, oub  micro-block depths;  oblk  OFM block depth
     trav \in {"depth", "part", "dw"};  bits \in {8, 16};  dily, dilx \in {1, 2}               *)
IfmBlockDepth(c) == IF c.trav = "part" \/ c.bits = 16 THEN 16 ELSE 32
ElementPad(c) == IF c.trav = "part" THEN (IF c.bits = 16 THEN 2 ELSE 4)
                 ELSE IF c.trav = "dw" THEN 4 ELSE 1

ValidCfg(c) ==
    /\ c.od >= 1 /\ c.kh >= 1 /\ c.kw >= 1 /\ c.id >= 1
    /\ c.trav \in {"depth", "part", "dw"} /\ c.bits \in {8, 16}
    /\ c.dily \in {1, 2} /\ c.dilx \in {1, 2}
    /\ c.oblk >= 1
    /\ (c.oblk % c.oub = 0 \/ c.od <= c.oblk)   \* whole OFM ublocks per block, or a single (clipped) block
    /\ (c.trav = "dw" => c.id = 1)

Order(c) ==
  LET subH == SubKernelLimit \div c.dily
      subW == SubKernelLimit \div c.dilx
      ifmExtent == IF c.trav = "dw" THEN 1 ELSE c.id
      ublockIz == IF c.trav = "dw" THEN 1 ELSE c.iub
  IN
  For(Steps(0, c.od, c.oblk), LAMBDA ob :
    LET obDepth == Lesser(c.oblk, c.od - ob) IN
    For(Steps(0, ifmExtent, IfmBlockDepth(c)), LAMBDA ib :
      LET ibDepth == CASE c.trav = "dw" -> c.iub
                       [] c.trav = "part" -> Lesser(IfmBlockDepth(c), c.id - ib)
                       [] OTHER -> IfmBlockDepth(c)
          (* IFM ublocks of this block: outside the element loop (part-kernel) or inside it *)
          iubSeq == Steps(0, ibDepth, c.iub)
          outerI == IF c.trav = "part" THEN iubSeq ELSE <<0>>
          innerI == IF c.trav = "part" THEN <<0>> ELSE iubSeq
      IN
      For(Steps(0, c.kh, subH), LAMBDA sy :
        LET sh == Lesser(subH, c.kh - sy) IN
        For(Steps(0, c.kw, subW), LAMBDA sx :
          LET sw == Lesser(subW, c.kw - sx)
              nElem == RoundUp(sw * sh, ElementPad(c))
          IN
          For(outerI, LAMBDA iuo :
            For(Steps(0, obDepth, c.oub), LAMBDA ou :
              For(Steps(0, nElem, 1), LAMBDA e :
                For(innerI, LAMBDA iui :
                  [k \in 1..(c.oub * ublockIz) |->
                     LET oz == (k - 1) \div ublockIz
                         iz == (k - 1) % ublockIz
                         o == ob + ou + oz
                         i == ib + iuo + iui + iz
                         ky == e \div sw
                         kx == e % sw
                     IN IF o < c.od /\ i < c.id /\ ky < sh
                        THEN <<o, sy + ky, sx + kx, i>> ELSE Pad ]))))))))

(* ---- what makes it an *order*: a bijection onto the volume, plus pads ------------------- *)
Volume(c) == (0..(c.od - 1)) \X (0..(c.kh - 1)) \X (0..(c.kw - 1)) \X (0..(c.id - 1))

NonPadPositions(s) == {k \in 1..Len(s) : s[k] # Pad}

InVolume(c, q) == /\ q[1] \in 0..(c.od - 1) /\ q[2] \in 0..(c.kh - 1)
                  /\ q[3] \in 0..(c.kw - 1) /\ q[4] \in 0..(c.id - 1)

(* injective on the non-pad positions, into the volume, and as many as the volume has points
   (hence onto): every source weight appears exactly once, everything else is a Pad *)
OrderBijection(c) ==
  LET s == Order(c)
      np == NonPadPositions(s)
  IN /\ \A k \in np : InVolume(c, s[k])
     /\ Cardinality({s[k] : k \in np}) = Cardinality(np)
     /\ Cardinality(np) = c.od * c.kh * c.kw * c.id

(* row-major OHWI offset (1-based) of a coordinate in the flattened source volume *)
Offset(c, q) == ((q[1] * c.kh + q[2]) * c.kw + q[3]) * c.id + q[4] + 1

(* the weight stream the hardware must see for flattened source weights w *)
Reordered(c, w) == LET s == Order(c) IN [k \in 1..Len(s) |-> IF s[k] = Pad THEN 0 ELSE w[Offset(c, s[k])]]
=============================================================================
