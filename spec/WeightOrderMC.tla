--------------------------- MODULE WeightOrderMC ---------------------------
(* Model checking of WeightOrder over a lattice of small configurations:
   Order(c) is a bijection onto the source volume plus pads, for both traversals, depthwise,
   8/16-bit IFM, both OFM micro-block depths, block depths, dilation 1/2 per axis and kernels
   up to 3x3 plus the decomposing kernels 9x1, 1x9 and 5x5.
   Two-stage state space so that TLC's workers share the evaluation: the initial states pick
   the volume, the Pick actions the rest. *)
EXTENDS WeightOrder

CONSTANTS OfmDepths, IfmDepths, KernelHs, KernelWs, Decomposing, BlockDepths

Kernels == (KernelHs \X KernelWs) \cup (IF Decomposing THEN {<<9, 1>>, <<1, 9>>, <<5, 5>>} ELSE {})

VARIABLES stage, c
vars == <<stage, c>>

Base == [od : OfmDepths, id : IfmDepths, k : Kernels]
Init == stage = 0 /\ c \in Base

Full(b, acc, oblk, trav, bits, dy, dx) ==
  [od |-> b.od, kh |-> b.k[1], kw |-> b.k[2], id |-> IF trav = "dw" THEN 1 ELSE b.id,
   iub |-> UBlocks(acc)[1], oub |-> UBlocks(acc)[2], oblk |-> oblk, trav |-> trav, bits |-> bits,
   dily |-> dy, dilx |-> dx]

(* U55_32 and U55_128 stand for the two distinct micro-block shapes <<8,4>> and <<8,8>> *)
Pick(trav) == /\ stage = 0
              /\ (trav = "dw" => c.id = 1)                    \* depthwise volumes have IFM depth 1
              /\ \E acc \in {"U55_32", "U55_128"}, oblk \in BlockDepths, bits \in {8, 16}, dy \in {1, 2}, dx \in {1, 2} :
                    /\ (c.k[1] <= 4 /\ c.k[2] <= 4 => dy = dx)   \* no decomposition: dilation cannot matter
                    /\ ~(oblk % UBlocks(acc)[2] # 0 /\ c.od > oblk)    \* whole micro-blocks, or one clipped block
                    /\ c' = Full(c, acc, oblk, trav, bits, dy, dx)
              /\ stage' = 1
PickDepthFirst == Pick("depth")
PickPartKernel == Pick("part")
PickDepthwise == Pick("dw")
Next == PickDepthFirst \/ PickPartKernel \/ PickDepthwise
Spec == Init /\ [][Next]_vars

AllUBlockShapesCovered == {UBlocks(a) : a \in Accelerators} = {UBlocks("U55_32"), UBlocks("U55_128")}
ASSUME AllUBlockShapesCovered

OrderIsBijection == stage = 1 => ValidCfg(c) /\ OrderBijection(c)
(* negative control: pads are really needed somewhere (must be violated) *)
NeverPads == stage = 1 => Len(Order(c)) = c.od * c.kh * c.kw * c.id
=============================================================================
