SPECIFICATION Spec
CONSTANTS Cells = {1, 2, 3}
 MaxDma = 2
 MaxKern = 2
 N = 4
 KernelWatermarkSlack = 1
INVARIANT NoHazard
CHECK_DEADLOCK FALSE
