---------------------- MODULE SupportedOpsReport ----------------------
(* GENERATED at check time from the SUPPORTED_OPS.md the working tree produces
   (harness/supported_report.py).  The copy under /verif/spec is only a snapshot for syntax checks. *)
Covered == {"ADD", "AVERAGE_POOL_2D", "CONV_2D", "DEPTHWISE_CONV_2D", "EXPAND_DIMS", "FULLY_CONNECTED", "MAX_POOL_2D", "MEAN", "MUL", "RESHAPE", "SQUEEZE", "SUB"}
InTable == {"ADD", "AVERAGE_POOL_2D", "CONV_2D", "DEPTHWISE_CONV_2D", "EXPAND_DIMS", "FULLY_CONNECTED", "MAX_POOL_2D", "MEAN", "MUL", "RESHAPE", "SQUEEZE", "SUB"}
Unmodelled == {}
ApFHi == 8
ApFLo == 1
ApSwMin == 1
ApSwValidAbove == 3
ApVHHi == 256
ApVHLo == 1
ApVPHi == 65536
ApVPLo == 1
BatchExempt == {"FULLY_CONNECTED", "RESHAPE", "SHAPE", "SLICE", "SOFTMAX", "SPLIT", "SPLIT_V", "SQUEEZE", "STRIDED_SLICE", "UNPACK"}
BatchVal == 1
BiasBits == [CONV_2D |-> 40, DEPTHWISE_CONV_2D |-> 40, MAX_POOL_2D |-> 0, AVERAGE_POOL_2D |-> 0, ADD |-> 0, SUB |-> 0, MUL |-> 0, FULLY_CONNECTED |-> 40, RESHAPE |-> 0, SQUEEZE |-> 0, EXPAND_DIMS |-> 0, MEAN |-> 0]
BiasTypes == [CONV_2D |-> {"int32", "int64"}, DEPTHWISE_CONV_2D |-> {"int32", "int64"}, MAX_POOL_2D |-> {}, AVERAGE_POOL_2D |-> {}, ADD |-> {}, SUB |-> {}, MUL |-> {}, FULLY_CONNECTED |-> {"int32", "int64"}, RESHAPE |-> {}, SQUEEZE |-> {}, EXPAND_DIMS |-> {}, MEAN |-> {}]
DilHHi == [CONV_2D |-> 64, DEPTHWISE_CONV_2D |-> 64, MAX_POOL_2D |-> 0, AVERAGE_POOL_2D |-> 0, ADD |-> 0, SUB |-> 0, MUL |-> 0, FULLY_CONNECTED |-> 0, RESHAPE |-> 0, SQUEEZE |-> 0, EXPAND_DIMS |-> 0, MEAN |-> 0]
DilHLo == [CONV_2D |-> 1, DEPTHWISE_CONV_2D |-> 1, MAX_POOL_2D |-> 0, AVERAGE_POOL_2D |-> 0, ADD |-> 0, SUB |-> 0, MUL |-> 0, FULLY_CONNECTED |-> 0, RESHAPE |-> 0, SQUEEZE |-> 0, EXPAND_DIMS |-> 0, MEAN |-> 0]
DilPHi == [CONV_2D |-> 4096, DEPTHWISE_CONV_2D |-> 4096, MAX_POOL_2D |-> 0, AVERAGE_POOL_2D |-> 0, ADD |-> 0, SUB |-> 0, MUL |-> 0, FULLY_CONNECTED |-> 0, RESHAPE |-> 0, SQUEEZE |-> 0, EXPAND_DIMS |-> 0, MEAN |-> 0]
DilPLo == [CONV_2D |-> 1, DEPTHWISE_CONV_2D |-> 1, MAX_POOL_2D |-> 0, AVERAGE_POOL_2D |-> 0, ADD |-> 0, SUB |-> 0, MUL |-> 0, FULLY_CONNECTED |-> 0, RESHAPE |-> 0, SQUEEZE |-> 0, EXPAND_DIMS |-> 0, MEAN |-> 0]
DimHi == 65535
DimLo == 1
DwSHi == 3
DwSLo == 1
FafOutTypes == {"int16", "int8", "uint8"}
FafSet == {"LOGISTIC", "RELU", "RELU6", "RELU_N1_TO_1", "TANH"}
Int32Ops == {"ADD", "ARG_MAX", "MUL", "SHAPE", "SUB", "TRANSPOSE"}
MaxRank == 4
MeanDMax == 4096
MeanMinRank == 2
MeanProdI16 == 65536
MeanProdI8 == 16777216
MeanProdU8 == 8388608
MeanWMax == 4096
MpHHi == 256
MpHLo == 1
MpPHi == 65536
MpPLo == 1
PerAxisOps == {"CONV_2D", "DEPTHWISE_CONV_2D", "TRANSPOSE_CONV"}
PsHi == 3
PsLo == 1
ScHHi == [CONV_2D |-> 3, DEPTHWISE_CONV_2D |-> 0, MAX_POOL_2D |-> 0, AVERAGE_POOL_2D |-> 3, ADD |-> 0, SUB |-> 0, MUL |-> 0, FULLY_CONNECTED |-> 0, RESHAPE |-> 0, SQUEEZE |-> 0, EXPAND_DIMS |-> 0, MEAN |-> 0]
ScHLo == [CONV_2D |-> 1, DEPTHWISE_CONV_2D |-> 0, MAX_POOL_2D |-> 0, AVERAGE_POOL_2D |-> 1, ADD |-> 0, SUB |-> 0, MUL |-> 0, FULLY_CONNECTED |-> 0, RESHAPE |-> 0, SQUEEZE |-> 0, EXPAND_DIMS |-> 0, MEAN |-> 0]
ScWHi == [CONV_2D |-> 3, DEPTHWISE_CONV_2D |-> 0, MAX_POOL_2D |-> 0, AVERAGE_POOL_2D |-> 3, ADD |-> 0, SUB |-> 0, MUL |-> 0, FULLY_CONNECTED |-> 0, RESHAPE |-> 0, SQUEEZE |-> 0, EXPAND_DIMS |-> 0, MEAN |-> 0]
ScWLo == [CONV_2D |-> 1, DEPTHWISE_CONV_2D |-> 0, MAX_POOL_2D |-> 0, AVERAGE_POOL_2D |-> 1, ADD |-> 0, SUB |-> 0, MUL |-> 0, FULLY_CONNECTED |-> 0, RESHAPE |-> 0, SQUEEZE |-> 0, EXPAND_DIMS |-> 0, MEAN |-> 0]
ScalarOps == {"ADD", "ARG_MAX", "EXPAND_DIMS", "MAXIMUM", "MEAN", "MINIMUM", "MUL", "QUANTIZE", "SPLIT", "SPLIT_V", "SUB"}
TypeSet == {"int16", "int32", "int8", "uint8"}
WSumMax == [CONV_2D |-> 8323072, DEPTHWISE_CONV_2D |-> 8323072, MAX_POOL_2D |-> 0, AVERAGE_POOL_2D |-> 0, ADD |-> 0, SUB |-> 0, MUL |-> 0, FULLY_CONNECTED |-> 0, RESHAPE |-> 0, SQUEEZE |-> 0, EXPAND_DIMS |-> 0, MEAN |-> 0]
Listed == [CONV_2D |-> {"attrs", "b40", "batch", "bshape", "btype", "defshape", "dil_int", "dilh", "dilprod", "dims", "faf", "faftype", "groups_depth", "groups_filters", "inscalar", "int32ops", "nodynamic", "noneconst", "outscalar", "peraxis", "quant", "rank", "scalef32", "scalefinite", "stride_crit", "stride_int", "types", "w8", "wconst", "wsum"}, DEPTHWISE_CONV_2D |-> {"attrs", "b40", "batch", "bshape", "btype", "defshape", "dil_int", "dilh", "dilprod", "dims", "dw_mult", "dw_stride", "faf", "faftype", "inscalar", "int32ops", "nodynamic", "noneconst", "outscalar", "peraxis", "quant", "rank", "scalef32", "scalefinite", "stride_int", "types", "w8", "wconst", "wsum"}, MAX_POOL_2D |-> {"attrs", "batch", "defshape", "dims", "faf", "faftype", "filter_int", "inout_type", "inscalar", "int32ops", "mp_h", "mp_prod", "nodynamic", "noneconst", "outscalar", "peraxis", "pool_stride", "quant", "rank", "scalef32", "scalefinite", "stride_int", "types"}, AVERAGE_POOL_2D |-> {"ap_filter", "ap_stride_pad", "ap_vh", "ap_vprod", "attrs", "batch", "defshape", "dims", "faf", "faftype", "filter_int", "inout_type", "inscalar", "int32ops", "nodynamic", "noneconst", "outscalar", "peraxis", "quant", "rank", "scalef32", "scalefinite", "stride_crit", "stride_int", "types"}, ADD |-> {"attrs", "batch", "broadcast", "defshape", "dims", "either_shape", "faf", "faftype", "in_types", "inscalar", "int32ops", "nodynamic", "noneconst", "outscalar", "peraxis", "quant", "rank", "scalef32", "scalefinite", "signed", "types", "unsigned"}, SUB |-> {"attrs", "batch", "broadcast", "defshape", "dims", "either_shape", "faf", "faftype", "in_types", "inscalar", "int32ops", "nodynamic", "noneconst", "outscalar", "peraxis", "quant", "rank", "scalef32", "scalefinite", "signed", "types", "unsigned"}, MUL |-> {"attrs", "batch", "broadcast", "defshape", "dims", "either_shape", "faf", "faftype", "in_types", "inscalar", "int32ops", "nodynamic", "noneconst", "outscalar", "peraxis", "quant", "rank", "scalef32", "scalefinite", "signed", "types", "unsigned"}, FULLY_CONNECTED |-> {"attrs", "b40", "bshape", "btype", "defshape", "dims", "faf", "faftype", "fc_2d", "fc_knd", "inscalar", "int32ops", "nodynamic", "noneconst", "outscalar", "peraxis", "quant", "rank", "scalef32", "scalefinite", "types", "w8", "wconst"}, RESHAPE |-> {"attrs", "defshape", "dims", "faf", "faftype", "inscalar", "int32ops", "nodynamic", "noneconst", "outscalar", "peraxis", "quant", "rank", "rs_const", "rs_elems", "rs_quant", "scalef32", "scalefinite", "types"}, SQUEEZE |-> {"attrs", "defshape", "dims", "faf", "faftype", "inscalar", "int32ops", "nodynamic", "noneconst", "outscalar", "peraxis", "quant", "rank", "rs_elems", "rs_quant", "scalef32", "scalefinite", "types"}, EXPAND_DIMS |-> {"attrs", "batch", "defshape", "dims", "faf", "faftype", "inscalar", "int32ops", "nodynamic", "noneconst", "outscalar", "peraxis", "quant", "rank", "rs_elems", "rs_quant", "scalef32", "scalefinite", "types"}, MEAN |-> {"attrs", "batch", "defshape", "dims", "faf", "faftype", "inscalar", "int32ops", "mean_axis", "mean_depth", "mean_prod", "mean_rank", "mean_width", "nodynamic", "noneconst", "outscalar", "peraxis", "quant", "rank", "scalef32", "scalefinite", "types"}]
=======================================================================
