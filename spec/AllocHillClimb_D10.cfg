SPECIFICATION SpecD10
CONSTANT MaxN = 5
CONSTANT T = 5
CONSTANT Sizes = {16, 32, 48, 80}
CONSTANT Aligns = {16, 32, 64, 128}
CONSTANT Eqs = {0}
CONSTANT MaxAddr = 100000
CONSTANT AddrStep = 1
CONSTANT MaxIters = {2}
CONSTANT MemLimits = {0}
CONSTANT MinImprove = 6
CONSTANT MaxStuck = 1
CONSTANT Guarded = FALSE
INVARIANT Terminates
CHECK_DEADLOCK FALSE
