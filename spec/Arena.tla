------------------------------- MODULE Arena -------------------------------
(* Offline arena plan of an output model (property C12).
   A plan is a sequence of tensor records
     [off, size, first, last, var, cpu, cin, cout]
   off/size : arena byte interval;  first/last : first definition / last use in the operator order of the
   output graph (-1 = subgraph input, number of operators = subgraph output);  var : a variable (state) tensor -
   it keeps its value from one inference to the next, so it is live throughout whatever its uses are;
   cpu : operand of a CPU operator or of the custom operator (alignment applies);
   cin / cout : sets of ethos-u operators that read / write the tensor.
   Two tensors may share bytes only if their live intervals are disjoint - except that an output of an
   ethos-u operator may share bytes with an input of that same operator whose last use is that operator
   (Vela fuses the ranges of in-place elementwise operations; byte-level safety of that is C03).

   The activations of an output model: every tensor without constant data that an operator of the output graph
   reads or writes or that is a subgraph input / output, as records
     [name, off (-1 = the metadata gives it no place), size, first, last, var, scratch]
   scratch : the ethos-u scratch / fast-scratch operand (the arena as the NPU sees it, not a value of its own).
   PlanComplete: every activation has a place (the kernels write it wherever the run time puts it otherwise).
   PeakLive: a lower bound of the arena that does not depend on the plan at all - the activations that hold a
   value between two consecutive operators cannot share bytes, and neither can the operands of one CPU operator
   (a CPU kernel never works in place here; for an ethos-u operator the in-place exception above applies, so only
   the values that survive it are counted).                                                                  *)
EXTENDS Integers, Sequences, FiniteSets

S(seq) == {seq[i] : i \in 1..Len(seq)}
First(a) == IF a.var THEN -1 ELSE a.first
Last(a, nops) == IF a.var THEN nops ELSE a.last
BytesOverlap(a, b) == a.off < b.off + b.size /\ b.off < a.off + a.size /\ a.size > 0 /\ b.size > 0
LiveOverlap(a, b, nops) == First(a) <= Last(b, nops) /\ First(b) <= Last(a, nops)
InPlace(a, b, nops) ==        \* a written by custom op k, b read by k for the last time, a born at k
   \E k \in S(a.cout) : k \in S(b.cin) /\ Last(b, nops) = k /\ First(a) = k
Conflict(a, b, nops) == BytesOverlap(a, b) /\ LiveOverlap(a, b, nops) /\ ~InPlace(a, b, nops) /\ ~InPlace(b, a, nops)

NoOverlapLive(plan, nops) == \A i, j \in 1..Len(plan) : i < j => ~Conflict(plan[i], plan[j], nops)
Aligned(plan, align) == \A i \in 1..Len(plan) : plan[i].cpu => plan[i].off % align = 0
Required(plan) == LET E == {plan[i].off + plan[i].size : i \in 1..Len(plan)} IN
                  IF E = {} THEN 0 ELSE CHOOSE m \in E : \A e \in E : e <= m

Unplaced(acts) == {i \in 1..Len(acts) : ~acts[i].scratch /\ acts[i].size > 0 /\ acts[i].off < 0}
PlanComplete(acts) == Unplaced(acts) = {}

RECURSIVE SumSizes(_, _)
SumSizes(acts, I) == IF I = {} THEN 0 ELSE LET i == CHOOSE x \in I : TRUE IN acts[i].size + SumSizes(acts, I \ {i})
Values(acts) == {i \in 1..Len(acts) : ~acts[i].scratch}
HeldAfter(acts, k, nops) == {i \in Values(acts) : First(acts[i]) <= k /\ Last(acts[i], nops) >= k + 1}
LiveAt(acts, k, nops) == {i \in Values(acts) : First(acts[i]) <= k /\ k <= Last(acts[i], nops)}
SetMax0(X) == IF X = {} THEN 0 ELSE CHOOSE m \in X : \A e \in X : e <= m
PeakLive(acts, nops, cpuops) ==
   SetMax0({SumSizes(acts, HeldAfter(acts, k, nops)) : k \in -1..(nops - 1)}
           \cup {SumSizes(acts, LiveAt(acts, k, nops)) : k \in cpuops})
=============================================================================
