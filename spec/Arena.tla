------------------------------- MODULE Arena -------------------------------
(* Offline arena plan of an output model (property C12).
   A plan is a sequence of tensor records
     [off, size, first, last, cpu, cin, cout]
   off/size : arena byte interval;  first/last : first definition / last use in the operator order of the
   output graph (-1 = subgraph input, number of operators = subgraph output, variables live throughout);
   cpu : operand of a CPU operator or of the custom operator (alignment applies);
   cin / cout : sets of ethos-u operators that read / write the tensor.
   Two tensors may share bytes only if their live intervals are disjoint - except that an output of an
   ethos-u operator may share bytes with an input of that same operator whose last use is that operator
   (Vela fuses the ranges of in-place elementwise operations; byte-level safety of that is C03).          *)
EXTENDS Integers, Sequences, FiniteSets

S(seq) == {seq[i] : i \in 1..Len(seq)}
BytesOverlap(a, b) == a.off < b.off + b.size /\ b.off < a.off + a.size /\ a.size > 0 /\ b.size > 0
LiveOverlap(a, b) == a.first <= b.last /\ b.first <= a.last
InPlace(a, b) ==        \* a written by custom op k, b read by k for the last time, a born at k
   \E k \in S(a.cout) : k \in S(b.cin) /\ b.last = k /\ a.first = k
Conflict(a, b) == BytesOverlap(a, b) /\ LiveOverlap(a, b) /\ ~InPlace(a, b) /\ ~InPlace(b, a)

NoOverlapLive(plan) == \A i, j \in 1..Len(plan) : i < j => ~Conflict(plan[i], plan[j])
Aligned(plan, align) == \A i \in 1..Len(plan) : plan[i].cpu => plan[i].off % align = 0
Required(plan) == LET E == {plan[i].off + plan[i].size : i \in 1..Len(plan)} IN
                  IF E = {} THEN 0 ELSE CHOOSE m \in E : \A e \in E : e <= m
=============================================================================
