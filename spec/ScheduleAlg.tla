---------------------------- MODULE ScheduleAlg ----------------------------
(* Pure operators shared by the design-level model of the scheduler's search (Schedule.tla) and by the trace
   specification that validates real compilations (ScheduleTrace.tla).  No constants, no variables.

   (1) the cascade builder (cascade_builder.py CascadeBuilder.build_cascades) over a *view* V of a (sub-)schedule:
         V.lo, V.hi    first / last operator (positions in Scheduler.sched_ops, 1-based)
         V.limit       guiding_mem_limit            V.spill   arch.is_spilling_enabled()
         V.casc[i]     _is_cascadable(op_i, ref_cost[op_i])
         V.link[i]     op_i can be appended to a cascade that ends in op_(i-1): op_(i-1) has exactly one dependant, it
                       is op_i, it is part of the (sub-)schedule, shapes agree, no full IFM / OFM required in between
         V.unc[i]      _estimate_sram_usage(op_i, fallback_cost[op_i])       (uncascaded usage incl. non-local)
         V.ifm[i], V.ofm[i]   full feature-map bytes        V.wb[i]  buffered weight bytes in the reference cost
         V.buf[i], V.rows[i]  bytes / rows of the rolling buffer between op_(i-1) and op_i under the reference cost
         V.nl[i]       non_local_mem_usage of op_i
       Build(V) = set of [start, end, mem, buf] exactly as build_cascades leaves them in ref_schedule.cascades.
   (2) the structural predicates on a schedule S (see the bottom of the module).                                  *)
EXTENDS Integers, Sequences, FiniteSets

Max2(a, b) == IF a >= b THEN a ELSE b
Min2(a, b) == IF a <= b THEN a ELSE b
CeilDiv(a, b) == (a + b - 1) \div b
RoundUp(a, b) == CeilDiv(a, b) * b
RECURSIVE SeqMax(_, _)
SeqMax(s, i) == IF i = 0 THEN 0 ELSE Max2(s[i], SeqMax(s, i - 1))

(* SchedulerOperation._get_stripe_input_requirement / create_scheduler_info on the height axis: IFM rows that one
   stripe of h OFM rows needs (kernel halo included), clamped to the IFM *)
NeedRows(h, k, s, up, nn, ifmh) == Min2(CeilDiv((h - 1) * s + k + nn, up), ifmh)
(* cascade_builder.rolling_buffer_shape on the height axis *)
RollRows(pstripe, cin) == RoundUp(pstripe + cin, cin)

----------------------------------------------------------------------------
(* inner loop of build_cascades: g = cascade proposal that starts at g.start; one call = one pass of `while True` *)
GrowInit(V, a) == [start |-> a, prod |-> a, bufs |-> V.wb[a], best |-> V.unc[a], bestEnd |-> a, stop |-> "go"]

GrowStep(V, peak, g) ==
   LET cur == g.prod + 1 IN
   IF g.prod >= V.hi THEN [g EXCEPT !.stop = "end"]
   ELSE IF ~(V.link[cur] /\ V.casc[cur]) THEN [g EXCEPT !.stop = "blocked"]
   ELSE LET bufs == g.bufs + V.buf[cur] + V.wb[cur]
            unc == V.unc[cur]
        IN IF V.spill
           THEN IF unc < peak \/ bufs > peak
                THEN [g EXCEPT !.stop = "spillstop", !.bufs = bufs]
                ELSE [g EXCEPT !.prod = cur, !.bufs = bufs, !.best = bufs, !.bestEnd = cur]
           ELSE LET ci == V.ifm[g.start]
                    size == ci + bufs + V.ofm[cur] + V.nl[g.start]
                IN IF (unc < peak /\ g.best < peak) \/ (ci + bufs > g.best)
                   THEN [g EXCEPT !.stop = IF ci + bufs > g.best THEN "nogain" ELSE "fits", !.bufs = bufs]
                   ELSE IF size < g.best \/ size < unc
                        THEN [g EXCEPT !.prod = cur, !.bufs = bufs, !.best = size, !.bestEnd = cur]
                        ELSE [g EXCEPT !.prod = cur, !.bufs = bufs]

RECURSIVE GrowAll(_, _, _)
GrowAll(V, peak, g) == IF g.stop # "go" THEN g ELSE GrowAll(V, peak, GrowStep(V, peak, g))

(* outer loop: b = [idx, peak, cascs] *)
BuildInit(V) == [idx |-> V.lo, peak |-> V.limit, cascs |-> {}]
Fallback(V, b) == [idx |-> b.idx + 1, peak |-> IF V.spill THEN b.peak ELSE Max2(V.unc[b.idx], b.peak), cascs |-> b.cascs]
Commit(V, b, g) ==
   IF g.bestEnd > g.start
   THEN [idx |-> g.bestEnd + 1, peak |-> IF V.spill THEN b.peak ELSE Max2(g.best, b.peak),
         cascs |-> b.cascs \cup {[start |-> g.start, end |-> g.bestEnd, mem |-> g.best - V.nl[g.start],
                                  buf |-> {<<i, V.rows[i]>> : i \in g.start + 1..g.bestEnd}]}]
   ELSE Fallback(V, b)
RECURSIVE BuildAll(_, _)
BuildAll(V, b) == IF b.idx > V.hi THEN b
                  ELSE IF ~V.casc[b.idx] THEN BuildAll(V, Fallback(V, b))
                  ELSE BuildAll(V, Commit(V, b, GrowAll(V, b.peak, GrowInit(V, b.idx))))
Build(V) == BuildAll(V, BuildInit(V)).cascs

CascOf(cascs, i) == {c \in cascs : c.start <= i /\ i <= c.end}
(* Scheduler.estimate_schedule_memory_usage of the schedule build_cascades returns (operators outside a cascade carry
   the fallback cost, which has no buffered weights) *)
EstOp(V, cascs, i) == IF CascOf(cascs, i) # {}
                      THEN (CHOOSE c \in CascOf(cascs, i) : TRUE).mem + V.nl[i]
                      ELSE V.ifm[i] + V.ofm[i] + V.nl[i]
RECURSIVE EstUpTo(_, _, _)
EstUpTo(V, cascs, i) == IF i < V.lo THEN 0 ELSE Max2(EstOp(V, cascs, i), EstUpTo(V, cascs, i - 1))
Est(V, cascs) == EstUpTo(V, cascs, V.hi)

(* acceptance loop of Scheduler.optimize_sub_schedule over the proposals props[j] = <<stripe height, number of
   cascades, estimated usage>>: index of the proposal that ends up as best_schedule, 0 = None.
   LimitOf(j) is the bound the estimate is compared with (memory_limit in the code). *)
RECURSIVE AcceptLoop(_, _, _, _)
AcceptLoop(props, limit, j, best) ==
   IF j > Len(props) THEN best
   ELSE IF props[j][3] <= limit /\ props[j][2] <= props[1][2]
        THEN IF props[j][2] = 0 THEN j ELSE AcceptLoop(props, limit, j + 1, j)
        ELSE best

----------------------------------------------------------------------------
(* Structural predicates on a schedule S:
     S.n, S.ofm[i] (OFM rows), S.stripe[i] (stripe rows), S.need[i] (IFM rows one stripe needs), S.cid[i] (cascade id,
     0 = none), S.casc = set of [id, start, end, mem, buf] with buf = set of <<operator, rolling-buffer rows>>        *)
PCascadesPartition(S) ==
   /\ \A c \in S.casc : 1 <= c.start /\ c.end <= S.n /\ c.end - c.start >= 1 /\ c.id = c.end
   /\ \A c, d \in S.casc : c # d => (c.end < d.start \/ d.end < c.start)
   /\ \A c \in S.casc : \A i \in c.start..c.end : S.cid[i] = c.id
   /\ \A i \in 1..S.n : S.cid[i] # 0 => \E c \in S.casc : c.id = S.cid[i] /\ c.start <= i /\ i <= c.end
PStripeWithinOfm(S) == \A i \in 1..S.n : 1 <= S.stripe[i] /\ S.stripe[i] <= S.ofm[i] /\ (S.cid[i] # 0 => S.stripe[i] < S.ofm[i])
PBuffersForNonFirst(S) ==
   \A c \in S.casc : /\ \A i \in c.start + 1..c.end : \E b \in c.buf : b[1] = i /\ b[2] >= S.need[i]
                     /\ \A b \in c.buf : c.start < b[1] /\ b[1] <= c.end
(* room for the stripe the producer writes while the consumer still holds the rows of its own stripe (what
   rolling_buffer_shape is for: producer stripe + consumer stripe input, rounded up) *)
PBuffersHoldProducerStripe(S) ==
   \A c \in S.casc : \A b \in c.buf : (c.start < b[1] /\ b[1] <= c.end) => b[2] >= S.stripe[b[1] - 1] + S.need[b[1]]
PWithinLimitOrMin(peak, limit, minPeak) == peak <= Max2(limit, minPeak)
PMaxOnlyIfFits(choseMax, maxPeak, limit, spill) == choseMax => (maxPeak < limit /\ ~spill)
=============================================================================
