----------------------------- MODULE SupportedOps -----------------------------
(* C16: an operator instance that satisfies every constraint the supported-operators report lists
   for it runs on the NPU; one that violates a listed constraint stays on the CPU.

   The constants (ranges, type sets, which constraint kinds are listed for which operator) come from
   module SupportedOpsReport, GENERATED at check time from the SUPPORTED_OPS.md the working tree
   produces; this module only knows constraint *kinds*.  Each kind is a three-valued predicate on a
   case record: "T" holds, "F" violated, "U" the report's wording does not decide it (e.g. the stride
   criteria for stride width > 3, a bias magnitude of exactly 40 bits).
       Expect(c) = "CPU" if some listed constraint is "F",
                   "ANY" if none is "F" but one is "U" (or the report has bullets this module cannot read),
                   "NPU" otherwise.
   The same definitions (a) generate the test cases (Cases: per numeric constraint the points
   lo-1, lo, lo+1, hi-1, hi, hi+1 around a nominal instance, categorical values, and pairs of
   simultaneous violations) and (b) judge the observed placements in SupportedOpsTrace. *)
EXTENDS Integers, Sequences, FiniteSets, TLC, SupportedOpsReport

CONSTANT WithPairs      \* TRUE: the case set also contains pairs of simultaneous violations

Max(a, b) == IF a >= b THEN a ELSE b
Min(a, b) == IF a <= b THEN a ELSE b
InR(x, lo, hi) == lo <= x /\ x <= hi
T3(b) == IF b THEN "T" ELSE "F"
RECURSIVE ProdSeq(_)
ProdSeq(s) == IF s = <<>> THEN 1 ELSE Head(s) * ProdSeq(Tail(s))
Rng(s) == {s[i] : i \in 1..Len(s)}

K4 == {"CONV_2D", "DEPTHWISE_CONV_2D", "MAX_POOL_2D", "AVERAGE_POOL_2D"}     \* NHWC operators with a kernel
ELT == {"ADD", "SUB", "MUL"}
HasW == {"CONV_2D", "DEPTHWISE_CONV_2D", "FULLY_CONNECTED"}
SignedT == {"int8", "int16", "int32", "int64"}
UnsignedT == {"uint8"}

\* ---------------------------------------------------------------- derived quantities
EKh(c) == (c.kh - 1) * c.dh + 1
EKw(c) == (c.kw - 1) * c.dw + 1
OH(c) == IF c.pad = "SAME" THEN (c.h + c.sh - 1) \div c.sh ELSE (c.h - EKh(c)) \div c.sh + 1
OW(c) == IF c.pad = "SAME" THEN (c.w + c.sw - 1) \div c.sw ELSE (c.w - EKw(c)) \div c.sw + 1
OC(c) == IF c.op = "CONV_2D" THEN c.oc ELSE IF c.op = "DEPTHWISE_CONV_2D" THEN c.c * c.mult ELSE c.c
Ifm(c) == IF c.op \in K4 THEN <<c.b, c.h, c.w, c.c>> ELSE c.s1
Ifm2(c) == IF c.op \in ELT THEN c.s2 ELSE <<>>
\* MEAN: reduced axes become 1 (keep_dims) or disappear
RECURSIVE DropAxes(_, _, _)
DropAxes(s, A, i) == IF i > Len(s) THEN <<>>
                     ELSE IF (i - 1) \in A THEN DropAxes(s, A, i + 1) ELSE <<s[i]>> \o DropAxes(s, A, i + 1)
MeanOut(c) == IF c.keep THEN [i \in 1..Len(c.s1) |-> IF (i - 1) \in Rng(c.axes) THEN 1 ELSE c.s1[i]]
              ELSE DropAxes(c.s1, Rng(c.axes), 1)
Ofm(c) == IF c.op \in K4 THEN <<c.b, OH(c), OW(c), OC(c)>> ELSE IF c.op = "MEAN" THEN MeanOut(c) ELSE c.so
Wts(c) == IF c.op = "CONV_2D" THEN <<c.oc, c.kh, c.kw, c.wic>>
          ELSE IF c.op = "DEPTHWISE_CONV_2D" THEN <<1, c.kh, c.kw, c.c * c.mult>>
          ELSE IF c.op = "FULLY_CONNECTED" THEN <<c.oc, c.wic>> ELSE <<>>
DataTypes(c) == {c.dt, c.odt} \cup (IF c.op \in ELT THEN {c.dt2} ELSE {}) \cup (IF c.op \in HasW THEN {c.wt} ELSE {})
Shapes(c) == {Ifm(c), Ofm(c)} \cup (IF c.op \in ELT THEN {Ifm2(c)} ELSE {}) \cup (IF c.op \in HasW THEN {Wts(c)} ELSE {})
WElems(c) == IF c.op = "CONV_2D" THEN c.kh * c.kw * c.wic ELSE c.kh * c.kw * c.c * c.mult

\* ---------------------------------------------------------------- constraint kinds
BatchEval(s) == IF Len(s) = 4 THEN T3(s[1] = BatchVal)
                ELSE IF Len(s) >= 1 /\ s[1] # BatchVal THEN "U" ELSE "T"
And3(a, b) == IF a = "F" \/ b = "F" THEN "F" ELSE IF a = "U" \/ b = "U" THEN "U" ELSE "T"

StrideCrit(c) ==
    LET hr == T3(OH(c) <= 1 \/ InR(c.sh, ScHLo[c.op], ScHHi[c.op]))
        div == \/ (c.sw % 2 = 0 /\ c.w % (c.sw \div 2) = 0)
               \/ (c.sw % 3 = 0 /\ c.w % (c.sw \div 3) = 0)
        loose == OH(c) <= 1 \/ OW(c) <= 1 \/ div
        strict == OH(c) <= 1 /\ OW(c) <= 1 /\ div
        wr == IF InR(c.sw, ScWLo[c.op], ScWHi[c.op]) THEN "T"
              ELSE IF c.sw < ScWLo[c.op] THEN "F"
              ELSE IF strict THEN "T" ELSE IF ~loose THEN "F" ELSE "U"
    IN And3(hr, wr)

Broadcast(c) ==
    IF Len(c.s1) # Len(c.s2) \/ Len(c.so) # Len(c.s1) THEN "U"
    ELSE T3(\A i \in 1..Len(c.s1) :
               /\ (c.s1[i] = c.s2[i] \/ c.s1[i] = 1 \/ c.s2[i] = 1)
               /\ c.so[i] = Max(c.s1[i], c.s2[i]))

\* wfill: "max" = every weight is 127 (int8, zero point 0), "small" = every |weight| <= 1, "rand" = anything
WSum(c) ==
    IF c.wfill = "small" THEN T3(WElems(c) <= WSumMax[c.op])
    ELSE IF c.wfill = "max" /\ c.wt = "int8" THEN T3(WElems(c) <= WSumMax[c.op] \div 127)
    ELSE IF WElems(c) <= WSumMax[c.op] \div 128 THEN "T" ELSE "U"

\* MEAN axis rule of the report
MeanAxis(c) ==
    LET r == Len(c.s1)
        hwc == {c.s1[i] : i \in (r - 2)..r}
    IN IF r = 2 THEN "T"
       ELSE IF r \notin {3, 4} THEN "U"
       ELSE T3(\A a \in Rng(c.axes) :
                  /\ (r = 4 /\ a = 0) => c.s1[1] = 1
                  /\ a = r - 1 => 1 \in hwc)
MeanProd(c) ==
    LET lim == IF c.dt = "int16" THEN MeanProdI16 ELSE IF c.dt = "uint8" THEN MeanProdU8 ELSE MeanProdI8
    IN T3(ProdSeq([i \in 1..Len(c.axes) |-> c.s1[c.axes[i] + 1]]) <= lim)
MeanWidth(c) ==
    LET r == Len(c.s1) IN
    IF r \in {3, 4} THEN T3((r - 2) \notin Rng(c.axes) \/ c.s1[r - 1] <= MeanWMax)
    ELSE IF \A d \in Rng(c.s1) : d <= MeanWMax THEN "T" ELSE "U"

Eval(id, c) ==
    CASE id = "types" -> T3(DataTypes(c) \subseteq TypeSet)
      [] id = "int32ops" -> T3("int32" \in DataTypes(c) => c.op \in Int32Ops)
      [] id = "dims" -> T3(\A s \in Shapes(c) : \A d \in Rng(s) : InR(d, DimLo, DimHi))
      [] id = "peraxis" -> T3(c.op \in PerAxisOps \/ c.paq = "none")
      [] id = "batch" -> And3(BatchEval(Ifm(c)), IF c.op \in ELT THEN BatchEval(Ifm2(c)) ELSE "T")
      [] id = "faf" -> T3(c.faf = "NONE" \/ c.faf \in FafSet)
      [] id = "faftype" -> T3(c.faf = "NONE" \/ c.odt \in FafOutTypes)
      [] id = "rank" -> T3(\A s \in Shapes(c) : Len(s) <= MaxRank)
      [] id = "quant" -> T3(c.hasq)
      [] id = "groups_depth" -> T3(c.wic >= 1 /\ c.c % c.wic = 0)
      [] id = "groups_filters" -> T3(c.wic < 1 \/ c.c % c.wic # 0 \/ c.oc % (c.c \div c.wic) = 0)
      [] id = "stride_crit" -> StrideCrit(c)
      [] id = "dilh" -> T3(InR(EKh(c), DilHLo[c.op], DilHHi[c.op]))
      [] id = "dilprod" -> T3(InR(EKh(c) * EKw(c), DilPLo[c.op], DilPHi[c.op]))
      [] id = "w8" -> T3(c.wt \in {"int8", "uint8"})
      [] id = "wconst" -> T3(c.wconst)
      [] id = "wsum" -> WSum(c)
      [] id = "bshape" -> T3(c.bt = "none" \/ c.brank = 1)
      [] id = "btype" -> T3(c.bt = "none" \/ c.bt \in BiasTypes[c.op])
      [] id = "b40" -> IF c.bt # "int64" \/ c.bbits < BiasBits[c.op] THEN "T"
                       ELSE IF c.bbits = BiasBits[c.op] THEN "U" ELSE "F"
      [] id = "dw_stride" -> T3(InR(c.sh, DwSLo, DwSHi) /\ InR(c.sw, DwSLo, DwSHi))
      [] id = "dw_mult" -> T3(c.mult <= 1 \/ c.c = 1)
      [] id = "inout_type" -> T3(c.dt = c.odt)
      [] id = "pool_stride" -> T3(InR(c.sh, PsLo, PsHi) /\ InR(c.sw, PsLo, PsHi))
      [] id = "mp_h" -> T3(InR(c.kh, MpHLo, MpHHi))
      [] id = "mp_prod" -> T3(InR(c.kh * c.kw, MpPLo, MpPHi))
      [] id = "ap_stride_pad" -> T3(c.sw >= ApSwMin /\ (c.sw > ApSwValidAbove => c.pad = "VALID"))
      [] id = "ap_filter" -> T3(InR(c.kh, ApFLo, ApFHi) /\ InR(c.kw, ApFLo, ApFHi))
      [] id = "ap_filter_same" -> T3(c.pad # "SAME" \/ (InR(c.kh, ApFLo, ApFHi) /\ InR(c.kw, ApFLo, ApFHi)))
      [] id = "wsym" -> T3(c.dt \notin {"int8", "int16"} \/ c.wzp = 0)
      [] id = "ap_vh" -> T3(c.pad # "VALID" \/ InR(c.kh, ApVHLo, ApVHHi))
      [] id = "ap_vprod" -> T3(c.pad # "VALID" \/ InR(c.kh * c.kw, ApVPLo, ApVPHi))
      [] id = "either_shape" -> T3(c.s1 = c.so \/ c.s2 = c.so)
      [] id = "in_types" -> T3(c.dt = c.dt2)
      [] id = "signed" -> T3(c.dt \in SignedT => c.odt \in SignedT)
      [] id = "unsigned" -> T3(c.dt \in UnsignedT => (c.odt = c.dt \/ c.odt = "int32"))
      [] id = "broadcast" -> Broadcast(c)
      [] id = "fc_2d" -> IF Len(c.so) = 2 /\ Len(c.s1) = 2 /\ c.s1[2] = c.wic THEN "T" ELSE "U"
      [] id = "fc_knd" -> T3(~c.knd \/ Len(c.s1) = Len(c.so))
      [] id = "rs_quant" -> T3(c.qmatch)
      [] id = "rs_elems" -> T3(ProdSeq(c.s1) = ProdSeq(c.so))
      [] id = "rs_const" -> T3(c.sconst)
      [] id = "mean_rank" -> T3(Len(c.s1) >= MeanMinRank)
      [] id = "mean_axis" -> MeanAxis(c)
      [] id = "mean_prod" -> MeanProd(c)
      [] id = "mean_width" -> MeanWidth(c)
      [] id = "mean_depth" -> T3((Len(c.s1) - 1) \notin Rng(c.axes) \/ c.s1[Len(c.s1)] <= MeanDMax)
      \* kinds the generated networks always satisfy (attributes present, static shapes, finite scales,
      \* integer strides ...): stated as an assumption of the generator
      [] OTHER -> "T"

Failing(c) == IF c.op \in InTable THEN {id \in Listed[c.op] : Eval(id, c) = "F"} ELSE {"not-in-table"}
Undecided(c) == IF c.op \in InTable THEN {id \in Listed[c.op] : Eval(id, c) = "U"} ELSE {}
Expect(c) == IF Failing(c) # {} THEN "CPU"
             ELSE IF Undecided(c) # {} \/ c.op \in Unmodelled THEN "ANY"
             ELSE "NPU"

\* ---------------------------------------------------------------- case generator
Z == [op |-> "", dt |-> "int8", dt2 |-> "int8", odt |-> "int8", wt |-> "int8", bt |-> "none",
      b |-> 1, h |-> 1, w |-> 1, c |-> 1, kh |-> 1, kw |-> 1, sh |-> 1, sw |-> 1, dh |-> 1, dw |-> 1,
      pad |-> "SAME", oc |-> 1, mult |-> 1, wic |-> 1, wconst |-> TRUE, wfill |-> "rand", brank |-> 1, bbits |-> 11,
      faf |-> "NONE", paq |-> "none", wzp |-> 0, s1 |-> <<>>, s2 |-> <<>>, so |-> <<>>, hasq |-> TRUE, qmatch |-> TRUE,
      sconst |-> TRUE, knd |-> FALSE, axes |-> <<>>, keep |-> TRUE, axis |-> "nominal", axis2 |-> ""]

Nom(op) ==
    CASE op = "CONV_2D" -> [Z EXCEPT !.op = op, !.h = 9, !.w = 13, !.c = 8, !.kh = 3, !.kw = 3, !.oc = 8, !.wic = 8,
                                      !.bt = "int32"]
      [] op = "DEPTHWISE_CONV_2D" -> [Z EXCEPT !.op = op, !.h = 9, !.w = 13, !.c = 8, !.kh = 3, !.kw = 3, !.bt = "int32"]
      [] op = "MAX_POOL_2D" -> [Z EXCEPT !.op = op, !.h = 9, !.w = 13, !.c = 8, !.kh = 2, !.kw = 2]
      [] op = "AVERAGE_POOL_2D" -> [Z EXCEPT !.op = op, !.h = 9, !.w = 13, !.c = 8, !.kh = 2, !.kw = 2]
      [] op \in ELT -> [Z EXCEPT !.op = op, !.s1 = <<1, 6, 7, 8>>, !.s2 = <<1, 6, 7, 8>>, !.so = <<1, 6, 7, 8>>]
      [] op = "FULLY_CONNECTED" -> [Z EXCEPT !.op = op, !.s1 = <<1, 24>>, !.so = <<1, 10>>, !.oc = 10, !.wic = 24,
                                             !.bt = "int32"]
      [] op = "RESHAPE" -> [Z EXCEPT !.op = op, !.s1 = <<1, 6, 7, 8>>, !.so = <<1, 42, 1, 8>>]
      [] op = "SQUEEZE" -> [Z EXCEPT !.op = op, !.s1 = <<1, 6, 7, 8>>, !.so = <<6, 7, 8>>]
      [] op = "EXPAND_DIMS" -> [Z EXCEPT !.op = op, !.s1 = <<1, 7, 8>>, !.so = <<1, 1, 7, 8>>]
      [] op = "MEAN" -> [Z EXCEPT !.op = op, !.s1 = <<1, 6, 7, 8>>, !.axes = <<1, 2>>]

Apply(r, u) == [f \in DOMAIN r |-> IF f \in DOMAIN u THEN u[f] ELSE r[f]]

\* boundary points of a documented range; the thorough case set (WithPairs) adds two interior points
Points(lo, hi) == {x \in {lo - 1, lo, lo + 1, hi - 1, hi, hi + 1}
                         \cup (IF WithPairs THEN {(lo + hi) \div 2, (lo + hi) \div 3} ELSE {}) : x >= 1}
DimPts == {x \in Points(DimLo, DimHi) : x >= 1}
Faf == {"NONE", "RELU", "RELU6", "RELU_N1_TO_1", "TANH", "SIGN_BIT"}

\* type changes keep the instance self-consistent (bias type follows the IFM type, float tensors carry no quantisation)
TypeU(t) == [dt |-> t, dt2 |-> t, odt |-> t, wt |-> IF t = "uint8" THEN "uint8" ELSE "int8", hasq |-> t # "float32",
             axis |-> "dtype"]
TypeUConv(t) == [dt |-> t, odt |-> t, wt |-> IF t = "uint8" THEN "uint8" ELSE "int8", hasq |-> t # "float32",
                 bt |-> IF t = "int16" THEN "int64" ELSE "int32", axis |-> "dtype"]
Types == {"int8", "uint8", "int16", "int32", "float32"}

GenericU(op) ==
       {[faf |-> f, axis |-> "faf"] : f \in Faf}
  \cup {[hasq |-> FALSE, axis |-> "noquant"]}

ConvLikeU(op) ==
       {TypeUConv(t) : t \in Types}
  \cup {[b |-> v, axis |-> "batch"] : v \in {1, 2, 3}}
  \cup {[sh |-> v, axis |-> "stride_h"] : v \in {1, 2, 3, 4}}
  \cup {[sw |-> v, axis |-> "stride_w"] : v \in {1, 2, 3, 4}}
  \cup {[sh |-> v, sw |-> v, axis |-> "stride"] : v \in {2, 3, 4}}
  \cup {[kh |-> v, h |-> Max(9, v), axis |-> "kernel_h"] : v \in Points(DilHLo[op], DilHHi[op])}
  \cup {[kh |-> v, dh |-> 2, h |-> Max(9, 2 * v), axis |-> "dilated_kernel_h"] :
            v \in {(DilHHi[op] \div 2) - 1, DilHHi[op] \div 2, (DilHHi[op] \div 2) + 1}}
  \cup {[kh |-> a, kw |-> b2, h |-> Max(9, a), w |-> Max(13, b2), axis |-> "kernel_product"] :
            a \in {DilHHi[op] - 1, DilHHi[op]}, b2 \in {DilHHi[op], DilHHi[op] + 1}}
  \cup {[h |-> v, w |-> 2, kh |-> 1, kw |-> 1, axis |-> "dim_h"] : v \in DimPts}
  \cup {[w |-> v, h |-> 2, kh |-> 1, kw |-> 1, axis |-> "dim_w"] : v \in DimPts}
  \cup {[wt |-> "int16", axis |-> "weights_16bit"], [wconst |-> FALSE, axis |-> "weights_dynamic"],
        [brank |-> 2, axis |-> "bias_2d"], [bt |-> "int16", axis |-> "bias_type"], [bt |-> "none", axis |-> "no_bias"],
        [paq |-> "weights", axis |-> "per_axis_weights"], [wzp |-> 3, axis |-> "weights_zero_point"]}
  \cup {[dt |-> "int16", odt |-> "int16", bt |-> "int64", bbits |-> v, axis |-> "bias_bits"] :
            v \in {BiasBits[op] - 1, BiasBits[op], BiasBits[op] + 1}}
  \cup {[pad |-> "VALID", axis |-> "padding"]}

ConvU ==
       ConvLikeU("CONV_2D") \cup GenericU("CONV_2D")
  \cup {[c |-> v, wic |-> v, h |-> 2, w |-> 2, kh |-> 1, kw |-> 1, oc |-> 2, wfill |-> "small", axis |-> "dim_c"] : v \in DimPts}
  \cup {[wic |-> 3, axis |-> "groups_depth"]}
  \cup {[sw |-> 4, h |-> 1, w |-> 4, kh |-> 1, kw |-> 1, axis |-> "stride_w_ofm1"]}
  \cup {[sh |-> 4, h |-> 3, kh |-> 3, pad |-> "VALID", axis |-> "stride_h_ofm1"]}
  \cup {[kh |-> 2, kw |-> 1, h |-> 2, w |-> 2, c |-> v, wic |-> v, oc |-> 1, wfill |-> "max", pad |-> "VALID",
         axis |-> "weight_sum"] :
            v \in {(WSumMax["CONV_2D"] \div 254) - 1, WSumMax["CONV_2D"] \div 254, (WSumMax["CONV_2D"] \div 254) + 1}}

DwU ==
       ConvLikeU("DEPTHWISE_CONV_2D") \cup GenericU("DEPTHWISE_CONV_2D")
  \cup {[mult |-> 2, axis |-> "depth_multiplier"], [mult |-> 2, c |-> 1, axis |-> "depth_multiplier_c1"]}

MaxPoolU ==
       GenericU("MAX_POOL_2D")
  \cup {[dt |-> t, odt |-> t, hasq |-> t # "float32", axis |-> "dtype"] : t \in Types}
  \cup {[odt |-> "int16", axis |-> "out_type"]}
  \cup {[b |-> v, axis |-> "batch"] : v \in {1, 2}}
  \cup {[sh |-> v, axis |-> "stride_h"] : v \in Points(PsLo, PsHi)}
  \cup {[sw |-> v, axis |-> "stride_w"] : v \in Points(PsLo, PsHi)}
  \cup {[kh |-> v, h |-> Max(9, v), axis |-> "kernel_h"] : v \in Points(MpHLo, MpHHi)}
  \cup {[kh |-> a, kw |-> b2, h |-> a, w |-> b2, axis |-> "kernel_product"] :
            a \in {MpHHi - 1, MpHHi}, b2 \in {MpHHi, MpHHi + 1}}
  \cup {[h |-> v, w |-> 2, kh |-> 1, kw |-> 1, axis |-> "dim_h"] : v \in DimPts}
  \cup {[pad |-> "VALID", axis |-> "padding"]}

AvgPoolU ==
       GenericU("AVERAGE_POOL_2D")
  \cup {[dt |-> t, odt |-> t, hasq |-> t # "float32", axis |-> "dtype"] : t \in Types}
  \cup {[b |-> v, axis |-> "batch"] : v \in {1, 2}}
  \cup {[sh |-> v, axis |-> "stride_h"] : v \in {1, 2, 3, 4}}
  \cup {[sw |-> v, axis |-> "stride_w"] : v \in {1, 2, 3, 4}}
  \cup {[sw |-> v, pad |-> "VALID", axis |-> "stride_w_valid"] : v \in {3, 4}}
  \cup {[kh |-> v, kw |-> v, axis |-> "filter_same"] : v \in Points(ApFLo, ApFHi)}
  \cup {[kh |-> v, kw |-> 2, h |-> Max(9, v), pad |-> "VALID", axis |-> "filter_h_valid"] :
            v \in Points(ApFLo, ApFHi) \cup Points(ApVHLo, ApVHHi)}
  \cup {[kh |-> a, kw |-> b2, h |-> a, w |-> b2, pad |-> "VALID", axis |-> "kernel_product_valid"] :
            a \in {ApVHHi - 1, ApVHHi}, b2 \in {ApVHHi, ApVHHi + 1}}
  \cup {[h |-> v, w |-> 2, kh |-> 1, kw |-> 1, axis |-> "dim_h"] : v \in DimPts}

EltU(op) ==
       GenericU(op)
  \cup {TypeU(t) : t \in Types}
  \cup {[dt2 |-> "uint8", axis |-> "input_types_differ"], [odt |-> "uint8", axis |-> "signed_to_unsigned"],
        [dt |-> "uint8", dt2 |-> "uint8", odt |-> "int8", axis |-> "unsigned_to_signed"],
        [dt |-> "int32", dt2 |-> "int32", odt |-> "int32", faf |-> "RELU", axis |-> "int32_with_faf"]}
  \cup {[s1 |-> s, s2 |-> s, so |-> s, axis |-> "rank"] :
            s \in {<<8>>, <<1, 8>>, <<1, 7, 8>>, <<1, 6, 7, 8>>, <<1, 1, 6, 7, 8>>}}
  \cup {[s1 |-> <<b2, 6, 7, 8>>, s2 |-> <<b2, 6, 7, 8>>, so |-> <<b2, 6, 7, 8>>, axis |-> "batch"] : b2 \in {1, 2}}
  \cup {[s2 |-> s, axis |-> "broadcast"] :
            s \in {<<1, 1, 1, 8>>, <<1, 1, 7, 8>>, <<1, 6, 1, 1>>, <<1, 1, 1, 1>>, <<1, 6, 7, 4>>, <<1, 3, 7, 8>>}}
  \cup {[s1 |-> <<1, 1, 7, 8>>, s2 |-> <<1, 6, 1, 8>>, axis |-> "broadcast_both"]}
  \cup {[s1 |-> <<1, 2, v, 2>>, s2 |-> <<1, 2, v, 2>>, so |-> <<1, 2, v, 2>>, axis |-> "dim_w"] : v \in DimPts}
  \cup {[paq |-> "ifm", axis |-> "per_axis_ifm"]}

FcU ==
       GenericU("FULLY_CONNECTED")
  \cup {TypeUConv(t) : t \in Types}
  \cup {[s1 |-> <<v, 24>>, so |-> <<v, 10>>, axis |-> "batch"] : v \in {1, 2, 4}}
  \cup {[wt |-> "int16", axis |-> "weights_16bit"], [wconst |-> FALSE, axis |-> "weights_dynamic"],
        [brank |-> 2, axis |-> "bias_2d"], [bt |-> "int16", axis |-> "bias_type"], [bt |-> "none", axis |-> "no_bias"],
        [knd |-> TRUE, axis |-> "keep_num_dims"]}
  \cup {[dt |-> "int16", odt |-> "int16", bt |-> "int64", bbits |-> v, axis |-> "bias_bits"] :
            v \in {BiasBits["FULLY_CONNECTED"] - 1, BiasBits["FULLY_CONNECTED"], BiasBits["FULLY_CONNECTED"] + 1}}
  \cup {[s1 |-> <<1, v>>, wic |-> v, oc |-> 2, so |-> <<1, 2>>, axis |-> "dim_c"] : v \in DimPts}

ReshapeU ==
       {[hasq |-> FALSE, axis |-> "noquant"]}
  \cup {[dt |-> t, odt |-> t, hasq |-> t # "float32", axis |-> "dtype"] : t \in Types}
  \cup {[qmatch |-> FALSE, axis |-> "quant_differs"], [sconst |-> FALSE, axis |-> "shape_dynamic"],
        [so |-> <<1, 41, 1, 8>>, axis |-> "elements_differ"]}
  \cup {[so |-> s, axis |-> "rank"] : s \in {<<336>>, <<42, 8>>, <<6, 7, 8>>, <<1, 6, 7, 8>>, <<1, 2, 3, 7, 8>>}}
  \cup {[s1 |-> <<b2, 6, 7, 8>>, so |-> <<b2, 42, 1, 8>>, axis |-> "batch"] : b2 \in {1, 2}}
  \cup {[s1 |-> <<1, v, 1, 2>>, so |-> <<1, 2, v, 1>>, axis |-> "dim"] : v \in DimPts}

MemOnlyU(op) ==
       {[hasq |-> FALSE, axis |-> "noquant"]}
  \cup {[dt |-> t, odt |-> t, hasq |-> t # "float32", axis |-> "dtype"] : t \in Types}
  \cup {[qmatch |-> FALSE, axis |-> "quant_differs"]}
  \cup {[so |-> IF op = "SQUEEZE" THEN <<6, 7, 7>> ELSE <<1, 1, 7, 7>>, axis |-> "elements_differ"]}

MeanShapes == {<<<<1, 6, 7, 8>>, <<1, 2>>>>, <<<<1, 6, 7, 8>>, <<1>>>>, <<<<1, 6, 7, 8>>, <<2>>>>, <<<<1, 6, 7, 8>>, <<3>>>>,
               <<<<1, 1, 7, 8>>, <<3>>>>, <<<<1, 6, 1, 8>>, <<3>>>>, <<<<1, 6, 7, 1>>, <<3>>>>, <<<<1, 6, 7, 8>>, <<0>>>>,
               <<<<2, 6, 7, 8>>, <<0>>>>, <<<<1, 6, 7, 8>>, <<1, 2, 3>>>>, <<<<1, 1, 7, 8>>, <<1, 2, 3>>>>,
               <<<<6, 7, 8>>, <<2>>>>, <<<<1, 7, 8>>, <<2>>>>, <<<<6, 1, 8>>, <<2>>>>, <<<<6, 7, 1>>, <<2>>>>,
               <<<<1, 7, 8>>, <<0, 1>>>>, <<<<1, 7, 8>>, <<1>>>>, <<<<1, 8>>, <<1>>>>, <<<<1, 8>>, <<0>>>>, <<<<8>>, <<0>>>>}
MeanU ==
       {[hasq |-> FALSE, axis |-> "noquant"]}
  \cup {[dt |-> t, odt |-> t, hasq |-> t # "float32", axis |-> "dtype"] : t \in Types}
  \cup {[s1 |-> p[1], axes |-> p[2], keep |-> k, axis |-> "mean_axes"] : p \in MeanShapes, k \in BOOLEAN}
  \cup {[s1 |-> <<1, 8>>, axes |-> <<0, 1>>, axis |-> "mean_axes"]}
  \cup {[s1 |-> <<1, a, b2, 2>>, dt |-> "int16", odt |-> "int16", axis |-> "mean_product"] :
            a \in {MeanProdI16 \div 256 - 1, MeanProdI16 \div 256}, b2 \in {256, 257}}
  \cup {[s1 |-> <<1, 2, v, 2>>, axes |-> <<2>>, axis |-> "mean_width"] : v \in Points(1, MeanWMax)}
  \cup {[s1 |-> <<1, 2, MeanWMax + 1, 2>>, axes |-> <<1>>, axis |-> "mean_width_not_reduced"]}
  \cup {[s1 |-> <<1, 1, 1, v>>, axes |-> <<3>>, axis |-> "mean_depth"] : v \in Points(1, MeanDMax)}

Updates(op) ==
    CASE op = "CONV_2D" -> ConvU
      [] op \in {"SQUEEZE", "EXPAND_DIMS"} -> MemOnlyU(op)
      [] op = "MEAN" -> MeanU
      [] op = "DEPTHWISE_CONV_2D" -> DwU
      [] op = "MAX_POOL_2D" -> MaxPoolU
      [] op = "AVERAGE_POOL_2D" -> AvgPoolU
      [] op \in ELT -> EltU(op)
      [] op = "FULLY_CONNECTED" -> FcU
      [] op = "RESHAPE" -> ReshapeU

Single(op) == {Apply(Nom(op), u) : u \in Updates(op)} \cup {Nom(op)}
Viol(op) == {u \in Updates(op) : Expect(Apply(Nom(op), u)) = "CPU"}
\* pairs of simultaneous violations on disjoint parameters
Pairs(op) ==
    UNION {{[Apply(Apply(Nom(op), u1), u2) EXCEPT !.axis = u1.axis, !.axis2 = u2.axis] :
               u2 \in {u \in Viol(op) : DOMAIN u \cap DOMAIN u1 = {"axis"}}} : u1 \in Viol(op)}

Cases == UNION {Single(op) : op \in Covered} \cup (IF WithPairs THEN UNION {Pairs(op) : op \in Covered} ELSE {})

=============================================================================
