----------------------------- MODULE SupportedOps -----------------------------
(* C16: an operator instance that satisfies every constraint the supported-operators report lists
   for it runs on the NPU; one that violates a listed constraint stays on the CPU.

   The constants (ranges, type sets, which constraint kinds are listed for which operator) come from
   module SupportedOpsReport, GENERATED at check time from the SUPPORTED_OPS.md the working tree
   produces; this module only knows constraint *kinds*.  Each kind is a three-valued predicate on a
   case record: "T" holds, "F" violated, "U" the report's wording does not decide it (e.g. the stride
   criteria for stride width > 3, a bias magnitude of exactly 40 bits).
       Expect(c) = "CPU" if some listed constraint is "F",
                   "ANY" if none is "F" but one is "U" (or the report has bullets this module cannot read),
                   "NPU" otherwise.
   The same definitions (a) generate the test cases (Cases: per numeric constraint the points
   lo-1, lo, lo+1, hi-1, hi, hi+1 around a nominal instance, categorical values, and pairs of
   simultaneous violations) and (b) judge the observed placements in SupportedOpsTrace.

   The case record also carries the command-line options the report itself names as changing which
   constraints apply (c.force = --force-symmetric-int-weights): an option is a dimension of the case
   space like a stride or a data type, swept for every operator that lists the constraint and every
   IFM type its text names, and once as a neutral option for every covered operator.  Options no bullet mentions
   (c.nopt: optimisation strategy, CPU tensor alignment, tensor allocator, block dependency, debug database) are
   swept on the nominal instance of every operator: Eval never reads them, so Expect cannot depend on them. *)
EXTENDS Integers, Sequences, FiniteSets, TLC, SupportedOpsReport

CONSTANT WithPairs      \* TRUE: the case set also contains pairs of simultaneous violations

Max(a, b) == IF a >= b THEN a ELSE b
Min(a, b) == IF a <= b THEN a ELSE b
InR(x, lo, hi) == lo <= x /\ x <= hi
T3(b) == IF b THEN "T" ELSE "F"
RECURSIVE ProdSeq(_)
ProdSeq(s) == IF s = <<>> THEN 1 ELSE Head(s) * ProdSeq(Tail(s))
Rng(s) == {s[i] : i \in 1..Len(s)}

K4 == {"CONV_2D", "DEPTHWISE_CONV_2D", "MAX_POOL_2D", "AVERAGE_POOL_2D"}     \* NHWC operators with a kernel
ELT == {"ADD", "SUB", "MUL"}
HasW == {"CONV_2D", "DEPTHWISE_CONV_2D", "FULLY_CONNECTED", "TRANSPOSE_CONV"}
UNARY == {"ABS", "EXP", "RSQRT", "LEAKY_RELU", "HARD_SWISH", "SOFTMAX", "LOGISTIC", "TANH", "RELU", "RELU6", "RELU_N1_TO_1"}
BIN2 == {"MINIMUM", "MAXIMUM", "SQUARED_DIFFERENCE"}
RESIZE == {"RESIZE_BILINEAR", "RESIZE_NEAREST_NEIGHBOR"}
HasIfm2 == ELT \cup BIN2 \cup {"CONCATENATION"}
NormAx(a, r) == IF a < 0 THEN a + r ELSE a
Bit(m, i) == (m \div (2 ^ i)) % 2 = 1
SignedT == {"int8", "int16", "int32", "int64"}
UnsignedT == {"uint8"}

\* ---------------------------------------------------------------- equivalent encodings
\* TFLite stores some attributes in several equivalent forms: an axis counted from the end (-1 = last dimension), a SLICE
\* size of -1 (= up to the end).  The report's bullets are statements about the operator, not about how the file writes it
\* down: every bullet is evaluated on the canonical encoding Canon(c), so two encodings of one operator get one Expect
\* (design invariant EquivalentEncodingsSameExpect in SupportedOpsGen, over Encodings(c)).  A value outside
\* [-rank, rank) is no encoding of anything and stays as it is (the range bullets then fail on it).
\* Not an equivalence: the TRANSPOSE permutation (its bullet gives the range [0, RANK(IFM)) and TFLite has no other form),
\* the -1 entries of SPLIT_V's size_splits (the bullet "Only one size is allowed to be inferred" is about that very form),
\* STRIDED_SLICE begin / end (SsRanges below already reads both the raw and the effective values).
HasAx == {"CONCATENATION", "SPLIT", "SPLIT_V", "ARG_MAX"}
AxRank(c) == IF c.op = "CONCATENATION" THEN Len(c.so) ELSE Len(c.s1)
CanonAx(a, r) == IF InR(a, -r, -1) THEN a + r ELSE a
Canon(c) == [c EXCEPT !.ax = IF c.op \in HasAx THEN CanonAx(c.ax, AxRank(c)) ELSE c.ax,
                      !.axes = IF c.op = "MEAN" THEN [i \in 1..Len(c.axes) |-> CanonAx(c.axes[i], Len(c.s1))] ELSE c.axes,
                      !.sizes = IF c.op = "SLICE" /\ Len(c.sizes) = Len(c.s1) /\ Len(c.beg) = Len(c.s1)
                                THEN [i \in 1..Len(c.sizes) |-> IF c.sizes[i] = -1 THEN c.s1[i] - c.beg[i] ELSE c.sizes[i]]
                                ELSE c.sizes]
\* the other ways of writing the same operator down (each axis on its own, all axes together)
AxForms(a, r) == IF InR(a, 0, r - 1) THEN {a, a - r} ELSE IF InR(a, -r, -1) THEN {a, a + r} ELSE {a}
Encodings(c) ==
       {c}
  \cup (IF c.op \in HasAx THEN {[c EXCEPT !.ax = a] : a \in AxForms(c.ax, AxRank(c))} ELSE {})
  \cup (IF c.op = "MEAN" THEN UNION {{[c EXCEPT !.axes[i] = a] : a \in AxForms(c.axes[i], Len(c.s1))} : i \in 1..Len(c.axes)}
                               \cup {[c EXCEPT !.axes = [i \in 1..Len(c.axes) |-> CanonAx(c.axes[i], Len(c.s1)) - Len(c.s1)]],
                                     Canon(c)}
         ELSE {})
  \cup (IF c.op = "SLICE" /\ Len(c.sizes) = Len(c.s1) /\ Len(c.beg) = Len(c.s1)
        THEN {Canon(c), [c EXCEPT !.sizes = [i \in 1..Len(c.sizes) |->
                            IF c.sizes[i] = c.s1[i] - c.beg[i] THEN -1 ELSE c.sizes[i]]]} ELSE {})

\* ---------------------------------------------------------------- derived quantities
EKh(c) == (c.kh - 1) * c.dh + 1
EKw(c) == (c.kw - 1) * c.dw + 1
OH(c) == IF c.pad = "SAME" THEN (c.h + c.sh - 1) \div c.sh ELSE (c.h - EKh(c)) \div c.sh + 1
OW(c) == IF c.pad = "SAME" THEN (c.w + c.sw - 1) \div c.sw ELSE (c.w - EKw(c)) \div c.sw + 1
OC(c) == IF c.op = "CONV_2D" THEN c.oc ELSE IF c.op = "DEPTHWISE_CONV_2D" THEN c.c * c.mult ELSE c.c
Ifm(c) == IF c.op \in K4 \cup {"TRANSPOSE_CONV"} THEN <<c.b, c.h, c.w, c.c>> ELSE c.s1
Ifm2(c) == IF c.op \in HasIfm2 THEN c.s2 ELSE <<>>
\* TRANSPOSE_CONV output extent as TFLite defines it (SAME: in * stride; VALID: (in - 1) * stride + kernel), plus an
\* optional deliberate mismatch c.odh on the height
TcOut(i, k, st, pad) == IF pad = "SAME" THEN i * st ELSE (i - 1) * st + k
\* MEAN: reduced axes become 1 (keep_dims) or disappear
RECURSIVE DropAxes(_, _, _)
DropAxes(s, A, i) == IF i > Len(s) THEN <<>>
                     ELSE IF (i - 1) \in A THEN DropAxes(s, A, i + 1) ELSE <<s[i]>> \o DropAxes(s, A, i + 1)
MeanOut(c) == LET A == Rng(Canon(c).axes) IN
              IF c.keep THEN [i \in 1..Len(c.s1) |-> IF (i - 1) \in A THEN 1 ELSE c.s1[i]]
              ELSE DropAxes(c.s1, A, 1)
Ofm(c) == IF c.op \in K4 THEN <<c.b, OH(c), OW(c), OC(c)>> ELSE IF c.op = "MEAN" THEN MeanOut(c)
          ELSE IF c.op = "TRANSPOSE_CONV" THEN <<c.b, TcOut(c.h, c.kh, c.sh, c.pad) + c.odh, TcOut(c.w, c.kw, c.sw, c.pad), c.oc>>
          ELSE IF c.op = "ARG_MAX" THEN (IF InR(NormAx(c.ax, Len(c.s1)), 0, Len(c.s1) - 1)
                                         THEN DropAxes(c.s1, {NormAx(c.ax, Len(c.s1))}, 1) ELSE c.s1)
          ELSE c.so
Wts(c) == IF c.op = "CONV_2D" THEN <<c.oc, c.kh, c.kw, c.wic>>
          ELSE IF c.op = "TRANSPOSE_CONV" THEN <<c.oc, c.kh, c.kw, c.c>>
          ELSE IF c.op = "DEPTHWISE_CONV_2D" THEN <<1, c.kh, c.kw, c.c * c.mult>>
          ELSE IF c.op = "FULLY_CONNECTED" THEN <<c.oc, c.wic>> ELSE <<>>
DataTypes(c) == {c.dt, c.odt} \cup (IF c.op \in HasIfm2 THEN {c.dt2} ELSE {}) \cup (IF c.op \in HasW THEN {c.wt} ELSE {})
Shapes(c) == {Ifm(c), Ofm(c)} \cup (IF c.op \in HasIfm2 THEN {Ifm2(c)} ELSE {}) \cup (IF c.op \in HasW THEN {Wts(c)} ELSE {})
WElems(c) == IF c.op = "CONV_2D" THEN c.kh * c.kw * c.wic ELSE IF c.op = "TRANSPOSE_CONV" THEN c.kh * c.kw * c.c
             ELSE c.kh * c.kw * c.c * c.mult

\* ---------------------------------------------------------------- constraint kinds
BatchEval(s) == IF Len(s) = 4 THEN T3(s[1] = BatchVal)
                ELSE IF Len(s) >= 1 /\ s[1] # BatchVal THEN "U" ELSE "T"
And3(a, b) == IF a = "F" \/ b = "F" THEN "F" ELSE IF a = "U" \/ b = "U" THEN "U" ELSE "T"

StrideCrit(c) ==
    LET hr == T3(OH(c) <= 1 \/ InR(c.sh, ScHLo[c.op], ScHHi[c.op]))
        div == \/ (c.sw % 2 = 0 /\ c.w % (c.sw \div 2) = 0)
               \/ (c.sw % 3 = 0 /\ c.w % (c.sw \div 3) = 0)
        loose == OH(c) <= 1 \/ OW(c) <= 1 \/ div
        strict == OH(c) <= 1 /\ OW(c) <= 1 /\ div
        wr == IF InR(c.sw, ScWLo[c.op], ScWHi[c.op]) THEN "T"
              ELSE IF c.sw < ScWLo[c.op] THEN "F"
              ELSE IF strict THEN "T" ELSE IF ~loose THEN "F" ELSE "U"
    IN And3(hr, wr)

\* Broadcasting (TFLite / numpy): the shapes are aligned on their TRAILING dimensions, the shorter one is extended with
\* leading 1s.  Ext(s, r) is s written with r dimensions.  The bullet holds iff, position by position from the end, the
\* operand dimensions are equal or one of them is 1, and the OFM has the larger one (an OFM of another rank than the
\* longer operand is no broadcast result at all: undecided).
Ext(s, r) == IF Len(s) >= r THEN s ELSE [i \in 1..r |-> IF i <= r - Len(s) THEN 1 ELSE s[i - (r - Len(s))]]
BcRank(c) == Max(Len(c.s1), Len(c.s2))
Broadcast(c) ==
    LET r == BcRank(c)  a == Ext(c.s1, r)  b == Ext(c.s2, r) IN
    IF Len(c.so) # r THEN "U"
    ELSE T3(\A i \in 1..r :
               /\ (a[i] = b[i] \/ a[i] = 1 \/ b[i] = 1)
               /\ c.so[i] = Max(a[i], b[i]))
\* the batch of an operand of a broadcasting operator is read off the shape it is extended to
BcOps == ELT \cup BIN2
BatchIfm(c) == IF c.op \in BcOps THEN Ext(Ifm(c), BcRank(c)) ELSE Ifm(c)
BatchIfm2(c) == IF c.op \in BcOps THEN Ext(Ifm2(c), BcRank(c)) ELSE Ifm2(c)

\* wfill: "max" = every weight is 127 (int8, zero point 0), "small" = every |weight| <= 1, "rand" = anything
WSum(c) ==
    IF c.wfill = "small" THEN T3(WElems(c) <= WSumMax[c.op])
    ELSE IF c.wfill = "max" /\ c.wt = "int8" THEN T3(WElems(c) <= WSumMax[c.op] \div 127)
    ELSE IF WElems(c) <= WSumMax[c.op] \div 128 THEN "T" ELSE "U"

\* MEAN axis rule of the report
MeanAxis(c) ==
    LET r == Len(c.s1)
        hwc == {c.s1[i] : i \in (r - 2)..r}
    IN IF r <= 2 THEN "T"        \* the bullet states requirements for 2D (none) and for 3D / 4D tensors only
       ELSE IF r \notin {3, 4} THEN "U"
       ELSE T3(\A a \in Rng(c.axes) :
                  /\ (r = 4 /\ a = 0) => c.s1[1] = 1
                  /\ a = r - 1 => 1 \in hwc)
MeanProd(c) ==
    LET lim == IF c.dt = "int16" THEN MeanProdI16 ELSE IF c.dt = "uint8" THEN MeanProdU8 ELSE MeanProdI8
    IN T3(ProdSeq([i \in 1..Len(c.axes) |-> c.s1[c.axes[i] + 1]]) <= lim)
MeanWidth(c) ==
    LET r == Len(c.s1) IN
    IF r \in {3, 4} THEN T3((r - 2) \notin Rng(c.axes) \/ c.s1[r - 1] <= MeanWMax)
    ELSE IF \A d \in Rng(c.s1) : d <= MeanWMax THEN "T" ELSE "U"


\* ---------------------------------------------------------------- constraint kinds of the operators added in round 4
\* CONCATENATION: the text gives the axis range as [0, dims); it is read on the canonical encoding (an axis counted from
\* the end has been normalised by Canon), so -1 on a 4-D tensor is axis 3 and -5 is outside
CcAxisOk(c) == InR(c.ax, 0, Len(c.so) - 1)
CcAxis(c) == T3(CcAxisOk(c))
CcRanks(c) == Len(c.s1) = Len(c.so) /\ Len(c.s2) = Len(c.so)
CcA(c) == NormAx(c.ax, Len(c.so)) + 1
CcDims(c) == IF ~CcRanks(c) \/ ~InR(CcA(c), 1, Len(c.so)) THEN "U"
             ELSE T3(\A i \in 1..Len(c.so) : i # CcA(c) => (c.s1[i] = c.so[i] /\ c.s2[i] = c.so[i]))
CcSum(c) == IF ~CcRanks(c) \/ ~InR(CcA(c), 1, Len(c.so)) THEN "U" ELSE T3(c.s1[CcA(c)] + c.s2[CcA(c)] = c.so[CcA(c)])

PadOShape(c) == IF Len(c.pads) # Len(c.s1) \/ Len(c.so) # Len(c.s1) THEN "U"
                ELSE T3(\A i \in 1..Len(c.s1) : c.so[i] = c.s1[i] + c.pads[i][1] + c.pads[i][2])

\* RESIZE_*: NHWC only (the text speaks of W and H)
\* (with align_corners the scaling (out - 1) / (in - 1) of an extent of 1 is 0 / 0: the wording does not decide such a case)
RzDims(c) ==
    IF Len(c.s1) # 4 \/ Len(c.so) # 4 THEN "U" ELSE
    LET ih == c.s1[2]  iw == c.s1[3]  oh == c.so[2]  ow == c.so[3] IN
    IF (ih = 1 /\ iw = 1) \/ (ih = oh /\ iw = ow) THEN "T"
    ELSE IF c.align /\ (ih = 1 \/ iw = 1) THEN "U"
    ELSE T3(\/ (c.align /\ \E f \in RzAlignFactors : oh - 1 = f * (ih - 1) /\ ow - 1 = f * (iw - 1))
            \/ (~c.align /\ \E f \in RzFactors : oh = f * ih /\ ow = f * iw))
\* an operator whose result is its input (the generator gives both tensors the same quantisation) may be dropped
\* altogether instead of being executed anywhere
NoOp(c) == c.op \in RESIZE /\ c.s1 = c.so
RzHalf(c) ==
    IF Len(c.s1) # 4 \/ Len(c.so) # 4 THEN "U" ELSE
    T3(~c.half \/ (c.s1[2] = 1 /\ c.s1[3] = 1) \/ (c.so[2] = RzHalfFactor * c.s1[2] /\ c.so[3] = RzHalfFactor * c.s1[3]))

SpAxisOk(c) == InR(c.ax, -Len(c.s1), Len(c.s1) - 1)
SpDiv(c) == IF ~SpAxisOk(c) THEN "U" ELSE T3(c.s1[NormAx(c.ax, Len(c.s1)) + 1] % c.n = 0)

\* STRIDED_SLICE: "Slice 'end' values must be greater than 'begin' values".  eff = after masks and negative indices (what
\* the slice really covers), raw = the values as written; the wording decides a case only when both readings agree, and
\* says nothing about shrunk axes (whose end value TFLite ignores)
SsB(c, i) == IF Bit(c.bmask, i - 1) THEN 0 ELSE IF c.beg[i] < 0 THEN c.beg[i] + c.s1[i] ELSE c.beg[i]
SsE(c, i) == IF Bit(c.emask, i - 1) THEN c.s1[i] ELSE IF c.end[i] < 0 THEN c.end[i] + c.s1[i] ELSE c.end[i]
SsRanges(c) ==
    IF Len(c.beg) # Len(c.s1) \/ Len(c.end) # Len(c.s1) THEN "U"
    ELSE IF \A i \in 1..Len(c.s1) : SsE(c, i) > SsB(c, i) /\ c.end[i] > c.beg[i] THEN "T"
    ELSE IF \E i \in 1..Len(c.s1) : ~Bit(c.shrink, i - 1) /\ SsE(c, i) <= SsB(c, i) /\ c.end[i] <= c.beg[i] THEN "F"
    ELSE "U"

\* TRANSPOSE: the shape / permutation table of the report; an identity permutation and ranks the table does not
\* mention are undecided
TrPerm(c) ==
    LET r == Len(c.s1)  p == c.perm  s == c.s1 IN
    IF Len(p) # r THEN "U"
    ELSE IF r = 2 THEN (IF p = <<1, 0>> THEN "T" ELSE "U")
    ELSE IF r = 3 THEN (IF p = <<1, 0, 2>> \/ (p = <<0, 2, 1>> /\ s[1] = 1) \/ (p = <<2, 1, 0>> /\ s[2] = 1) THEN "T"
                        ELSE IF p = <<0, 1, 2>> THEN "U" ELSE "F")
    ELSE IF r = 4 THEN (IF s[1] # 1 \/ p = <<0, 1, 2, 3>> THEN "U"
                        ELSE IF p = <<0, 2, 1, 3>> \/ (p = <<0, 1, 3, 2>> /\ s[2] = 1) \/ (p = <<0, 3, 2, 1>> /\ s[3] = 1) THEN "T"
                        ELSE "F")
    ELSE "U"

Eval2(id, c) ==
    CASE id = "in_s816" -> T3(c.dt \in {"int8", "int16"})
      [] id = "in_8bit" -> T3(c.dt \in {"int8", "uint8"})
      [] id = "in_int8" -> T3(c.dt = "int8")
      [] id = "am_out" -> T3(c.odt \in {"int32", "int64"})
      [] id = "am_axis" -> T3(c.ax = Len(c.s1) - 1 \/ c.ax = -1)
      [] id = "am_depth" -> T3(c.s1[Len(c.s1)] <= ArgMaxDepth)
      [] id = "qmatch2" -> T3(c.qmatch)
      [] id = "sm_shapes" -> T3(c.s1 = c.so)
      [] id = "sm_beta" -> IF c.beta = "pos" THEN "T" ELSE IF c.beta = "neg" THEN "F" ELSE "U"
      [] id = "cc_axis" -> CcAxis(c)
      [] id = "cc_rank" -> T3(CcRanks(c))
      [] id = "cc_dims" -> CcDims(c)
      [] id = "cc_sum" -> CcSum(c)
      [] id = "pad_const" -> T3(c.pconst)
      [] id = "pad_oshape" -> PadOShape(c)
      [] id = "pad_shape" -> T3(Len(c.pads) \in PadRows)
      [] id = "pad_type" -> T3(c.pdt \in PadTypes)
      [] id = "rz_dims" -> RzDims(c)
      [] id = "rz_size" -> T3(c.szmatch)
      [] id = "rz_attrs" -> T3(~(c.align /\ c.half))
      [] id = "rz_half" -> RzHalf(c)
      [] id = "sl_const" -> T3(c.pconst)
      [] id = "sp_axis" -> T3(SpAxisOk(c))
      [] id = "sp_div" -> SpDiv(c)
      [] id = "sv_inferred" -> T3(Cardinality({i \in 1..Len(c.sizes) : c.sizes[i] = -1}) <= 1)
      [] id = "ss_const" -> T3(c.pconst)
      [] id = "ss_ellipsis" -> T3(c.ell = 0)
      [] id = "ss_masks" -> T3(c.newax = 0 \/ c.shrink = 0)
      [] id = "ss_ranges" -> SsRanges(c)
      [] id = "ss_strides" -> T3(\A i \in 1..Len(c.strd) : c.strd[i] = 1)
      [] id = "ss_offset" -> T3(~c.offs)
      [] id = "tr_size" -> T3(Len(c.perm) = Len(c.s1))
      [] id = "tr_values" -> T3(c.pconst /\ \A i \in 1..Len(c.perm) : InR(c.perm[i], 0, Len(c.s1) - 1))
      [] id = "tr_perm" -> TrPerm(c)
      [] id = "tc_stride" -> T3(\/ (c.sw = 1 /\ c.sh = 1) \/ (c.sw = 2 /\ c.sh = 2)
                               \/ (c.sw = 2 /\ c.sh = 1 /\ c.h = 1 /\ c.kh = 1))
      [] id = "tc_same" -> T3(c.pad # "SAME" \/ (Ofm(c)[2] = c.h * c.sh /\ Ofm(c)[3] = c.w * c.sw))
      [] id = "tc_valid" -> T3(c.pad # "VALID" \/ (/\ Ofm(c)[2] = c.h * c.sh + Max(c.kh - c.sh, 0)
                                                   /\ Ofm(c)[3] = c.w * c.sw + Max(c.kw - c.sw, 0)))
      \* kinds the generated networks always satisfy (attributes present, static shapes, finite scales,
      \* integer strides, input counts ...): stated as an assumption of the generator
      [] OTHER -> "T"

Eval(id, c) ==
    CASE id = "types" -> T3(DataTypes(c) \subseteq TypeSet)
      [] id = "int32ops" -> T3("int32" \in DataTypes(c) => c.op \in Int32Ops)
      [] id = "dims" -> T3(\A s \in Shapes(c) : \A d \in Rng(s) : InR(d, DimLo, DimHi))
      [] id = "peraxis" -> T3(c.op \in PerAxisOps \/ c.paq = "none")
      [] id = "batch" -> And3(BatchEval(BatchIfm(c)), IF c.op \in HasIfm2 THEN BatchEval(BatchIfm2(c)) ELSE "T")
      [] id = "outscalar" -> T3(Ofm(c) # <<>>)
      [] id = "faf" -> T3(c.faf = "NONE" \/ c.faf \in FafSet)
      [] id = "faftype" -> T3(c.faf = "NONE" \/ c.odt \in FafOutTypes)
      [] id = "rank" -> T3(\A s \in Shapes(c) : Len(s) <= MaxRank)
      [] id = "quant" -> T3(c.hasq)
      [] id = "groups_depth" -> T3(c.wic >= 1 /\ c.c % c.wic = 0)
      [] id = "groups_filters" -> T3(c.wic < 1 \/ c.c % c.wic # 0 \/ c.oc % (c.c \div c.wic) = 0)
      [] id = "stride_crit" -> StrideCrit(c)
      [] id = "dilh" -> T3(InR(EKh(c), DilHLo[c.op], DilHHi[c.op]))
      [] id = "dilprod" -> T3(InR(EKh(c) * EKw(c), DilPLo[c.op], DilPHi[c.op]))
      [] id = "w8" -> T3(c.wt \in {"int8", "uint8"})
      [] id = "wconst" -> T3(c.wconst)
      [] id = "wsum" -> WSum(c)
      [] id = "bshape" -> T3(c.bt = "none" \/ c.brank = 1)
      [] id = "btype" -> T3(c.bt = "none" \/ c.bt \in BiasTypes[c.op])
      [] id = "b40" -> IF c.bt # "int64" \/ c.bbits < BiasBits[c.op] THEN "T"
                       ELSE IF c.bbits = BiasBits[c.op] THEN "U" ELSE "F"
      [] id = "dw_stride" -> T3(InR(c.sh, DwSLo, DwSHi) /\ InR(c.sw, DwSLo, DwSHi))
      [] id = "dw_mult" -> T3(c.mult <= 1 \/ c.c = 1)
      [] id = "inout_type" -> T3(c.dt = c.odt)
      [] id = "pool_stride" -> T3(InR(c.sh, PsLo, PsHi) /\ InR(c.sw, PsLo, PsHi))
      [] id = "mp_h" -> T3(InR(c.kh, MpHLo, MpHHi))
      [] id = "mp_prod" -> T3(InR(c.kh * c.kw, MpPLo, MpPHi))
      [] id = "ap_stride_pad" -> T3(c.sw >= ApSwMin /\ (c.sw > ApSwValidAbove => c.pad = "VALID"))
      [] id = "ap_filter" -> T3(InR(c.kh, ApFLo, ApFHi) /\ InR(c.kw, ApFLo, ApFHi))
      [] id = "ap_filter_same" -> T3(c.pad # "SAME" \/ (InR(c.kh, ApFLo, ApFHi) /\ InR(c.kw, ApFLo, ApFHi)))
      \* the bullet itself names the option that lifts it
      [] id = "wsym" -> T3(c.force \/ c.dt \notin {"int8", "int16"} \/ c.wzp = 0)
      [] id = "ap_vh" -> T3(c.pad # "VALID" \/ InR(c.kh, ApVHLo, ApVHHi))
      [] id = "ap_vprod" -> T3(c.pad # "VALID" \/ InR(c.kh * c.kw, ApVPLo, ApVPHi))
      [] id = "either_shape" -> T3(c.s1 = c.so \/ c.s2 = c.so)
      [] id = "in_types" -> T3(c.dt = c.dt2)
      [] id = "signed" -> T3(c.dt \in SignedT => c.odt \in SignedT)
      [] id = "unsigned" -> T3(c.dt \in UnsignedT => (c.odt = c.dt \/ c.odt = "int32"))
      [] id = "broadcast" -> Broadcast(c)
      [] id = "fc_2d" -> IF Len(c.so) = 2 /\ Len(c.s1) = 2 /\ c.s1[2] = c.wic THEN "T" ELSE "U"
      [] id = "fc_knd" -> T3(~c.knd \/ Len(c.s1) = Len(c.so))
      [] id = "rs_quant" -> T3(c.qmatch)
      [] id = "rs_elems" -> T3(ProdSeq(c.s1) = ProdSeq(c.so))
      [] id = "rs_const" -> T3(c.sconst)
      [] id = "mean_rank" -> T3(Len(c.s1) >= MeanMinRank)
      [] id = "mean_axis" -> MeanAxis(c)
      [] id = "mean_prod" -> MeanProd(c)
      [] id = "mean_width" -> MeanWidth(c)
      [] id = "mean_depth" -> T3((Len(c.s1) - 1) \notin Rng(c.axes) \/ c.s1[Len(c.s1)] <= MeanDMax)
      [] OTHER -> Eval2(id, c)

Failing(c) == IF c.op \in InTable THEN {id \in Listed[c.op] : Eval(id, Canon(c)) = "F"} ELSE {"not-in-table"}
Undecided(c) == IF c.op \in InTable THEN {id \in Listed[c.op] : Eval(id, Canon(c)) = "U"} ELSE {}
Expect(c) == IF Failing(c) # {} THEN "CPU"
             ELSE IF Undecided(c) # {} \/ c.op \in Unmodelled THEN "ANY"
             ELSE "NPU"

\* ---------------------------------------------------------------- case generator
Z == [op |-> "", dt |-> "int8", dt2 |-> "int8", odt |-> "int8", wt |-> "int8", bt |-> "none",
      b |-> 1, h |-> 1, w |-> 1, c |-> 1, kh |-> 1, kw |-> 1, sh |-> 1, sw |-> 1, dh |-> 1, dw |-> 1,
      pad |-> "SAME", oc |-> 1, mult |-> 1, wic |-> 1, wconst |-> TRUE, wfill |-> "rand", brank |-> 1, bbits |-> 11,
      faf |-> "NONE", paq |-> "none", wzp |-> 0, s1 |-> <<>>, s2 |-> <<>>, so |-> <<>>, hasq |-> TRUE, qmatch |-> TRUE,
      sconst |-> TRUE, knd |-> FALSE, axes |-> <<>>, keep |-> TRUE, axis |-> "nominal", axis2 |-> "",
      \* round 4: command-line option named by the report; parameters of the operators added in round 4
      force |-> FALSE, ax |-> 0, n |-> 2, perm |-> <<>>, pconst |-> TRUE, pdt |-> "int32", pads |-> <<>>, beta |-> "pos",
      alpha |-> "small", align |-> FALSE, half |-> FALSE, szmatch |-> TRUE, sizes |-> <<>>, beg |-> <<>>, end |-> <<>>,
      strd |-> <<>>, bmask |-> 0, emask |-> 0, ell |-> 0, newax |-> 0, shrink |-> 0, offs |-> FALSE, odh |-> 0,
      \* a set of command-line options no bullet of the report mentions ("" = none): it must not move any operator
      nopt |-> "",
      \* round 5: the second operand of a binary operator is a constant of the file (TRUE) or produced at run time (FALSE);
      \* no bullet mentions it, so Expect cannot depend on it
      c2const |-> FALSE]

Nom(op) ==
    CASE op = "CONV_2D" -> [Z EXCEPT !.op = op, !.h = 9, !.w = 13, !.c = 8, !.kh = 3, !.kw = 3, !.oc = 8, !.wic = 8,
                                      !.bt = "int32"]
      [] op = "DEPTHWISE_CONV_2D" -> [Z EXCEPT !.op = op, !.h = 9, !.w = 13, !.c = 8, !.kh = 3, !.kw = 3, !.bt = "int32"]
      [] op = "MAX_POOL_2D" -> [Z EXCEPT !.op = op, !.h = 9, !.w = 13, !.c = 8, !.kh = 2, !.kw = 2]
      [] op = "AVERAGE_POOL_2D" -> [Z EXCEPT !.op = op, !.h = 9, !.w = 13, !.c = 8, !.kh = 2, !.kw = 2]
      [] op \in ELT -> [Z EXCEPT !.op = op, !.s1 = <<1, 6, 7, 8>>, !.s2 = <<1, 6, 7, 8>>, !.so = <<1, 6, 7, 8>>]
      [] op = "FULLY_CONNECTED" -> [Z EXCEPT !.op = op, !.s1 = <<1, 24>>, !.so = <<1, 10>>, !.oc = 10, !.wic = 24,
                                             !.bt = "int32"]
      [] op = "RESHAPE" -> [Z EXCEPT !.op = op, !.s1 = <<1, 6, 7, 8>>, !.so = <<1, 42, 1, 8>>]
      [] op = "SQUEEZE" -> [Z EXCEPT !.op = op, !.s1 = <<1, 6, 7, 8>>, !.so = <<6, 7, 8>>]
      [] op = "EXPAND_DIMS" -> [Z EXCEPT !.op = op, !.s1 = <<1, 7, 8>>, !.so = <<1, 1, 7, 8>>]
      [] op = "MEAN" -> [Z EXCEPT !.op = op, !.s1 = <<1, 6, 7, 8>>, !.axes = <<1, 2>>]
      [] op \in UNARY -> [Z EXCEPT !.op = op, !.s1 = <<1, 6, 7, 8>>, !.so = <<1, 6, 7, 8>>]
      [] op \in BIN2 -> [Z EXCEPT !.op = op, !.s1 = <<1, 6, 7, 8>>, !.s2 = <<1, 6, 7, 8>>, !.so = <<1, 6, 7, 8>>]
      [] op = "CONCATENATION" -> [Z EXCEPT !.op = op, !.s1 = <<1, 6, 7, 8>>, !.s2 = <<1, 6, 7, 4>>, !.so = <<1, 6, 7, 12>>, !.ax = 3]
      [] op = "SPLIT" -> [Z EXCEPT !.op = op, !.s1 = <<1, 6, 7, 8>>, !.so = <<1, 6, 7, 4>>, !.ax = 3, !.n = 2]
      [] op = "SPLIT_V" -> [Z EXCEPT !.op = op, !.s1 = <<1, 6, 7, 8>>, !.ax = 3, !.sizes = <<3, 5>>, !.so = <<1, 6, 7, 3>>]
      [] op = "SLICE" -> [Z EXCEPT !.op = op, !.s1 = <<1, 6, 7, 8>>, !.beg = <<0, 1, 2, 0>>, !.sizes = <<1, 4, 3, 8>>,
                                   !.so = <<1, 4, 3, 8>>]
      [] op = "STRIDED_SLICE" -> [Z EXCEPT !.op = op, !.s1 = <<1, 6, 7, 8>>, !.beg = <<0, 1, 0, 0>>, !.end = <<1, 5, 7, 8>>,
                                           !.strd = <<1, 1, 1, 1>>, !.so = <<1, 4, 7, 8>>]
      [] op = "TRANSPOSE" -> [Z EXCEPT !.op = op, !.s1 = <<1, 6, 7, 8>>, !.perm = <<0, 2, 1, 3>>, !.so = <<1, 7, 6, 8>>]
      [] op = "PAD" -> [Z EXCEPT !.op = op, !.s1 = <<1, 6, 7, 8>>, !.pads = <<<<0, 0>>, <<1, 1>>, <<2, 2>>, <<0, 0>>>>,
                                 !.so = <<1, 8, 11, 8>>]
      [] op \in RESIZE -> [Z EXCEPT !.op = op, !.s1 = <<1, 4, 5, 8>>, !.so = <<1, 8, 10, 8>>]
      [] op = "TRANSPOSE_CONV" -> [Z EXCEPT !.op = op, !.h = 4, !.w = 5, !.c = 8, !.kh = 3, !.kw = 3, !.sh = 2, !.sw = 2,
                                            !.oc = 4, !.bt = "int32"]
      [] op = "ARG_MAX" -> [Z EXCEPT !.op = op, !.s1 = <<1, 6, 7, 8>>, !.ax = 3, !.odt = "int32"]

Apply(r, u) == [f \in DOMAIN r |-> IF f \in DOMAIN u THEN u[f] ELSE r[f]]

\* boundary points of a documented range; the thorough case set (WithPairs) adds two interior points
Points(lo, hi) == {x \in {lo - 1, lo, lo + 1, hi - 1, hi, hi + 1}
                         \cup (IF WithPairs THEN {(lo + hi) \div 2, (lo + hi) \div 3} ELSE {}) : x >= 1}
DimPts == {x \in Points(DimLo, DimHi) : x >= 1}
Faf == {"NONE", "RELU", "RELU6", "RELU_N1_TO_1", "TANH", "SIGN_BIT"}

\* type changes keep the instance self-consistent (bias type follows the IFM type, float tensors carry no quantisation)
TypeU(t) == [dt |-> t, dt2 |-> t, odt |-> t, wt |-> IF t = "uint8" THEN "uint8" ELSE "int8", hasq |-> t # "float32",
             axis |-> "dtype"]
TypeUConv(t) == [dt |-> t, odt |-> t, wt |-> IF t = "uint8" THEN "uint8" ELSE "int8", hasq |-> t # "float32",
                 bt |-> IF t = "int16" THEN "int64" ELSE "int32", axis |-> "dtype"]
Types == {"int8", "uint8", "int16", "int32", "float32"}

GenericU(op) ==
       {[faf |-> f, axis |-> "faf"] : f \in Faf}
  \cup {[hasq |-> FALSE, axis |-> "noquant"]}

\* --force-symmetric-int-weights x IFM type (the two the bullet names and one it does not) x weight zero point
ForceU == {[dt |-> t, odt |-> t, bt |-> IF t = "int16" THEN "int64" ELSE "int32", wzp |-> z, force |-> f,
            axis |-> IF f THEN "weights_zero_point_forced" ELSE "weights_zero_point"] :
               t \in {"int8", "int16"}, z \in {0, 3, -2}, f \in BOOLEAN}
      \cup {[paq |-> "weights", wzp |-> 3, force |-> f, axis |-> "per_axis_weights_zero_point"] : f \in BOOLEAN}
NeutralOpts == {"size", "align", "alloc", "blockdep", "debugdb"}     \* meaning: NEUTRAL_OPTIONS in harness/checks/c16.py
NeutralU == {[force |-> TRUE, axis |-> "force_option"]} \cup {[nopt |-> o, axis |-> "neutral_option"] : o \in NeutralOpts}

ConvLikeU(op) ==
       {TypeUConv(t) : t \in Types}
  \cup {[b |-> v, axis |-> "batch"] : v \in {1, 2, 3}}
  \cup {[sh |-> v, axis |-> "stride_h"] : v \in {1, 2, 3, 4}}
  \cup {[sw |-> v, axis |-> "stride_w"] : v \in {1, 2, 3, 4}}
  \cup {[sh |-> v, sw |-> v, axis |-> "stride"] : v \in {2, 3, 4}}
  \cup {[kh |-> v, h |-> Max(9, v), axis |-> "kernel_h"] : v \in Points(DilHLo[op], DilHHi[op])}
  \cup {[kh |-> v, dh |-> 2, h |-> Max(9, 2 * v), axis |-> "dilated_kernel_h"] :
            v \in {(DilHHi[op] \div 2) - 1, DilHHi[op] \div 2, (DilHHi[op] \div 2) + 1}}
  \cup {[kh |-> a, kw |-> b2, h |-> Max(9, a), w |-> Max(13, b2), axis |-> "kernel_product"] :
            a \in {DilHHi[op] - 1, DilHHi[op]}, b2 \in {DilHHi[op], DilHHi[op] + 1}}
  \cup {[h |-> v, w |-> 2, kh |-> 1, kw |-> 1, axis |-> "dim_h"] : v \in DimPts}
  \cup {[w |-> v, h |-> 2, kh |-> 1, kw |-> 1, axis |-> "dim_w"] : v \in DimPts}
  \cup {[wt |-> "int16", axis |-> "weights_16bit"], [wconst |-> FALSE, axis |-> "weights_dynamic"],
        [brank |-> 2, axis |-> "bias_2d"], [bt |-> "int16", axis |-> "bias_type"], [bt |-> "none", axis |-> "no_bias"],
        [paq |-> "weights", axis |-> "per_axis_weights"], [wzp |-> 3, axis |-> "weights_zero_point"]}
  \cup {[dt |-> "int16", odt |-> "int16", bt |-> "int64", bbits |-> v, axis |-> "bias_bits"] :
            v \in {BiasBits[op] - 1, BiasBits[op], BiasBits[op] + 1}}
  \cup {[pad |-> "VALID", axis |-> "padding"]}
  \cup ForceU

ConvU ==
       ConvLikeU("CONV_2D") \cup GenericU("CONV_2D")
  \cup {[c |-> v, wic |-> v, h |-> 2, w |-> 2, kh |-> 1, kw |-> 1, oc |-> 2, wfill |-> "small", axis |-> "dim_c"] : v \in DimPts}
  \cup {[wic |-> 3, axis |-> "groups_depth"]}
  \cup {[sw |-> 4, h |-> 1, w |-> 4, kh |-> 1, kw |-> 1, axis |-> "stride_w_ofm1"]}
  \cup {[sh |-> 4, h |-> 3, kh |-> 3, pad |-> "VALID", axis |-> "stride_h_ofm1"]}
  \cup {[kh |-> 2, kw |-> 1, h |-> 2, w |-> 2, c |-> v, wic |-> v, oc |-> 1, wfill |-> "max", pad |-> "VALID",
         axis |-> "weight_sum"] :
            v \in {(WSumMax["CONV_2D"] \div 254) - 1, WSumMax["CONV_2D"] \div 254, (WSumMax["CONV_2D"] \div 254) + 1}}

DwU ==
       ConvLikeU("DEPTHWISE_CONV_2D") \cup GenericU("DEPTHWISE_CONV_2D")
  \cup {[mult |-> 2, axis |-> "depth_multiplier"], [mult |-> 2, c |-> 1, axis |-> "depth_multiplier_c1"]}

MaxPoolU ==
       GenericU("MAX_POOL_2D")
  \cup {[dt |-> t, odt |-> t, hasq |-> t # "float32", axis |-> "dtype"] : t \in Types}
  \cup {[odt |-> "int16", axis |-> "out_type"]}
  \cup {[b |-> v, axis |-> "batch"] : v \in {1, 2}}
  \cup {[sh |-> v, axis |-> "stride_h"] : v \in Points(PsLo, PsHi)}
  \cup {[sw |-> v, axis |-> "stride_w"] : v \in Points(PsLo, PsHi)}
  \cup {[kh |-> v, h |-> Max(9, v), axis |-> "kernel_h"] : v \in Points(MpHLo, MpHHi)}
  \cup {[kh |-> a, kw |-> b2, h |-> a, w |-> b2, axis |-> "kernel_product"] :
            a \in {MpHHi - 1, MpHHi}, b2 \in {MpHHi, MpHHi + 1}}
  \cup {[h |-> v, w |-> 2, kh |-> 1, kw |-> 1, axis |-> "dim_h"] : v \in DimPts}
  \cup {[pad |-> "VALID", axis |-> "padding"]}

AvgPoolU ==
       GenericU("AVERAGE_POOL_2D")
  \cup {[dt |-> t, odt |-> t, hasq |-> t # "float32", axis |-> "dtype"] : t \in Types}
  \cup {[b |-> v, axis |-> "batch"] : v \in {1, 2}}
  \cup {[sh |-> v, axis |-> "stride_h"] : v \in {1, 2, 3, 4}}
  \cup {[sw |-> v, axis |-> "stride_w"] : v \in {1, 2, 3, 4}}
  \cup {[sw |-> v, pad |-> "VALID", axis |-> "stride_w_valid"] : v \in {3, 4}}
  \cup {[kh |-> v, kw |-> v, axis |-> "filter_same"] : v \in Points(ApFLo, ApFHi)}
  \cup {[kh |-> v, kw |-> 2, h |-> Max(9, v), pad |-> "VALID", axis |-> "filter_h_valid"] :
            v \in Points(ApFLo, ApFHi) \cup Points(ApVHLo, ApVHHi)}
  \cup {[kh |-> a, kw |-> b2, h |-> a, w |-> b2, pad |-> "VALID", axis |-> "kernel_product_valid"] :
            a \in {ApVHHi - 1, ApVHHi}, b2 \in {ApVHHi, ApVHHi + 1}}
  \cup {[h |-> v, w |-> 2, kh |-> 1, kw |-> 1, axis |-> "dim_h"] : v \in DimPts}

\* ---- operands of different ranks (and of equal ranks below 4): rank pairs (r, q) in 1..4 x 1..4.  The longer operand is
\* BcBase(r) (leading 1: the batch bullet is decided); the shorter one runs over every pattern numpy allows against the last q
\* dimensions (each dimension kept or 1), first or second operand, constant or produced at run time; plus shapes that only
\* match when aligned on the LEADING dimensions (a prefix of the longer operand), which the bullet forbids.
BcBase(r) == CASE r = 1 -> <<1>> [] r = 2 -> <<1, 8>> [] r = 3 -> <<1, 4, 8>> [] r = 4 -> <<1, 4, 6, 8>>
Suffix(s, q) == [i \in 1..q |-> s[Len(s) - q + i]]
Prefix(s, q) == [i \in 1..q |-> s[i]]
BcPatterns(r, q) == {[i \in 1..q |-> IF m[i] = 1 THEN Suffix(BcBase(r), q)[i] ELSE 1] : m \in [1..q -> {0, 1}]}
\* quick case set: the full suffix and the per-channel vector pattern only
BcPatternsQ(r, q) == {Suffix(BcBase(r), q), [i \in 1..q |-> IF i = q THEN BcBase(r)[r] ELSE 1]}
BcRankPairs == {<<r, q>> \in (1..4) \X (1..4) : q <= r /\ <<r, q>> # <<4, 4>>}
BcRanksU ==
       UNION {{[s1 |-> BcBase(p[1]), s2 |-> t, so |-> BcBase(p[1]), c2const |-> k, axis |-> "broadcast_ranks"] :
                  t \in (IF WithPairs THEN BcPatterns(p[1], p[2]) ELSE BcPatternsQ(p[1], p[2])),
                  k \in (IF WithPairs THEN BOOLEAN ELSE {(p[1] + p[2]) % 2 = 0})} : p \in BcRankPairs}
  \cup UNION {{[s1 |-> t, s2 |-> BcBase(p[1]), so |-> BcBase(p[1]), c2const |-> k, axis |-> "broadcast_ranks_swapped"] :
                  t \in (IF WithPairs THEN BcPatterns(p[1], p[2]) ELSE {Suffix(BcBase(p[1]), p[2])}),
                  k \in (IF WithPairs THEN BOOLEAN ELSE {(p[1] + p[2]) % 2 = 1})} : p \in {x \in BcRankPairs : x[2] < x[1]}}
  \cup {[s1 |-> BcBase(p[1]), s2 |-> Prefix(BcBase(p[1]), p[2]), so |-> BcBase(p[1]), axis |-> "broadcast_leading"] :
            p \in {<<3, 2>>, <<4, 2>>, <<4, 3>>}}
  \cup {[s1 |-> <<1, 4, 6, 8>>, s2 |-> t, so |-> <<1, 4, 6, 8>>, axis |-> "broadcast_ranks_mismatch"] : t \in {<<4>>, <<3, 8>>, <<6, 1, 8>>}}
  \cup {[c2const |-> TRUE, axis |-> "second_operand_constant"],
        [s2 |-> <<1, 1, 1, 8>>, c2const |-> TRUE, axis |-> "second_operand_constant"]}

EltU(op) ==
       BcRanksU \cup GenericU(op)
  \cup {TypeU(t) : t \in Types}
  \cup {[dt2 |-> "uint8", axis |-> "input_types_differ"], [odt |-> "uint8", axis |-> "signed_to_unsigned"],
        [dt |-> "uint8", dt2 |-> "uint8", odt |-> "int8", axis |-> "unsigned_to_signed"],
        [dt |-> "int32", dt2 |-> "int32", odt |-> "int32", faf |-> "RELU", axis |-> "int32_with_faf"]}
  \cup {[s1 |-> s, s2 |-> s, so |-> s, axis |-> "rank"] :
            s \in {<<1>>, <<8>>, <<1, 8>>, <<1, 7, 8>>, <<1, 6, 7, 8>>, <<1, 1, 6, 7, 8>>}}
  \cup {[s1 |-> <<b2, 6, 7, 8>>, s2 |-> <<b2, 6, 7, 8>>, so |-> <<b2, 6, 7, 8>>, axis |-> "batch"] : b2 \in {1, 2}}
  \cup {[s2 |-> s, axis |-> "broadcast"] :
            s \in {<<1, 1, 1, 8>>, <<1, 1, 7, 8>>, <<1, 6, 1, 1>>, <<1, 1, 1, 1>>, <<1, 6, 7, 4>>, <<1, 3, 7, 8>>}}
  \cup {[s1 |-> <<1, 1, 7, 8>>, s2 |-> <<1, 6, 1, 8>>, axis |-> "broadcast_both"]}
  \cup {[s1 |-> <<1, 2, v, 2>>, s2 |-> <<1, 2, v, 2>>, so |-> <<1, 2, v, 2>>, axis |-> "dim_w"] : v \in DimPts}
  \cup {[paq |-> "ifm", axis |-> "per_axis_ifm"]}

FcU ==
       GenericU("FULLY_CONNECTED")
  \cup {TypeUConv(t) : t \in Types}
  \cup {[s1 |-> <<v, 24>>, so |-> <<v, 10>>, axis |-> "batch"] : v \in {1, 2, 4}}
  \cup {[wt |-> "int16", axis |-> "weights_16bit"], [wconst |-> FALSE, axis |-> "weights_dynamic"],
        [brank |-> 2, axis |-> "bias_2d"], [bt |-> "int16", axis |-> "bias_type"], [bt |-> "none", axis |-> "no_bias"],
        [knd |-> TRUE, axis |-> "keep_num_dims"]}
  \cup {[dt |-> "int16", odt |-> "int16", bt |-> "int64", bbits |-> v, axis |-> "bias_bits"] :
            v \in {BiasBits["FULLY_CONNECTED"] - 1, BiasBits["FULLY_CONNECTED"], BiasBits["FULLY_CONNECTED"] + 1}}
  \cup {[s1 |-> <<1, v>>, wic |-> v, oc |-> 2, so |-> <<1, 2>>, axis |-> "dim_c"] : v \in DimPts}

ReshapeU ==
       {[hasq |-> FALSE, axis |-> "noquant"]}
  \cup {[dt |-> t, odt |-> t, hasq |-> t # "float32", axis |-> "dtype"] : t \in Types}
  \cup {[qmatch |-> FALSE, axis |-> "quant_differs"], [sconst |-> FALSE, axis |-> "shape_dynamic"],
        [so |-> <<1, 41, 1, 8>>, axis |-> "elements_differ"]}
  \cup {[so |-> s, axis |-> "rank"] : s \in {<<336>>, <<42, 8>>, <<6, 7, 8>>, <<1, 6, 7, 8>>, <<1, 2, 3, 7, 8>>}}
  \cup {[s1 |-> <<b2, 6, 7, 8>>, so |-> <<b2, 42, 1, 8>>, axis |-> "batch"] : b2 \in {1, 2}}
  \cup {[s1 |-> <<1, v, 1, 2>>, so |-> <<1, 2, v, 1>>, axis |-> "dim"] : v \in DimPts}

MemOnlyU(op) ==
       {[hasq |-> FALSE, axis |-> "noquant"]}
  \cup {[dt |-> t, odt |-> t, hasq |-> t # "float32", axis |-> "dtype"] : t \in Types}
  \cup {[qmatch |-> FALSE, axis |-> "quant_differs"]}
  \cup {[so |-> IF op = "SQUEEZE" THEN <<6, 7, 7>> ELSE <<1, 1, 7, 7>>, axis |-> "elements_differ"]}

MeanShapes == {<<<<1, 6, 7, 8>>, <<1, 2>>>>, <<<<1, 6, 7, 8>>, <<1>>>>, <<<<1, 6, 7, 8>>, <<2>>>>, <<<<1, 6, 7, 8>>, <<3>>>>,
               <<<<1, 1, 7, 8>>, <<3>>>>, <<<<1, 6, 1, 8>>, <<3>>>>, <<<<1, 6, 7, 1>>, <<3>>>>, <<<<1, 6, 7, 8>>, <<0>>>>,
               <<<<2, 6, 7, 8>>, <<0>>>>, <<<<1, 6, 7, 8>>, <<1, 2, 3>>>>, <<<<1, 1, 7, 8>>, <<1, 2, 3>>>>,
               <<<<6, 7, 8>>, <<2>>>>, <<<<1, 7, 8>>, <<2>>>>, <<<<6, 1, 8>>, <<2>>>>, <<<<6, 7, 1>>, <<2>>>>,
               <<<<1, 7, 8>>, <<0, 1>>>>, <<<<1, 7, 8>>, <<1>>>>, <<<<1, 8>>, <<1>>>>, <<<<1, 8>>, <<0>>>>, <<<<8>>, <<0>>>>,
               \* rank 1 with a leading 1, so that the batch bullet (undecided for other tensors of fewer than 4 dimensions) holds
               <<<<1>>, <<0>>>>}
MeanU ==
       {[hasq |-> FALSE, axis |-> "noquant"]}
  \cup {[dt |-> t, odt |-> t, hasq |-> t # "float32", axis |-> "dtype"] : t \in Types}
  \cup {[s1 |-> p[1], axes |-> p[2], keep |-> k, axis |-> "mean_axes"] : p \in MeanShapes, k \in BOOLEAN}
  \cup {[s1 |-> <<1, 8>>, axes |-> <<0, 1>>, axis |-> "mean_axes"]}
  \cup {[s1 |-> <<1, a, b2, 2>>, dt |-> "int16", odt |-> "int16", axis |-> "mean_product"] :
            a \in {MeanProdI16 \div 256 - 1, MeanProdI16 \div 256}, b2 \in {256, 257}}
  \cup {[s1 |-> <<1, 2, v, 2>>, axes |-> <<2>>, axis |-> "mean_width"] : v \in Points(1, MeanWMax)}
  \cup {[s1 |-> <<1, 2, MeanWMax + 1, 2>>, axes |-> <<1>>, axis |-> "mean_width_not_reduced"]}
  \cup {[s1 |-> <<1, 1, 1, v>>, axes |-> <<3>>, axis |-> "mean_depth"] : v \in Points(1, MeanDMax)}


\* ---------------------------------------------------------------- operators added in round 4
RankShapes == {<<8>>, <<1, 8>>, <<1, 7, 8>>, <<1, 6, 7, 8>>, <<1, 1, 6, 7, 8>>}
DtypeU == {[dt |-> t, dt2 |-> t, odt |-> t, hasq |-> t # "float32", axis |-> "dtype"] : t \in Types}

UnaryU(op) ==
       DtypeU
  \cup {[hasq |-> FALSE, axis |-> "noquant"], [odt |-> "int16", axis |-> "out_type"]}
  \cup {[s1 |-> s, so |-> s, axis |-> "rank"] : s \in RankShapes \cup {<<1>>}}
  \cup {[s1 |-> <<2, 6, 7, 8>>, so |-> <<2, 6, 7, 8>>, axis |-> "batch"]}
  \cup {[so |-> <<1, 7, 6, 8>>, axis |-> "shape_differs"]}
  \cup {[s1 |-> <<1, 2, v, 2>>, so |-> <<1, 2, v, 2>>, axis |-> "dim_w"] : v \in DimPts}
  \cup (IF op = "SOFTMAX" THEN {[beta |-> x, axis |-> "beta"] : x \in {"pos", "zero", "neg"}} ELSE {})
  \cup (IF op = "LEAKY_RELU" THEN {[alpha |-> x, axis |-> "alpha"] : x \in {"small", "one", "big", "neg"}} ELSE {})

BinU(op) ==
       DtypeU \cup (IF "broadcast" \in Listed[op] THEN BcRanksU
                    ELSE {u \in BcRanksU : u.axis \in {"broadcast_ranks", "broadcast_ranks_swapped", "second_operand_constant"}})
  \cup {[hasq |-> FALSE, axis |-> "noquant"], [odt |-> "int16", axis |-> "out_type"], [qmatch |-> FALSE, axis |-> "quant_differs"]}
  \cup {[s1 |-> s, s2 |-> s, so |-> s, axis |-> "rank"] : s \in RankShapes \cup {<<1>>}}
  \cup {[s1 |-> <<2, 6, 7, 8>>, s2 |-> <<2, 6, 7, 8>>, so |-> <<2, 6, 7, 8>>, axis |-> "batch"]}
  \cup {[s2 |-> s, axis |-> "broadcast"] : s \in {<<1, 1, 1, 8>>, <<1, 1, 7, 8>>, <<1, 6, 1, 1>>, <<1, 1, 1, 1>>}}
  \cup (IF "broadcast" \in Listed[op]
        THEN {[s2 |-> s, axis |-> "broadcast"] : s \in {<<1, 6, 7, 4>>, <<1, 3, 7, 8>>}} ELSE {})
  \cup {[s1 |-> <<1, 1, 7, 8>>, s2 |-> <<1, 6, 1, 8>>, axis |-> "broadcast_both"]}
  \cup {[s1 |-> <<1, 2, v, 2>>, s2 |-> <<1, 2, v, 2>>, so |-> <<1, 2, v, 2>>, axis |-> "dim_w"] : v \in DimPts}

ConcatShapes == {<<<<1, 6, 7, 8>>, <<1, 6, 7, 8>>, <<2, 6, 7, 8>>, 0>>, <<<<1, 6, 7, 8>>, <<1, 2, 7, 8>>, <<1, 8, 7, 8>>, 1>>,
                 <<<<1, 6, 7, 8>>, <<1, 6, 3, 8>>, <<1, 6, 10, 8>>, 2>>, <<<<1, 6, 7, 8>>, <<1, 6, 7, 4>>, <<1, 6, 7, 12>>, -1>>,
                 <<<<1, 6, 7, 8>>, <<1, 6, 7, 4>>, <<1, 6, 7, 12>>, 4>>, <<<<1, 6, 7, 8>>, <<1, 6, 7, 4>>, <<1, 6, 7, 12>>, -5>>,
                 <<<<8>>, <<4>>, <<12>>, 0>>, <<<<1, 8>>, <<1, 4>>, <<1, 12>>, 1>>, <<<<1, 7, 8>>, <<1, 7, 4>>, <<1, 7, 12>>, 2>>,
                 <<<<1, 1, 6, 7, 8>>, <<1, 1, 6, 7, 4>>, <<1, 1, 6, 7, 12>>, 4>>,
                 <<<<2, 6, 7, 8>>, <<2, 6, 7, 4>>, <<2, 6, 7, 12>>, 3>>}
ConcatU ==
       DtypeU
  \cup {[hasq |-> FALSE, axis |-> "noquant"], [qmatch |-> FALSE, axis |-> "quant_differs"]}
  \cup {[faf |-> f, axis |-> "faf"] : f \in Faf}
  \cup UNION {{[s1 |-> p[1], s2 |-> p[2], so |-> p[3], ax |-> a, axis |-> "concat_axis"] : a \in AxForms(p[4], Len(p[3]))} : p \in ConcatShapes}
  \cup {[s2 |-> <<6, 7, 4>>, axis |-> "rank_differs"], [s2 |-> <<1, 6, 5, 4>>, axis |-> "dims_differ"],
        [so |-> <<1, 6, 7, 13>>, axis |-> "sum_differs"]}
  \cup {[s1 |-> <<1, 2, v, 2>>, s2 |-> <<1, 2, 1, 2>>, so |-> <<1, 2, v + 1, 2>>, ax |-> 2, axis |-> "dim_w"] :
            v \in {DimHi - 2, DimHi - 1, DimHi}}

SplitOut(sh, a, k) == IF InR(a, -Len(sh), Len(sh) - 1)
                      THEN [i \in 1..Len(sh) |-> IF i = NormAx(a, Len(sh)) + 1 THEN Max(1, sh[i] \div k) ELSE sh[i]] ELSE sh
SplitU ==
       DtypeU
  \cup {[hasq |-> FALSE, axis |-> "noquant"]}
  \cup {[s1 |-> <<2, 6, 8, 8>>, ax |-> a, so |-> SplitOut(<<2, 6, 8, 8>>, a, 2), axis |-> "split_axis"] :
            a \in {-5, -4, -3, -2, -1, 0, 1, 2, 3, 4}}
  \cup {[n |-> k, so |-> SplitOut(<<1, 6, 7, 8>>, 3, k), axis |-> "num_splits"] : k \in {1, 2, 3, 4, 8}}
  \cup {[s1 |-> s, ax |-> Len(s) - 1, so |-> SplitOut(s, Len(s) - 1, 2), axis |-> "rank"] : s \in RankShapes}
  \cup {[s1 |-> <<2, 6, 7, 8>>, so |-> <<2, 6, 7, 4>>, axis |-> "batch"]}

SvOut(sh, a, first) == [i \in 1..Len(sh) |-> IF i = NormAx(a, Len(sh)) + 1 THEN first ELSE sh[i]]
SplitVU ==
       DtypeU
  \cup {[hasq |-> FALSE, axis |-> "noquant"]}
  \cup {[sizes |-> z[1], so |-> SvOut(<<1, 6, 7, 8>>, 3, z[2]), axis |-> "sizes"] :
            z \in {<<<<3, 5>>, 3>>, <<<<-1, 5>>, 3>>, <<<<3, -1>>, 3>>, <<<<-1, -1>>, 4>>, <<<<8>>, 8>>, <<<<2, 2, 4>>, 2>>,
                   <<<<2, -1, 4>>, 2>>}}
  \cup {[s1 |-> s, ax |-> Len(s) - 1, so |-> SvOut(s, Len(s) - 1, 3), axis |-> "rank"] : s \in RankShapes}
  \cup {[s1 |-> <<2, 6, 7, 8>>, so |-> <<2, 6, 7, 3>>, axis |-> "batch"]}
  \cup {[ax |-> a, s1 |-> <<8, 8, 8, 8>>, so |-> SvOut(<<8, 8, 8, 8>>, a, 3), axis |-> "split_axis"] : a \in {0, 1, 2, 3, -1, -2, -3, -4}}

SliceU ==
       DtypeU
  \cup {[hasq |-> FALSE, axis |-> "noquant"], [pconst |-> FALSE, axis |-> "params_dynamic"]}
  \cup {[s1 |-> p[1], beg |-> p[2], sizes |-> p[3], so |-> p[4], axis |-> "rank"] :
            p \in {<<<<8>>, <<2>>, <<4>>, <<4>>>>, <<<<1, 8>>, <<0, 2>>, <<1, 4>>, <<1, 4>>>>,
                   <<<<1, 7, 8>>, <<0, 1, 2>>, <<1, 3, 4>>, <<1, 3, 4>>>>,
                   <<<<1, 1, 6, 7, 8>>, <<0, 0, 1, 2, 0>>, <<1, 1, 4, 3, 8>>, <<1, 1, 4, 3, 8>>>>}}
  \cup {[s1 |-> <<2, 6, 7, 8>>, beg |-> <<1, 1, 2, 0>>, axis |-> "batch"]}
  \cup {[sizes |-> <<1, -1, 3, -1>>, so |-> <<1, 5, 3, 8>>, axis |-> "size_to_end"],
        [beg |-> <<0, 0, 0, 0>>, sizes |-> <<1, 6, 7, 8>>, so |-> <<1, 6, 7, 8>>, axis |-> "whole"]}
  \cup {[s1 |-> <<1, 2, v, 2>>, beg |-> <<0, 0, 0, 0>>, sizes |-> <<1, 2, v - 1, 2>>, so |-> <<1, 2, v - 1, 2>>, axis |-> "dim_w"] :
            v \in {DimHi, DimHi + 1}}

SsU ==
       DtypeU
  \cup {[hasq |-> FALSE, axis |-> "noquant"], [pconst |-> FALSE, axis |-> "params_dynamic"]}
  \cup {[strd |-> <<1, 2, 1, 1>>, so |-> <<1, 2, 7, 8>>, axis |-> "strides"],
        [strd |-> <<1, 1, 1, 2>>, so |-> <<1, 4, 7, 4>>, axis |-> "strides"],
        [beg |-> <<0, 4, 0, 0>>, end |-> <<1, 0, 7, 8>>, strd |-> <<1, -1, 1, 1>>, axis |-> "strides"],
        [ell |-> 2, axis |-> "ellipsis"], [offs |-> TRUE, axis |-> "offset"],
        [newax |-> 1, shrink |-> 2, beg |-> <<0, 1, 0, 0>>, end |-> <<1, 2, 7, 8>>, so |-> <<1, 7, 8>>, axis |-> "both_masks"],
        [shrink |-> 1, so |-> <<4, 7, 8>>, axis |-> "shrink"],
        [shrink |-> 2, beg |-> <<0, 2, 0, 0>>, end |-> <<1, 3, 7, 8>>, so |-> <<1, 7, 8>>, axis |-> "shrink"],
        [shrink |-> 2, beg |-> <<0, 2, 0, 0>>, end |-> <<1, 0, 7, 8>>, so |-> <<1, 7, 8>>, axis |-> "shrink_end_ignored"],
        [beg |-> <<0, 3, 0, 0>>, end |-> <<1, 3, 7, 8>>, so |-> <<1, 1, 7, 8>>, axis |-> "empty_range"],
        [beg |-> <<0, 4, 0, 0>>, end |-> <<1, 2, 7, 8>>, so |-> <<1, 1, 7, 8>>, axis |-> "empty_range"],
        [beg |-> <<0, -5, 0, 0>>, end |-> <<1, -1, 7, 8>>, axis |-> "negative_indices"],
        [bmask |-> 2, emask |-> 2, beg |-> <<0, 1, 0, 0>>, end |-> <<1, 5, 7, 8>>, so |-> <<1, 6, 7, 8>>, axis |-> "masks"],
        [bmask |-> 15, emask |-> 15, beg |-> <<0, 0, 0, 0>>, end |-> <<0, 0, 0, 0>>, so |-> <<1, 6, 7, 8>>, axis |-> "masks_raw_empty"],
        [emask |-> 4, beg |-> <<0, 1, 3, 0>>, end |-> <<1, 5, 7, 8>>, so |-> <<1, 4, 4, 8>>, axis |-> "masks"]}
  \cup {[s1 |-> p[1], beg |-> p[2], end |-> p[3], strd |-> p[4], so |-> p[5], axis |-> "rank"] :
            p \in {<<<<8>>, <<2>>, <<6>>, <<1>>, <<4>>>>, <<<<1, 8>>, <<0, 2>>, <<1, 6>>, <<1, 1>>, <<1, 4>>>>,
                   <<<<1, 7, 8>>, <<0, 1, 2>>, <<1, 4, 6>>, <<1, 1, 1>>, <<1, 3, 4>>>>,
                   <<<<1, 1, 6, 7, 8>>, <<0, 0, 1, 0, 0>>, <<1, 1, 5, 7, 8>>, <<1, 1, 1, 1, 1>>, <<1, 1, 4, 7, 8>>>>}}
  \cup {[s1 |-> <<2, 6, 7, 8>>, beg |-> <<1, 1, 0, 0>>, end |-> <<2, 5, 7, 8>>, axis |-> "batch"]}

TransposeShapes == {<<<<7, 8>>, <<1, 0>>>>, <<<<7, 8>>, <<0, 1>>>>, <<<<6, 7, 8>>, <<1, 0, 2>>>>, <<<<1, 7, 8>>, <<0, 2, 1>>>>,
                    <<<<6, 7, 8>>, <<0, 2, 1>>>>, <<<<6, 1, 8>>, <<2, 1, 0>>>>, <<<<6, 7, 8>>, <<2, 1, 0>>>>,
                    <<<<6, 7, 8>>, <<1, 2, 0>>>>, <<<<6, 7, 8>>, <<2, 0, 1>>>>, <<<<6, 7, 8>>, <<0, 1, 2>>>>,
                    <<<<1, 6, 7, 8>>, <<0, 2, 1, 3>>>>, <<<<1, 1, 7, 8>>, <<0, 1, 3, 2>>>>, <<<<1, 6, 7, 8>>, <<0, 1, 3, 2>>>>,
                    <<<<1, 6, 1, 8>>, <<0, 3, 2, 1>>>>, <<<<1, 6, 7, 8>>, <<0, 3, 2, 1>>>>, <<<<1, 6, 7, 8>>, <<0, 3, 1, 2>>>>,
                    <<<<1, 6, 7, 8>>, <<0, 2, 3, 1>>>>, <<<<1, 6, 7, 8>>, <<3, 1, 2, 0>>>>, <<<<1, 6, 7, 8>>, <<0, 1, 2, 3>>>>,
                    <<<<2, 6, 7, 8>>, <<0, 2, 1, 3>>>>, <<<<8>>, <<0>>>>, <<<<1, 1, 6, 7, 8>>, <<0, 1, 3, 2, 4>>>>}
Permute(sh, p) == [i \in 1..Len(p) |-> sh[p[i] + 1]]
TransposeU ==
       DtypeU
  \cup {[hasq |-> FALSE, axis |-> "noquant"], [pconst |-> FALSE, axis |-> "params_dynamic"]}
  \cup {[s1 |-> p[1], perm |-> p[2], so |-> Permute(p[1], p[2]), axis |-> "permutation"] : p \in TransposeShapes}
  \cup {[s1 |-> <<1, 2, v, 2>>, perm |-> <<0, 2, 1, 3>>, so |-> <<1, v, 2, 2>>, axis |-> "dim_w"] : v \in DimPts}

PadCases == {<<<<1, 6, 7, 8>>, <<<<0, 0>>, <<0, 0>>, <<0, 0>>, <<0, 0>>>>>>, <<<<1, 6, 7, 8>>, <<<<0, 0>>, <<2, 0>>, <<0, 3>>, <<0, 0>>>>>>,
             <<<<1, 6, 7, 8>>, <<<<0, 0>>, <<0, 0>>, <<0, 0>>, <<1, 2>>>>>>, <<<<1, 6, 7, 8>>, <<<<0, 0>>, <<1, 1>>, <<1, 1>>, <<1, 1>>>>>>,
             <<<<1, 6, 7, 8>>, <<<<1, 0>>, <<0, 0>>, <<0, 0>>, <<0, 0>>>>>>,
             <<<<1, 7, 8>>, <<<<0, 0>>, <<1, 1>>, <<0, 0>>>>>>, <<<<1, 7, 8>>, <<<<0, 0>>, <<1, 1>>, <<2, 2>>>>>>,
             <<<<7, 8>>, <<<<1, 1>>, <<0, 0>>>>>>, <<<<8>>, <<<<1, 1>>>>>>,
             <<<<1, 1, 6, 7, 8>>, <<<<0, 0>>, <<0, 0>>, <<1, 1>>, <<2, 2>>, <<0, 0>>>>>>,
             <<<<2, 6, 7, 8>>, <<<<0, 0>>, <<1, 1>>, <<2, 2>>, <<0, 0>>>>>>}
Padded(sh, pd) == [i \in 1..Len(sh) |-> sh[i] + pd[i][1] + pd[i][2]]
PadU ==
       DtypeU
  \cup {[hasq |-> FALSE, axis |-> "noquant"], [pconst |-> FALSE, axis |-> "params_dynamic"]}
  \cup {[pdt |-> t, axis |-> "pad_type"] : t \in {"int32", "int64"}}
  \cup {[s1 |-> p[1], pads |-> p[2], so |-> Padded(p[1], p[2]), axis |-> "padding"] : p \in PadCases}
  \cup {[so |-> <<1, 8, 12, 8>>, axis |-> "shape_differs"]}
  \cup {[s1 |-> <<1, 2, v, 2>>, pads |-> <<<<0, 0>>, <<0, 0>>, <<1, 0>>, <<0, 0>>>>, so |-> <<1, 2, v + 1, 2>>, axis |-> "dim_w"] :
            v \in {DimHi - 2, DimHi - 1, DimHi}}

\* upscaling factors around the documented set {2, 4, 8}; align_corners: (out - 1) = f * (in - 1)
RzPts == {1, 2, 3, 4, 5, 7, 8, 9, 16}
RzOut(i, f, al) == IF al THEN f * (i - 1) + 1 ELSE f * i
ResizeU(op) ==
       DtypeU
  \cup {[hasq |-> FALSE, axis |-> "noquant"], [szmatch |-> FALSE, axis |-> "size_differs"]}
  \cup {[align |-> al, so |-> <<1, RzOut(4, f, al), RzOut(5, f, al), 8>>, axis |-> "scale"] : f \in RzPts, al \in BOOLEAN}
  \cup {[align |-> al, so |-> <<1, RzOut(4, 2, al), RzOut(5, 4, al), 8>>, axis |-> "scale_unequal"] : al \in BOOLEAN}
  \cup {[so |-> <<1, 6, 10, 8>>, axis |-> "scale_fraction"], [so |-> <<1, 2, 5, 8>>, axis |-> "scale_down"]}
  \cup {[s1 |-> <<1, 1, 1, 8>>, so |-> <<1, 5, 7, 8>>, align |-> al, half |-> hp, axis |-> "ifm_1x1"] : al \in BOOLEAN, hp \in BOOLEAN}
  \cup {[s1 |-> <<1, 1, 5, 8>>, so |-> <<1, 1, RzOut(5, 2, al), 8>>, align |-> al, axis |-> "ifm_h1"] : al \in BOOLEAN}
  \cup {[half |-> TRUE, so |-> <<1, 4 * f, 5 * f, 8>>, axis |-> "half_pixel"] : f \in {1, 2, 3, 4, 8}}
  \cup {[half |-> TRUE, align |-> TRUE, so |-> <<1, 7, 9, 8>>, axis |-> "half_and_align"]}
  \cup {[s1 |-> <<2, 4, 5, 8>>, so |-> <<2, 8, 10, 8>>, axis |-> "batch"]}
  \cup {[s1 |-> <<1, 2, v, 2>>, so |-> <<1, 4, 2 * v, 2>>, axis |-> "dim_w"] : v \in {DimHi \div 2, DimHi \div 2 + 1}}

TconvU ==
       {TypeUConv(t) : t \in Types}
  \cup GenericU("TRANSPOSE_CONV")
  \cup {[b |-> v, axis |-> "batch"] : v \in {1, 2}}
  \cup {[sh |-> a, sw |-> b2, pad |-> p, axis |-> "stride"] : a \in {1, 2, 3}, b2 \in {1, 2, 3}, p \in {"SAME", "VALID"}}
  \cup {[sh |-> 1, sw |-> 2, h |-> hh, kh |-> k, axis |-> "stride_2x1"] : hh \in {1, 2}, k \in {1, 2}}
  \cup {[kh |-> k, kw |-> k, pad |-> "VALID", axis |-> "kernel_valid"] : k \in {1, 2, 3, 4}}
  \cup {[kh |-> v, h |-> 2, w |-> 2, axis |-> "kernel_h"] : v \in Points(DilHLo["TRANSPOSE_CONV"], DilHHi["TRANSPOSE_CONV"])}
  \cup {[kh |-> a, kw |-> b2, h |-> 2, w |-> 2, c |-> 2, oc |-> 2, axis |-> "kernel_product"] :
            a \in {DilHHi["TRANSPOSE_CONV"] - 1, DilHHi["TRANSPOSE_CONV"]},
            b2 \in {DilHHi["TRANSPOSE_CONV"], DilHHi["TRANSPOSE_CONV"] + 1}}
  \cup {[odh |-> 1, pad |-> p, axis |-> "ofm_differs"] : p \in {"SAME", "VALID"}}
  \cup {[wt |-> "int16", axis |-> "weights_16bit"], [wconst |-> FALSE, axis |-> "weights_dynamic"],
        [brank |-> 2, axis |-> "bias_2d"], [bt |-> "int16", axis |-> "bias_type"], [bt |-> "none", axis |-> "no_bias"],
        [paq |-> "weights", axis |-> "per_axis_weights"]}
  \cup {[dt |-> "int16", odt |-> "int16", bt |-> "int64", bbits |-> v, axis |-> "bias_bits"] :
            v \in {BiasBits["TRANSPOSE_CONV"] - 1, BiasBits["TRANSPOSE_CONV"], BiasBits["TRANSPOSE_CONV"] + 1}}
  \cup ForceU

ArgMaxU ==
       {[dt |-> t, hasq |-> t # "float32", axis |-> "dtype"] : t \in Types}
  \cup {[odt |-> t, axis |-> "out_type"] : t \in {"int32", "int64"}}
  \cup {[hasq |-> FALSE, axis |-> "noquant"]}
  \cup {[ax |-> a, axis |-> "argmax_axis"] : a \in {-4, -3, -2, -1, 0, 1, 2, 3}}
  \cup {[s1 |-> <<1, 2, 2, v>>, axis |-> "depth"] : v \in Points(1, ArgMaxDepth)}
  \cup {[s1 |-> s, ax |-> Len(s) - 1, axis |-> "rank"] : s \in RankShapes \ {<<8>>}}
  \cup {[s1 |-> <<2, 6, 7, 8>>, axis |-> "batch"]}

Updates0(op) ==
    CASE op = "CONV_2D" -> ConvU
      [] op \in {"SQUEEZE", "EXPAND_DIMS"} -> MemOnlyU(op)
      [] op = "MEAN" -> MeanU
      [] op = "DEPTHWISE_CONV_2D" -> DwU
      [] op = "MAX_POOL_2D" -> MaxPoolU
      [] op = "AVERAGE_POOL_2D" -> AvgPoolU
      [] op \in ELT -> EltU(op)
      [] op = "FULLY_CONNECTED" -> FcU
      [] op = "RESHAPE" -> ReshapeU
      [] op \in UNARY -> UnaryU(op)
      [] op \in BIN2 -> BinU(op)
      [] op = "CONCATENATION" -> ConcatU
      [] op = "SPLIT" -> SplitU
      [] op = "SPLIT_V" -> SplitVU
      [] op = "SLICE" -> SliceU
      [] op = "STRIDED_SLICE" -> SsU
      [] op = "TRANSPOSE" -> TransposeU
      [] op = "PAD" -> PadU
      [] op \in RESIZE -> ResizeU(op)
      [] op = "TRANSPOSE_CONV" -> TconvU
      [] op = "ARG_MAX" -> ArgMaxU
\* every operator once more with the option that only changes the weight zero-point constraint: nothing else may move
Updates(op) == Updates0(op) \cup NeutralU

Single0(op) == {Apply(Nom(op), u) : u \in Updates(op)} \cup {Nom(op)}
\* every case in each of its equivalent encodings (axis counted from the front / from the end, SLICE size -1 / written out).
\* Quick case set: MEAN (several axes per case, three variants per quick case) only with all axes counted from the end.
EncodingsQ(c) == IF c.op # "MEAN" THEN Encodings(c)
                 ELSE IF c.axis \in {"nominal", "mean_axes", "mean_width", "mean_depth", "mean_width_not_reduced"} /\ c.axes # <<>>
                      THEN {c, [c EXCEPT !.axes = [i \in 1..Len(c.axes) |-> CanonAx(c.axes[i], Len(c.s1)) - Len(c.s1)]]}
                      ELSE {c}
Single(op) == UNION {IF WithPairs THEN Encodings(c) ELSE EncodingsQ(c) : c \in Single0(op)}
Viol(op) == {u \in Updates(op) : Expect(Apply(Nom(op), u)) = "CPU"}
\* pairs of simultaneous violations on disjoint parameters (a constraint that only applies under a condition, e.g.
\* "SAME padding: ...", can be lifted by the other member of the pair: such combinations are not pairs of violations)
Pairs(op) ==
    {p \in UNION {{[Apply(Apply(Nom(op), u1), u2) EXCEPT !.axis = u1.axis, !.axis2 = u2.axis] :
                      u2 \in {u \in Viol(op) : DOMAIN u \cap DOMAIN u1 = {"axis"}}} : u1 \in Viol(op)} : Expect(p) = "CPU"}

Cases == UNION {Single(op) : op \in Covered} \cup (IF WithPairs THEN UNION {Pairs(op) : op \in Covered} ELSE {})

=============================================================================
