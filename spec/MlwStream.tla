----------------------------- MODULE MlwStream -----------------------------
(* What an MLW weight stream must be (property C07), as predicates over one observation
       request  = (configuration c, flattened OHWI source weights w)   or a raw sequence w
       outcome  = "stream" with the decoded stream `dec` and the stream length `len` in bytes,
                  "rejected" (the call returned an error / raised),
                  "crashed" (the process died inside the encoder: signal, abort or sanitizer report), or
                  "undecodable" (the encoder returned a stream on which the reference decoder died).
   The decoded stream is produced by the repository's reference decoder from the bytes the
   encoder of the working tree returned.  The hardware order is WeightOrder!Order. *)
EXTENDS WeightOrder

WMin == -255
WMax == 255
InRange(w) == \A k \in 1..Len(w) : w[k] >= WMin /\ w[k] <= WMax

(* dec = expected followed by zeros only *)
ExpectedThenZeros(dec, exp) ==
    /\ Len(dec) >= Len(exp)
    /\ \A k \in 1..Len(exp) : dec[k] = exp[k]
    /\ \A k \in (Len(exp) + 1)..Len(dec) : dec[k] = 0

Aligned16(len) == len > 0 /\ len % 16 = 0

Outcomes == {"stream", "rejected", "crashed", "undecodable"}

(* failing clauses of one observation; `exp` is the stream the hardware must see *)
Clauses(w, exp, outcome, dec, len) ==
    IF ~InRange(w)
    THEN (IF outcome # "rejected" THEN {"OutOfRangeRejected"} ELSE {})
    ELSE CASE outcome = "rejected" -> {"InRangeEncoded"}
           [] outcome = "crashed" -> {"MemorySafe"}
           [] outcome = "undecodable" -> {"LosslessInHardwareOrder"}
           [] OTHER -> (IF ExpectedThenZeros(dec, exp) THEN {} ELSE {"LosslessInHardwareOrder"})
                       \cup (IF Aligned16(len) THEN {} ELSE {"Aligned16"})

(* a volume request: the configuration must be one the property quantifies over *)
VolumeClauses(c, w, outcome, dec, len) ==
    IF ~ValidCfg(c) \/ Len(w) # c.od * c.kh * c.kw * c.id THEN {"MalformedObservation"}
    ELSE Clauses(w, IF InRange(w) THEN Reordered(c, w) ELSE <<>>, outcome, dec, len)

(* a raw sequence handed to the stream encoder: the expected stream is the sequence itself *)
RawClauses(w, outcome, dec, len) == Clauses(w, w, outcome, dec, len)
=============================================================================
