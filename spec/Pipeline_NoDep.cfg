SPECIFICATION Spec
CONSTANTS MaxN = 2
 MaxC = 1
 RegsNeedFlashAlloc = FALSE
INVARIANT RegsSeeFinalAddresses
CHECK_DEADLOCK FALSE
