----------------------------- MODULE Preserve -----------------------------
(* C11, relational part: what the output model O must look like given the source model S.

   An abstract graph is a record
     ins, outs : sequences of <<name, signature>>
                 signature = the members of the tensor table, one string each (harness/flatmodel.TENSOR_FIELDS:
                 shape, type, scale, zero point, quantised dimension, min, max, quantisation details, variable flag,
                 shape signature, has_rank, sparsity); an absent member reads like an empty / default one
     ops       : sequence of operator records
                   [code, ver, opts, copt, ins, outs, inter, cdat, tsig]
                 code  = builtin operator name, or "CUSTOM:<custom code>"
                 opts  = digest of the builtin options decoded field by field
                 copt  = digest of the custom options bytes
                 ins / outs / inter = operand, result and intermediate tensor *names* in vector order
                         ("" = omitted optional operand, written -1 in the file: positions count)
                 cdat  = per input operand: "type|shape|data digest" for a constant operand, "" otherwise
                 tsig  = per entry of ins \o outs \o inter: the signature of that tensor (<<>> for an omitted one)
     consts    : sequence of names of constant tensors (tensors with a non-empty buffer)
   Tensor and buffer indices never appear: the writer is free to renumber them.

   A (the "absorbed" claim) is a sequence, parallel to O.ops, of sequences of indices into S.ops:
   A[j] lists the source operators the driver believes were compiled into the ethos-u operator j.
   The claim is *checked* here (CustomOpBoundary), not trusted.
   M ("marked") lists the source operators the compiler itself decided to keep on the CPU (run_on_npu = FALSE
   when the passes were packed, observed at run time): such an operator can never count as absorbed. *)
EXTENDS Integers, Sequences, FiniteSets, TLC

Rng(s) == {s[p] : p \in 1..Len(s)}
IsNpuOp(o) == o.code = "CUSTOM:ethos-u"
DRIVER_INPUTS == 4     \* command stream, flash, scratch, fast scratch come first on an ethos-u operator

Names(s) == {s[p][1] : p \in 1..Len(s)}
OpIdx(G) == 1..Len(G.ops)
InsOf(G, i) == Rng(G.ops[i].ins) \ {""}
OutsOf(G, i) == Rng(G.ops[i].outs) \ {""}
Producers(G, t) == {i \in OpIdx(G) : t \in OutsOf(G, i)}

\* ---- source-side classification ---------------------------------------------------
\* live: contributes to a subgraph output
RECURSIVE LiveFrom(_, _)
LiveFrom(G, L) ==
    LET more == {i \in OpIdx(G) \ L : \E k \in L : OutsOf(G, i) \cap InsOf(G, k) # {}}
    IN IF more = {} THEN L ELSE LiveFrom(G, L \cup more)
Live(G) == LiveFrom(G, {i \in OpIdx(G) : OutsOf(G, i) \cap Names(G.outs) # {}})

\* foldable: every data operand is a constant or produced by a foldable operator
RECURSIVE FoldFrom(_, _)
FoldFrom(G, F) ==
    LET cs == Rng(G.consts)
        more == {i \in OpIdx(G) \ F :
                   /\ InsOf(G, i) # {}
                   /\ \A t \in InsOf(G, i) : t \in cs \/ (Producers(G, t) # {} /\ Producers(G, t) \subseteq F)}
    IN IF more = {} THEN F ELSE FoldFrom(G, F \cup more)
Foldable(G) == FoldFrom(G, {})

AbsorbedAll(A) == UNION {Rng(A[j]) : j \in 1..Len(A)}

\* ---- the properties ------------------------------------------------------------
SameInterface(S, O) == S.ins = O.ins /\ S.outs = O.outs

SameOp(a, b) == /\ a.code = b.code /\ a.ver = b.ver /\ a.opts = b.opts /\ a.copt = b.copt
                /\ a.ins = b.ins /\ a.outs = b.outs /\ a.inter = b.inter /\ a.cdat = b.cdat

MustKeep(S, A, M) == ((Live(S) \ AbsorbedAll(A)) \ Foldable(S)) \cup (Rng(M) \cap OpIdx(S))
KeptOnceAt(S, O, i) == Cardinality({j \in OpIdx(O) : SameOp(S.ops[i], O.ops[j])}) = 1
KeptOnce(S, O, A, M) == \A i \in MustKeep(S, A, M) : KeptOnceAt(S, O, i)
NotKept(S, O, A, M) == {i \in MustKeep(S, A, M) : ~KeptOnceAt(S, O, i)}

\* a kept operator still sees the same tensors: every member of every operand / result / intermediate tensor table
\* (type, shape, the whole quantisation table, variable flag ...) of a kept operator is what the source said.  The
\* compiler re-creates tensors at the CPU / NPU boundary, so this is not implied by the operand names.
OperandTensorsAt(S, O, i) == \A j \in OpIdx(O) : SameOp(S.ops[i], O.ops[j]) => S.ops[i].tsig = O.ops[j].tsig
OperandTensors(S, O, A, M) == \A i \in MustKeep(S, A, M) : OperandTensorsAt(S, O, i)

\* an operand produced inside the output model is produced by an *earlier* operator
OutTopo(O) ==
    \A j \in OpIdx(O) : \A t \in InsOf(O, j) :
        Producers(O, t) # {} => \E q \in Producers(O, t) : q < j

\* tensors crossing the absorbed set of ethos-u operator j
CrossIn(S, X) ==
    {t \in UNION {InsOf(S, i) : i \in X} :
        /\ t \notin Rng(S.consts)
        /\ Producers(S, t) \cap X = {}
        /\ ~(Producers(S, t) # {} /\ Producers(S, t) \subseteq Foldable(S))}
CrossOut(S, X) ==
    {t \in UNION {OutsOf(S, i) : i \in X} :
        \/ t \in Names(S.outs)
        \/ \E k \in Live(S) \ X : t \in InsOf(S, k)}
NpuIns(o) == {o.ins[p] : p \in (DRIVER_INPUTS + 1)..Len(o.ins)} \ {""}

\* A source operator whose lowering consists of several NPU operations can be SPLIT over two ethos-u operators (PRELU with a
\* run-time alpha: the part that only needs the first operand runs before the CPU operator that produces alpha, the rest
\* after it).  The tensors between the two parts do not exist in the source model.  The property does not forbid that, so
\* the boundary is compared on source tensors only, and a new tensor may only flow from one ethos-u operator to another.
SrcTensors(S) == UNION {InsOf(S, i) \cup OutsOf(S, i) : i \in OpIdx(S)} \cup Names(S.ins) \cup Names(S.outs)
BoundaryAt(S, O, A, j) ==
    IF IsNpuOp(O.ops[j])
    THEN LET new_in == NpuIns(O.ops[j]) \ SrcTensors(S)
             new_out == OutsOf(O, j) \ SrcTensors(S) IN
         /\ (Rng(A[j]) # {} \/ (new_out # {} /\ OutsOf(O, j) = new_out))
         /\ Rng(A[j]) \subseteq OpIdx(S)
         /\ NpuIns(O.ops[j]) \ new_in = CrossIn(S, Rng(A[j]))
         /\ OutsOf(O, j) \ new_out = CrossOut(S, Rng(A[j]))
         /\ \A t \in new_in : (\E q \in OpIdx(O) : q # j /\ IsNpuOp(O.ops[q]) /\ t \in OutsOf(O, q))
         /\ \A t \in new_out : (t \notin Names(O.outs))
         /\ \A t \in new_out : (\A q \in OpIdx(O) : t \in InsOf(O, q) => IsNpuOp(O.ops[q]))
         /\ \A t \in new_out : (\E u \in OpIdx(O) : u # j /\ IsNpuOp(O.ops[u]) /\ t \in InsOf(O, u))    \* and is used
    ELSE Rng(A[j]) = {}
CustomOpBoundary(S, O, A) ==
    /\ Len(A) = Len(O.ops)
    /\ \A j \in OpIdx(O) : BoundaryAt(S, O, A, j)
    /\ \A j, q \in OpIdx(O) : j # q => Rng(A[j]) \cap Rng(A[q]) = {}

Reparse(e) == e.reparse_plain /\ e.reparse_vela

\* names of the properties a record fails
Failures(e) ==
    LET S == e.src
        O == e.out
        A == e.absorbed
        M == e.marked
    IN (IF ~Reparse(e) THEN {"Reparse"} ELSE {})
  \cup (IF e.reparse_plain /\ ~SameInterface(S, O) THEN {"SameInterface"} ELSE {})
  \cup (IF e.reparse_plain /\ ~KeptOnce(S, O, A, M) THEN {"KeptOnce"} ELSE {})
  \cup (IF e.reparse_plain /\ ~OperandTensors(S, O, A, M) THEN {"OperandTensors"} ELSE {})
  \cup (IF e.reparse_plain /\ ~OutTopo(O) THEN {"OutTopo"} ELSE {})
  \cup (IF e.reparse_plain /\ ~CustomOpBoundary(S, O, A) THEN {"CustomOpBoundary"} ELSE {})
=============================================================================
