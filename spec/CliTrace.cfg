SPECIFICATION Spec
INVARIANT Report
INVARIANT TerminalNonEmpty
POSTCONDITION Consumed
CHECK_DEADLOCK FALSE
