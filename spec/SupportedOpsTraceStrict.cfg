SPECIFICATION Spec
CONSTANT WithPairs = FALSE
CONSTANT UndecidedFailureIsVerdict = TRUE
INVARIANT Report
POSTCONDITION Consumed
CHECK_DEADLOCK FALSE
