SPECIFICATION Spec
CONSTANT MaxI = 8
CONSTANT MaxK = 4
CONSTANT MaxD = 2
CONSTANT MaxS = 3
CONSTANT EmitCases = FALSE
CONSTANT Mutant = "lt_le_pad_reset"
INVARIANT TypeOK
INVARIANT ExactWhereClaimed
INVARIANT Partition
CHECK_DEADLOCK FALSE
