------------------------------- MODULE CmdGen -------------------------------
(* Design-level model for C06: the command-stream emitter keeps a shadow of the last value written to
   every register (one shadow machine for DMA registers, one for all others) and elides a write whose
   value equals the shadow.  The hardware register file (A-HW5) keeps a value until rewritten.
   Property: at every operation, every register the operation depends on holds the intended value,
   for every history of previous operations.  NBanks = 1 is the emitter as written (switch_bank() is a
   no-op); NBanks = 2 is the negative control: a shadow that alternates between two banks per operation
   goes stale and an elided write leaves a wrong value in the hardware register.                       *)
EXTENDS Integers, Sequences, FiniteSets, TLC
CONSTANTS Regs,          \* abstract registers of the non-DMA machine
          DmaRegs,       \* abstract registers of the DMA machine
          Vals, MaxOps, NBanks
AllRegs == Regs \cup DmaRegs
(* an operation template: kind + the registers it needs with their values *)
Needs(kind) == IF kind = "dma" THEN DmaRegs ELSE Regs
Templates == { [kind |-> k, val |-> f] : k \in {"kernel", "dma"}, f \in [AllRegs -> Vals] }

VARIABLES hw,        \* hardware register file: AllRegs -> Vals \cup {-1}
          shadow,    \* shadow[m][b] : register -> value or -1;  m in {"npu","dma"}, b in 0..NBanks-1
          bank,      \* current bank index per machine
          nops, ok
vars == <<hw, shadow, bank, nops, ok>>
Machine(r) == IF r \in DmaRegs THEN "dma" ELSE "npu"

Init == /\ hw = [r \in AllRegs |-> -1]
        /\ shadow = [m \in {"npu", "dma"} |-> [b \in 0..NBanks - 1 |-> [r \in AllRegs |-> -1]]]
        /\ bank = [m \in {"npu", "dma"} |-> 0]
        /\ nops = 0 /\ ok = TRUE

(* generate one operation: set_register for every needed register (emit iff the shadow differs), then NPU_OP *)
Emit(t) ==
   LET need == Needs(t.kind)
       changed == { r \in need : shadow[Machine(r)][bank[Machine(r)]][r] # t.val[r] }
       hw2 == [r \in AllRegs |-> IF r \in changed THEN t.val[r] ELSE hw[r]]
       sh2 == [m \in {"npu", "dma"} |-> [b \in 0..NBanks - 1 |->
                 [r \in AllRegs |-> IF r \in need /\ Machine(r) = m /\ b = bank[m] THEN t.val[r] ELSE shadow[m][b][r]]]]
       m == IF t.kind = "dma" THEN "dma" ELSE "npu"
   IN /\ hw' = hw2
      /\ shadow' = sh2
      /\ ok' = \A r \in need : hw2[r] = t.val[r]          \* what the hardware sees at NPU_OP
      /\ bank' = [bank EXCEPT ![m] = (bank[m] + 1) % NBanks]
      /\ nops' = nops + 1

Next == nops < MaxOps /\ \E t \in Templates : Emit(t)
Spec == Init /\ [][Next]_vars

OpSeesIntendedRegisters == ok
ShadowMatchesHardware == \A r \in AllRegs : LET s == shadow[Machine(r)][bank[Machine(r)]][r] IN s # -1 => s = hw[r]

(* Unbounded histories: ShadowMatchesHardware /\ ok is an INDUCTIVE invariant of the emitter (NBanks = 1).  TLC checks the
   induction step directly: IndInit enumerates EVERY state that satisfies the invariant (not only the reachable ones), the
   state constraint IndOneStep stops after one Emit, and the invariants are evaluated in all successors.  Together with
   Init => invariant (the ordinary bounded run) this gives OpSeesIntendedRegisters for histories of any length.  The same
   run with NBanks = 2 must fail (the alternating-bank shadow is not inductive). *)
IndInit == /\ hw \in [AllRegs -> Vals \cup {-1}]
           /\ shadow \in [{"npu", "dma"} -> [0..NBanks - 1 -> [AllRegs -> Vals \cup {-1}]]]
           /\ bank \in [{"npu", "dma"} -> 0..NBanks - 1]
           /\ nops = 0 /\ ok = TRUE
           /\ ShadowMatchesHardware
IndSpec == IndInit /\ [][\E t \in Templates : Emit(t)]_vars
IndOneStep == nops < 1
=============================================================================
