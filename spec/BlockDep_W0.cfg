SPECIFICATION Spec
CONSTANTS MaxH = 8
 YPad = "top"
INVARIANT NeverZero
CHECK_DEADLOCK FALSE
