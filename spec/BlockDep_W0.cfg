SPECIFICATION Spec
CONSTANTS MaxH = 8
 EmitCases = FALSE
 Wide = FALSE
 YPad = "top"
INVARIANT NeverZero
CHECK_DEADLOCK FALSE
