---------------------------- MODULE ScheduleTrace ----------------------------
(* Trace validation of the scheduler's search (Schedule.tla / ScheduleAlg.tla) on real compilations.  Events (one per
   line, "t" = event id) recorded by harness/schedule.py inside the compiling process, per NPU subgraph:
     "sched"  a schedule: role "min" (the Min schedule with its cascades when optimize_schedule starts) or "final" (every
              schedule handed to apply_schedule): per operator OFM rows, IFM rows, stripe rows, kernel height (dilated),
              vertical stride, upscale, nearest, cascade id, time_index; the cascades map (id = key, start, end, mem_usage,
              rolling buffer rows per operator); memory_snapshot, fast_storage_peak_usage; the limits / peaks of the
              subgraph (sram_limit, limit of the Min build, spilling, Min peak, Max peak, Max chosen)
     "build"  one call of CascadeBuilder.build_cascades: the view V (ScheduleAlg.tla) + the cascades it produced (+ "est":
              what estimate_schedule_memory_usage said about the proposed sub-schedule just built, -1 = not asked)
     "sub"    one call of optimize_sub_schedule: <<iteration, number of cascades, estimated usage>> per proposal and
              the proposal that was returned (0 = None)
   viol  : structural predicates of the design model that the recorded schedule / decision breaks
   drift : the design model's choice on the same inputs differs from the code's choice                              *)
EXTENDS ScheduleAlg, Json, IOUtils, TLC
Trace == ndJsonDeserialize(IOEnv.TRACE_FILE)
VARIABLES l, viol, drift
Ev == Trace[l]
SetOf(s) == {s[i] : i \in 1..Len(s)}

S(e) == [n |-> e.n, ofm |-> e.ofm, stripe |-> e.stripe, cid |-> e.cid,
         need |-> [i \in 1..e.n |-> NeedRows(e.stripe[i], e.k[i], e.s[i], e.up[i], e.nn[i], e.ifmh[i])],
         casc |-> {[id |-> c.id, start |-> c.start, end |-> c.end, mem |-> c.mem, buf |-> SetOf(c.buf)] : c \in SetOf(e.casc)}]
TimeIndexAgrees(e) == \A i, j \in 1..e.n : i < j => /\ e.tix[i] <= e.tix[j]
                                                   /\ (e.tix[i] = e.tix[j]) <=> (e.cid[i] # 0 /\ e.cid[i] = e.cid[j])
Fits(e) == e.maxpeak < e.limit /\ ~e.spill
CheckSched(e) ==
   LET s == S(e)
       N(name, ok) == IF ok THEN {} ELSE {<<e.t, name>>}
   IN N("CascadesPartition", PCascadesPartition(s))
      \cup N("StripeWithinOfm", PStripeWithinOfm(s))
      \cup N("BuffersForNonFirst", PBuffersForNonFirst(s))
      \cup N("BuffersHoldProducerStripe", PBuffersHoldProducerStripe(s))
      \cup N("TimeIndexAgrees", TimeIndexAgrees(e))
      \cup N("PeakIsSnapshotMax", e.peak = SeqMax(e.snap, Len(e.snap)))
      \cup N("SpillCascadeWithinLimit", e.spill => \A c \in s.casc : c.mem <= (IF e.role = "min" THEN e.initlimit ELSE Max2(e.initlimit, e.limit)))
      \cup (IF e.role = "final"
            THEN N("WithinLimitOrMin", PWithinLimitOrMin(e.peak, e.limit, e.minpeak))
                 \cup N("MaxOnlyIfFits", PMaxOnlyIfFits(e.chosemax, e.maxpeak, e.limit, e.spill))
            ELSE {})
DriftSched(e) == IF e.role = "final" /\ Fits(e) /\ ~e.chosemax THEN {<<e.t, "MaxWhenFits">>} ELSE {}

View(e) == [lo |-> 1, hi |-> e.m, limit |-> e.limit, spill |-> e.spill, casc |-> e.casc, link |-> e.link, unc |-> e.unc,
            ifm |-> e.ifm, ofm |-> e.ofm, wb |-> e.wb, buf |-> e.buf, rows |-> e.rows, nl |-> e.nl]
Recorded(e) == {[start |-> c.start, end |-> c.end, mem |-> c.mem, buf |-> SetOf(c.buf)] : c \in SetOf(e.res)}
CheckBuild(e) ==
   (IF e.spill /\ \E c \in SetOf(e.res) : c.mem > e.limit THEN {<<e.t, "SpillCascadeWithinLimit">>} ELSE {})
   \cup (IF \E c \in SetOf(e.res) : c.key # c.end \/ c.end - c.start < 1 THEN {<<e.t, "CascadesPartition">>} ELSE {})
DriftBuild(e) ==
   LET model == Build(View(e))
       cidOf(i) == IF CascOf(model, i) = {} THEN 0 ELSE (CHOOSE c \in CascOf(model, i) : TRUE).end
   IN (IF model # Recorded(e) THEN {<<e.t, "BuildDiffers">>} ELSE {})
      \cup (IF \E i \in 1..e.m : e.cids[i] # cidOf(i) THEN {<<e.t, "BuildCostDiffers">>} ELSE {})
      \cup (IF e.est >= 0 /\ Est(View(e), Recorded(e)) # e.est THEN {<<e.t, "EstimateDiffers">>} ELSE {})

CheckSub(e) ==
   IF e.best > 0 /\ e.best <= Len(e.props)
   THEN (IF e.props[e.best][3] > e.limit THEN {<<e.t, "SubWithinLimit">>} ELSE {})
        \cup (IF e.props[e.best][2] > e.props[1][2] THEN {<<e.t, "SubCascadesNotSplit">>} ELSE {})
   ELSE {}
DriftSub(e) ==
   LET model == AcceptLoop(e.props, e.limit, 1, 0)
       possible == Max2(0, e.ofmh \div 2 - e.minh)
       n == Len(e.props)
   IN (IF model # e.best THEN {<<e.t, "AcceptDiffers">>} ELSE {})
      \cup (IF n > possible \/ (n < possible /\ (n = 0 \/ (model = n /\ e.props[n][2] > 0))) THEN {<<e.t, "ProposalRange">>} ELSE {})

Check(e) == IF e.e = "sched" THEN CheckSched(e) ELSE IF e.e = "build" THEN CheckBuild(e) ELSE CheckSub(e)
Drift(e) == IF e.e = "sched" THEN DriftSched(e) ELSE IF e.e = "build" THEN DriftBuild(e) ELSE DriftSub(e)
Init == l = 1 /\ viol = {} /\ drift = {}
Next == l <= Len(Trace) /\ viol' = viol \cup Check(Ev) /\ drift' = drift \cup Drift(Ev) /\ l' = l + 1
Spec == Init /\ [][Next]_<<l, viol, drift>>
Consumed == TLCGet("stats").diameter = Len(Trace) + 1
Report == l = Len(Trace) + 1 => PrintT(<<"VERDICT", ToJson(viol)>>) /\ PrintT(<<"DRIFT", ToJson(drift)>>)
=============================================================================
