SPECIFICATION Spec
CONSTANT MaxN = 5
CONSTANT BlockDepths = {8}
INVARIANT BrokenCoverage
CHECK_DEADLOCK FALSE
