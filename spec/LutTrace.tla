------------------------------ MODULE LutTrace ------------------------------
(* Trace validation of the LUT-slot cache (Lut.tla) on compiled command streams.
   Events: {"t","e":"Hdr","reserved":bool}
           {"t","e":"Dma","i":k,"tab":sid,"a":slot,"n":slots}      LUT DMA into SHRAM (from the decoded DMA registers)
           {"t","e":"Use","i":k,"tab":sid,"a":slot,"n":slots}      kernel operation with a table (slot from the ACTIVATION
                                                                   register, table identity from the logical command)
           {"t","e":"NonLut","i":k}                                kernel operation without a table
   Hardware state `slot` evolves as in Lut.tla; at every Use the slots must hold the intended table
   (UsesIntendedTable - the verdict).  In parallel the compiler model of Lut.tla (`known`, elision, best address) is
   run on the same operations and every decision that differs from the observed one is reported as model drift. *)
EXTENDS Integers, Sequences, FiniteSets, Json, IOUtils, TLC
Trace == ndJsonDeserialize(IOEnv.TRACE_FILE)
NSlots == 8
None == <<0, 0>>
VARIABLES l, slot, known, reserved, pendingDma, viol, drift
vars == <<l, slot, known, reserved, pendingDma, viol, drift>>
Ev == Trace[l]
Overlaps(a, n, b, m) == a < b + m /\ b < a + n
NOverlap(a, n) == Cardinality({e \in known : Overlaps(a, n, e[2], e[3])})
Cand(n) == {a \in 0..NSlots - 1 : a % n = 0}
Best(n) == CHOOSE a \in Cand(n) : \A b \in Cand(n) : NOverlap(a, n) < NOverlap(b, n) \/ (NOverlap(a, n) = NOverlap(b, n) /\ a <= b)

Init == l = 1 /\ slot = [i \in 0..NSlots - 1 |-> None] /\ known = {} /\ reserved = TRUE /\ pendingDma = <<>>
        /\ viol = {} /\ drift = {}
Hdr == /\ Ev.e = "Hdr"
       /\ slot' = [i \in 0..NSlots - 1 |-> None] /\ known' = {} /\ reserved' = Ev.reserved /\ pendingDma' = <<>>
       /\ UNCHANGED <<viol, drift>>
Dma == /\ Ev.e = "Dma"
       /\ slot' = [i \in 0..NSlots - 1 |-> IF i >= Ev.a /\ i < Ev.a + Ev.n THEN <<Ev.tab, i - Ev.a>> ELSE slot[i]]
       /\ pendingDma' = <<Ev.tab, Ev.a, Ev.n>>
       /\ UNCHANGED <<known, reserved, viol, drift>>
Use == /\ Ev.e = "Use"
       /\ LET ok == Ev.a >= 0 /\ Ev.a + Ev.n <= NSlots /\ \A k \in 0..Ev.n - 1 : slot[Ev.a + k] = <<Ev.tab, k>>
              resident == {e \in known : e[1] = Ev.tab}
              predictElide == resident # {}
              sawDma == pendingDma # <<>>
              predAddr == IF predictElide THEN (CHOOSE e \in resident : TRUE)[2] ELSE Best(Ev.n)
          IN /\ viol' = viol \cup (IF ok THEN {} ELSE {<<Ev.t, "UsesIntendedTable", Ev.i, Ev.a>>})
             /\ drift' = drift \cup (IF predictElide = sawDma THEN {<<Ev.t, Ev.i, "elision">>} ELSE {})
                               \cup (IF predictElide # sawDma /\ predAddr # Ev.a THEN {<<Ev.t, Ev.i, "address">>} ELSE {})
             /\ known' = IF sawDma
                         THEN {e \in known : ~Overlaps(Ev.a, Ev.n, e[2], e[3])} \cup {<<Ev.tab, Ev.a, Ev.n>>}
                         ELSE known
       /\ pendingDma' = <<>> /\ UNCHANGED <<slot, reserved>>
NonLut == /\ Ev.e = "NonLut"
          /\ IF reserved THEN UNCHANGED <<slot, known>>
             ELSE slot' = [i \in 0..NSlots - 1 |-> None] /\ known' = {}
          /\ pendingDma' = <<>> /\ UNCHANGED <<reserved, viol, drift>>
Next == l <= Len(Trace) /\ (Hdr \/ Dma \/ Use \/ NonLut) /\ l' = l + 1
Spec == Init /\ [][Next]_vars
Consumed == TLCGet("stats").diameter = Len(Trace) + 1
Report == l = Len(Trace) + 1 => PrintT(<<"VERDICT", ToJson(viol)>>) /\ PrintT(<<"DRIFT", ToJson(drift)>>)
=============================================================================
