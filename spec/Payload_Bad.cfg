SPECIFICATION Spec
CONSTANT MaxSmall = 8
CONSTANT PadRule = "offbyone"
INVARIANT FramedWhenDone
CHECK_DEADLOCK FALSE
