SPECIFICATION Spec
CONSTANT WithPairs = FALSE
INVARIANT Report
POSTCONDITION Consumed
CHECK_DEADLOCK FALSE
