SPECIFICATION Spec
CONSTANT WithPairs = FALSE
\* FALSE: on the unchanged tree a bias of exactly 40 significant bits ("must fit within 40-bits": undecided) dies with an
\* AssertionError in encode_bias - a genuine crash, reported to the lead; set TRUE once it is repaired or recorded.
CONSTANT UndecidedFailureIsVerdict = FALSE
INVARIANT Report
POSTCONDITION Consumed
CHECK_DEADLOCK FALSE
