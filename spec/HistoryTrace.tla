--------------------------- MODULE HistoryTrace ---------------------------
(* Trace validation for C14.  A batch of recorded histories: one line per step,
   t = history id, i = position of the step in its history (1-based).  Every
   history was replayed in one fresh interpreter by harness/hist_driver.py calling the
   real entry points; the line carries what the step produced, what the same letter
   produced when compiled alone (fields i..), what the same step of the same history produced
   under PYTHONHASHSEED=0 (fields z..), projections of the process-wide caches, the container the
   model was handed over in (c), the options that write additional files (opts), every file the step
   wrote (art: [name, digest] pairs) and digests of the caller's object before and after the call
   (inb, ina; ino = the bytes the caller put there at the start of the history), the interpreter's recursion limit after
   the call (rla; 0 = not observed), a digest of the other interpreter-wide settings before / after the call (envb, enva)
   and the settings the compilation of this model needs (needs).

   Property clauses (reported in viol, one run lists all of them):
     HistoryIndependent    the step succeeded => same output/summary digests and the same set of
                           written files (names and contents) as alone
     NoFailureFromHistory  the step failed    => it fails in the same way alone
     HashSeedIndependent   same outcome as under PYTHONHASHSEED=0
     EntryPointIndependent (isolated steps) same outcome through the other entry points and the other
                           containers: every peer succeeds iff this step does, with the same output digest
     CallerStateUntouched  the object handed to the entry point holds the same bytes after the call
   Conformance of the observed cache transitions with History.tla is reported in drift
   and is never a violation. *)
EXTENDS Integers, Sequences, FiniteSets, Json, IOUtils, TLC

CONSTANT PolicyC
Trace == ndJsonDeserialize(IOEnv.TRACE_FILE)

VARIABLES l, viol, drift, st, hist, res
H == INSTANCE History WITH Letters <- {}, VK <- <<>>, WK <- <<>>, Acc <- <<>>, Opt <- <<>>, Mdl <- <<>>,
                           InPlace <- <<>>, Needs <- <<>>, Establishes <- [x \in {"main", "convert", "convert_bytes"} |-> {"rec"}],
                           MaxLen <- 4, Policy <- PolicyC, SeedsRng <- TRUE, ReaderCopies <- TRUE

ToSet(q) == {q[j] : j \in 1..Len(q)}
RaisedLimit == 2000      \* a recursion limit of at least this much counts as "raised" (the interpreter starts with 1000)
Ev == Trace[l]

Obs(e) == [ok |-> e.ok, exc |-> e.exc, dig |-> e.dig, csv |-> e.csv, art |-> ToSet(e.art)]
IsoOf(e) == [ok |-> e.iok, exc |-> e.iexc, dig |-> e.idig, csv |-> e.icsv, art |-> ToSet(e.iart)]
Seed0Of(e) == [ok |-> e.zok, exc |-> e.zexc, dig |-> e.zdig, csv |-> e.zcsv, art |-> ToSet(e.zart)]
WroteInput(e) == e.ina # e.inb
PeerAgrees(e, p) == p.ok = e.ok /\ (p.ok => p.dig = e.dig)

(* e.ref = "same": the reference (fields i..) is the same letter compiled alone;
   e.ref = "peer": it is the same model and options compiled alone through convert_bytes(bytearray), the step itself
                   used another container: a difference is a difference between containers *)
Failures(e) ==
      (IF e.ref = "same" /\ ~H!StepIndependent(Obs(e), IsoOf(e)) THEN {"HistoryIndependent"} ELSE {})
 \cup (IF e.ref = "same" /\ ~H!StepNoFailure(Obs(e), IsoOf(e)) THEN {"NoFailureFromHistory"} ELSE {})
 \cup (IF e.ref # "same" /\ ~H!SameResult(Obs(e), IsoOf(e)) THEN {"EntryPointIndependent"} ELSE {})
 \cup (IF Obs(e) # Seed0Of(e) THEN {"HashSeedIndependent"} ELSE {})
 \cup (IF \E p \in ToSet(e.peers) : ~PeerAgrees(e, p) THEN {"EntryPointIndependent"} ELSE {})
 \cup (IF WroteInput(e) THEN {"CallerStateUntouched"} ELSE {})

(* state of the specification at the call, and after it *)
Before(e) == H!Pre(IF e.i = 1 THEN H!Boot ELSE st, e.e)
Seeded(e) == e.rnga # e.rngb
ParOf(e) == [vk |-> ToSet(e.vk), wk |-> ToSet(e.wk), acc |-> e.acc, opts |-> ToSet(e.opts), mdl |-> e.mdl, c |-> e.c,
             inplace |-> WroteInput(e), e |-> e.e, needs |-> ToSet(e.needs)]
After(e) == H!Post(Before(e), e.i, e.e, e.mo, ParOf(e), ~e.ok, Seeded(e), WroteInput(e))

Drift(e) ==
    LET S == Before(e)
        P == After(e)
        vk == ToSet(e.vk)
        wk == ToSet(e.wk)
    IN (IF ToSet(e.vks) # vk \cap S.eqids THEN {"eqids.read"} ELSE {})
  \cup (IF ToSet(e.wks) # wk \cap H!WKeysOf(S) THEN {"wcache.read"} ELSE {})
  \cup (IF e.eqa # Cardinality(P.eqids) THEN {"eqids.size"} ELSE {})
  \cup (IF e.wca # Cardinality(P.wcache) THEN {"wcache.size"} ELSE {})
  \cup (IF (e.ama = 0) # (P.addrmap = {}) THEN {"addrmap.cleared"} ELSE {})
  \cup (IF "addrmap" \notin H!ClearedAtEntry(e.e) /\ P.addrmap # {} /\ e.ama < e.amb THEN {"addrmap.kept"} ELSE {})
  \cup (IF e.ams > 0 /\ H!StaleAddr(S, vk, wk) = {} THEN {"addrmap.stale"} ELSE {})
  \cup (IF (e.ddba = 0) # (P.debugdb = {}) THEN {"debugdb.cleared"} ELSE {})
  \cup (IF e.ok /\ e.iok /\ Seeded(e) /\ e.rnga # e.irnga THEN {"rng"} ELSE {})
  \cup (IF (H!Kept(e.c) /\ e.inb # e.ino) # H!Expo(S, ParOf(e)).buf THEN {"cbuf.read"} ELSE {})
  \cup (IF WroteInput(e) # H!Wrote(ParOf(e), "ok") THEN {"cbuf.written"} ELSE {})
  \cup (IF e.rla > 0 /\ (e.rla >= RaisedLimit) # ("rec" \in P.env) THEN {"env.limit"} ELSE {})
  \cup (IF e.enva # e.envb THEN {"env.other"} ELSE {})
  \cup (IF H!ObservedKind(Obs(e), IsoOf(e)) \notin H!AllowedKinds(S, ParOf(e)) THEN {"outcome"} ELSE {})

Init == l = 1 /\ viol = {} /\ drift = {} /\ st = H!Boot /\ hist = <<>> /\ res = <<>>
Next == /\ l <= Len(Trace)
        /\ viol' = viol \cup {<<Ev.t, Ev.i, f>> : f \in Failures(Ev)}
        /\ drift' = drift \cup {<<Ev.t, Ev.i, d>> : d \in Drift(Ev)}
        /\ st' = After(Ev)
        /\ hist' = IF Ev.i = 1 THEN <<Ev.mo>> ELSE Append(hist, Ev.mo)
        /\ res' = IF Ev.i = 1 THEN <<H!ObservedKind(Obs(Ev), IsoOf(Ev))>>
                              ELSE Append(res, H!ObservedKind(Obs(Ev), IsoOf(Ev)))
        /\ l' = l + 1
Spec == Init /\ [][Next]_<<l, viol, drift, st, hist, res>>

Consumed == TLCGet("stats").diameter = Len(Trace) + 1
Report == l = Len(Trace) + 1 => /\ PrintT(<<"VERDICT", ToJson(viol)>>)
                                /\ PrintT(<<"DRIFT", ToJson(drift)>>)
=============================================================================
