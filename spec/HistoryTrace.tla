--------------------------- MODULE HistoryTrace ---------------------------
(* Trace validation for C14.  A batch of recorded histories: one line per step,
   t = history id, i = position of the step in its history (1-based).  Every
   history was replayed in one fresh interpreter by harness/hist_driver.py calling the
   real entry points; the line carries what the step produced, what the same letter
   produced when compiled alone (fields i..), what the same step of the same history produced
   under PYTHONHASHSEED=0 (fields z..), and projections of the process-wide caches.

   Property clauses (reported in viol, one run lists all of them):
     HistoryIndependent    the step succeeded => same output/summary digests as alone
     NoFailureFromHistory  the step failed    => it fails in the same way alone
     HashSeedIndependent   same outcome as under PYTHONHASHSEED=0
     EntryPointIndependent (isolated steps) same output digest through the other entry points
   Conformance of the observed cache transitions with History.tla is reported in drift
   and is never a violation. *)
EXTENDS Integers, Sequences, FiniteSets, Json, IOUtils, TLC

CONSTANT PolicyC
Trace == ndJsonDeserialize(IOEnv.TRACE_FILE)

VARIABLES l, viol, drift, st, hist, res
H == INSTANCE History WITH Letters <- {}, VK <- <<>>, WK <- <<>>, Acc <- <<>>, MaxLen <- 3,
                           Policy <- PolicyC, SeedsRng <- TRUE

ToSet(q) == {q[j] : j \in 1..Len(q)}
Ev == Trace[l]

Obs(e) == [ok |-> e.ok, exc |-> e.exc, dig |-> e.dig, csv |-> e.csv]
IsoOf(e) == [ok |-> e.iok, exc |-> e.iexc, dig |-> e.idig, csv |-> e.icsv]
Seed0Of(e) == [ok |-> e.zok, exc |-> e.zexc, dig |-> e.zdig, csv |-> e.zcsv]

Failures(e) ==
      (IF ~H!StepIndependent(Obs(e), IsoOf(e)) THEN {"HistoryIndependent"} ELSE {})
 \cup (IF ~H!StepNoFailure(Obs(e), IsoOf(e)) THEN {"NoFailureFromHistory"} ELSE {})
 \cup (IF Obs(e) # Seed0Of(e) THEN {"HashSeedIndependent"} ELSE {})
 \cup (IF \E p \in ToSet(e.peers) : p # e.dig THEN {"EntryPointIndependent"} ELSE {})

(* state of the specification at the call, and after it *)
Before(e) == H!Pre(IF e.i = 1 THEN H!Boot ELSE st, e.e)
Seeded(e) == e.rnga # e.rngb
After(e) == H!Post(Before(e), e.i, e.e, e.mo, e.acc, ToSet(e.vk), ToSet(e.wk), ~e.ok, Seeded(e))

Drift(e) ==
    LET S == Before(e)
        P == After(e)
        vk == ToSet(e.vk)
        wk == ToSet(e.wk)
    IN (IF ToSet(e.vks) # vk \cap S.eqids THEN {"eqids.read"} ELSE {})
  \cup (IF ToSet(e.wks) # wk \cap H!WKeysOf(S) THEN {"wcache.read"} ELSE {})
  \cup (IF e.eqa # Cardinality(P.eqids) THEN {"eqids.size"} ELSE {})
  \cup (IF e.wca # Cardinality(P.wcache) THEN {"wcache.size"} ELSE {})
  \cup (IF (e.ama = 0) # (P.addrmap = {}) THEN {"addrmap.cleared"} ELSE {})
  \cup (IF "addrmap" \notin H!ClearedAtEntry(e.e) /\ P.addrmap # {} /\ e.ama < e.amb THEN {"addrmap.kept"} ELSE {})
  \cup (IF e.ams > 0 /\ H!StaleAddr(S, vk, wk) = {} THEN {"addrmap.stale"} ELSE {})
  \cup (IF (e.ddba = 0) # (P.debugdb = {}) THEN {"debugdb.cleared"} ELSE {})
  \cup (IF e.ok /\ e.iok /\ Seeded(e) /\ e.rnga # e.irnga THEN {"rng"} ELSE {})
  \cup (IF H!ObservedKind(Obs(e), IsoOf(e)) \notin H!AllowedKinds(S, vk, wk, e.acc) THEN {"outcome"} ELSE {})

Init == l = 1 /\ viol = {} /\ drift = {} /\ st = H!Boot /\ hist = <<>> /\ res = <<>>
Next == /\ l <= Len(Trace)
        /\ viol' = viol \cup {<<Ev.t, Ev.i, f>> : f \in Failures(Ev)}
        /\ drift' = drift \cup {<<Ev.t, Ev.i, d>> : d \in Drift(Ev)}
        /\ st' = After(Ev)
        /\ hist' = IF Ev.i = 1 THEN <<Ev.mo>> ELSE Append(hist, Ev.mo)
        /\ res' = IF Ev.i = 1 THEN <<H!ObservedKind(Obs(Ev), IsoOf(Ev))>>
                              ELSE Append(res, H!ObservedKind(Obs(Ev), IsoOf(Ev)))
        /\ l' = l + 1
Spec == Init /\ [][Next]_<<l, viol, drift, st, hist, res>>

Consumed == TLCGet("stats").diameter = Len(Trace) + 1
Report == l = Len(Trace) + 1 => /\ PrintT(<<"VERDICT", ToJson(viol)>>)
                                /\ PrintT(<<"DRIFT", ToJson(drift)>>)
=============================================================================
