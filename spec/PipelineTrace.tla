--------------------------- MODULE PipelineTrace ---------------------------
(* Trace validation for the Pipeline growth component: one batch of event sequences, one sequence per real compilation
   (recorded by run-time wrappers around the functions the driver calls, harness/pipeline.py):
     {"t": id, "e": "Begin"}
     {"t": id, "e": "Reset" | "Optimise" | "Pack" | "Schedule" | "FlashAlloc" | "CpuAlloc" | "Perf" | "Write", "i": 0}
     {"t": id, "e": "Extract", "n": #NPU subgraphs, "c": #CPU subgraphs}
     {"t": id, "e": "FlashLr" | "Hlcs" | "Lut" | "Regs" | "Ser" | "Call", "i": subgraph number (1-based)}
     {"t": id, "e": "End", "ok": exit status 0, "diag": a diagnosis was printed (VelaError path)}
   An event is logged when the wrapped call RETURNS.  Every event must be a phase whose dependencies (Pipeline!Pre) hold;
   a phase that is not enabled is recorded in viol (and then taken anyway, so that one early misstep does not hide the
   rest of the sequence).  At End: exit status 0 iff the output file was written.                                 *)
EXTENDS Pipeline, Sequences, Json, IOUtils

Trace == ndJsonDeserialize(IOEnv.TRACE_FILE)
VARIABLES l, viol
Ev == Trace[l]
pvars == <<N, C, done, failed, regsOk>>

TInit == l = 1 /\ viol = {} /\ Init

Begin == Ev.e = "Begin" /\ N' = -1 /\ C' = -1 /\ done' = {} /\ failed' = FALSE /\ regsOk' = TRUE /\ UNCHANGED viol
ExtractEv == /\ Ev.e = "Extract"
             /\ viol' = IF Can(G("Extract")) THEN viol ELSE viol \cup {<<Ev.t, "Dependency", "Extract", 0>>}
             /\ done' = done \cup {G("Extract")} /\ N' = Ev.n /\ C' = Ev.c /\ UNCHANGED <<failed, regsOk>>
PhaseEv == /\ Ev.e \notin {"Begin", "Extract", "End"}
           /\ LET p == <<Ev.e, Ev.i>> IN
                /\ viol' = IF Can(p) THEN viol
                           ELSE viol \cup {<<Ev.t, IF Did(p) THEN "Repeated" ELSE "Dependency", Ev.e, Ev.i>>}
                /\ done' = done \cup {p}
                /\ regsOk' = IF Ev.e = "Regs" THEN regsOk /\ Did(G("FlashAlloc")) ELSE regsOk
                /\ UNCHANGED <<N, C, failed>>
EndEv == /\ Ev.e = "End"
         /\ viol' = viol
              \cup (IF Ev.ok /\ ~Did(G("Write")) THEN {<<Ev.t, "OkWithoutWrite", "End", 0>>} ELSE {})
              \cup (IF ~Ev.ok /\ Did(G("Write")) THEN {<<Ev.t, "FailureAfterWrite", "End", 0>>} ELSE {})
              \cup (IF Ev.ok /\ ~WriteComplete THEN {<<Ev.t, "WriteComplete", "End", 0>>} ELSE {})
         /\ UNCHANGED pvars

TNext == l <= Len(Trace) /\ (Begin \/ ExtractEv \/ PhaseEv \/ EndEv) /\ l' = l + 1
TSpec == TInit /\ [][TNext]_<<l, viol, pvars>>
Consumed == TLCGet("stats").diameter = Len(Trace) + 1
Report == l = Len(Trace) + 1 => PrintT(<<"VERDICT", ToJson(viol)>>)
=============================================================================
