SPECIFICATION Spec
CONSTANT Letters <- MCLetters
CONSTANT VK <- MCVK
CONSTANT WK <- MCWK
CONSTANT Acc <- MCAcc
CONSTANT Opt <- MCOpt
CONSTANT Mdl <- MCMdl
CONSTANT InPlace <- MCInPlace
CONSTANT Needs <- MCNeeds
CONSTANT Establishes <- MCEst
CONSTANT MaxLen = 3
CONSTANT Policy = "as_is"
CONSTANT SeedsRng = TRUE
CONSTANT ReaderCopies = TRUE
INVARIANT NoFailureFromHistory
CHECK_DEADLOCK FALSE
