SPECIFICATION Spec
CONSTANT Letters <- MCLetters
CONSTANT VK <- MCVK
CONSTANT WK <- MCWK
CONSTANT Acc <- MCAcc
CONSTANT MaxLen = 3
CONSTANT Policy = "as_is"
CONSTANT SeedsRng = TRUE
INVARIANT NoFailureFromHistory
CHECK_DEADLOCK FALSE
