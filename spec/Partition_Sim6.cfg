SPECIFICATION Spec
CONSTANT MaxN = 6
CONSTANT MinN = 4
CONSTANT Places = {"Cpu", "Npu", "MemN", "MemC"}
CONSTANT MultiOut = TRUE
CONSTANT SinkSees = "all"
CONSTANT AllowExtra = TRUE
CHECK_DEADLOCK FALSE
