SPECIFICATION Spec
CONSTANTS MaxH = 40
 EmitCases = FALSE
 Wide = TRUE
 YPad = "top"
INVARIANT BlockDepSafe
CHECK_DEADLOCK FALSE
