SPECIFICATION Spec
CONSTANTS Regs = {"a", "b"}
 DmaRegs = {"d"}
 Vals = {0, 1, 2}
 MaxOps = 4
 NBanks = 2
INVARIANT OpSeesIntendedRegisters
INVARIANT ShadowMatchesHardware
CHECK_DEADLOCK FALSE
