SPECIFICATION Spec
CONSTANT WithPairs = FALSE
INVARIANT NominalOnNpu
INVARIANT PairsAreCpu
INVARIANT ForceOnlyLiftsWsym
INVARIANT NoOpIsIdentity
INVARIANT NeutralOptionsAreNeutral
INVARIANT WellFormed
CHECK_DEADLOCK FALSE
