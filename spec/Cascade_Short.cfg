SPECIFICATION Spec
CONSTANT MaxN = 2
CONSTANT MaxH = 8
CONSTANT Kernels = {3}
CONSTANT Strides = {1}
CONSTANT Dilations = {1}
CONSTANT EmitCases = FALSE
CONSTANT Shrink = 1
CONSTANT Mutant = "none"
INVARIANT NoEarlyOverwrite
CHECK_DEADLOCK FALSE
