------------------------------- MODULE NpuHw -------------------------------
(* Hardware execution model of an Ethos-U command stream (assumptions A-HW1..A-HW3 of DESIGN.md).
   Commands are consumed in program order.  Kernel operations (CONV, DEPTHWISE, POOL, ELEMENTWISE)
   enter the kernel queue, DMA_START enters the DMA queue; each queue holds at most MaxKern / MaxDma
   outstanding operations, completes in order, and completes at an otherwise arbitrary moment
   (CompleteKernel / CompleteDma are always enabled when the queue is non-empty, so TLC visits every
   set of operations that can be in flight together).  KERNEL_WAIT n / DMA_WAIT n block until at most
   n operations of that queue are outstanding.
   An operation is described by the cells it reads (R) and writes (W); a cell is a set of bytes
   (coordinate compression is done by the harness and is exact for intersection tests).
   The module is parameterised by Op(i): the description of operation number i.                      *)
EXTENDS Integers, Sequences, FiniteSets

CONSTANTS MaxKern,
          OpR(_), OpW(_)        \* cells read / written by operation i
(* the DMA queue depth (1 on Ethos-U55, 2 on Ethos-U65) is a parameter of IssueDma so that one trace batch
   can mix streams of both families *)

VARIABLES kq, dq                \* outstanding kernel / DMA operations (sequences of operation numbers)

Conflict(a, b) == \/ OpW(a) \cap OpR(b) # {}      \* read after write
                  \/ OpR(a) \cap OpW(b) # {}      \* write after read
                  \/ OpW(a) \cap OpW(b) # {}      \* write after write

Range(s) == {s[i] : i \in 1..Len(s)}

HwInit == kq = <<>> /\ dq = <<>>

CanIssueKernel == Len(kq) < MaxKern
IssueKernel(i) == CanIssueKernel /\ kq' = Append(kq, i) /\ dq' = dq
IssueDma(i, maxDma) == Len(dq) < maxDma /\ dq' = Append(dq, i) /\ kq' = kq
KernelWait(n) == Len(kq) <= n /\ UNCHANGED <<kq, dq>>
DmaWait(n) == Len(dq) <= n /\ UNCHANGED <<kq, dq>>
CompleteKernel == kq # <<>> /\ kq' = Tail(kq) /\ dq' = dq
CompleteDma == dq # <<>> /\ dq' = Tail(dq) /\ kq' = kq

(* the property: no two operations with a conflict are in flight together across the two queues *)
NoDmaKernelHazard == \A a \in Range(kq), b \in Range(dq) : ~Conflict(a, b)
(* DMA operations complete in order but two outstanding DMAs (Ethos-U65) may overlap in time *)
NoDmaDmaHazard == \A i, j \in 1..Len(dq) : i < j => ~Conflict(dq[i], dq[j])
=============================================================================
