SPECIFICATION Spec
CONSTANT MaxN = 8
CONSTANT BlockDepths = {2, 4, 8, 16}
INVARIANT LayoutOK
INVARIANT CoverageOK
INVARIANT DoubleBufferOK
CHECK_DEADLOCK FALSE
