SPECIFICATION Spec
CONSTANT KernelCodes = {101, 103, 303, 205, 901, 707}
CONSTANT StrideCodes = {11, 22, 13}
CONSTANT IfmDepths = {3, 12, 40}
CONSTANT GridW = {1, 2, 3, 4, 5, 6, 7, 8, 16, 64}
CONSTANT GridH = {1, 2, 3, 4, 8, 16, 32}
CONSTANT GridD = {1, 2, 3, 4, 16}
CONSTANT ShapeH = {1, 2, 5, 16, 33}
CONSTANT ShapeW = {1, 3, 16, 65}
CONSTANT ShapeD = {1, 3, 8, 17, 64, 130}
CONSTANT Tighten = 0
INVARIANT LayoutValid
INVARIANT CandidatesLegal
CONSTRAINT Frontier
CHECK_DEADLOCK FALSE
