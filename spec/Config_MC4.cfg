SPECIFICATION Spec
CONSTANT Secs = {"A", "B", "C", "D"}
CONSTANT Keys = {"k1"}
CONSTANT Vals = {"u", "v"}
CONSTANT Unknown = "Z"
CONSTANT Overlay = "child"
INVARIANT TypeOK
INVARIANT NearestWins
INVARIANT ChildWins
INVARIANT Transitive
INVARIANT ErrorsAgree
INVARIANT WellDefined
INVARIANT NeverLongCycle
CHECK_DEADLOCK FALSE
