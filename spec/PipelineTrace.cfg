SPECIFICATION TSpec
CONSTANTS MaxN = 8
 MaxC = 8
 RegsNeedFlashAlloc = TRUE
INVARIANT Report
POSTCONDITION Consumed
CHECK_DEADLOCK FALSE
