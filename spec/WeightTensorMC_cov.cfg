SPECIFICATION Spec
CONSTANT MaxN = 4
CONSTANT BlockDepths = {2, 8}
INVARIANT LayoutOK
INVARIANT CoverageOK
INVARIANT DoubleBufferOK
CHECK_DEADLOCK FALSE
