----------------------------- MODULE AllocTrace -----------------------------
(* Trace validation for C05: a batch of records, each the observed outcome of ONE call of a real
   allocator of the working tree
       greedy     greedy_allocation.allocate_live_ranges
       linear     tensor_allocation.linear_allocate_live_ranges
       hillclimb  tensor_allocation.hillclimb_allocate_live_ranges -> hillclimb_allocation.allocate_live_ranges
       e2e-*      tensor_allocation.allocate (live ranges extracted by live_range.py from a subgraph)
   record: t (id), alg, r = <<s, e, size, al, eq>> per live range, addr (one address per range, empty
   if the call did not get that far), total (-1 if none), iters / impr (hill climb: calls of
   attempt_bottleneck_fix / strict improvements of the best size), maxit (iteration budget), minimp
   (HillClimbAllocator.MIN_ITERATIONS_IMPROVE of the code under test),
   raised ("" or the exception), drift (compare with the transcription).

   The clauses are the operators of Alloc.tla - the same definitions the model checker proves the
   transcriptions against.  Violations are accumulated (one run lists them all).  Differences
   between the transcriptions (AllocGreedy, AllocLinear) and the code are reported separately as
   DRIFT and are never violations. *)
EXTENDS Integers, Sequences, FiniteSets, Json, IOUtils, TLC

Trace == ndJsonDeserialize(IOEnv.TRACE_FILE)

VARIABLES l, viol, drift, R, phase, out
vars == <<l, viol, drift, R, phase, out>>

A == INSTANCE Alloc WITH MaxN <- 0, T <- 0, Sizes <- {}, Aligns <- {}, Eqs <- {}, MaxAddr <- 0, AddrStep <- 1
G == INSTANCE AllocGreedy WITH MaxN <- 0, T <- 0, Sizes <- {}, Aligns <- {}, Eqs <- {}, MaxAddr <- 0, AddrStep <- 1,
                               k <- 0, g <- 0
L == INSTANCE AllocLinear WITH MaxN <- 0, T <- 0, Sizes <- {}, Aligns <- {}, Eqs <- {}, MaxAddr <- 0, AddrStep <- 1,
                               k <- 0, g <- 0

Ev == Trace[l]
(* `\o <<>>` makes TLC build the tuple once instead of re-evaluating the constructor at every application *)
Ranges(e) == [i \in 1..Len(e.r) |-> [s |-> e.r[i][1], e |-> e.r[i][2], size |-> e.r[i][3],
                                     al |-> e.r[i][4], eq |-> e.r[i][5]]] \o <<>>

WellFormed(Q) == \A i \in 1..Len(Q) : Q[i].s <= Q[i].e /\ Q[i].size > 0 /\ Q[i].al > 0

Failures(e, Q, addr) ==
    LET n == Len(Q)
        have == Len(addr) = n
    IN   (IF e.raised # "" \/ e.iters > e.maxit + e.minimp * (e.impr + 1) THEN {"Terminates"} ELSE {})
    \cup (IF e.raised = "" /\ ~have THEN {"AssignsAll"} ELSE {})
    \cup (IF have /\ ~A!NoOverlapLive(Q, addr) THEN {"NoOverlapLive"} ELSE {})
    \cup (IF have /\ ~A!Aligned(Q, addr) THEN {"Aligned"} ELSE {})
    \cup (IF have /\ e.total >= 0 /\ ~A!TotalOK(Q, addr, e.total) THEN {"TotalOK"} ELSE {})
    \cup (IF have /\ e.total >= 0 /\ ~A!AboveLowerBound(Q, e.total) THEN {"AboveLowerBound"} ELSE {})
    \cup (IF e.raised = "" /\ e.total < 0 THEN {"TotalOK"} ELSE {})

Model(e, Q) == IF e.alg = "greedy" THEN G!GreedyRun(Q) ELSE L!LinearRun(Q)
Drift(e, Q, addr) == IF e.drift /\ e.raised = "" /\ Len(addr) = Len(Q)
                        /\ Model(e, Q) # [addr |-> addr, total |-> e.total]
                     THEN {e.t} ELSE {}

Init == l = 1 /\ viol = {} /\ drift = {} /\ R = <<>> /\ phase = "build" /\ out = A!Null
Next == /\ l <= Len(Trace)
        /\ LET Q == Ranges(Ev)
               addr == Ev.addr \o <<>>
           IN /\ Assert(WellFormed(Q), <<"malformed record", Ev.t>>)
              /\ viol' = viol \cup {<<Ev.t, f>> : f \in Failures(Ev, Q, addr)}
              /\ drift' = drift \cup Drift(Ev, Q, addr)
              /\ R' = Q
              /\ phase' = IF Ev.raised # "" THEN "raised" ELSE "done"
              /\ out' = [addr |-> addr, total |-> Ev.total]
        /\ l' = l + 1
Spec == Init /\ [][Next]_vars

Consumed == TLCGet("stats").diameter = Len(Trace) + 1
Report == l = Len(Trace) + 1 => PrintT(<<"VERDICT", ToJson(viol)>>) /\ PrintT(<<"DRIFT", ToJson(drift)>>)
=============================================================================
