------------------------------ MODULE Cascade ------------------------------
(* The producer/consumer interleaving of generate_high_level_commands_for_sched_op for one cascade, height
   axis only, as an explicit state machine, together with the rolling buffers between the operators.

   Operators 1..N form a chain; operator i > 1 reads the OFM of operator i-1 through a rolling buffer of
   BufH[i] rows that is addressed modulo its height (Tensor.address_for_coordinate).  Stripe heights follow
   Scheduler.propose_schedule_striping (the producer makes consumer-stripe x consumer-stride rows), the stripe
   input height follows SchedulerOperation.create_scheduler_info, the buffer height follows
   cascade_builder.rolling_buffer_shape and Tensor.storage_shape_for_sub_purpose:

        BufH[i] = Min(O[i-1], RoundUp(h[i-1] + hin[i], hin[i]))

   The pull rule: the last operator takes its stripes in order; a stripe of operator i whose required IFM box
   (Box.transform_with_strides_and_skirt, transcribed in Stripes.tla) is not yet present makes operator i-1 emit
   its next stripe first, recursively (ifm_present / ifm_required).

   NoEarlyOverwrite: every row that a not yet emitted consumer stripe will read (A-HW4: the extent the hardware
   derives from pads and OFM height) and that has been produced is still in its buffer slot.                   *)
EXTENDS Stripes, TLC, Json

CONSTANTS MaxN,        \* operators in the cascade (2..MaxN)
          MaxH,        \* OFM height of the first operator (1..MaxH)
          Kernels, Strides, Dilations,
          EmitCases,   \* TRUE: print every geometry of the lattice (<<"CASE", json>>) for replay on the real code
          Shrink       \* 0 = Vela's formula; n > 0 = negative control: buffer of (consumer stripe input height - n) rows

VARIABLES g,           \* geometry of the cascade, constant along a behaviour (see MkGeo)
          done,        \* done[i] = OFM rows of operator i emitted so far
          buf          \* buf[i][slot] = row of operator (i-1)'s OFM held in that slot of the buffer read by i, or -1
vars == <<g, done, buf>>

RoundUp(x, q) == ((x + q - 1) \div q) * q
Shapes == { sh \in [k : Kernels, d : Dilations, s : Strides, pt : {"SAME", "VALID"}] : sh.d > 1 => sh.k > 1 }

ParamOf(sh, i) == [ax |-> "H", kind |-> "win", I |-> i, ro |-> 0, rl |-> i, sp |-> FALSE, wo |-> 0, O |-> 0,
                   k |-> sh.k, d |-> sh.d, s |-> sh.s, pt |-> sh.pt, epb |-> 0, epa |-> 0, up |-> 0]
OutExtent(q) == IF q.pt = "SAME" THEN CeilDiv(q.I, q.s) ELSE IF q.I >= KD(q) THEN (q.I - KD(q)) \div q.s + 1 ELSE 0

(* O[1] = h1; operator i >= 2 has shape shs[i]; hf = stripe height of the last operator *)
RECURSIVE OutSeq(_, _, _)
OutSeq(h1, shs, n) == IF n = 1 THEN <<h1>>
                      ELSE LET prev == OutSeq(h1, shs, n - 1) IN Append(prev, OutExtent(ParamOf(shs[n], prev[n - 1])))
MkGeo(n, h1, shs, hf) ==
    LET O == OutSeq(h1, shs, n)
        P == [i \in 1..n |-> IF i = 1 THEN [ParamOf([k |-> 1, d |-> 1, s |-> 1, pt |-> "VALID"], h1) EXCEPT !.O = h1]
                             ELSE [ParamOf(shs[i], O[i - 1]) EXCEPT !.O = O[i]]]
        RECURSIVE StripeH(_)
        StripeH(i) == IF i = n THEN hf ELSE StripeH(i + 1) * P[i + 1].s             \* propose_schedule_striping
        H == [i \in 1..n |-> StripeH(i)]
        HIn == [i \in 1..n |-> IF i = 1 THEN 0
                               ELSE IF H[i] = O[i] THEN P[i].I                           \* create_scheduler_info
                               ELSE Min((H[i] - 1) * P[i].s + KD(P[i]), P[i].I)]
        BufH == [i \in 1..n |-> IF i = 1 THEN 0
                                ELSE IF Shrink = 0 THEN Min(O[i - 1], RoundUp(H[i - 1] + HIn[i], HIn[i]))   \* rolling_buffer_shape
                                ELSE Max(1, HIn[i] - Shrink)]
    IN [n |-> n, O |-> O, p |-> P, h |-> H, hin |-> HIn, bufh |-> BufH]

(* the i-th operator's stripe that starts at OFM row a *)
StripeAt(i, a) == LET b == Min(a + g.h[i], g.O[i]) IN Code(g.p[i], a, b, a = 0, b >= g.O[i])
NextStripe(i) == StripeAt(i, done[i])
Finished(i) == done[i] >= g.O[i]

(* ifm_required.is_subbox_of(ifm_present) on the height axis *)
Present(i) == NextStripe(i).e <= done[i - 1]
RECURSIVE Chosen(_)
Chosen(i) == IF i = 1 \/ Present(i) THEN i ELSE Chosen(i - 1)

Init == \E n \in 2..MaxN, h1 \in 1..MaxH :
          \E shs \in [2..n -> Shapes] :
            LET O == OutSeq(h1, shs, n) IN
              /\ \A i \in 1..n : O[i] >= 1
              /\ \E hf \in 1..O[n] : g = MkGeo(n, h1, shs, hf)
              /\ done = [i \in 1..n |-> 0]
              /\ buf = [i \in 1..n |-> <<>>]

Emit(i) ==
    /\ ~Finished(g.n)
    /\ i = Chosen(g.n)
    /\ ~Finished(i)                  \* a producer that has nothing left cannot satisfy its consumer: no step
    /\ LET r == NextStripe(i) IN
         /\ done' = [done EXCEPT ![i] = r.b]
         /\ buf' = IF i < g.n
                   THEN [buf EXCEPT ![i + 1] = [sl \in 0..(g.bufh[i + 1] - 1) |->
                            LET rows == { y \in r.a..(r.b - 1) : y % g.bufh[i + 1] = sl } IN
                              IF rows = {} THEN (IF sl \in DOMAIN buf[i + 1] THEN buf[i + 1][sl] ELSE -1) ELSE MaxOf(rows)]]
                   ELSE buf
         /\ UNCHANGED g
Next == \E i \in 1..g.n : Emit(i)
Spec == Init /\ [][Next]_vars

(* ---- properties ---------------------------------------------------------------------------- *)
FutureStarts(i) == { a \in done[i]..(g.O[i] - 1) : (a - done[i]) % g.h[i] = 0 }
Held(i, y) == y % g.bufh[i] \in DOMAIN buf[i] /\ buf[i][y % g.bufh[i]] = y
NoEarlyOverwrite ==
    \A i \in 2..g.n : \A a \in FutureStarts(i) :
        \A y \in ReadRows(g.p[i], StripeAt(i, a)) : y < done[i - 1] => Held(i, y)
(* same statement, but instead of stopping at the first counterexample print every violating geometry: the harness
   replays each of them on the REAL code, whose recorded events are the verdict *)
GeoTuple == <<g.O[1], [i \in 1..(g.n - 1) |-> <<g.p[i + 1].k, g.p[i + 1].d, g.p[i + 1].s, g.p[i + 1].pt>>], g.h[g.n]>>
Candidates == NoEarlyOverwrite \/ PrintT(<<"CAND", ToJson(GeoTuple)>>)
Cases == (EmitCases /\ \A i \in 1..g.n : done[i] = 0) => PrintT(<<"CASE", ToJson(GeoTuple)>>)
(* the two-tile addressing of a stripe's IFM box needs the box to be no taller than the buffer *)
BoxFitsBuffer == \A i \in 2..g.n : \A a \in FutureStarts(i) : LET r == StripeAt(i, a) IN r.e - r.c <= g.bufh[i]
(* the cascade never gets stuck before the last operator is complete *)
Progress == ~Finished(g.n) => ~Finished(Chosen(g.n))
TypeOK == \A i \in 1..g.n : done[i] >= 0 /\ done[i] <= g.O[i]
=============================================================================
