SPECIFICATION Spec
CONSTANT MaxN = 5
CONSTANT MinN = 3
CONSTANT Places = {"Cpu", "Npu", "MemN", "MemC"}
CONSTANT MultiOut = TRUE
CONSTANT SinkSees = "all"
CONSTANT AllowExtra = TRUE
CHECK_DEADLOCK FALSE
