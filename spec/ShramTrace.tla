----------------------------- MODULE ShramTrace -----------------------------
(* C15 - trace validation.  A batch of records, one per (operation, block configuration) observed on
   the real code:
     src = "query"  a configuration offered by api.npu_find_block_configs, placed in a one-operation list
                    and given to api.npu_generate_register_command_stream; the record carries what the
                    emitted words program (OFM_BLK_*, IFM_IB_END, IFM2_IB_START, AB_START, ACC_FORMAT);
     src = "sel"    the configuration architecture_allocator.find_block_config selects (what the scheduler
                    uses), emitted through the same generator; also, with accepted = FALSE, a block the
                    scheduler selected while compiling a network and the generator refused ("does not fit");
     src = "find" / "try"  the ArchitectureBlockConfig returned by find_block_config / try_block_config
                    (all five layout fields observable);
     src = "corpus" a kernel operation decoded from the command stream of a compiled network.
   e.lay = <<ib_start, ib_end, ib_start2, ab_start, lut_start>> with -1 for a field that the source
   cannot observe: IFM buffers start at bank 2 (A-SH2), an operation without a second buffered operand
   has no IFM2 region, and lut_start is then the first bank the hardware rules leave unusable.
   Each record is judged by Shram!Failing (the property); the names of failed requirements are
   accumulated in viol.  Independently ShramAlloc!TryAcc is evaluated on the same inputs and a
   disagreement with the observed layout is accumulated in drift (evidence only). *)
EXTENDS Integers, Sequences, FiniteSets, Json, IOUtils, TLC

Trace == ndJsonDeserialize(IOEnv.TRACE_FILE)

VARIABLES l, viol, drift
S == INSTANCE Shram
A == INSTANCE ShramAlloc

Ev == Trace[l]
Blk(s) == [h |-> s[1], w |-> s[2], d |-> s[3]]
OpOf(e) == [accel |-> e.accel, kind |-> e.kind, bits |-> e.bits, accbits |-> e.accbits, lut |-> e.lut,
            kah |-> e.kah, kaw |-> e.kaw, sy |-> e.sy, sx |-> e.sx, up |-> e.up, ifm_d |-> e.ifm_d,
            part |-> e.part, ofm_h |-> e.ofm_h, binary |-> e.binary, bc |-> e.bc, blk |-> Blk(e.rblk)]
LayOf(e) == [ib_start |-> IF e.lay[1] = -1 THEN S!OutputBanks ELSE e.lay[1],
             ib_end |-> e.lay[2],
             ib_start2 |-> IF e.lay[3] = -1 THEN e.lay[2] ELSE e.lay[3],
             ab_start |-> e.lay[4],
             lut_start |-> IF e.lay[5] = -1 THEN S!UsableEnd(e.accel, e.lut) ELSE e.lay[5]]

WellFormed(e) == /\ e.accel \in S!Accels /\ e.kind \in {"conv", "dw", "pool", "rsum", "ew"}
                 /\ e.bits \in {8, 16, 32} /\ e.accbits \in {16, 32, 40} /\ e.up \in {0, 1, 2}
                 /\ Len(e.lay) = 5 /\ Len(e.blk) = 3 /\ Len(e.rblk) = 3 /\ Len(e.bc) = 3

Failures(e) ==
    IF ~WellFormed(e) THEN {"WellFormed"}
    ELSE IF ~e.accepted THEN {"Accepted"}
    ELSE (IF e.rblk # e.blk THEN {"BlockEmitted"} ELSE {}) \cup S!Failing(OpOf(e), LayOf(e))

(* model drift: the transcription, given the same operation, block and accumulator width *)
CaseOf(e) == [accel |-> e.accel, kind |-> e.kind, scalar |-> e.scalar, bits |-> e.bits, scaled |-> (e.scaled = 1),
              lut |-> e.lut, kah |-> e.kah, kaw |-> e.kaw, sy |-> e.sy, sx |-> e.sx, up |-> e.up, ifm_d |-> e.ifm_d,
              part |-> e.part, ofm_h |-> e.ofm_h]
Agrees(e, T) == /\ T # A!NoLayout
                /\ T.ib_end = e.lay[2] /\ T.ab_start = e.lay[4]
                /\ e.lay[1] # -1 => T.ib_start = e.lay[1]
                /\ e.lay[3] # -1 => T.ib_start2 = e.lay[3]
                /\ e.lay[5] # -1 => T.lut_start = e.lay[5]
Drifts(e) ==
    IF ~WellFormed(e) \/ ~e.accepted THEN {}
    ELSE (IF ~Agrees(e, A!TryAcc(CaseOf(e), Blk(e.blk), e.accbits)) THEN {"Layout"} ELSE {})
    \cup (IF e.scaled # -1 /\ e.accbits # S!ExpectedAccBits(e.kind, e.bits, e.scaled = 1) THEN {"AccFormat"} ELSE {})

Init == l = 1 /\ viol = {} /\ drift = {}
Next == /\ l <= Len(Trace)
        /\ viol' = viol \cup { <<Ev.t, f>> : f \in Failures(Ev) }
        /\ drift' = drift \cup { <<Ev.t, f>> : f \in Drifts(Ev) }
        /\ l' = l + 1
Spec == Init /\ [][Next]_<<l, viol, drift>>

Consumed == TLCGet("stats").diameter = Len(Trace) + 1
Report == l = Len(Trace) + 1 => /\ PrintT(<<"VERDICT", ToJson(viol)>>)
                                /\ PrintT(<<"DRIFT", ToJson(drift)>>)
=============================================================================
