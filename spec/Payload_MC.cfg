SPECIFICATION Spec
CONSTANT MaxSmall = 64
CONSTANT PadRule = "align"
INVARIANT TypeOK
INVARIANT FramedWhenDone
INVARIANT RejectsTooLong
INVARIANT LengthRoundTrip
CHECK_DEADLOCK FALSE
