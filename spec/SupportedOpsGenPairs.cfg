SPECIFICATION Spec
CONSTANT WithPairs = TRUE
INVARIANT NominalOnNpu
INVARIANT PairsAreCpu
INVARIANT WellFormed
INVARIANT Emit
CHECK_DEADLOCK FALSE
