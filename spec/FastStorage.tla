----------------------------- MODULE FastStorage -----------------------------
(* Growth of the specification beyond the listed properties: the scheduler's fast-storage allocation
   (scheduler.py FastStorageComponentAllocator, called from use_fast_storage_for_feature_maps).
   Competing live ranges (start, end, size, score = element accesses of the tensor) are split into time-disjoint
   components; for each component a branch-and-bound search decides which live ranges stay in fast storage.
     base[t] : memory certainly used at time t (kept live ranges);  maxu[t] : memory used if every undecided
     live range stays.  The search includes a live range only if base + size fits under the limit over its whole
     time range, and skips the "evict" branch when maxu already fits (the range always fits).
   Properties:  WithinLimit  - after all components maxu[t] <= Limit for all t (the code asserts exactly this);
                Optimal      - per component the kept set has the maximal score among the sets that fit.
   ResetScore = TRUE is the code as written (best_score reset per component); FALSE is the negative control: the
   best score of an earlier component leaks into the next one and nothing is evicted there.                      *)
EXTENDS Integers, Sequences, FiniteSets, TLC

CONSTANTS T, Limit, ResetScore,
          Insts                  \* instances: [comps : sequence of components (sequences of [s,e,z,sc]), base : Times -> Nat]
VARIABLES inst, ci, base, maxu, best, result
vars == <<inst, ci, base, maxu, best, result>>
Comps == inst.comps
Base == inst.base

Times == 0..T - 1
Live(lr, t) == lr.s <= t /\ t <= lr.e
Add(u, lr, sign) == [t \in Times |-> IF Live(lr, t) THEN u[t] + sign * lr.z ELSE u[t]]
MaxOver(u, lr) == LET S == {u[t] : t \in {x \in Times : Live(lr, x)}} IN CHOOSE m \in S : \A v \in S : v <= m

(* allocate_exhaustive: returns <<bestScore, evictedSeq>>; cur = evicted flags decided so far *)
RECURSIVE Exh(_, _, _, _, _, _, _)
Exh(lrs, ix, score, cur, b, m, bst) ==
   IF ix > Len(lrs)
   THEN IF score > bst[1] THEN <<score, cur>> ELSE bst
   ELSE LET lr == lrs[ix]
            canFit == MaxOver(b, lr) + lr.z <= Limit
            b1 == IF canFit THEN Exh(lrs, ix + 1, score + lr.sc, [cur EXCEPT ![ix] = FALSE], Add(b, lr, 1), m, bst) ELSE bst
            alwaysFits == MaxOver(m, lr) <= Limit
        IN IF alwaysFits THEN b1
           ELSE Exh(lrs, ix + 1, score, [cur EXCEPT ![ix] = TRUE], b, Add(m, lr, -1), b1)

RECURSIVE ApplyEv(_, _, _, _, _)
ApplyEv(lrs, ev, i, b, m) ==       \* evict() / keep() of allocate_component
   IF i > Len(lrs) THEN <<b, m>>
   ELSE IF ev[i] THEN ApplyEv(lrs, ev, i + 1, b, Add(m, lrs[i], -1))
        ELSE ApplyEv(lrs, ev, i + 1, Add(b, lrs[i], 1), m)

InitMax == LET all == [c \in 1..Len(Comps) |-> Comps[c]] IN
           [t \in Times |-> Base[t] + (LET S == {<<c, i>> \in (1..Len(Comps)) \X (1..4) : i <= Len(Comps[c]) /\ Live(Comps[c][i], t)}
                                       IN IF S = {} THEN 0 ELSE
                                          LET RECURSIVE Sum(_)
                                              Sum(X) == IF X = {} THEN 0 ELSE LET p == CHOOSE p \in X : TRUE
                                                                           IN Comps[p[1]][p[2]].z + Sum(X \ {p})
                                          IN Sum(S))]
Init == inst \in Insts /\ ci = 1 /\ base = Base /\ maxu = InitMax /\ best = 0 /\ result = <<>>

Component ==
   /\ ci <= Len(Comps)
   /\ LET lrs == Comps[ci]
          n == Len(lrs)
          start == IF ResetScore THEN -1 ELSE best
          r == Exh(lrs, 1, 0, [i \in 1..n |-> FALSE], base, maxu, <<start, [i \in 1..n |-> FALSE]>>)
          bm == ApplyEv(lrs, r[2], 1, base, maxu)
      IN /\ best' = r[1] /\ base' = bm[1] /\ maxu' = bm[2]
         /\ result' = Append(result, r[2])
   /\ ci' = ci + 1 /\ UNCHANGED inst
Spec == Init /\ [][Component]_vars

Done == ci = Len(Comps) + 1
WithinLimit == Done => \A t \in Times : maxu[t] <= Limit

(* optimality of component c given the base usage it started from is checked on the recorded result by the trace
   specification; at design level it is checked for single-component instances *)
Fits(lrs, keep, b) == \A t \in Times : b[t] + (LET RECURSIVE S(_)
                                                  S(i) == IF i = 0 THEN 0 ELSE (IF i \in keep /\ Live(lrs[i], t) THEN lrs[i].z ELSE 0) + S(i - 1)
                                              IN S(Len(lrs))) <= Limit
Score(lrs, keep) == LET RECURSIVE S(_)
                        S(i) == IF i = 0 THEN 0 ELSE (IF i \in keep THEN lrs[i].sc ELSE 0) + S(i - 1)
                    IN S(Len(lrs))
OptimalSingle == (Done /\ Len(Comps) = 1) =>
                    LET lrs == Comps[1]
                        kept == {i \in 1..Len(lrs) : ~result[1][i]}
                    IN \A K \in SUBSET (1..Len(lrs)) : Fits(lrs, K, Base) => Score(lrs, K) <= Score(lrs, kept)
=============================================================================
