SPECIFICATION Spec
CONSTANT AllowCrash = FALSE
INVARIANT TypeOK
INVARIANT CompilesOrDiagnoses
INVARIANT NoEarlyOutput
CHECK_DEADLOCK FALSE
