----------------------------- MODULE CacheTrace -----------------------------
(* Trace validation for C08 (cache half).  A batch holds request histories that TLC itself
   generated from Cache.tla (-simulate) and that the harness replayed against the real
   weight_compressor.encode_weight_and_scale_tensor with its process-wide CompressedWeightCache.
   One line per event of a history t:
      comp  {t, i, acc}                          a new compilation starts (tensor objects are re-created)
      enc   {t, i, req, acc, epoch, hit, cachedW, freshW, cachedS, freshS}
            hit      what the real code did: "miss", "weights" (cached weights + new scales) or "full"
            cachedW  id of the digest of the weight sections the call returned
            freshW   id of the digest of the weight sections of a fresh encoding of the same request
                     (same call repeated with an emptied cache, computed on every hit)
            cachedS / freshS   the same for the scale sections and layout (full hits)
   The model state of Cache is advanced along the history, so the real hit/miss pattern is
   compared with the model (a difference is reported as ModelDrift, never as a violation) and a
   breach of the environment assumption is attributed to the omitted key field. *)
EXTENDS Cache, Json, IOUtils

Trace == ndJsonDeserialize(IOEnv.TRACE_FILE)
VARIABLES l, viol, cur
tvars == <<l, viol, cur, cache, acc, epoch, hist>>
Ev == Trace[l]

Req(j) == [w |-> j.w, shape |-> j.shape, bias |-> j.bias, kind |-> j.kind, blk |-> j.blk, sl |-> j.sl, dil |-> j.dil,
           bits |-> j.bits, flip |-> j.flip]

(* model state at the start of event e: reset when a new history begins *)
Fresh(e) == e.t # cur
MCache(e) == IF Fresh(e) THEN <<>> ELSE cache
MEpoch(e) == IF Fresh(e) THEN 0 ELSE epoch

EncFailures(e) ==
    LET r == Req(e.req)
        c == MCache(e)
        k == Key(r, MEpoch(e))
        mhit == k \in DOMAIN c
        predicted == IF mhit /\ c[k].scc = Scc(r, MEpoch(e)) THEN "full" ELSE IF mhit THEN "weights" ELSE "miss"
        diff == IF mhit THEN {f \in OmittedFields : Omitted(c[k].by.req, c[k].by.acc)[f] # Omitted(r, e.acc)[f]} ELSE {}
    IN (IF predicted # e.hit THEN {<<e.t, "ModelDrift", e.i, predicted, e.hit>>} ELSE {})
  \cup (IF e.hit # "miss" /\ e.cachedW # e.freshW THEN {<<e.t, "Coherent", e.i>>} ELSE {})
  \cup (IF e.hit = "full" /\ e.cachedS # e.freshS THEN {<<e.t, "CoherentScales", e.i>>} ELSE {})
  \cup {<<e.t, "AssumptionBreached", e.i, f>> : f \in diff}

TInit == l = 1 /\ viol = {} /\ cur = -1 /\ cache = <<>> /\ acc = "none" /\ epoch = 0 /\ hist = <<>>
TNext ==
    /\ l <= Len(Trace)
    /\ l' = l + 1 /\ cur' = Ev.t /\ hist' = <<>>
    /\ IF Ev.op = "comp"
       THEN /\ viol' = viol
            /\ acc' = Ev.acc
            /\ epoch' = IF Fresh(Ev) THEN 0 ELSE epoch + 1       \* the first compilation of a history is epoch 0
            /\ cache' = IF ClearOnCompile THEN <<>> ELSE MCache(Ev)
       ELSE /\ viol' = viol \cup EncFailures(Ev)
            /\ acc' = Ev.acc /\ epoch' = MEpoch(Ev)
            /\ LET r == Req(Ev.req)
                   k == Key(r, MEpoch(Ev))
                   c == MCache(Ev)
               IN cache' = IF k \in DOMAIN c THEN c
                           ELSE (k :> [wb |-> FreshW(r, Ev.acc, MEpoch(Ev)), scc |-> Scc(r, MEpoch(Ev)),
                                       by |-> [req |-> r, acc |-> Ev.acc, epoch |-> MEpoch(Ev)]]) @@ c
TSpec == TInit /\ [][TNext]_tvars

Consumed == TLCGet("stats").diameter = Len(Trace) + 1
Report == l = Len(Trace) + 1 => PrintT(<<"VERDICT", ToJson(viol)>>)
=============================================================================
