SPECIFICATION Spec
CONSTANTS Regs = {"a", "b", "c", "e"}
 DmaRegs = {"a", "b", "c", "e"}
 Vals = {0, 1, 2, 3}
 MaxOps = 8
 NBanks = 1
INVARIANT OpSeesIntendedRegisters
INVARIANT ShadowMatchesHardware
CHECK_DEADLOCK FALSE
