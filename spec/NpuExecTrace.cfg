SPECIFICATION Spec
INVARIANT HazardReport
INVARIANT Report
POSTCONDITION Consumed
CHECK_DEADLOCK FALSE
