SPECIFICATION Spec
CONSTANTS N = 3
 MaxExtraOut = 1
 VarChoices = {0, 1, 2}
 PreStart = "earlier"
 Shorten = "notlast"
 CascadeTime = "shared"
 OutputsAt = "end"
 Protect = "fixed"
 VarsAt = "whole"
INVARIANT CoversUse
INVARIANT FuseSafe
CHECK_DEADLOCK FALSE
