--------------------------- MODULE PreserveTrace ---------------------------
(* Trace validation for C11 (relational part): each line of the batch is one compilation
   {t, src, out, absorbed, reparse_plain, reparse_vela}; src / out are the abstract graphs extracted
   by the plain flatbuffer parser from the source and the written model.  Failures are accumulated
   so that one TLC run lists every violating compilation together with the failing property. *)
EXTENDS Integers, Sequences, FiniteSets, Json, IOUtils, TLC

Trace == ndJsonDeserialize(IOEnv.TRACE_FILE)
P == INSTANCE Preserve

VARIABLES l, viol
Ev == Trace[l]

Init == l = 1 /\ viol = {}
Next == /\ l <= Len(Trace)
        /\ viol' = viol \cup { <<Ev.t, f>> : f \in P!Failures(Ev) }
        /\ l' = l + 1
Spec == Init /\ [][Next]_<<l, viol>>

Consumed == TLCGet("stats").diameter = Len(Trace) + 1
Report == l = Len(Trace) + 1 => PrintT(<<"VERDICT", ToJson(viol)>>)
=============================================================================
