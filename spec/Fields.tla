------------------------------- MODULE Fields -------------------------------
(* C11, field level: what "preserved verbatim" means for ONE CPU-resident operator and the tensors around it
   when a model goes  file --reader--> internal graph --(partition, clone)--> writer --> file.

   FlatBuffers semantics that matter here
     * a scalar member of a table has a schema default d; the table stores a value or nothing; a parser sees d
       for "nothing"; a builder does not store a value equal to d.  d is NOT always zero / false.
     * a vector / string / sub-table member is either absent or present (possibly empty);
     * an operand vector has positions: -1 marks an omitted optional operand and keeps the later operands in place;
     * optional members of a tensor (min / max of the quantisation table, a non-zero quantised dimension,
       per-axis scale / zero point vectors) exist independently of the members the compiler computes with.

   The machine takes one CASE through the round trip.  A case is one of four sorts:
     "option"  : one member of a builtin options table     [kind, dflt, val]
     "operand" : the input vector of the operator          [slots]      "t" = tensor, "-" = omitted (-1)
     "output"  : the outputs of the operator               [uses]       per output: subset of {"net", "next"}
     "tensor"  : one tensor seen by the operator           [role, has, dt]  has = set of members of the quantisation table
                                                           it carries (ANY subset: a table with a scale and no zero point, a
                                                           zero point only, min without max ... are all valid files; an
                                                           operator with such an operand stays on the CPU, which is exactly
                                                           when it must come back verbatim), dt = integer / float tensor
     "weight"  : the constant weights of a convolution-like operator that stays on the CPU, compiled with one of the
                 command-line options that touch tensors   [opt, zp, per, act, why]
                 zp = zero / non-zero zero point, per tensor / per axis, int8 / int16 activations, why = the reason the
                 operator is not on the NPU ("asym": its asymmetric weights; "other": stride, dilation ...)
   The policies of the implementation are constants, so that the seeded regressions are *configurations of this
   model* (negative controls): the round-trip invariants must hold for the policies of the real compiler and must
   fail for each broken one.  The set of initial states of the model-checking run IS the case lattice the driver
   instantiates with real schema members / operators / tensors (harness/c11fields.py), so what is compiled is what
   TLC enumerated. *)
EXTENDS Integers, Sequences, FiniteSets, TLC

CONSTANTS OptWriter,     \* "all" : every member read is written back;  "skip_falsy" : zero / false values are not written
          OptKnown,      \* TRUE : the (de)serialiser table lists the member;  FALSE : it does not know it
          InWriter,      \* "positional" : omitted operands are written as -1;  "filter" : they are left out
          OutWriter,     \* "all" : every output of the operator is recorded / written;  "first" : only the first one
          CloneKeeps,    \* optional tensor members a clone of a tensor carries over
          TableKept,     \* which quantisation tables the reader keeps: "always" (what the property asks for);
                         \* "scale_or_zp" (tables with neither are dropped: the compiler today, known finding M3);
                         \* "scale_and_zp" (tables with only one of the two are dropped as well: a regression)
          CloneQuant,    \* "private": a clone of a tensor owns a copy of the quantisation table; "shared": it aliases the
                         \* table of its source, so that rewriting the clone rewrites the tensor that is written back;
                         \* "shallow": it owns a table whose vectors are those of the source (the compiler today: a per-axis
                         \* zero point is rewritten in place, a per-tensor one is a scalar and is replaced)
          MaxIn          \* longest operand vector

\* members of the quantisation table ("qdim" = a non-zero quantised dimension stored); "peraxis" = the scale / zero point
\* vectors that are present have one entry per channel
QMembers == {"scale", "zp", "min", "max", "qdim"}
OptionalMembers == QMembers \cup {"peraxis"}
\* command-line options that rewrite or re-place tensors; none of them may show on a kept operator or an interface tensor
CompilerOpts == {"none", "force_symmetric", "optimise_size", "cpu_align"}
Roles == {"graph_in",      \* subgraph input (read by a CPU or NPU operator)
          "npu_to_cpu",    \* produced on the NPU, read by the CPU operator    (re-created when the NPU subgraph is cut out)
          "npu_to_net",    \* produced on the NPU, subgraph output               (re-created likewise)
          "cpu_to_npu",    \* produced by the CPU operator, read on the NPU
          "cpu_to_net",    \* produced by the CPU operator, subgraph output
          "cpu_to_cpu",    \* between two CPU operators
          "const",         \* constant operand of the CPU operator
          "state"}         \* variable / intermediate tensor of the CPU operator
Recreated == {"npu_to_cpu", "npu_to_net"}
\* NPU operators take per-tensor quantisation only: a per-axis feature map next to an NPU operator does not exist
OnNpu == {"npu_to_cpu", "npu_to_net", "cpu_to_npu"}

Kinds == {"bool", "int", "float", "vec", "str"}
\* values: "z" = zero / false / empty, "a" and "b" = two different non-zero values, "absent" only for vec / str
ValsOf(k) == CASE k = "bool" -> {"z", "a"}
               [] k = "int" -> {"z", "a", "b"}
               [] k = "float" -> {"z", "a"}
               [] OTHER -> {"absent", "z", "a"}
\* schema defaults: zero, or (bool / int only) the non-zero value "a"
DfltsOf(k) == IF k \in {"bool", "int"} THEN {"z", "a"} ELSE IF k = "float" THEN {"z"} ELSE {"absent"}

SlotSeqs == UNION {[1..m -> {"t", "-"}] : m \in 1..MaxIn}
OptionCases == {[sort |-> "option", kind |-> k, dflt |-> d, val |-> v] : k \in Kinds, d \in {"z", "a", "absent"}, v \in {"z", "a", "b", "absent"}}
Cases ==
    {c \in OptionCases : c.dflt \in DfltsOf(c.kind) /\ c.val \in ValsOf(c.kind)}
    \cup {[sort |-> "operand", slots |-> s] : s \in {q \in SlotSeqs : \E p \in DOMAIN q : q[p] = "t"}}
    \cup {[sort |-> "output", uses |-> u] : u \in UNION {[1..m -> SUBSET {"net", "next"}] : m \in 1..2}}
    \cup {c \in [sort : {"tensor"}, role : Roles, has : SUBSET OptionalMembers, dt : {"int", "float"}] :
              \* next to an NPU operator: fully quantised integer feature maps only (anything else keeps the operator off)
              /\ c.role \in OnNpu => ({"scale", "zp"} \subseteq c.has /\ "peraxis" \notin c.has /\ c.dt = "int")
              /\ "peraxis" \in c.has => (c.has \cap {"scale", "zp"} # {} /\ c.dt = "int")}
    \cup {c \in [sort : {"weight"}, opt : CompilerOpts, zp : {"zero", "nonzero"}, per : {"tensor", "axis"},
                  act : {"int8", "int16"}, why : {"asym", "other"}] :
              \* asymmetric weights keep the operator off the NPU unless the option forces them symmetric
              c.why = "asym" => (c.zp = "nonzero" /\ c.opt # "force_symmetric")}

VARIABLES case, stage, img
vars == <<case, stage, img>>

(* ---- what a parser sees in a file --------------------------------------------------------------- *)
\* the image of a case = what the plain parser reads from the file
SrcImage(c) ==
    CASE c.sort = "option" -> c.val          \* a value equal to the default is simply not stored; it still reads as val
      [] c.sort = "operand" -> c.slots
      [] c.sort = "output" -> [p \in DOMAIN c.uses |-> "t"]
      [] c.sort = "weight" -> c.zp
      [] OTHER -> c.has

(* ---- the implementation under its policies ------------------------------------------------------- *)
\* option member: reader -> attrs -> writer -> file -> parser
WrittenOption(c) ==
    LET v == c.val IN
    IF ~OptKnown THEN c.dflt                                      \* never read, never written: parses as the default
    ELSE IF OptWriter = "skip_falsy" /\ v \in {"z", "absent"} THEN c.dflt
    ELSE v

RECURSIVE Compact(_)
Compact(s) == IF s = <<>> THEN <<>>
              ELSE IF Head(s) = "-" THEN Compact(Tail(s)) ELSE <<Head(s)>> \o Compact(Tail(s))
WrittenOperands(c) == IF InWriter = "positional" THEN c.slots ELSE Compact(c.slots)

\* outputs the pass of the operator declares (liveness, links and the cut of NPU subgraphs are computed from them)
Declared(c) == IF OutWriter = "all" THEN DOMAIN c.uses ELSE {1}

TableSurvives(h) == CASE TableKept = "always" -> TRUE
                       [] TableKept = "scale_or_zp" -> h \cap {"scale", "zp"} # {}
                       [] OTHER -> {"scale", "zp"} \subseteq h
WrittenTensor(c) == LET h == IF TableSurvives(c.has) THEN c.has ELSE {}
                    IN IF c.role \in Recreated THEN h \cap (CloneKeeps \cup {"scale", "zp"}) ELSE h

\* the reader works on a clone of the weights (transposed to the NPU layout); --force-symmetric-int-weights zeroes the zero
\* point OF THE CLONE before anybody knows whether the operator will run on the NPU; an operator that stays on the CPU
\* gets its source tensor back
WrittenWeight(c) == IF c.opt = "force_symmetric" /\ (CloneQuant = "shared" \/ (CloneQuant = "shallow" /\ c.per = "axis"))
                    THEN "zero" ELSE c.zp

Init == case \in Cases /\ stage = "src" /\ img = SrcImage(case)
Compile ==
    /\ stage = "src"
    /\ img' = CASE case.sort = "option" -> WrittenOption(case)
                [] case.sort = "operand" -> WrittenOperands(case)
                [] case.sort = "output" -> [p \in DOMAIN case.uses |-> "t"]
                [] case.sort = "weight" -> WrittenWeight(case)
                [] OTHER -> WrittenTensor(case)
    /\ stage' = "out"
    /\ UNCHANGED case
Next == Compile
Spec == Init /\ [][Next]_vars

(* ---- invariants: the round trip is the identity on what a parser sees ------------------------------ *)
OptionRoundTrip == (stage = "out" /\ case.sort = "option") => img = SrcImage(case)
OperandPositions == (stage = "out" /\ case.sort = "operand") => img = case.slots
TensorRoundTrip == (stage = "out" /\ case.sort = "tensor") => img = case.has
\* whatever the options: the weights of a kept operator are the weights of the source model
WeightRoundTrip == (stage = "out" /\ case.sort = "weight") => img = case.zp
\* every output somebody uses is one the pass declares (otherwise links / live ranges / the NPU cut miss it)
OutputsDeclared == (stage = "out" /\ case.sort = "output") =>
                      \A p \in DOMAIN case.uses : case.uses[p] # {} => p \in Declared(case)
=============================================================================
