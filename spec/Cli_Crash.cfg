SPECIFICATION Spec
CONSTANT AllowCrash = TRUE
INVARIANT CompilesOrDiagnoses
CHECK_DEADLOCK FALSE
