SPECIFICATION Spec
CONSTANTS
  OptWriter = "all"
  OptKnown = TRUE
  InWriter = "positional"
  OutWriter = "all"
  CloneKeeps = {"min", "max", "qdim", "peraxis"}
  TableKept = "always"
  CloneQuant = "shared"
  MaxIn = 4
INVARIANT OptionRoundTrip
INVARIANT OperandPositions
INVARIANT TensorRoundTrip
INVARIANT WeightRoundTrip
INVARIANT OutputsDeclared
CHECK_DEADLOCK FALSE
