SPECIFICATION Spec
CONSTANTS Tables <- MCTables
 Size <- MCSize
 MaxOps = 7
 Reserved = TRUE
 ForgetExtent = "elements"
INVARIANT UsesIntendedTable
INVARIANT KnownIsResident
CHECK_DEADLOCK FALSE
