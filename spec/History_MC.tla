---------------------------- MODULE History_MC ----------------------------
(* Bounded instance of History: the alphabet the harness builds with netgen.
   convA           one convolution: nothing value keyed
   meanA / meanB   MEAN over 8x4 and 4x8: the rewrite to a depthwise convolution synthesises an
                   all-ones kernel keyed by its 32 values and a zero bias keyed by its 8 values
   tanhA / tanhB   TANH alone / behind a convolution, equal input quantisation: equal LUT contents
   hcA             a branching network on which the hill-climb allocator has to search (draws from random)
   padNC           a convolution followed by a PAD of batch and channels: split_pad_to_sub_pad rewrites the
                   paddings constant of the input network in place
   x@u55           the same model compiled by main() with --accelerator-config ethos-u55-128
   x+dbg           the same model compiled by main() with --enable-debug-db --verbose-performance: two more
                   files are written, <net>_debug.xml from the process-wide DebugDatabase tables
   deepA           a chain of several hundred elementwise operators: compiles only under a raised recursion limit
   convA+rl        convA compiled by main() with --recursion-limit 1000 (the interpreter's default: fine for convA)
   convert / convert_bytes have fixed options (ethos-u65-256), so only main() has the @ and + letters.
   convert_bytes receives a bytearray it never sees again (container "ba"); for padNC it receives the
   bytearray the caller keeps ("shared"), a writable memoryview of it ("mvrw") and a read-only
   memoryview ("mvro"); padNC reaches the file-reading entry points through main() only. *)
EXTENDS History

Default == {"convA", "meanA", "meanB", "tanhA", "tanhB", "hcA", "padNC", "deepA"}
Other == {"convA@u55", "meanA@u55", "tanhA@u55"}
Debug == {"convA+dbg"}
LowRec == {"convA+rl"}
AllMO == Default \cup Other \cup Debug \cup LowRec
MCLetters == {[e |-> "main", mo |-> mo, c |-> "file"] : mo \in Default}
        \cup {[e |-> "convert", mo |-> mo, c |-> "file"] : mo \in Default \ {"padNC"}}
        \cup {[e |-> "convert_bytes", mo |-> mo, c |-> "ba"] : mo \in Default \ {"padNC"}}
        \cup {[e |-> "convert_bytes", mo |-> "padNC", c |-> c] : c \in {"shared", "mvrw", "mvro"}}
        \cup {[e |-> "main", mo |-> mo, c |-> "file"] : mo \in Other \cup Debug \cup LowRec}

MCVK == [mo \in AllMO |->
           CASE mo \in {"meanA", "meanB", "meanA@u55"} -> {"ones32", "zeros8"}
             [] mo \in {"tanhA", "tanhB", "tanhA@u55"} -> {"tanh_s005"}
             [] OTHER -> {}]
MCWK == [mo \in AllMO |->
           IF mo \in {"meanA", "meanB", "meanA@u55"} THEN {"dw/8/ones32"} ELSE {}]
MCAcc == [mo \in AllMO |-> IF mo \in Other THEN "u55-128" ELSE "u65-256"]
MCOpt == [mo \in AllMO |-> IF mo \in Debug THEN {"ddb"} ELSE IF mo \in LowRec THEN {"lowrec"} ELSE {}]
MCNeeds == [mo \in AllMO |-> IF mo = "deepA" THEN {"rec"} ELSE {}]
MCEst == [e \in Entries |-> {"rec"}]                                      \* as transcribed: every entry point raises the limit
MCEstNoConvert == [e \in Entries |-> IF e = "convert" THEN {} ELSE {"rec"}]  \* control: one entry point relies on the others
MCMdl == [mo \in AllMO |->
           CASE mo \in {"convA", "convA@u55", "convA+dbg", "convA+rl"} -> "convA"
             [] mo \in {"meanA", "meanA@u55"} -> "meanA"
             [] mo \in {"tanhA", "tanhA@u55"} -> "tanhA"
             [] OTHER -> mo]
MCInPlace == [mo \in AllMO |-> mo = "padNC"]
=============================================================================
