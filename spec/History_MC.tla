---------------------------- MODULE History_MC ----------------------------
(* Bounded instance of History: the alphabet the harness builds with netgen.
   convA / convB   one convolution, different weights: nothing value keyed
   meanA / meanB   MEAN over 8x4 and 4x8: the rewrite to a depthwise convolution synthesises an
                   all-ones kernel keyed by its 32 values and a zero bias keyed by its 8 values
   tanhA / tanhB   TANH alone / behind a convolution, equal input quantisation: equal LUT contents
   x@u55           the same model compiled by main() with --accelerator-config ethos-u55-128
   hcA             a branching network on which the hill-climb allocator has to search (draws from random)
   convert / convert_bytes have fixed options (ethos-u65-256), so only main() has the @u55 letters. *)
EXTENDS History

Default == {"convA", "convB", "meanA", "meanB", "tanhA", "tanhB", "hcA"}
Other == {"convA@u55", "meanA@u55", "tanhA@u55"}
MCLetters == {[e |-> e, mo |-> mo] : e \in Entries, mo \in Default} \cup {[e |-> "main", mo |-> mo] : mo \in Other}

MCVK == [mo \in Default \cup Other |->
           CASE mo \in {"meanA", "meanB", "meanA@u55"} -> {"ones32", "zeros8"}
             [] mo \in {"tanhA", "tanhB", "tanhA@u55"} -> {"tanh_s005"}
             [] OTHER -> {}]
MCWK == [mo \in Default \cup Other |->
           IF mo \in {"meanA", "meanB", "meanA@u55"} THEN {"dw/8/ones32"} ELSE {}]
MCAcc == [mo \in Default \cup Other |-> IF mo \in Other THEN "u55-128" ELSE "u65-256"]
=============================================================================
