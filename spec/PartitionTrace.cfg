SPECIFICATION Spec
INVARIANT Report
INVARIANT ReportDrift
POSTCONDITION Consumed
CHECK_DEADLOCK FALSE
