SPECIFICATION IndSpec
CONSTANTS Regs = {"a", "b"}
 DmaRegs = {"d"}
 Vals = {0, 1}
 MaxOps = 1
 NBanks = 1
CONSTRAINT IndOneStep
INVARIANT OpSeesIntendedRegisters
INVARIANT ShadowMatchesHardware
CHECK_DEADLOCK FALSE
