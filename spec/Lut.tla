-------------------------------- MODULE Lut --------------------------------
(* Lookup-table slots in SHRAM as a small cache (growth of the specification beyond the listed properties;
   mechanism behind C03's "overwritten LUT slot" clause; code: lut.py LUTState / optimize_high_level_cmd_stream).
   The LUT area is 8 slots of 256 bytes.  A table occupies Size[t] consecutive slots (1, 4 or 8: 256-byte int8
   tables, 1 KiB int32 tables, 2 KiB int16 tables), aligned to its size.  The compiler keeps a picture `known` of
   which tables are resident; a table that is believed resident is used without a DMA.
   Hardware: `slot[i]` = <<table, part>> actually stored in slot i (or <<"none", 0>>).
     Use(t)     : an operation whose activation uses table t.  If t is believed resident at address a the operation
                  uses slot a directly; otherwise the compiler picks the address overlapping the fewest resident
                  tables (find_best_address), emits a DMA (hardware: slots a .. a+Size[t]-1 := parts of t) and
                  forgets every table the new one overlaps (LUTState.put).
     NonLut     : an operation without a table.  On 16-bank accelerators (Reserved = FALSE) its accumulators overwrite
                  the LUT area and the compiler forgets everything; elsewhere nothing happens.
   Property UsesIntendedTable: whenever an operation uses table t at address a, slots a .. a+Size[t]-1 hold exactly
   parts 0 .. Size[t]-1 of t.
   ForgetExtent = "bytes" is the code as written; "elements" is the negative control (put() computing the extent of
   the new table in elements: a 1 KiB table then appears to cover one slot and stale neighbours stay "resident"). *)
EXTENDS Integers, Sequences, FiniteSets, TLC

CONSTANTS Tables, Size, MaxOps, Reserved, ForgetExtent
NSlots == 8
None == <<"none", 0>>

VARIABLES slot,      \* hardware: [0..7 -> <<table, part>>]
          known,     \* compiler: set of <<table, address>> believed resident
          nops, used \* used = <<table, address>> of the last Use (for the invariant), or <<>>
vars == <<slot, known, nops, used>>

Overlaps(a, n, b, m) == a < b + m /\ b < a + n
Extent(t) == IF ForgetExtent = "bytes" THEN Size[t] ELSE 1       \* 256 elements of any width = "1 slot"
(* number of resident tables an address range of Size[t] at a would overlap, as the allocator computes it *)
NOverlap(a, n) == Cardinality({e \in known : Overlaps(a, n, e[2], Size[e[1]])})
Candidates(t) == {a \in 0..NSlots - 1 : a % Size[t] = 0}
Best(t) == CHOOSE a \in Candidates(t) :
             \A b \in Candidates(t) : NOverlap(a, Size[t]) < NOverlap(b, Size[t]) \/
                                      (NOverlap(a, Size[t]) = NOverlap(b, Size[t]) /\ a <= b)

Init == /\ slot = [i \in 0..NSlots - 1 |-> None] /\ known = {} /\ nops = 0 /\ used = <<>>

Use(t) ==
   /\ nops < MaxOps
   /\ IF \E e \in known : e[1] = t
      THEN LET e == CHOOSE e \in known : e[1] = t IN            \* elided DMA
           /\ used' = <<t, e[2]>> /\ UNCHANGED <<slot, known>>
      ELSE LET a == Best(t) IN
           /\ slot' = [i \in 0..NSlots - 1 |-> IF i >= a /\ i < a + Size[t] THEN <<t, i - a>> ELSE slot[i]]
           /\ known' = {e \in known : ~Overlaps(a, Extent(t), e[2], Size[e[1]])} \cup {<<t, a>>}
           /\ used' = <<t, a>>
   /\ nops' = nops + 1

NonLut ==
   /\ nops < MaxOps
   /\ IF Reserved THEN UNCHANGED <<slot, known>>
      ELSE slot' = [i \in 0..NSlots - 1 |-> None] /\ known' = {}
   /\ used' = <<>> /\ nops' = nops + 1

Next == NonLut \/ \E t \in Tables : Use(t)
Spec == Init /\ [][Next]_vars

UsesIntendedTable ==
   used # <<>> => \A k \in 0..Size[used[1]] - 1 : slot[used[2] + k] = <<used[1], k>>
(* the compiler's picture never claims more than the hardware holds *)
KnownIsResident == \A e \in known : \A k \in 0..Size[e[1]] - 1 : slot[e[2] + k] = <<e[1], k>>
=============================================================================
