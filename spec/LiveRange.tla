------------------------------ MODULE LiveRange ------------------------------
(* Growth beyond the listed properties: the link between the scheduler and the tensor allocators,
   ethosu/vela/live_range.py (extract_live_ranges_from_cascaded_passes, extract_live_ranges_from_schedule,
   merge_elementwise_op_ranges/_get_ifm_to_fuse, LiveRange.mark_usage) as used by tensor_allocation.allocate_tensors.
   The allocators treat [start_time, end_time] as inclusive; property C05 says that two ranges that intersect never
   share bytes.  This module says what the ranges have to cover.

   The abstract schedule: operators 1..N in execution order; operator j reads feature map j-1 (feature map 0 is the
   network input) and, when some earlier feature map c has also = j, that one as second operand; it writes feature
   map j.  kind: "cpu" (a pass of the root subgraph), "conv" (NPU, weights), "elem" (NPU elementwise), "memcpy" (NPU
   feature-map DMA).  Maximal runs of NPU operators are one NPU subgraph called from the root subgraph.  cnext links
   an operator with its successor into one cascade.  Weight buffering of a "conv": none / single / double SRAM
   buffers, buffer 0 optionally pre-buffered (filled during the preceding operator), nsl depth slices (slice k
   uses buffer k mod 2).  The schedule is revealed operator by operator (it is the environment of the algorithm);
   what an operator needs to know about the future (a later second reader "also", the extent of its NPU subgraph
   "run.last", the continuation of its cascade "cnext") is fixed when it is revealed.

   The algorithm (one action per step of the time assignment):
     CpuPass          root pass: inputs and outputs at `now`, now += 2
     EnterNpu/LeaveNpu the NPU subgraph nested in the root time line: the call pass's inputs are marked at the time of
                      entry, the subgraph's outputs at the time after its last operator; no tick of its own
     FuseInPlace/NoFuse  merge_elementwise_op_ranges: IFM and OFM of a non-cascaded elementwise/memcpy share one range
     OwnTimeOp / CascadeOp   feature maps marked at `now`, or at the time the cascade got from its first operator
     NoBuffer / PlainBuffer / PreBufferedBuffer   buffer 0; pre-buffered: one slot earlier
     SecondBuffer     buffer 1 of a double buffer; the buffer that does not hold the last slice ends one slot earlier
     Finish           network outputs at the final time, variable tensors over the whole inference

   The meaning of "in use" is defined from the schedule alone (Points): the execution order of the command stream.
   CoversUse: two buffers that are in use at a common point of the execution and are not fused into one range have
   live ranges that intersect.  FuseSafe: an elementwise operator that writes its OFM over its IFM (one range) has equal
   shapes, and no value that lives in those bytes has another reader at or after that operator, nor is it a network
   output (which is what `exactly one consumer, not write protected` of the code has to guarantee). *)
EXTENDS Integers, Sequences, FiniteSets, TLC, LiveRangeProps
CONSTANTS N,             \* operators
          MaxExtraOut,   \* network outputs besides feature map N
          VarChoices,    \* allowed variable feature maps (0 = none)
          PreStart,      \* "earlier" = code; "same" = negative control (pre-buffered weights start with their operator)
          Shorten,       \* "notlast" = code; "last" = negative control (the buffer used last ends earlier)
          CascadeTime,   \* "shared" = code; "own" = negative control (every cascaded operator gets its own time)
          OutputsAt,     \* "end" = code; "producer" = negative control (network outputs not extended to the end)
          VarsAt,        \* "whole" = code: a variable (state) tensor is live over the entire inference; "uses" = negative
                         \* control (it gets the first-use..last-use range of an ordinary feature map)
          Protect        \* "asis" = code: of the tensors an NPU subgraph reads from CPU operators only network inputs with
                         \* several consumers and network outputs are write protected, and the memcpy branch ignores
                         \* the flag (FuseSafe fails: real defect, harness/repro/liverange_inplace_cpu_producer.py);
                         \* "fixed" = every such tensor with another consumer is protected, memcpy honours the flag
VARIABLES ops, net, now, pc, tts, run, ctime, rid, rng
vars == <<ops, net, now, pc, tts, run, ctime, rid, rng>>

Inf == 99
Min2(a, b) == IF a < b THEN a ELSE b
Max2(a, b) == IF a > b THEN a ELSE b
SetMin(S) == CHOOSE x \in S : \A y \in S : x <= y
SetMax(S) == CHOOSE x \in S : \A y \in S : x >= y

(* buffers are small integers: feature map c -> c (0..N), weight buffer k of operator j -> 10 + 2 j + k *)
Wb(j, k) == 10 + 2 * j + k
Fms == 0..N
Buffers == Fms \cup {Wb(j, k) : j \in 1..N, k \in 0..1}
NoRange == [s |-> Inf, e |-> -1]

(* LiveRange.mark_usage *)
Mark(r, b, t, len) ==
   LET t0 == Max2(t, 0) t1 == t + len
   IN IF t1 < t0 THEN r ELSE [r EXCEPT ![b] = [s |-> Min2(@.s, t0), e |-> Max2(@.e, t1)]]
RECURSIVE MarkSet(_, _, _, _)
MarkSet(r, S, t, len) == IF S = {} THEN r ELSE LET b == CHOOSE x \in S : TRUE IN MarkSet(Mark(r, b, t, len), S \ {b}, t, len)

(* ---------------------------------------------------------------- the schedule (as far as revealed) *)
IsNpu(j) == ops[j].kind # "cpu"
Also(c) == IF c = 0 THEN net.also0 ELSE ops[c].also
IsOut(c) == c >= 1 /\ c <= Len(ops) /\ ops[c].out
In2(j) == {c \in 0..(j - 2) : c <= Len(ops) /\ Also(c) = j}
Ins(j) == {j - 1} \cup In2(j)
Consumers(c) == (IF c < N THEN {c + 1} ELSE {}) \cup (IF Also(c) # 0 THEN {Also(c)} ELSE {})
InCascade(j) == (j > 1 /\ ops[j - 1].cnext) \/ ops[j].cnext
NBuf(j) == IF ops[j].wb = "double" THEN 2 ELSE IF ops[j].wb = "single" THEN 1 ELSE 0
LastIdx(j) == (ops[j].nsl + 1) % 2      \* len(ofm_depth_slices) % len(buffered_weight_tensors), nsl + 1 boundaries

Init ==
   /\ ops = <<>>
   /\ net \in [also0 : {0} \cup 2..N, var : VarChoices]
   /\ now = 2                                   \* the start-up pass at time 0 defines the network input
   /\ pc = "next" /\ tts = 0 /\ ctime = -1
   /\ run = [active |-> FALSE, start |-> 0, first |-> 0, last |-> 0]
   /\ rid = [c \in Fms |-> c]
   /\ rng = [b \in Buffers |-> IF b = 0 THEN [s |-> 0, e |-> 1] ELSE NoRange]

(* what the environment may reveal as operator j = Len(ops) + 1 *)
Taken == {Also(c) : c \in 0..Len(ops)} \ {0}
ExtraOuts == Cardinality({c \in 1..Len(ops) : ops[c].out /\ c # N})
Op(kind, wb, pre, nsl, same, cnext, also, out) ==
   [kind |-> kind, wb |-> wb, pre |-> pre, nsl |-> nsl, same |-> same, cnext |-> cnext, also |-> also, out |-> out]
AlsoChoices(j) == {0} \cup {k \in (j + 2)..N : k \notin Taken}
OutChoices(j) == IF j = N THEN {TRUE} ELSE IF ExtraOuts < MaxExtraOut THEN BOOLEAN ELSE {FALSE}
CpuOps(j) == {Op("cpu", "none", FALSE, 1, TRUE, FALSE, a, o) : a \in AlsoChoices(j), o \in OutChoices(j)}
NpuOps(j) ==
   LET join == j > 1 /\ ops[j - 1].cnext
       two == j \in Taken                     \* some earlier feature map is this operator's second operand
       cn == IF j < run.last THEN BOOLEAN ELSE {FALSE}
       conv == IF two THEN {} ELSE
               {Op("conv", w, p, n, TRUE, c, a, o) : w \in {"none", "single", "double"}, p \in BOOLEAN, n \in 1..3,
                                                      c \in cn, a \in AlsoChoices(j), o \in OutChoices(j)}
       elem == {Op("elem", "none", FALSE, 1, s, c, a, o) : s \in BOOLEAN, c \in cn, a \in AlsoChoices(j), o \in OutChoices(j)}
       mcpy == IF two \/ join THEN {} ELSE
               {Op("memcpy", "none", FALSE, 1, TRUE, FALSE, a, o) : a \in AlsoChoices(j), o \in OutChoices(j)}
       wellformed(v) ==
          /\ (v.wb = "none") => (~v.pre /\ v.nsl = 1)
          /\ (v.wb = "single") => v.nsl = 1
          /\ (v.wb = "double") => v.nsl \in {2, 3}
          /\ (join \/ v.cnext) => (v.wb # "double" /\ ~v.pre)     \* scheduler: pre_buffer only when cascade == 0
   IN {v \in conv \cup elem \cup mcpy : wellformed(v)}

(* ---------------------------------------------------------------- _get_ifm_to_fuse, transcribed *)
InRun(x) == run.first <= x /\ x <= run.last
Visible(c) ==       \* len(tens.consumer_list) as the NPU subgraph sees it (None entry for a subgraph output)
   IF c >= run.first
   THEN Cardinality({x \in Consumers(c) : InRun(x)}) + (IF IsOut(c) \/ \E x \in Consumers(c) : ~InRun(x) THEN 1 ELSE 0)
   ELSE Cardinality({x \in Consumers(c) : InRun(x)})
WriteProtected(c) ==    \* ifm_write_protected of the clone the NPU subgraph reads
   IF c >= run.first THEN FALSE
   ELSE IF c >= 1 /\ IsNpu(c) THEN TRUE               \* output of an earlier NPU subgraph: always protected
   ELSE IF Protect = "asis" THEN (c = 0 /\ Cardinality(Consumers(c)) > 1) \/ IsOut(c)
   ELSE Cardinality(Consumers(c)) > 1 \/ IsOut(c)
FuseCandidate(j) ==     \* -1 or the feature map whose range the OFM joins
   LET v == ops[j]
       order == <<j - 1>> \o (IF In2(j) = {} THEN <<>> ELSE <<CHOOSE c \in In2(j) : TRUE>>)
       okE(c) == v.same /\ ~WriteProtected(c) /\ Visible(c) = 1
       okM(c) == ~(Visible(c) > 1) /\ (Protect = "asis" \/ ~WriteProtected(c))
   IN IF InCascade(j) THEN -1
      ELSE IF v.kind = "elem" THEN (IF okE(order[1]) THEN order[1] ELSE IF Len(order) = 2 /\ okE(order[2]) THEN order[2] ELSE -1)
      ELSE IF v.kind = "memcpy" THEN (IF okM(order[1]) THEN order[1] ELSE -1)
      ELSE -1

(* ---------------------------------------------------------------- the time assignment *)
CpuPass ==
   /\ pc = "next" /\ ~run.active /\ Len(ops) < N
   /\ \E v \in CpuOps(Len(ops) + 1) :
        LET j == Len(ops) + 1 IN
        /\ ops' = Append(ops, v)
        /\ rng' = LET ins == {j - 1} \cup {c \in 0..(j - 2) : (IF c = 0 THEN net.also0 ELSE ops[c].also) = j}
                  IN Mark(MarkSet(rng, {rid[c] : c \in ins}, now, 1), rid[j], now, 1)
        /\ now' = now + 2
   /\ UNCHANGED <<net, pc, tts, run, ctime, rid>>

EnterNpu ==
   /\ pc = "next" /\ ~run.active /\ Len(ops) < N
   /\ (IF Len(ops) = 0 THEN TRUE ELSE ops[Len(ops)].kind = "cpu")
   /\ \E n \in 1..(N - Len(ops)) :
        run' = [active |-> TRUE, start |-> now, first |-> Len(ops) + 1, last |-> Len(ops) + n]
   /\ UNCHANGED <<ops, net, now, pc, tts, ctime, rid, rng>>

Reveal(v) == ops' = Append(ops, v)
FuseInPlace ==
   /\ pc = "next" /\ run.active /\ Len(ops) < run.last
   /\ UNCHANGED <<net, now, tts, run, ctime, rng>>
   /\ \E j \in {Len(ops) + 1} : \E v \in NpuOps(j) :       \* (j bound, so that the prime below does not reach it)
        /\ Reveal(v)
        /\ LET c == FuseCandidate(j)' IN
           /\ c # -1
           /\ rid' = [rid EXCEPT ![j] = rid[c]]       \* LiveRangeGraph.fuse_ranges
   /\ pc' = "fms"
NoFuse ==
   /\ pc = "next" /\ run.active /\ Len(ops) < run.last
   /\ UNCHANGED <<net, now, tts, run, ctime, rid, rng>>
   /\ \E j \in {Len(ops) + 1} : \E v \in NpuOps(j) :
        /\ Reveal(v)
        /\ FuseCandidate(j)' = -1
   /\ pc' = "fms"

MarkFms(t) ==
   LET j == Len(ops)
       outside == {c \in Ins(j) : c < run.first}
       r1 == MarkSet(rng, {rid[c] : c \in outside}, run.start, 1)      \* inputs of the call pass, at the time of entry
   IN rng' = MarkSet(r1, {rid[c] : c \in Ins(j) \cup {j}}, t, 1)
OwnTimeOp ==     \* an operator outside a cascade, or the first operator of a cascade: the current time
   /\ pc = "fms"
   /\ ~(Len(ops) > 1 /\ ops[Len(ops) - 1].cnext /\ CascadeTime = "shared")
   /\ tts' = now /\ MarkFms(now) /\ pc' = "wb"
   /\ UNCHANGED <<ops, net, now, run, ctime, rid>>
CascadeOp ==        \* time_for_cascade.get(cascade): the time of the cascade's first operator
   /\ pc = "fms"
   /\ Len(ops) > 1 /\ ops[Len(ops) - 1].cnext /\ CascadeTime = "shared"
   /\ tts' = ctime /\ MarkFms(ctime) /\ pc' = "wb"
   /\ UNCHANGED <<ops, net, now, run, ctime, rid>>

Tick ==     \* if time_to_set == current_time: current_time += 2;  if cascade != 0: time_for_cascade[cascade] = time_to_set
   /\ now' = IF tts = now THEN now + 2 ELSE now
   /\ ctime' = IF ops[Len(ops)].cnext THEN tts ELSE -1
Len0Buf(j) ==       \* (start, length) of buffer 0
   LET pre == ops[j].pre /\ PreStart = "earlier"
       short == NBuf(j) = 2 /\ (IF Shorten = "notlast" THEN LastIdx(j) # 0 ELSE LastIdx(j) = 0)
   IN <<IF pre THEN tts - 1 ELSE tts, 1 + (IF pre THEN 1 ELSE 0) - (IF short THEN 1 ELSE 0)>>
After0 == IF NBuf(Len(ops)) = 2 THEN pc' = "wb1" /\ UNCHANGED <<now, ctime>> ELSE pc' = "next" /\ Tick
NoBuffer ==
   /\ pc = "wb" /\ NBuf(Len(ops)) = 0
   /\ pc' = "next" /\ Tick
   /\ UNCHANGED <<ops, net, tts, run, rid, rng>>
PlainBuffer ==
   /\ pc = "wb" /\ NBuf(Len(ops)) > 0 /\ ~ops[Len(ops)].pre
   /\ LET se == Len0Buf(Len(ops)) IN rng' = Mark(rng, Wb(Len(ops), 0), se[1], se[2])
   /\ After0
   /\ UNCHANGED <<ops, net, tts, run, rid>>
PreBufferedBuffer ==
   /\ pc = "wb" /\ NBuf(Len(ops)) > 0 /\ ops[Len(ops)].pre
   /\ LET se == Len0Buf(Len(ops)) IN rng' = Mark(rng, Wb(Len(ops), 0), se[1], se[2])
   /\ After0
   /\ UNCHANGED <<ops, net, tts, run, rid>>
SecondBuffer ==
   /\ pc = "wb1"
   /\ LET j == Len(ops)
          short == IF Shorten = "notlast" THEN LastIdx(j) # 1 ELSE LastIdx(j) = 1
      IN rng' = Mark(rng, Wb(j, 1), tts, IF short THEN 0 ELSE 1)
   /\ pc' = "next" /\ Tick
   /\ UNCHANGED <<ops, net, tts, run, rid>>

LeaveNpu ==     \* sg.output_tensors at the time after the last operator; the call pass's outputs at the same time
   /\ pc = "next" /\ run.active /\ Len(ops) = run.last
   /\ LET outs == {c \in run.first..run.last : c = run.last \/ IsOut(c) \/ \E x \in Consumers(c) : x > run.last}
      IN rng' = MarkSet(rng, {rid[c] : c \in outs}, now, 1)
   /\ run' = [run EXCEPT !.active = FALSE]
   /\ UNCHANGED <<ops, net, now, pc, tts, ctime, rid>>

Finish ==
   /\ pc = "next" /\ ~run.active /\ Len(ops) = N
   /\ LET r1 == IF OutputsAt = "end" THEN MarkSet(rng, {rid[c] : c \in {x \in 1..N : ops[x].out}}, now, 1) ELSE rng
      IN rng' = IF net.var # 0 /\ VarsAt = "whole" THEN Mark(r1, rid[net.var], 0, now + 1) ELSE r1
   /\ pc' = "done"
   /\ UNCHANGED <<ops, net, now, tts, run, ctime, rid>>

Next == CpuPass \/ EnterNpu \/ FuseInPlace \/ NoFuse \/ OwnTimeOp \/ CascadeOp \/ NoBuffer \/ PlainBuffer
        \/ PreBufferedBuffer \/ SecondBuffer \/ LeaveNpu \/ Finish
Spec == Init /\ [][Next]_vars

(* ---------------------------------------------------------------- use: the execution order of the command stream *)
(* a point = [op |-> the operator executing (0 = start-up, N+1 = the application reading the results), touch |-> buffers] *)
Base(j) == Ins(j) \cup {j}
PreNext(j) ==       \* the DMA of a pre-buffered buffer is issued while the preceding NPU operator still runs
   IF j < N /\ IsNpu(j) /\ IsNpu(j + 1) /\ ops[j + 1].pre /\ NBuf(j + 1) > 0 THEN {Wb(j + 1, 0)} ELSE {}
OpPoints(j) ==      \* one point per depth slice; with two buffers the DMA for slice k+1 runs during slice k
   LET n == IF NBuf(j) = 2 THEN ops[j].nsl ELSE 1
   IN [k \in 1..n |-> [op |-> j, touch |->
         Base(j) \cup (IF NBuf(j) = 0 THEN {} ELSE {Wb(j, (k - 1) % NBuf(j))})
                 \cup (IF NBuf(j) = 2 /\ k < n THEN {Wb(j, k % 2)} ELSE {})
                 \cup (IF k = n THEN PreNext(j) ELSE {})]]
CascadeEnd(a) == CHOOSE b \in a..N : (\A x \in a..(b - 1) : ops[x].cnext) /\ ~ops[b].cnext
Round(a, b, final) ==   \* the operators of a cascade are interleaved stripe by stripe
   [k \in 1..(b - a + 1) |-> [op |-> a + k - 1, touch |->
       Base(a + k - 1) \cup (IF NBuf(a + k - 1) = 0 THEN {} ELSE {Wb(a + k - 1, 0)})
                       \cup (IF final /\ k = b - a + 1 THEN PreNext(b) ELSE {})]]
VarSet == IF net.var # 0 THEN {net.var} ELSE {}
RECURSIVE PointsFrom(_)
PointsFrom(j) ==
   IF j > N THEN << [op |-> N + 1, touch |-> {c \in 1..N : ops[c].out} \cup VarSet] >>
   ELSE IF ops[j].cnext THEN LET b == CascadeEnd(j) IN Round(j, b, FALSE) \o Round(j, b, TRUE) \o PointsFrom(b + 1)
   ELSE OpPoints(j) \o PointsFrom(j + 1)
Points == << [op |-> 0, touch |-> {0} \cup VarSet] >> \o PointsFrom(1)

Used(P) == UNION {P[p].touch : p \in DOMAIN P}
UseOf(P, b) == LET idx == {p \in DOMAIN P : b \in P[p].touch} IN [lo |-> SetMin(idx), hi |-> SetMax(idx)]
Rep(b) == IF b \in Fms THEN rid[b] ELSE b

CoversUse ==
   pc = "done" =>
      LET P == Points U == Used(P) IN
      \A a \in U, b \in U :
         (a < b /\ Rep(a) # Rep(b)) => CoversPair(UseOf(P, a), UseOf(P, b), rng[Rep(a)], rng[Rep(b)])

(* In-place safety (variable tensors take part in CoversUse only; their in-place treatment is not modelled).
   The feature maps of one range occupy the same bytes.  A fused elementwise operator overwrites them
   (a fused memcpy finds its output already in place and copies nothing); every value that was in those bytes before
   must have no reader left but the overwriting operator itself. *)
Fused == {j \in 1..Len(ops) : rid[j] # j}
ExecP(P, x) == {p \in DOMAIN P : P[p].op = x}
Readers(P, c) == {[op |-> x, last |-> SetMax(ExecP(P, x))] : x \in Consumers(c)}
FuseSafe ==
   pc = "done" =>
      LET P == Points IN
      \A j \in Fused :
         /\ \E c \in Ins(j) : rid[c] = rid[j]                       \* fused with one of its own operands
         /\ ops[j].kind = "elem" =>
              /\ ops[j].same
              /\ \A c \in Fms : (c < j /\ rid[c] = rid[j]) =>
                    ClobberSafe(Readers(P, c), IsOut(c), j, SetMin(ExecP(P, j)))

TypeOK == pc \in {"next", "fms", "wb", "wb1", "done"} /\ Len(ops) <= N
=============================================================================
