SPECIFICATION Spec
CONSTANTS MaxH = 8
 EmitCases = TRUE
 YPad = "top"
INVARIANT BlockDepSafe
INVARIANT Cases
CHECK_DEADLOCK FALSE
