SPECIFICATION Spec
CONSTANTS MaxH = 8
 YPad = "top"
INVARIANT BlockDepSafe
CHECK_DEADLOCK FALSE
