SPECIFICATION Spec
CONSTANT Secs = {"A", "B", "C"}
CONSTANT Keys = {"k1"}
CONSTANT Vals = {"u", "v"}
CONSTANT Unknown = "Z"
CONSTANT Overlay = "child"
INVARIANT NoDepth2Witness
CHECK_DEADLOCK FALSE
