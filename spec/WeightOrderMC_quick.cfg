SPECIFICATION Spec
CONSTANT OfmDepths = {1, 3, 9, 17}
CONSTANT IfmDepths = {1, 7, 17, 33}
CONSTANT KernelHs = {1, 3}
CONSTANT KernelWs = {1, 2}
CONSTANT Decomposing = TRUE
CONSTANT BlockDepths = {4, 8, 12, 16}
INVARIANT OrderIsBijection
CHECK_DEADLOCK FALSE
