----------------------------- MODULE ArenaTrace -----------------------------
(* Trace validation for C12: one record per output model.
   {"t", "align", "nops": number of operators of the output graph, "cpuops": the operators that are not ethos-u operators,
    "plan":[{off,size,first,last,var,cpu,cin,cout,name}..], "acts":[{name,off,size,first,last,var,scratch}..] (every
    activation of the output graph, placed or not), "scratch":[{off,size}..] (custom-op scratch
    tensors), "touched": highest region-1 end address any command stream touches, "io_end": highest end of a custom
    operator input/output, "reported": arena bytes reported in the summary CSV (-1 = not available),
    "console": bytes reported on the console for that memory (-1 = n/a; rounded to 0.01 KiB),
    "spilling": the arena is not in SRAM, "fast_size": size of the fast-scratch tensor of the custom operator, "touched_fast":
    highest region-2 end address the streams touch, "reported_fast"/"console_fast": SRAM bytes reported (csv / console) }  *)
EXTENDS Arena, Json, IOUtils, TLC
Trace == ndJsonDeserialize(IOEnv.TRACE_FILE)
VARIABLES l, viol
Ev == Trace[l]
Max(a, b) == IF a > b THEN a ELSE b
Check(e) ==
  LET P == e.plan
      A == e.acts
      peak == PeakLive(A, e.nops, S(e.cpuops))
      need == Max(Max(Required(P), peak), Max(e.touched, e.io_end))
      overl == {<<i, j>> \in (1..Len(P)) \X (1..Len(P)) : i < j /\ Conflict(P[i], P[j], e.nops)}
  IN { <<e.t, "NoOverlapLive", P[p[1]].name, P[p[2]].name>> : p \in overl }
     \cup { <<e.t, "Aligned", P[i].name, P[i].off>> : i \in {i \in 1..Len(P) : P[i].cpu /\ P[i].off % e.align # 0} }
     \cup { <<e.t, "PlanComplete", A[i].name, A[i].size>> : i \in Unplaced(A) }
     \cup { <<e.t, "ScratchAtZero", "scratch", e.scratch[i].off>> : i \in {i \in 1..Len(e.scratch) : e.scratch[i].off # 0} }
     \cup { <<e.t, "ScratchSpans", "scratch", e.scratch[i].size>> :
               i \in {i \in 1..Len(e.scratch) : e.scratch[i].size < Max(e.touched, e.io_end)} }
     \cup (IF e.reported >= 0 /\ e.reported < need
           THEN {<<e.t, "ReportedSufficient", IF e.reported < peak THEN "csv-peak" ELSE "csv", e.reported>>} ELSE {})
     \cup (IF e.console >= 0 /\ e.console + 6 < need
           THEN {<<e.t, "ReportedSufficient", IF e.console + 6 < peak THEN "console-peak" ELSE "console", e.console>>} ELSE {})
     \* the arena is not in SRAM (spilling): the fast-scratch tensor is the SRAM buffer the model requires
     \cup (IF e.spilling /\ e.reported_fast >= 0 /\ e.reported_fast < Max(e.fast_size, e.touched_fast)
           THEN {<<e.t, "ReportedSufficient", "csv-sram", e.reported_fast>>} ELSE {})
     \cup (IF e.spilling /\ e.console_fast >= 0 /\ e.console_fast + 6 < Max(e.fast_size, e.touched_fast)
           THEN {<<e.t, "ReportedSufficient", "console-sram", e.console_fast>>} ELSE {})
Init == l = 1 /\ viol = {}
Next == l <= Len(Trace) /\ viol' = viol \cup Check(Ev) /\ l' = l + 1
Spec == Init /\ [][Next]_<<l, viol>>
Consumed == TLCGet("stats").diameter = Len(Trace) + 1
Report == l = Len(Trace) + 1 => PrintT(<<"VERDICT", ToJson(viol)>>)
=============================================================================
