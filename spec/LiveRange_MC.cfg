SPECIFICATION Spec
CONSTANTS N = 4
 MaxExtraOut = 1
 VarChoices = {0}
 PreStart = "earlier"
 Shorten = "notlast"
 CascadeTime = "shared"
 OutputsAt = "end"
 Protect = "fixed"
 VarsAt = "whole"
INVARIANT CoversUse
INVARIANT FuseSafe
CHECK_DEADLOCK FALSE
