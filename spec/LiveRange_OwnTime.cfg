SPECIFICATION Spec
CONSTANTS N = 3
 MaxExtraOut = 1
 VarChoices = {0}
 PreStart = "earlier"
 Shorten = "notlast"
 CascadeTime = "own"
 OutputsAt = "end"
 Protect = "fixed"
 VarsAt = "whole"
INVARIANT CoversUse
INVARIANT FuseSafe
CHECK_DEADLOCK FALSE
