---------------------------- MODULE AllocLinear ----------------------------
(* Transcription of tensor_allocation.linear_allocate_live_ranges: increasing addresses in
   presentation order; a range whose tensor was declared equivalent to an already allocated one
   (equal weight_compression_config, or a look-up table that is `equivalent`) reuses that address
   and does not advance the total.  The requested alignment is the alloc_granularity argument,
   carried by every range as `al` (live_range.py creates ranges with alignment 16 or with the
   cpu_tensor_alignment that allocate() also passes as the granularity, so al divides it).

   Admissible inputs (guard of Start): one granularity for all ranges; ranges of one equivalence
   class have one size (they hold the same bytes). *)
EXTENDS Integers, Sequences, FiniteSets, TLC

CONSTANTS MaxN, T, Sizes, Aligns, Eqs, MaxAddr, AddrStep
VARIABLES R, phase, k, g
vars == <<R, phase, k, g>>

RoundUp(a, b) == ((a + b - 1) \div b) * b
Dom(Q) == 1..Len(Q)
SameEq(a, b) == a.eq # 0 /\ a.eq = b.eq
Admissible(Q) == \A x, y \in Dom(Q) : Q[x].al = Q[y].al /\ (SameEq(Q[x], Q[y]) => Q[x].size = Q[y].size)

L0(Q) == [addr |-> [x \in Dom(Q) |-> -1], total |-> 0]
(* first already allocated range (allocation order = presentation order) that is equivalent, 0 if none *)
RECURSIVE FirstEq(_, _, _)
FirstEq(Q, x, y) == IF y >= x THEN 0 ELSE IF SameEq(Q[x], Q[y]) THEN y ELSE FirstEq(Q, x, y + 1)
LStep(Q, st, x) ==
    LET y == FirstEq(Q, x, 1)
        address == IF y # 0 THEN st.addr[y] ELSE st.total
    IN [addr |-> [st.addr EXCEPT ![x] = address],
        total |-> IF address = st.total THEN st.total + RoundUp(Q[x].size, Q[x].al) ELSE st.total]
RECURSIVE LinearFrom(_, _, _)
LinearFrom(Q, x, st) == IF x > Len(Q) THEN st ELSE LinearFrom(Q, x + 1, LStep(Q, st, x))
LinearRun(Q) == LinearFrom(Q, 1, L0(Q))

A == INSTANCE Alloc WITH phase <- IF phase = "done" THEN "done" ELSE "build",
                         out <- IF phase = "done" THEN g ELSE [addr |-> <<>>, total |-> -1]

Init == R = <<>> /\ phase = "build" /\ k = 0 /\ g = L0(<<>>)
Extend == /\ phase = "build" /\ Len(R) < MaxN
          /\ \E d \in A!Desc : (IF R = <<>> THEN TRUE ELSE A!Key(R[Len(R)]) <= A!Key(d)) /\ R' = Append(R, d)
          /\ UNCHANGED <<phase, k, g>>
Start == /\ phase = "build" /\ Len(R) > 0 /\ Admissible(R)
         /\ phase' = "run" /\ k' = 1 /\ g' = L0(R)
         /\ UNCHANGED R
AllocStep == /\ phase = "run"
             /\ g' = LStep(R, g, k)
             /\ k' = k + 1
             /\ phase' = IF k = Len(R) THEN "done" ELSE "run"
             /\ UNCHANGED R
Next == Extend \/ Start \/ AllocStep
Spec == Init /\ [][Next]_vars

Refines == A!SpecR
InvNoOverlapLive == A!InvNoOverlapLive
InvAligned == A!InvAligned
InvTotalOK == A!InvTotalOK
InvAboveLowerBound == A!InvAboveLowerBound
InvFold == phase = "done" => LinearRun(R) = g
(* equivalent ranges do share one address *)
InvShares == phase = "done" => \A x, y \in Dom(R) : SameEq(R[x], R[y]) => g.addr[x] = g.addr[y]
=============================================================================
