SPECIFICATION Spec
CONSTANT MaxN = 4
CONSTANT BlockDepths = {1}
INVARIANT CoverageOK
CHECK_DEADLOCK FALSE
