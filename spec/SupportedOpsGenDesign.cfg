SPECIFICATION Spec
CONSTANT WithPairs = TRUE
INVARIANT NominalOnNpu
INVARIANT PairsAreCpu
INVARIANT WellFormed
CHECK_DEADLOCK FALSE
