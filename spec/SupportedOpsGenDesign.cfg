SPECIFICATION Spec
CONSTANT WithPairs = TRUE
INVARIANT NominalOnNpu
INVARIANT PairsAreCpu
INVARIANT ForceOnlyLiftsWsym
INVARIANT NoOpIsIdentity
INVARIANT NeutralOptionsAreNeutral
INVARIANT EquivalentEncodingsSameExpect
INVARIANT BroadcastIsTrailingAligned
INVARIANT SecondOperandOriginIsNeutral
INVARIANT WellFormed
CHECK_DEADLOCK FALSE
