SPECIFICATION Spec
INVARIANT Acyclic
CHECK_DEADLOCK FALSE
