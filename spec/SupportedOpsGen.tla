--------------------------- MODULE SupportedOpsGen ---------------------------
(* Spec -> code: every element of Cases is an initial state; the design-level invariants are checked on
   all of them and each case is printed as JSON for the driver, together with what the report says about it. *)
EXTENDS SupportedOps, Json

VARIABLE case
Init == case \in Cases
Next == UNCHANGED case
Spec == Init /\ [][Next]_case

\* design-level checks over the whole case set
NominalOnNpu == (case.axis = "nominal" /\ case.op \in InTable /\ case.op \notin Unmodelled) => Expect(case) = "NPU"
PairsAreCpu == case.axis2 # "" => Expect(case) = "CPU"
\* the option the report names lifts exactly the bullet that names it, for every case of every operator
ForceOnlyLiftsWsym == LET on == [case EXCEPT !.force = TRUE]  offc == [case EXCEPT !.force = FALSE]
                      IN /\ Failing(on) = Failing(offc) \ {"wsym"}
                         /\ Undecided(on) = Undecided(offc)
                         /\ (case.op \in InTable /\ "wsym" \notin Listed[case.op]) => Expect(on) = Expect(offc)
\* options the report does not mention never change what it promises
NeutralOptionsAreNeutral == \A o \in NeutralOpts \cup {""} : LET x == [case EXCEPT !.nopt = o] IN
                               Expect(x) = Expect(case) /\ Failing(x) = Failing(case)
\* round 5.  Two encodings of one operator (axis counted from the end, SLICE size -1) get one verdict, one set of failing /
\* undecided bullets and one output shape
EquivalentEncodingsSameExpect ==
    \A e \in Encodings(case) : /\ Expect(e) = Expect(case) /\ Failing(e) = Failing(case) /\ Undecided(e) = Undecided(case)
                                /\ Ofm(e) = Ofm(case) /\ Canon(e) = Canon(case)
\* broadcasting aligns the TRAILING dimensions: writing the leading 1s of the shorter operand out changes nothing, nor does
\* the order of the operands; where the second operand comes from (constant / run time) is not mentioned by any bullet
\* (BcRef: the same rule written without Ext, counting positions from the end - a second formulation the first is checked against)
BcRef(c) == LET n1 == Len(c.s1)  n2 == Len(c.s2)  no == Len(c.so) IN
            \A k \in 1..no : LET a == IF k <= n1 THEN c.s1[n1 - k + 1] ELSE 1
                                  b == IF k <= n2 THEN c.s2[n2 - k + 1] ELSE 1
                              IN (a = b \/ a = 1 \/ b = 1) /\ c.so[no - k + 1] = Max(a, b)
BroadcastIsTrailingAligned ==
    (case.op \in BcOps /\ case.s1 # <<>> /\ case.s2 # <<>>) =>
        LET r == BcRank(case)
            full == [case EXCEPT !.s1 = Ext(case.s1, r), !.s2 = Ext(case.s2, r)]
            swap == [case EXCEPT !.s1 = case.s2, !.s2 = case.s1]
        IN /\ Len(case.so) = r => Broadcast(case) = T3(BcRef(case))
           /\ Broadcast(case) = Broadcast(full) /\ Broadcast(case) = Broadcast(swap)
           /\ Eval("batch", case) = Eval("batch", full)
           /\ (Len(case.so) = r /\ \E i \in 1..r : Ext(case.s1, r)[i] # Ext(case.s2, r)[i] /\ Ext(case.s1, r)[i] # 1 /\ Ext(case.s2, r)[i] # 1)
                  => Broadcast(case) = "F"
SecondOperandOriginIsNeutral == LET x == [case EXCEPT !.c2const = ~case.c2const] IN
                                   Expect(x) = Expect(case) /\ Failing(x) = Failing(case)
\* an operator that may be eliminated as a no-op is never one that has to stay on the CPU for its shape alone
NoOpIsIdentity == NoOp(case) => Ifm(case) = Ofm(case)
WellFormed == /\ case.op \in K4 => (OH(case) >= 1 /\ OW(case) >= 1 /\ case.sh >= 1 /\ case.sw >= 1)
              /\ Expect(case) \in {"NPU", "CPU", "ANY"}
Emit == PrintT(<<"CASE", ToJson([c |-> case, oh |-> IF case.op \in K4 THEN OH(case) ELSE 0,
                                 ow |-> IF case.op \in K4 THEN OW(case) ELSE 0,
                                 ofm |-> Ofm(case),
                                 expect |-> Expect(case), failing |-> Failing(case), undecided |-> Undecided(case)])>>)
=============================================================================
