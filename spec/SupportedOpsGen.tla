--------------------------- MODULE SupportedOpsGen ---------------------------
(* Spec -> code: every element of Cases is an initial state; the design-level invariants are checked on
   all of them and each case is printed as JSON for the driver, together with what the report says about it. *)
EXTENDS SupportedOps, Json

VARIABLE case
Init == case \in Cases
Next == UNCHANGED case
Spec == Init /\ [][Next]_case

\* design-level checks over the whole case set
NominalOnNpu == (case.axis = "nominal" /\ case.op \in InTable /\ case.op \notin Unmodelled) => Expect(case) = "NPU"
PairsAreCpu == case.axis2 # "" => Expect(case) = "CPU"
\* the option the report names lifts exactly the bullet that names it, for every case of every operator
ForceOnlyLiftsWsym == LET on == [case EXCEPT !.force = TRUE]  offc == [case EXCEPT !.force = FALSE]
                      IN /\ Failing(on) = Failing(offc) \ {"wsym"}
                         /\ Undecided(on) = Undecided(offc)
                         /\ (case.op \in InTable /\ "wsym" \notin Listed[case.op]) => Expect(on) = Expect(offc)
\* options the report does not mention never change what it promises
NeutralOptionsAreNeutral == \A o \in NeutralOpts \cup {""} : LET x == [case EXCEPT !.nopt = o] IN
                               Expect(x) = Expect(case) /\ Failing(x) = Failing(case)
\* an operator that may be eliminated as a no-op is never one that has to stay on the CPU for its shape alone
NoOpIsIdentity == NoOp(case) => Ifm(case) = Ofm(case)
WellFormed == /\ case.op \in K4 => (OH(case) >= 1 /\ OW(case) >= 1 /\ case.sh >= 1 /\ case.sw >= 1)
              /\ Expect(case) \in {"NPU", "CPU", "ANY"}
Emit == PrintT(<<"CASE", ToJson([c |-> case, oh |-> IF case.op \in K4 THEN OH(case) ELSE 0,
                                 ow |-> IF case.op \in K4 THEN OW(case) ELSE 0,
                                 ofm |-> Ofm(case),
                                 expect |-> Expect(case), failing |-> Failing(case), undecided |-> Undecided(case)])>>)
=============================================================================
