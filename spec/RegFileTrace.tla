--------------------------- MODULE RegFileTrace ---------------------------
(* Trace validation for C06: the hardware register file (A-HW5) driven by a decoded command stream.
   State: regs maps a register name to the last value written (4 limbs of 16 bits, most significant
   first; value = (param << 32) | payload for two-word commands, = param for one-word commands) or is
   undefined for registers never written.
   Events (ndjson):
     {"t","e":"Hdr","u65":bool,"cores":n}
     {"t","e":"Set","reg":name,"v":[l3,l2,l1,l0]}
     {"t","e":"Wait","q":"kernel"|"dma","n":k}
     {"t","e":"Op","i":k,"kind":..,"exp":[[reg,[limbs]]..],"base":[[reg,[limbs]]..],"align":[[reg,modulus]..]}
         exp   = intended (untruncated) register values computed from the operation by the independent
                 table-driven encoder; base = registers of the single-operation stream of this operation
     {"t","e":"Stop","param":p} / {"t","e":"Other","name":..} / {"t","e":"End"}
   Checks: OpMatchesExpected, OpMatchesBaseline (includes "no truncation": an intended value that does
   not fit its field differs from every register value), Aligned, WaitsPrecedeOp (only waits between a
   wait and its operation), NoCommandAfterStop, EndsWithOneStop, U65StartsWithParallelMode, KnownCommands. *)
EXTENDS Integers, Sequences, FiniteSets, Json, IOUtils, TLC

Trace == ndJsonDeserialize(IOEnv.TRACE_FILE)
VARIABLES l, regs, stops, afterWait, first, hdr, viol
vars == <<l, regs, stops, afterWait, first, hdr, viol>>
Ev == Trace[l]
Unset == <<-1>>
Val(r) == IF r \in DOMAIN regs THEN regs[r] ELSE Unset

Mismatch(pairs) == { k \in 1..Len(pairs) : Val(pairs[k][1]) # pairs[k][2] }
Misaligned(al) == { k \in 1..Len(al) : LET v == Val(al[k][1]) IN v # Unset /\ v[4] % al[k][2] # 0 }

Init == l = 1 /\ regs = <<>> /\ stops = 0 /\ afterWait = FALSE /\ first = TRUE /\ hdr = [t |-> -1] /\ viol = {}

Hdr == /\ Ev.e = "Hdr"
       /\ regs' = <<>> /\ stops' = 0 /\ afterWait' = FALSE /\ first' = TRUE /\ hdr' = Ev
       /\ UNCHANGED viol
AfterStop(e) == IF stops > 0 THEN {<<e.t, "NoCommandAfterStop", l>>} ELSE {}
FirstCmd(e) ==
   IF first /\ hdr.u65 /\ ~(e.e = "Set" /\ e.reg = "NPU_SET_PARALLEL_MODE" /\ e.v = <<0, 0, 0, hdr.cores - 1>>)
   THEN {<<e.t, "U65StartsWithParallelMode", l>>} ELSE {}
Set == /\ Ev.e = "Set"
       /\ regs' = (Ev.reg :> Ev.v) @@ regs
       /\ viol' = viol \cup AfterStop(Ev) \cup FirstCmd(Ev)
               \cup (IF afterWait THEN {<<Ev.t, "WaitsPrecedeOp", l>>} ELSE {})
       /\ first' = FALSE /\ UNCHANGED <<stops, afterWait, hdr>>
Wait == /\ Ev.e = "Wait"
        /\ afterWait' = TRUE /\ first' = FALSE
        /\ viol' = viol \cup AfterStop(Ev) \cup FirstCmd(Ev)
        /\ UNCHANGED <<regs, stops, hdr>>
Op == /\ Ev.e = "Op"
      /\ viol' = viol \cup AfterStop(Ev) \cup FirstCmd(Ev)
              \cup { <<Ev.t, "OpMatchesExpected", Ev.i, Ev.exp[k][1]>> : k \in Mismatch(Ev.exp) }
              \cup { <<Ev.t, "OpMatchesBaseline", Ev.i, Ev.base[k][1]>> : k \in Mismatch(Ev.base) }
              \cup { <<Ev.t, "Aligned", Ev.i, Ev.align[k][1]>> : k \in Misaligned(Ev.align) }
      /\ afterWait' = FALSE /\ first' = FALSE /\ UNCHANGED <<regs, stops, hdr>>
Stop == /\ Ev.e = "Stop"
        /\ stops' = stops + 1 /\ first' = FALSE
        /\ viol' = viol \cup AfterStop(Ev) \cup FirstCmd(Ev)
                \cup (IF afterWait THEN {<<Ev.t, "WaitsPrecedeOp", l>>} ELSE {})
        /\ UNCHANGED <<regs, afterWait, hdr>>
Other == /\ Ev.e = "Other"
         /\ viol' = viol \cup {<<Ev.t, "KnownCommands", l>>}
         /\ first' = FALSE /\ UNCHANGED <<regs, stops, afterWait, hdr>>
End == /\ Ev.e = "End"
       /\ viol' = viol \cup (IF stops # 1 THEN {<<Ev.t, "EndsWithOneStop", stops>>} ELSE {})
       /\ UNCHANGED <<regs, stops, afterWait, first, hdr>>
Next == l <= Len(Trace) /\ (Hdr \/ Set \/ Wait \/ Op \/ Stop \/ Other \/ End) /\ l' = l + 1
Spec == Init /\ [][Next]_vars
Consumed == TLCGet("stats").diameter = Len(Trace) + 1
Report == l = Len(Trace) + 1 => PrintT(<<"VERDICT", ToJson(viol)>>)
=============================================================================
