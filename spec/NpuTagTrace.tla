---------------------------- MODULE NpuTagTrace ----------------------------
(* Trace validation for C03: execution of a command stream in *program order* over a memory in which every
   cell carries the identity of its last writer.
     tag = <<sid, delta>>   sid   = storage identity of the logical tensor the bytes belong to
                            delta = logical byte offset (in the unwrapped tensor) - physical address
     Uninit = <<0, 0>>, Clobbered = <<-1, 0>> (SHRAM overwritten by a kernel operation)
   The cells of every access come from the decoded registers (hardware footprint, A-HW4); the expected tag
   comes from the logical command (tensor + box of the high-level stripe).  A read is intended iff every
   cell it touches carries exactly the expected tag: stale rolling-buffer rows (right sid, delta of another
   lap), uninitialised bytes, bytes of a foreign tensor and overwritten weights/LUT slots all differ.
   Events (ndjson):
     {"t","e":"Hdr","ncells":n,"init":[{"cells":[..],"sid":s,"delta":d}..]}
     {"t","e":"Kernel","i":k,"rd":[{"w":what,"cells":[..],"sid":s,"delta":d,"sidonly":bool}..],"wr":[{"cells","sid","delta"}..]}
     {"t","e":"Dma","i":k,"mode":"copy"|"retag","src":[cells],"dst":[cells],"shift":src-dst,
                    "insid","indelta","outsid","outdelta"}
     {"t","e":"Alias","i":k,"src":[cells],"dst":[cells],"insid","indelta","outsid","outdelta"}
                    a feature-map copy the compiler ELIDED (no operation in the stream): it claims that the bytes of the
                    source tensor ARE the destination tensor.  src / dst = the cells of the two tensors in the memories
                    (regions) they are allocated in.  Sound only if both name the same bytes of the same memory; equal
                    offsets in two different memories are different bytes: nothing moves, the destination stays as it was
     {"t","e":"Out","i":k,"outs":[{"w":name,"cells":[..]}..]}   results of the custom operator (plan of the output file):
                    every byte must be defined when the stream ends (written by it, or an input it aliases)
     {"t","e":"Stop"}                                                                                     *)
EXTENDS Integers, Sequences, FiniteSets, Json, IOUtils, TLC

Trace == ndJsonDeserialize(IOEnv.TRACE_FILE)
Uninit == <<0, 0>>
VARIABLES l, mem, viol
Ev == Trace[l]
S(seq) == {seq[i] : i \in 1..Len(seq)}

(* sidonly: the access reads the tensor through edge-replicating tiles (tile padding of half-pixel resize): the
   bytes must belong to the intended tensor, which element of it is decided by the tile registers *)
SegOK(seg) == \A i \in 1..Len(seg.cells) :
                 IF seg.sidonly THEN mem[seg.cells[i]][1] = seg.sid ELSE mem[seg.cells[i]] = <<seg.sid, seg.delta>>
SegDefined(seg) == \A i \in 1..Len(seg.cells) : mem[seg.cells[i]] # Uninit
Tagging(segs) ==
   LET cs == UNION {S(segs[i].cells) : i \in 1..Len(segs)} IN
   [c \in cs |-> LET i == CHOOSE i \in 1..Len(segs) : c \in S(segs[i].cells)
                 IN <<segs[i].sid, segs[i].delta>>]

Init == l = 1 /\ mem = <<>> /\ viol = {}
Hdr == /\ Ev.e = "Hdr"
       /\ mem' = Tagging(Ev.init) @@ [c \in 0..Ev.ncells - 1 |-> Uninit]
       /\ UNCHANGED viol
Kernel == /\ Ev.e = "Kernel"
          /\ viol' = viol
               \cup { <<Ev.t, "NoUninitRead", Ev.i, Ev.rd[k].w>> : k \in {k \in 1..Len(Ev.rd) : ~SegDefined(Ev.rd[k])} }
               \cup { <<Ev.t, "ReadsIntended", Ev.i, Ev.rd[k].w>> : k \in {k \in 1..Len(Ev.rd) : ~SegOK(Ev.rd[k])} }
               \* wdup = bytes that two different OFM elements of this operation share (strides smaller than a row / brick)
               \cup (IF Ev.wdup > 0 THEN {<<Ev.t, "WritesDistinctBytes", Ev.i, "ofm">>} ELSE {})
               \* ninj = feature maps whose programmed strides let two elements of the accessed box share a byte (a row pitch
               \* smaller than a row): such a map reads / writes another element's bytes although every tag agrees, because
               \* the logical offsets of the tags are derived from the same strides
               \cup { <<Ev.t, "LayoutInjective", Ev.i, Ev.ninj[k]>> : k \in 1..Len(Ev.ninj) }
          /\ mem' = Tagging(Ev.wr) @@ mem
Dma == /\ Ev.e = "Dma"
       \* chk = the source cells that hold the tensor (a feature-map copy also moves up to 15 bytes of allocation padding)
       /\ LET undefined == \E i \in 1..Len(Ev.chk) : mem[Ev.chk[i]] = Uninit
              foreign == \E i \in 1..Len(Ev.chk) : mem[Ev.chk[i]] # Uninit /\ mem[Ev.chk[i]][1] # Ev.insid
              wrongoff == Ev.mode = "retag" /\ \E i \in 1..Len(Ev.chk) : mem[Ev.chk[i]] # <<Ev.insid, Ev.indelta>>
          IN viol' = viol \cup (IF undefined THEN {<<Ev.t, "DmaCopiesDefined", Ev.i, "src">>} ELSE {})
                          \cup (IF foreign \/ wrongoff THEN {<<Ev.t, "DmaCopiesIntended", Ev.i, "src">>} ELSE {})
       /\ mem' = IF Ev.mode = "retag"
                 THEN [c \in S(Ev.dst) |-> <<Ev.outsid, Ev.outdelta>>] @@ mem
                 ELSE [c \in S(Ev.dst) |->
                         LET s == mem[Ev.src[CHOOSE i \in 1..Len(Ev.dst) : Ev.dst[i] = c]]
                         IN IF s = Uninit THEN Uninit ELSE <<s[1], s[2] + Ev.shift>>] @@ mem
(* an elided copy: no operation is executed, so no byte moves.  If source and destination are the same cells the bytes
   change their identity (they must hold the source tensor) - otherwise the elision is unsound (ElidedCopySameBytes) and the
   destination keeps whatever it held, so that the consumer's read is judged against what is really there *)
SameBytes(e) == e.src = e.dst
Alias == /\ Ev.e = "Alias"
         /\ LET undefined == \E i \in 1..Len(Ev.src) : mem[Ev.src[i]] = Uninit
                wrong == \E i \in 1..Len(Ev.src) : mem[Ev.src[i]] # Uninit /\ mem[Ev.src[i]] # <<Ev.insid, Ev.indelta>>
            IN viol' = viol \cup (IF ~SameBytes(Ev) THEN {<<Ev.t, "ElidedCopySameBytes", Ev.i, "alias">>} ELSE {})
                            \cup (IF undefined THEN {<<Ev.t, "DmaCopiesDefined", Ev.i, "src">>} ELSE {})
                            \cup (IF wrong THEN {<<Ev.t, "DmaCopiesIntended", Ev.i, "src">>} ELSE {})
         /\ mem' = IF SameBytes(Ev) THEN [c \in S(Ev.dst) |-> <<Ev.outsid, Ev.outdelta>>] @@ mem ELSE mem
(* the outputs of the custom operator are what CPU operators and later NPU subgraphs consume as "defined on entry": the
   stream must have defined every byte of them at the address the output file publishes *)
Out == /\ Ev.e = "Out"
       /\ viol' = viol \cup { <<Ev.t, "OutputsDefined", Ev.i, Ev.outs[k].w>> :
                                  k \in {k \in 1..Len(Ev.outs) : \E i \in 1..Len(Ev.outs[k].cells) : mem[Ev.outs[k].cells[i]] = Uninit} }
       /\ UNCHANGED mem
Stop == Ev.e = "Stop" /\ UNCHANGED <<mem, viol>>
Next == l <= Len(Trace) /\ (Hdr \/ Kernel \/ Dma \/ Alias \/ Out \/ Stop) /\ l' = l + 1
Spec == Init /\ [][Next]_<<l, mem, viol>>
Consumed == TLCGet("stats").diameter = Len(Trace) + 1
Report == l = Len(Trace) + 1 => PrintT(<<"VERDICT", ToJson(viol)>>)
=============================================================================
