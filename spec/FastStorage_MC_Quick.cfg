SPECIFICATION Spec
CONSTANTS Quick = TRUE
 ResetScoreC = TRUE
INVARIANT WithinLimit
INVARIANT OptimalSingle
CHECK_DEADLOCK FALSE
