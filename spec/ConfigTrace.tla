---------------------------- MODULE ConfigTrace ----------------------------
(* Trace validation for C18: a batch of observation records, one per construction of
   ArchitectureFeatures (layer "api") or per run of the command line (layer "cli").

   record: t, layer, fam ("u55" | "u65"), sys, mem (selected names), cli ("" or the --arena-cache-size
   token), imx93 (the command line was run without --config and without selections: this fork then
   uses its i.MX93 system), files: one entry per --config argument with
       form  "dirfile" (Dir/file.ini) | "abs" | "rel",   cwd  (class of the working directory),
       has_bundled/bundled : content of config_files/<argument> if that file exists,
       has_given/given     : content of the file the argument names when taken as given (relative
                             to the working directory),
   obs: status ("ok" | "error" | "crash"), vals (option -> canonical string), origin.

   R6 (PathRule): Dir/file.ini denotes the bundled file; anything else the file as given.  A
   configuration file that cannot be found is an error.  When the observation disagrees with the
   documented reading but agrees with the reading "as given, missing files skipped", the failure is
   attributed to PathRule (arena size and origin are judged separately, relative to the file read). *)
EXTENDS Integers, Sequences, FiniteSets, Json, IOUtils, TLC

Trace == ndJsonDeserialize(IOEnv.TRACE_FILE)

VARIABLES l, viol
C == INSTANCE Config WITH Secs <- {}, Keys <- {}, Vals <- {}, Unknown <- "", Overlay <- "child",
                          file <- <<>>, sel <- "", stack <- <<>>, acc <- <<>>, phase <- "", steps <- 0

Ev == Trace[l]
RECURSIVE Cat(_, _)
Cat(parts, i) == IF i > Len(parts) THEN <<>> ELSE parts[i] \o Cat(parts, i + 1)

Eff(a) == IF a.form = "dirfile" THEN [has |-> a.has_bundled, c |-> a.bundled] ELSE [has |-> a.has_given, c |-> a.given]
Alt(a) == [has |-> a.has_given, c |-> a.given]
Request(e, F) == [F |-> F, hascfg |-> Len(e.files) > 0, fam |-> e.fam, sys |-> e.sys, mem |-> e.mem, cli |-> e.cli,
                  imx93 |-> e.imx93]
Documented(e) ==
  IF \E i \in 1..Len(e.files) : ~Eff(e.files[i]).has
  THEN (IF e.obs.status = "error" THEN {} ELSE IF e.obs.status = "crash" THEN {<<"NoInternalError", "", "">>}
        ELSE {<<"Rejects", "ConfigNotFound", "">>})
  ELSE C!Failures(Request(e, C!ToFile(Cat([i \in 1..Len(e.files) |-> Eff(e.files[i]).c], 1))), e.obs)
AsGiven(e) ==
  C!Failures(Request(e, C!ToFile(Cat([i \in 1..Len(e.files) |-> IF Alt(e.files[i]).has THEN Alt(e.files[i]).c ELSE <<>>], 1))),
             e.obs)
DirFile(e) == {i \in 1..Len(e.files) : e.files[i].form = "dirfile"}
Core(S) == {f \in S : f[1] \notin {"ArenaOverride", "ArenaOrigin"}}
(* the wrong file was read: everything except the arena size/origin is explained by the as-given reading;
   what still fails relative to the file that was read is reported as well *)
Failures(e) ==
  LET doc == Documented(e) IN
  IF doc = {} THEN {}
  ELSE IF DirFile(e) # {} /\ e.obs.status # "crash" /\ Core(doc) # {} /\ Core(AsGiven(e)) = {}
       THEN LET i == CHOOSE j \in DirFile(e) : TRUE IN {<<"PathRule", e.files[i].form, e.files[i].cwd>>} \cup AsGiven(e)
       ELSE doc

Init == l = 1 /\ viol = {}
Next == /\ l <= Len(Trace)
        /\ viol' = viol \cup { <<Ev.t, f[1], f[2], f[3]>> : f \in Failures(Ev) }
        /\ l' = l + 1
Spec == Init /\ [][Next]_<<l, viol>>

Consumed == TLCGet("stats").diameter = Len(Trace) + 1
Report == l = Len(Trace) + 1 => PrintT(<<"VERDICT", ToJson(viol)>>)
=============================================================================
