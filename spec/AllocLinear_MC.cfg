SPECIFICATION Spec
CONSTANT MaxN = 3
CONSTANT T = 3
CONSTANT Sizes = {16, 48}
CONSTANT Aligns = {16, 64}
CONSTANT Eqs = {0, 1, 2}
CONSTANT MaxAddr = 100000
CONSTANT AddrStep = 1
PROPERTY Refines
INVARIANT InvNoOverlapLive
INVARIANT InvAligned
INVARIANT InvTotalOK
INVARIANT InvAboveLowerBound
INVARIANT InvFold
INVARIANT InvShares
CHECK_DEADLOCK FALSE
