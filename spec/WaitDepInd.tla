---------------------------- MODULE WaitDepInd ----------------------------
(* Unbounded safety of Vela's wait insertion (C04, design level).

   WaitDep.tla is model-checked by TLC for streams of at most N operations.  This module carries the same
   algorithm and hardware model (one action per step of get_wait_dependency / of the queue model A-HW1/2) in
   a form Apalache can type, WITHOUT the stream-length counter, and states an inductive invariant IndInv:

        IndInit => IndInv                      (apalache-mc check --init=IndInit --inv=IndInv --length=0)
        IndInv /\ Next => IndInv'              (apalache-mc check --init=IndInit --inv=IndInv --length=1)
        IndInv => NoHazard                     (NoHazard is a conjunct)

   so the emitted waits keep every stream of ANY length hazard free between the two queues, for the two DMA
   queue depths (MaxDma = 1: Ethos-U55, 2: Ethos-U65), operations reading / writing arbitrary SUBSETS of Cells.
   The TLC run WaitDepInd_Refines.cfg checks that every step of this module is a step of WaitDep (PROPERTY
   WD!Spec, same variables, bounded by N through the counter that only exists to make that run finite), so the
   two transcriptions cannot drift apart unnoticed.

   Shape of the invariant.  gn / gd are the generator's lists of possibly outstanding kernel / DMA
   operations, kq / dq the hardware queues.  Between "gen" and "issue" the current operation cur has been
   appended to its generator list but not yet to its hardware queue; G(k) is the list without that pending
   entry.  Queues complete in order, so the hardware queue always agrees with the generator list on their
   common suffix (SuffixAgree); it is a true suffix (no longer than the list) whenever no overflow pop or
   watermark cut is pending (the Len conjuncts).  The list of the OTHER queue is cut behind the last conflict
   with cur, so nothing left in it conflicts with cur (CurClean) - together with the suffix facts this gives
   NoHazard at the moment cur is issued.                                                                    *)
EXTENDS Integers, Sequences, FiniteSets

CONSTANTS
    \* @type: Set(Int);
    Cells,
    \* @type: Int;
    MaxDma,
    \* @type: Int;
    MaxKern,
    \* @type: Int;
    KernelWatermarkSlack,   \* 0 = Vela's algorithm; 1 = deliberately broken (negative control)
    \* @type: Bool;
    SingletonOps,  \* TRUE: operations read / write at most one cell (the op alphabet of WaitDep.tla, for the refinement run)
    \* @type: Int;
    N              \* 0 = unbounded (Apalache); > 0 bounds the stream for the TLC refinement run

VARIABLES
    \* @type: Seq({kind: Str, rd: Set(Int), wr: Set(Int)});
    gd,
    \* @type: Seq({kind: Str, rd: Set(Int), wr: Set(Int)});
    gn,
    \* @type: Seq({kind: Str, rd: Set(Int), wr: Set(Int)});
    kq,
    \* @type: Seq({kind: Str, rd: Set(Int), wr: Set(Int)});
    dq,
    \* @type: Str;
    phase,
    \* @type: {kind: Str, rd: Set(Int), wr: Set(Int)};
    cur,
    \* @type: Int;
    kw,
    \* @type: Int;
    dw,
    \* @type: Int;
    cnt
vars == <<gd, gn, kq, dq, phase, cur, kw, dw, cnt>>

OpSets == IF SingletonOps THEN {{}} \cup {{c} : c \in Cells} ELSE SUBSET Cells
Ops == [kind : {"k", "d"}, rd : OpSets, wr : OpSets]

\* @type: ({kind: Str, rd: Set(Int), wr: Set(Int)}, {kind: Str, rd: Set(Int), wr: Set(Int)}) => Bool;
Conflict(a, b) == \/ a.wr \cap b.rd # {}
                  \/ a.rd \cap b.wr # {}
                  \/ a.wr \cap b.wr # {}

\* idx is the position of the last operation of s that conflicts with o (0: none)
\* @type: (Seq({kind: Str, rd: Set(Int), wr: Set(Int)}), {kind: Str, rd: Set(Int), wr: Set(Int)}, Int) => Bool;
IsLastConf(s, o, idx) == /\ idx \in 0..Len(s)
                         /\ idx > 0 => Conflict(s[idx], o)
                         /\ \A j \in DOMAIN s : j > idx => ~Conflict(s[j], o)

\* @type: (Seq({kind: Str, rd: Set(Int), wr: Set(Int)}), Int) => Seq({kind: Str, rd: Set(Int), wr: Set(Int)});
Trunc(s, m) == IF Len(s) > m THEN Tail(s) ELSE s

Init == /\ gd = <<>> /\ gn = <<>> /\ kq = <<>> /\ dq = <<>> /\ phase = "gen"
        /\ cur = [kind |-> "k", rd |-> {}, wr |-> {}] /\ kw = -1 /\ dw = -1 /\ cnt = 0

GenOp == /\ phase = "gen" /\ (N = 0 \/ cnt < N)
       /\ \E o \in Ops :
            /\ cur' = o
            /\ cnt' = IF N = 0 THEN 0 ELSE cnt + 1
            /\ IF o.kind = "d"
               THEN \E idx \in 0..MaxKern :
                    /\ IsLastConf(gn, o, idx)
                    /\ gd' = Trunc(Append(gd, o), MaxDma)
                    /\ gn' = IF idx = 0 THEN gn ELSE SubSeq(gn, idx + 1, Len(gn))
                    /\ kw' = IF idx = 0 THEN -1 ELSE Len(gn) - idx + KernelWatermarkSlack
                    /\ dw' = -1
               ELSE \E idx \in 0..MaxDma :
                    /\ IsLastConf(gd, o, idx)
                    /\ gn' = Trunc(Append(gn, o), MaxKern)
                    /\ gd' = IF idx = 0 THEN gd ELSE SubSeq(gd, idx + 1, Len(gd))
                    /\ dw' = IF idx = 0 THEN -1 ELSE Len(gd) - idx
                    /\ kw' = -1
       /\ phase' = "kwait" /\ UNCHANGED <<kq, dq>>

KWait == /\ phase = "kwait" /\ (kw < 0 \/ Len(kq) <= kw) /\ phase' = "dwait"
         /\ UNCHANGED <<gd, gn, kq, dq, cur, kw, dw, cnt>>
DWait == /\ phase = "dwait" /\ (dw < 0 \/ Len(dq) <= dw) /\ phase' = "issue"
         /\ UNCHANGED <<gd, gn, kq, dq, cur, kw, dw, cnt>>
Issue == /\ phase = "issue"
         /\ IF cur.kind = "k" THEN Len(kq) < MaxKern /\ kq' = Append(kq, cur) /\ dq' = dq
                              ELSE Len(dq) < MaxDma /\ dq' = Append(dq, cur) /\ kq' = kq
         /\ phase' = "gen" /\ UNCHANGED <<gd, gn, cur, kw, dw, cnt>>
DoneK == kq # <<>> /\ kq' = Tail(kq) /\ UNCHANGED <<gd, gn, dq, phase, cur, kw, dw, cnt>>
DoneD == dq # <<>> /\ dq' = Tail(dq) /\ UNCHANGED <<gd, gn, kq, phase, cur, kw, dw, cnt>>

Next == GenOp \/ KWait \/ DWait \/ Issue \/ DoneK \/ DoneD
Spec == Init /\ [][Next]_vars

NoHazard == \A i \in DOMAIN kq, j \in DOMAIN dq : ~Conflict(kq[i], dq[j])

---------------------------------------------------------------------------
(* the inductive invariant *)
Pending == phase # "gen"
PendK == Pending /\ cur.kind = "k"
PendD == Pending /\ cur.kind = "d"
\* generator lists without the pending (appended, not yet issued) operation
LenGnS == IF PendK THEN Len(gn) - 1 ELSE Len(gn)
LenGdS == IF PendD THEN Len(gd) - 1 ELSE Len(gd)

\* q and the first n entries of g agree on their common suffix
\* @type: (Seq({kind: Str, rd: Set(Int), wr: Set(Int)}), Seq({kind: Str, rd: Set(Int), wr: Set(Int)}), Int) => Bool;
SuffixAgree(q, g, n) == \A i \in 1..MaxKern + MaxDma :
                           (i <= Len(q) /\ i <= n) => q[Len(q) - i + 1] = g[n - i + 1]

TypeOK == /\ Len(gd) <= MaxDma /\ Len(gn) <= MaxKern /\ Len(kq) <= MaxKern /\ Len(dq) <= MaxDma
          /\ \A i \in DOMAIN gd : gd[i] \in Ops /\ gd[i].kind = "d"
          /\ \A i \in DOMAIN gn : gn[i] \in Ops /\ gn[i].kind = "k"
          /\ \A i \in DOMAIN kq : kq[i] \in Ops /\ kq[i].kind = "k"
          /\ \A i \in DOMAIN dq : dq[i] \in Ops /\ dq[i].kind = "d"
          /\ phase \in {"gen", "kwait", "dwait", "issue"}
          /\ cur \in Ops
          /\ kw \in -1..MaxKern /\ dw \in -1..MaxDma
          /\ cnt >= 0

IndInv ==
    /\ TypeOK
    /\ NoHazard
    \* the pending operation is the last entry of its own generator list
    /\ PendK => Len(gn) >= 1 /\ gn[Len(gn)] = cur
    /\ PendD => Len(gd) >= 1 /\ gd[Len(gd)] = cur
    /\ SuffixAgree(kq, gn, LenGnS)
    /\ SuffixAgree(dq, gd, LenGdS)
    \* nothing the generator still lists for the other queue conflicts with the pending operation
    /\ PendK => \A i \in DOMAIN gd : ~Conflict(gd[i], cur)
    /\ PendD => \A i \in DOMAIN gn : ~Conflict(gn[i], cur)
    \* watermarks: a wait is emitted exactly when the list was cut, and it cuts to what is left of the list
    /\ PendK => kw = -1 /\ (dw = -1 \/ dw = Len(gd))
    /\ PendD => dw = -1 /\ (kw = -1 \/ kw = Len(gn))
    \* the other queue is a true suffix of its (cut) list once its wait has been passed / when none was needed
    /\ (PendK /\ (dw = -1 \/ phase = "issue")) => Len(dq) <= Len(gd)
    /\ (PendD /\ (kw = -1 \/ phase \in {"dwait", "issue"})) => Len(kq) <= Len(gn)
    \* own queue: a true suffix of the list without the pending entry, except for one entry an overflow pop
    \* may have dropped from a full list (it is gone before Issue is enabled)
    /\ phase = "gen" => Len(kq) <= Len(gn) /\ Len(dq) <= Len(gd)
    /\ PendK => Len(kq) <= LenGnS + 1
    /\ PendD => Len(dq) <= LenGdS + 1
    /\ (PendK /\ Len(kq) = LenGnS + 1) => Len(kq) = MaxKern
    /\ (PendD /\ Len(dq) = LenGdS + 1) => Len(dq) = MaxDma

IndInvBounded == IndInv
===========================================================================
