SPECIFICATION Spec
CONSTANTS Quick = TRUE
 ResetScoreC = FALSE
INVARIANT WithinLimit
INVARIANT OptimalSingle
CHECK_DEADLOCK FALSE
