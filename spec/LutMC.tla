------------------------------- MODULE LutMC -------------------------------
(* model-checking instance of Lut.tla: six 256-byte tables, one 1 KiB table, one 2 KiB table *)
EXTENDS Lut
MCTables == {"a", "b", "c", "d", "e", "f", "s", "w"}
MCSize == [a |-> 1, b |-> 1, c |-> 1, d |-> 1, e |-> 1, f |-> 1, s |-> 4, w |-> 8]
=============================================================================
