SPECIFICATION Spec
CONSTANTS MaxH = 8
 EmitCases = FALSE
 YPad = "right"
INVARIANT BlockDepSafe
CHECK_DEADLOCK FALSE
