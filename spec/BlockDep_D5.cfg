SPECIFICATION Spec
CONSTANTS MaxH = 8
 YPad = "right"
INVARIANT BlockDepSafe
CHECK_DEADLOCK FALSE
