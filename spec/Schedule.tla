------------------------------ MODULE Schedule ------------------------------
(* Growth of the specification beyond the listed properties: the scheduler's search for a schedule of one NPU
   subgraph (scheduler.py schedule_passes: create_initial_schedule -> propose_minimal_schedule ->
   build_cascades_for_min_schedule -> optimize_schedule / optimize_sub_schedule / propose_schedule_striping /
   estimate_schedule_memory_usage; cascade_builder.py build_cascades), height axis only, on a linear chain.

   Instance (constant along a behaviour, chosen in Init):
     ops[i] = [k, s, r, w, c]   kernel height, vertical stride, bytes per OFM row, encoded weight bytes that would be
                                DMA'd into fast storage, cascadable block type;   h0 = rows of the subgraph input
     limit  = SchedulerOptions.optimization_sram_limit,  spill = Dedicated SRAM (arch.is_spilling_enabled()),
     size   = OptimizationStrategy.Size,  nl = bytes of a tensor that is live during the whole subgraph (Shared SRAM)
   Derived: OFM rows (SAME padding) Hout(i) = ceil(Hin(i) / s), full feature maps Hin*Rin / Hout*Rout, the IFM rows of a
   stripe (kernel halo included), rolling buffers as cascade_builder.rolling_buffer_shape.
   The Max schedule has every stripe = full OFM and all weights buffered; the Min schedule gives operator i the
   stride of its consumer as stripe (1 for the last).

   Phases (pc):  "build"  build_cascades over the Min schedule, one operator / one extension of the proposed cascade
                          per step (GrowStep of ScheduleAlg.tla = one pass of the inner `while True`)
                 "decide" optimize_schedule: return Max when it fits (ChooseMax) else start the cascade loop
                 "opt"    optimize_sub_schedule per Min cascade: weight buffering of the sub-schedule, then one
                          striping proposal per step (stripe of the last operator +1 each time, producers get
                          consumer stripe x consumer stride, cascades rebuilt by the same builder), accepted while the
                          estimate stays within the limit and the number of cascades does not grow; early exits
                 "done"   result applied
   Properties (predicates shared with ScheduleTrace.tla through ScheduleAlg.tla):
     CascadesPartition          cascade ranges disjoint, >= 2 operators, key = end, operators' cascade ids agree with the map
     StripeWithinOfm            1 <= stripe <= OFM rows; strictly smaller inside a cascade
     BuffersForNonFirst         every non-first operator of a cascade has a rolling buffer >= the IFM rows of one stripe
     BuffersHoldProducerStripe  ... and >= producer stripe + those rows
     WithinLimitOrMin           peak(chosen) <= max(sram_limit, peak(Min)): never worse than the fallback
     MaxOnlyIfFits              Max chosen only when its peak < sram_limit and not Dedicated SRAM
     SpillCascadeWithinLimit    Dedicated SRAM: the builder's limit is hard for every cascade
     StepwiseIsBuild            stepping through build_cascades = the recursive Build used for the proposals
   Negative controls:  Cmp = "max"    the acceptance test compares the estimate with the Max schedule's usage
                       DelOld = FALSE optimize_schedule forgets `del schedule.cascades[cascade_info.end]`           *)
EXTENDS ScheduleAlg, TLC

CONSTANTS MaxN, Kinds, Heights, Limits, NLs, Modes,    \* Modes \subseteq {"perf", "size", "perf_spill", "size_spill"}
          Cmp, DelOld
VARIABLES inst, pc, sch, bld, grow, todo, sub, chosen, minPeak
vars == <<inst, pc, sch, bld, grow, todo, sub, chosen, minPeak>>

K(k, s, r, w, c) == [k |-> k, s |-> s, r |-> r, w |-> w, c |-> c]
KindsQuick == {K(3, 1, 1, 0, TRUE), K(3, 2, 1, 2, TRUE), K(1, 1, 2, 2, TRUE), K(1, 1, 1, 0, FALSE)}
KindsFull == KindsQuick \cup {K(2, 2, 1, 0, TRUE)}
Insts == {[n |-> Len(o), ops |-> o, h0 |-> h, limit |-> l, spill |-> (m \in {"perf_spill", "size_spill"}),
           size |-> (m \in {"size", "size_spill"}), nl |-> IF m \in {"perf_spill", "size_spill"} THEN 0 ELSE x] :
            o \in UNION {[1..n -> Kinds] : n \in 2..MaxN}, h \in Heights, l \in Limits, m \in Modes, x \in NLs}

N == inst.n
Op(i) == inst.ops[i]
RECURSIVE HoutR(_)
HoutR(i) == IF i = 0 THEN inst.h0 ELSE CeilDiv(HoutR(i - 1), Op(i).s)
Hout(i) == HoutR(i)
Hin(i) == HoutR(i - 1)
Rout(i) == Op(i).r
Rin(i) == IF i = 1 THEN Op(1).r ELSE Op(i - 1).r
IfmB(i) == Hin(i) * Rin(i)
OfmB(i) == Hout(i) * Rout(i)
NL == inst.nl
Full == [i \in 1..N |-> Hout(i)]
Need(stripe, i) == IF stripe[i] = Hout(i) THEN Hin(i) ELSE NeedRows(stripe[i], Op(i).k, Op(i).s, 1, 0, Hin(i))
Rows(stripe, i) == RollRows(stripe[i - 1], Need(stripe, i))

MinStripe == [i \in 1..N |-> IF i = N THEN 1 ELSE Op(i + 1).s]
MinMemReq == Max2(IfmB(1), OfmB(N))                    \* Scheduler.min_memory_req (n >= 2)
InitLimit == IF inst.size THEN MinMemReq ELSE inst.limit
MaxPeak == SeqMax([i \in 1..N |-> IF inst.spill THEN Op(i).w ELSE IfmB(i) + OfmB(i) + Op(i).w + NL], N)

(* the view of a (sub-)schedule lo..hi with the given stripes / weight buffers / non-local usage *)
View(stripe, wb, nl, lo, hi, limit) ==
   [lo |-> lo, hi |-> hi, limit |-> limit, spill |-> inst.spill,
    casc |-> [i \in 1..N |-> Op(i).c /\ stripe[i] < Hout(i)],
    link |-> [i \in 1..N |-> i > 1],                     \* requires_full_ifm only for op 1, requires_full_ofm only for op N
    unc |-> [i \in 1..N |-> IfmB(i) + OfmB(i) + nl[i]],
    ifm |-> [i \in 1..N |-> IfmB(i)], ofm |-> [i \in 1..N |-> OfmB(i)], wb |-> wb,
    buf |-> [i \in 1..N |-> IF lo < i /\ i <= hi THEN Rows(stripe, i) * Rout(i - 1) ELSE 0],
    rows |-> [i \in 1..N |-> IF lo < i /\ i <= hi THEN Rows(stripe, i) ELSE 0],
    nl |-> nl]
NoW == [i \in 1..N |-> 0]
MinNl == [i \in 1..N |-> NL]            \* snapshot[time] - (ifm + ofm) on a chain; 0 when spilling
MinView == View(MinStripe, NoW, MinNl, 1, N, InitLimit)

(* schedule = [stripe, cid, wb, cascs]; cascs = set of [start, end, mem, buf] (dict keyed by end in the code) *)
CidOf(cascs, i) == IF CascOf(cascs, i) = {} THEN 0 ELSE (CHOOSE c \in CascOf(cascs, i) : TRUE).end
(* fast_storage_peak_usage of update_op_memory_snapshot: live feature maps / rolling buffers (+ buffered weights) *)
SnapAt(s, i) == IF s.cid[i] # 0 /\ \E c \in s.cascs : c.end = s.cid[i]
                THEN (CHOOSE c \in s.cascs : c.end = s.cid[i]).mem + NL
                ELSE IF inst.spill THEN s.wb[i] ELSE IfmB(i) + OfmB(i) + s.wb[i] + NL
Peak(s) == SeqMax([i \in 1..N |-> SnapAt(s, i)], N)
LimitOpt == IF inst.size THEN minPeak ELSE inst.limit        \* scheduler.sram_limit during optimize_schedule

NoGrow == [start |-> 0, prod |-> 0, bufs |-> 0, best |-> 0, bestEnd |-> 0, stop |-> "none"]
NoSub == [on |-> FALSE]
Init == /\ inst \in Insts
        /\ pc = "build"
        /\ sch = [stripe |-> MinStripe, cid |-> [i \in 1..inst.n |-> 0], wb |-> [i \in 1..inst.n |-> 0], cascs |-> {}]
        /\ bld = [idx |-> 1, peak |-> InitLimit, cascs |-> {}]
        /\ grow = NoGrow /\ todo = <<>> /\ sub = NoSub /\ chosen = "none" /\ minPeak = 0

----------------------------------------------------------------------------
(* build_cascades over the Min schedule *)
Building == pc = "build" /\ bld.idx <= N
SetFallback(s, i) == [s EXCEPT !.stripe[i] = Hout(i), !.wb[i] = 0, !.cid[i] = 0]
MinNotCascadable ==
   /\ Building /\ grow.stop = "none" /\ ~MinView.casc[bld.idx]
   /\ bld' = Fallback(MinView, bld) /\ sch' = SetFallback(sch, bld.idx)
   /\ UNCHANGED <<inst, pc, grow, todo, sub, chosen, minPeak>>
MinStartProposal ==
   /\ Building /\ grow.stop = "none" /\ MinView.casc[bld.idx]
   /\ grow' = GrowInit(MinView, bld.idx)
   /\ UNCHANGED <<inst, pc, sch, bld, todo, sub, chosen, minPeak>>
MinExtend ==          \* one pass of the inner loop (extend, or find the reason to stop)
   /\ Building /\ grow.stop = "go"
   /\ grow' = GrowStep(MinView, bld.peak, grow)
   /\ UNCHANGED <<inst, pc, sch, bld, todo, sub, chosen, minPeak>>
Stopped(r) == Building /\ grow.stop = r
CommitEff ==
   /\ LET b2 == Commit(MinView, bld, grow) IN
      /\ bld' = b2
      /\ sch' = IF grow.bestEnd > grow.start
                THEN [sch EXCEPT !.cascs = b2.cascs, !.cid = [i \in 1..N |-> IF grow.start <= i /\ i <= grow.bestEnd THEN grow.bestEnd ELSE @[i]]]
                ELSE SetFallback(sch, grow.start)
   /\ grow' = NoGrow
   /\ UNCHANGED <<inst, pc, todo, sub, chosen, minPeak>>
MinStopEnd == Stopped("end") /\ CommitEff                \* the chain ends
MinStopBlocked == Stopped("blocked") /\ CommitEff        \* next operator cannot be cascaded
MinStopFits == Stopped("fits") /\ CommitEff              \* both the cascade so far and the next operator fit
MinStopNoGain == Stopped("nogain") /\ CommitEff          \* IFM + buffers already exceed the best cascade
MinStopSpill == Stopped("spillstop") /\ CommitEff        \* Dedicated SRAM: operator fits on its own / buffers exceed the limit
MinDone ==
   /\ pc = "build" /\ bld.idx > N
   /\ pc' = "decide" /\ minPeak' = Peak(sch)
   /\ UNCHANGED <<inst, sch, bld, grow, todo, sub, chosen>>

----------------------------------------------------------------------------
(* optimize_schedule *)
SortedCascs(cs) == LET RECURSIVE S(_)
                       S(X) == IF X = {} THEN <<>> ELSE LET c == CHOOSE c \in X : \A d \in X : c.start <= d.start IN <<c>> \o S(X \ {c})
                   IN S(cs)
MaxFits == MaxPeak < LimitOpt /\ ~inst.spill
ChooseMax ==
   /\ pc = "decide" /\ MaxFits
   /\ chosen' = "max" /\ pc' = "done"
   /\ UNCHANGED <<inst, sch, bld, grow, todo, sub, minPeak>>
StartOptimise ==
   /\ pc = "decide" /\ ~MaxFits
   /\ todo' = SortedCascs(sch.cascs) /\ pc' = "opt"
   /\ UNCHANGED <<inst, sch, bld, grow, sub, chosen, minPeak>>

(* optimize_sub_schedule for cascade c of the reference schedule *)
SubNl(c) == [i \in 1..N |-> NL]      \* memory_snapshot[time_for_cascade] - cascade_info.mem_usage = (c.mem + NL) - c.mem
(* propose_schedule_buffering on the sub-schedule: cascaded operators buffer their full weights when they fit the slack;
   the snapshot entry of the cascade grows by every weight considered before (propose_weight_buffering) *)
RECURSIVE SubWb(_, _, _)
SubWb(c, i, used) == IF i > c.end THEN [j \in 1..N |-> 0]
                     ELSE LET slack == LimitOpt - (c.mem + NL + used)
                              rest == SubWb(c, i + 1, used + Op(i).w)
                          IN [rest EXCEPT ![i] = IF Op(i).w > 0 /\ Op(i).w <= slack THEN Op(i).w ELSE 0]
(* propose_schedule_striping: final stripe h for the last operator, producers get consumer stripe x consumer stride *)
RECURSIVE StripeFrom(_, _, _)
StripeFrom(c, i, h) == IF i < c.start THEN [j \in 1..N |-> 0]
                       ELSE [StripeFrom(c, i - 1, h * Op(i).s) EXCEPT ![i] = h]
SubBegin ==
   /\ pc = "opt" /\ todo # <<>> /\ ~sub.on
   /\ LET c == Head(todo) IN
      sub' = [on |-> TRUE, c |-> c, h |-> sch.stripe[c.end] + 1, it |-> 0, maxNbr |-> 0, best |-> [ok |-> FALSE],
              wb |-> SubWb(c, c.start, 0), state |-> "go"]
   /\ UNCHANGED <<inst, pc, sch, bld, grow, todo, chosen, minPeak>>
Proposal == LET c == sub.c
                st == StripeFrom(c, c.end, sub.h)
                V == View(st, sub.wb, SubNl(c), c.start, c.end, LimitOpt)
                cs == Build(V)
            IN [stripe |-> st, cascs |-> cs, nbr |-> Cardinality(cs), est |-> Est(V, cs)]
Bound == IF Cmp = "limit" THEN LimitOpt ELSE MaxPeak
HasProposal == sub.on /\ sub.state = "go" /\ sub.h <= Hout(sub.c.end) \div 2
Accepts(p) == p.est <= Bound /\ p.nbr <= (IF sub.it = 0 THEN p.nbr ELSE sub.maxNbr)
ProposeAccept ==                \* proposal fits and the cascades were not split further: new best, try a taller stripe
   /\ pc = "opt" /\ HasProposal
   /\ LET p == Proposal IN
      /\ Accepts(p) /\ p.nbr > 0
      /\ sub' = [sub EXCEPT !.best = [ok |-> TRUE, p |-> p], !.h = @ + 1, !.it = @ + 1, !.maxNbr = IF sub.it = 0 THEN p.nbr ELSE @]
   /\ UNCHANGED <<inst, pc, sch, bld, grow, todo, chosen, minPeak>>
ProposeAcceptNoCascade ==       \* "No cascading required - early exit"
   /\ pc = "opt" /\ HasProposal
   /\ LET p == Proposal IN
      /\ Accepts(p) /\ p.nbr = 0
      /\ sub' = [sub EXCEPT !.best = [ok |-> TRUE, p |-> p], !.state = "stop"]
   /\ UNCHANGED <<inst, pc, sch, bld, grow, todo, chosen, minPeak>>
ProposeReject ==
   /\ pc = "opt" /\ HasProposal
   /\ ~Accepts(Proposal)
   /\ sub' = [sub EXCEPT !.state = "stop"]
   /\ UNCHANGED <<inst, pc, sch, bld, grow, todo, chosen, minPeak>>
SubFinished == sub.on /\ (sub.state = "stop" \/ sub.h > Hout(sub.c.end) \div 2)
SubKeep ==                      \* best_schedule is None: the Min cascade stays
   /\ pc = "opt" /\ SubFinished /\ ~sub.best.ok
   /\ sub' = NoSub /\ todo' = Tail(todo)
   /\ UNCHANGED <<inst, pc, sch, bld, grow, chosen, minPeak>>
SubApply ==
   /\ pc = "opt" /\ SubFinished /\ sub.best.ok
   /\ LET c == sub.c
          p == sub.best.p
          newEnds == {d.end : d \in p.cascs}
          kept == {d \in sch.cascs : d.end \notin newEnds /\ (DelOld => d # c)}
          inC(i) == c.start <= i /\ i <= c.end
      IN sch' = [stripe |-> [i \in 1..N |-> IF inC(i) THEN (IF CascOf(p.cascs, i) # {} THEN p.stripe[i] ELSE Hout(i)) ELSE sch.stripe[i]],
                 cid |-> [i \in 1..N |-> IF inC(i) THEN CidOf(p.cascs, i) ELSE sch.cid[i]],
                 wb |-> [i \in 1..N |-> IF inC(i) THEN (IF CascOf(p.cascs, i) # {} THEN sub.wb[i] ELSE 0) ELSE sch.wb[i]],
                 cascs |-> kept \cup p.cascs]
   /\ sub' = NoSub /\ todo' = Tail(todo)
   /\ UNCHANGED <<inst, pc, bld, grow, chosen, minPeak>>
Finish ==
   /\ pc = "opt" /\ todo = <<>> /\ ~sub.on
   /\ pc' = "done" /\ chosen' = "opt"
   /\ UNCHANGED <<inst, sch, bld, grow, todo, sub, minPeak>>

Next == \/ MinNotCascadable \/ MinStartProposal \/ MinExtend \/ MinStopEnd \/ MinStopBlocked \/ MinStopFits
        \/ MinStopNoGain \/ MinStopSpill \/ MinDone \/ ChooseMax \/ StartOptimise \/ SubBegin \/ ProposeAccept
        \/ ProposeAcceptNoCascade \/ ProposeReject \/ SubKeep \/ SubApply \/ Finish
Spec == Init /\ [][Next]_vars

----------------------------------------------------------------------------
(* the schedule in the form the shared predicates read; weights inside a cascade are part of its mem *)
AsS(s) == [n |-> N, ofm |-> Full, stripe |-> s.stripe, need |-> [i \in 1..N |-> IF s.cid[i] # 0 THEN Need(s.stripe, i) ELSE 0], cid |-> s.cid,
           casc |-> {[id |-> c.end, start |-> c.start, end |-> c.end, mem |-> c.mem, buf |-> c.buf] : c \in s.cascs}]
FinalPeak == IF chosen = "max" THEN MaxPeak ELSE Peak(sch)

CascadesPartition == PCascadesPartition(AsS(sch))
StripeWithinOfm == pc # "build" => PStripeWithinOfm(AsS(sch))
BuffersForNonFirst == PBuffersForNonFirst(AsS(sch))
BuffersHoldProducerStripe == pc # "build" => PBuffersHoldProducerStripe(AsS(sch))
WithinLimitOrMin == pc = "done" => PWithinLimitOrMin(FinalPeak, LimitOpt, minPeak)
MaxOnlyIfFits == pc = "done" => PMaxOnlyIfFits(chosen = "max", MaxPeak, LimitOpt, inst.spill)
(* the builder agrees with itself: stepping through the Min schedule = the recursive Build used for the proposals *)
StepwiseIsBuild == pc = "decide" => sch.cascs = Build(MinView)
(* Dedicated SRAM: the limit is hard for the builder *)
SpillCascadeWithinLimit == inst.spill => \A c \in sch.cascs : c.mem <= Max2(InitLimit, IF pc \in {"opt", "done"} THEN LimitOpt ELSE 0)
=============================================================================
