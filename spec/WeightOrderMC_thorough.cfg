SPECIFICATION Spec
CONSTANT OfmDepths = {1, 2, 3, 4, 7, 8, 9, 15, 16, 17, 20}
CONSTANT IfmDepths = {1, 2, 7, 8, 9, 15, 16, 17, 31, 32, 33, 40}
CONSTANT KernelHs = {1, 2, 3}
CONSTANT KernelWs = {1, 2, 3}
CONSTANT Decomposing = TRUE
CONSTANT BlockDepths = {4, 8, 12, 16, 24}
INVARIANT OrderIsBijection
CHECK_DEADLOCK FALSE
