SPECIFICATION Spec
CONSTANTS MaxH = 16
 EmitCases = FALSE
 Wide = TRUE
 YPad = "top"
INVARIANT BlockDepSafe
CHECK_DEADLOCK FALSE
