SPECIFICATION Spec
CONSTANT Mutant = "none"
INVARIANT Report
POSTCONDITION Consumed
CHECK_DEADLOCK FALSE
