SPECIFICATION Spec
CONSTANT MaxN = 3
CONSTANT T = 3
CONSTANT Sizes = {16, 48}
CONSTANT Aligns = {16, 64}
CONSTANT Eqs = {0}
CONSTANT MaxAddr = 100000
CONSTANT AddrStep = 1
CONSTANT MaxIters = {0, 3}
CONSTANT MemLimits = {0, 100000}
CONSTANT MinImprove = 2
CONSTANT MaxStuck = 1
CONSTANT Guarded = TRUE
INVARIANT InvNoOverlapLive
INVARIANT InvAligned
INVARIANT InvTotalOK
INVARIANT InvAboveLowerBound
INVARIANT Terminates
INVARIANT IterationBound
INVARIANT BestIsHighEnd
INVARIANT NeverBelowMinimum
CHECK_DEADLOCK FALSE
