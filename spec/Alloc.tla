------------------------------- MODULE Alloc -------------------------------
(* Property C05 at the level of the property statement: what ANY tensor allocator
   owes its caller.  Relational, no algorithm.

   A live range is a record [s, e, size, al, eq]: alive at the time steps s..e
   (both inclusive), `size` bytes, requested alignment `al`, equivalence class
   `eq` (0 = none; ranges with the same non-zero eq were explicitly declared
   equivalent by the caller: same weight-compression configuration or clones of
   one look-up table).  An allocation of the sequence of ranges R is a sequence
   of addresses `addr` (same length) plus the reported footprint `total`.

   The module is used three ways:
     * its operators are the single definition of the property, evaluated by
       AllocTrace.tla on records obtained from the real allocators;
     * Spec is the most general allocator (choose any inputs from the lattice,
       then any outcome satisfying Good); AllocGreedy / AllocLinear /
       AllocHillClimb are checked to refine it (PROPERTY A!Spec);
     * Alloc_MC.cfg model-checks Spec itself in a tiny scope against the
       consequences a caller relies on (the Lemma invariants), which guards against an
       inconsistent or vacuous definition of Good. *)
EXTENDS Integers, Sequences, SequencesExt, FiniteSets, TLC

CONSTANTS MaxN,        \* at most this many live ranges
          T,           \* time steps 0..T-1
          Sizes,       \* lattice of sizes
          Aligns,      \* lattice of alignments
          Eqs,         \* lattice of equivalence classes ({0} = no range is declared equivalent to another)
          MaxAddr,     \* outcome space: addresses and totals are in 0..MaxAddr ...
          AddrStep     \* ... and multiples of AddrStep (1 = every address)

VARIABLES R,           \* the input: sequence of live ranges
          phase,       \* "build" while the input is being chosen / the allocator runs, then "done" | "raised"
          out          \* Null until done, then [addr |-> ..., total |-> ...]
vars == <<R, phase, out>>

Null == [addr |-> <<>>, total |-> -1]

(* ---- arithmetic helpers ---- *)
RoundUp(a, b) == ((a + b - 1) \div b) * b
Max2(a, b) == IF a >= b THEN a ELSE b
Dom(Q) == 1..Len(Q)

(* ---- the vocabulary of the property ------------------------------------------- *)
LiveTogether(a, b) == a.s <= b.e /\ b.s <= a.e              \* alive at a common time step
SameEq(a, b) == a.eq # 0 /\ a.eq = b.eq                     \* explicitly declared equivalent
Disjoint(x, xs, y, ys) == x + xs <= y \/ y + ys <= x        \* byte intervals [x, x+xs) and [y, y+ys)
End(Q, addr, i) == addr[i] + Q[i].size
(* folds (SequencesExt!FoldLeft is evaluated natively by TLC, linear time); all quantities are >= 0 *)
HighEnd(Q, addr) == FoldLeftDomain(LAMBDA acc, i : Max2(acc, End(Q, addr, i)), 0, Q)     \* the highest end address
LiveSumAt(Q, t) == FoldLeft(LAMBDA acc, r : IF r.s <= t /\ t <= r.e THEN acc + r.size ELSE acc, 0, Q)   \* sizes alive at t
(* the sum of live sizes only grows at start times, so the peak is attained at one of them *)
PeakLiveSum(Q) == FoldLeft(LAMBDA acc, r : Max2(acc, LiveSumAt(Q, r.s)), 0, Q)
EqFree(Q) == \A i \in Dom(Q) : Q[i].eq = 0

(* ---- the property, one operator per clause --------------------------------------- *)
(* any two ranges alive at a common time step occupy disjoint byte intervals; ranges declared
   equivalent may (only) coincide *)
NoOverlapLive(Q, addr) ==
    \A i \in Dom(Q) : \A j \in (i + 1)..Len(Q) :
        LiveTogether(Q[i], Q[j]) =>
            \/ Disjoint(addr[i], Q[i].size, addr[j], Q[j].size)
            \/ SameEq(Q[i], Q[j]) /\ addr[i] = addr[j]
(* every address honours the requested alignment *)
Aligned(Q, addr) == \A i \in Dom(Q) : addr[i] >= 0 /\ addr[i] % Q[i].al = 0
(* the reported total "equals the highest end address": never under-reports; may round the end of a
   buffer up to that buffer's own alignment (Greedy and LinearAlloc do, by construction), hence is
   exact whenever every size is a multiple of its alignment *)
TotalUpper(Q, addr) == FoldLeftDomain(LAMBDA acc, i : Max2(acc, RoundUp(End(Q, addr, i), Q[i].al)), 0, Q)
TotalOK(Q, addr, total) ==
    /\ HighEnd(Q, addr) <= total
    /\ total <= TotalUpper(Q, addr)
    /\ (\A i \in Dom(Q) : Q[i].size % Q[i].al = 0) => total = HighEnd(Q, addr)
(* the footprint is never below the peak sum of simultaneously live sizes (stated for inputs without
   equivalence classes: equivalent ranges legitimately share their bytes) *)
AboveLowerBound(Q, total) == EqFree(Q) => total >= PeakLiveSum(Q)

Good(Q, o) == /\ Len(o.addr) = Len(Q)
              /\ NoOverlapLive(Q, o.addr) /\ Aligned(Q, o.addr)
              /\ TotalOK(Q, o.addr, o.total) /\ AboveLowerBound(Q, o.total)

(* ---- the input lattice (shared with the harness, which parses the same .cfg constants) ----- *)
Desc == {d \in [s : 0..(T - 1), e : 0..(T - 1), size : Sizes, al : Aligns, eq : Eqs] : d.s <= d.e}
Key(d) == (((d.s * 8 + d.e) * 1024 + d.size) * 1024 + d.al) * 4 + d.eq   \* total order on Desc (T <= 8; size, al < 1024; eq < 4)
(* outcome space; an interval when every address is admitted so that TLC tests membership without enumerating *)
AddrSpace == IF AddrStep = 1 THEN 0..MaxAddr ELSE {a \in 0..MaxAddr : a % AddrStep = 0}

(* ---- the most general allocator ----------------------------------------------------------- *)
Init == R = <<>> /\ phase = "build" /\ out = Null
(* inputs are multisets of descriptors, presented as non-decreasing sequences *)
Extend == /\ phase = "build" /\ Len(R) < MaxN
          /\ \E d \in Desc : (IF R = <<>> THEN TRUE ELSE Key(R[Len(R)]) <= Key(d)) /\ R' = Append(R, d)
          /\ UNCHANGED <<phase, out>>
Allocate == /\ phase = "build" /\ Len(R) > 0
            /\ phase' = "done"
            /\ out' \in [addr : [Dom(R) -> AddrSpace], total : AddrSpace]
            /\ Good(R, out')
            /\ UNCHANGED R
Next == Extend \/ Allocate
Spec == Init /\ [][Next]_vars
(* the same relation written so that TLC can *test* a given step without enumerating Desc; this is the
   form the transcriptions are checked against (PROPERTY A!SpecR); Alloc_MC.cfg checks Spec => SpecR *)
ExtendR == /\ phase = "build" /\ Len(R) < MaxN
           /\ Len(R') = Len(R) + 1 /\ SubSeq(R', 1, Len(R)) = R
           /\ R'[Len(R')] \in Desc
           /\ (IF R = <<>> THEN TRUE ELSE Key(R[Len(R)]) <= Key(R'[Len(R')]))
           /\ UNCHANGED <<phase, out>>
NextR == ExtendR \/ Allocate
SpecR == Init /\ [][NextR]_vars

(* ---- invariants: one per clause (used by the transcriptions through INSTANCE) ----------- *)
Done == phase = "done"
InvNoOverlapLive == Done => NoOverlapLive(R, out.addr)
InvAligned == Done => Aligned(R, out.addr)
InvTotalOK == Done => TotalOK(R, out.addr, out.total)
InvAboveLowerBound == Done => AboveLowerBound(R, out.total)
Terminates == phase # "raised"

(* ---- what a caller relies on; checked on Spec in a tiny scope (Alloc_MC.cfg) -------------- *)
(* at every time step the live buffers fit below `total` without sharing a byte *)
BytesAt(Q, addr, t) == UNION {addr[i]..(addr[i] + Q[i].size - 1) : i \in {j \in Dom(Q) : Q[j].s <= t /\ t <= Q[j].e}}
LemmaFits == Done => \A t \in 0..(T - 1) :
                 /\ \A b \in BytesAt(R, out.addr, t) : b < out.total
                 /\ Cardinality(BytesAt(R, out.addr, t)) = LiveSumAt(R, t)
(* the lower bound is a consequence of the other clauses *)
LemmaBound == Done /\ NoOverlapLive(R, out.addr) /\ HighEnd(R, out.addr) <= out.total => out.total >= PeakLiveSum(R)
(* the folds agree with their set-theoretic definitions *)
LemmaPeak == Len(R) > 0 => PeakLiveSum(R) = CHOOSE m \in {LiveSumAt(R, t) : t \in 0..(T - 1)} :
                                               \A t \in 0..(T - 1) : LiveSumAt(R, t) <= m
TypeOK == /\ phase \in {"build", "done", "raised"}
          /\ \A i \in Dom(R) : R[i] \in Desc
          /\ (out = Null) = (phase # "done")
=============================================================================
