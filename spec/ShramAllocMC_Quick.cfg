SPECIFICATION Spec
CONSTANT KernelCodes = {101, 303, 901}
CONSTANT StrideCodes = {11, 22}
CONSTANT IfmDepths = {3, 40}
CONSTANT GridW = {1, 2, 5, 8, 16, 64}
CONSTANT GridH = {1, 2, 3, 8, 32}
CONSTANT GridD = {1, 2, 3, 16}
CONSTANT ShapeH = {1, 5, 17}
CONSTANT ShapeW = {1, 3, 18}
CONSTANT ShapeD = {1, 8, 17, 130}
CONSTANT Tighten = 0
INVARIANT LayoutValid
INVARIANT CandidatesLegal
CONSTRAINT Frontier
CHECK_DEADLOCK FALSE
