SPECIFICATION Spec
CONSTANT MaxN = 2
CONSTANT T = 4
CONSTANT Sizes = {16, 48}
CONSTANT Aligns = {16, 64}
CONSTANT Eqs = {0}
CONSTANT MaxAddr = 100000
CONSTANT AddrStep = 1
PROPERTY Refines
INVARIANT InvFold
CHECK_DEADLOCK FALSE
