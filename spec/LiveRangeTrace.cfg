SPECIFICATION Spec
INVARIANT Report
POSTCONDITION Consumed
CHECK_DEADLOCK FALSE
