SPECIFICATION Spec
CONSTANTS Tables <- MCTables
 Size <- MCSize
 MaxOps = 7
 Reserved = FALSE
 ForgetExtent = "bytes"
INVARIANT UsesIntendedTable
INVARIANT KnownIsResident
CHECK_DEADLOCK FALSE
