SPECIFICATION Spec
CONSTANT MaxI = 8
CONSTANT MaxK = 4
CONSTANT MaxD = 2
CONSTANT MaxS = 3
CONSTANT EmitCases = FALSE
CONSTANT Mutant = "skirt_remainder_removed"
INVARIANT TypeOK
INVARIANT ExactWhereClaimed
INVARIANT Partition
CHECK_DEADLOCK FALSE
