SPECIFICATION TSpec
CONSTANT MaxN = 3
CONSTANT MaxH = 12
CONSTANT Kernels = {1}
CONSTANT Strides = {1}
CONSTANT Dilations = {1}
CONSTANT EmitCases = FALSE
CONSTANT Shrink = 0
CONSTANT Mutant = "none"
INVARIANT Report
POSTCONDITION Consumed
CHECK_DEADLOCK FALSE
