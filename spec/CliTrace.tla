----------------------------- MODULE CliTrace -----------------------------
(* Trace validation for C13: a batch of recorded CLI invocations.  Each record is
   one observed outcome; TLC decides whether it is the projection of a terminal
   state of Cli (i.e. reachable by Advance / ArgReject / VelaReject / WriteOk with
   AllowCrash = FALSE) and whether it respects what the generator promised about
   the invocation (valid options => no usage error; fallback-only model => no
   rejection).  Violations are accumulated so that one run lists all of them.
   Corner lattices (CliCorners.tla): an event of a corner model names the records it was built from (field corner, a
   sequence of CliCorners!Key strings).  When the batch is declared to carry the lattice (environment CORNER_TIER /
   CORNER_SEED, the values the enumeration ran with) the plan is recomputed here and the records of the plan that no
   event carries are printed (COVER): the harness treats a non-empty set as broken machinery, not as a verdict. *)
EXTENDS Integers, Sequences, FiniteSets, Json, IOUtils, TLC

Trace == ndJsonDeserialize(IOEnv.TRACE_FILE)

VARIABLES l, viol, phase, status, wrote, diag, tb
C == INSTANCE Cli WITH AllowCrash <- FALSE
K == INSTANCE CliCorners WITH rec <- l

Ev == Trace[l]
Observed(e) == [status |-> e.status, wrote |-> e.wrote, diag |-> e.diag, tb |-> e.tb]

(* terminal observations of Cli, computed from its actions rather than listed by hand:
   the set of Obs over all states reachable in at most 6 steps *)
RECURSIVE Reach(_, _)
Succ(s) == { t \in [phase : {"args", "config", "read", "compile", "write", "done"}, status : {-1, 0, 1, 2},
                    wrote : BOOLEAN, diag : BOOLEAN, tb : BOOLEAN] :
               \/ /\ s.phase \in {"args", "config", "read", "compile"} /\ t.phase = C!NextPhase(s.phase)
                  /\ t.status = s.status /\ t.wrote = s.wrote /\ t.diag = s.diag /\ t.tb = s.tb
               \/ /\ s.phase = "args" /\ t.phase = "done" /\ t.status = 2 /\ t.diag /\ t.wrote = s.wrote /\ t.tb = s.tb
               \/ /\ s.phase \in {"config", "read", "compile", "write"} /\ t.phase = "done" /\ t.status = 1 /\ t.diag
                  /\ t.wrote = s.wrote /\ t.tb = s.tb
               \/ /\ s.phase = "write" /\ t.phase = "done" /\ t.status = 0 /\ t.wrote /\ t.diag = s.diag /\ t.tb = s.tb }
Reach(S, n) == IF n = 0 THEN S ELSE Reach(S \cup UNION {Succ(s) : s \in S}, n - 1)
Start == [phase |-> "args", status |-> -1, wrote |-> FALSE, diag |-> FALSE, tb |-> FALSE]
Terminal == { [status |-> s.status, wrote |-> s.wrote, diag |-> s.diag, tb |-> s.tb] :
                s \in { r \in Reach({Start}, 6) : r.phase = "done" } }

Failures(e) ==
    LET o == Observed(e) IN
      (IF e.timeout THEN {"Terminates"} ELSE {})
 \cup (IF ~e.timeout /\ o \notin Terminal THEN {"CompilesOrDiagnoses"} ELSE {})
 \cup (IF ~e.timeout /\ e.valid_options /\ C!UsageError(o) THEN {"ValidOptionsAccepted"} ELSE {})
 \cup (IF ~e.timeout /\ e.fallback_only /\ ~C!Compiled(o) THEN {"UnsupportedFallsBackToCpu"} ELSE {})
 \cup (IF ~e.timeout /\ C!Compiled(o) /\ ~e.parses THEN {"OutputIsAModel"} ELSE {})

Init == l = 1 /\ viol = {} /\ phase = "args" /\ status = -1 /\ wrote = FALSE /\ diag = FALSE /\ tb = FALSE
Next == /\ l <= Len(Trace)
        /\ viol' = viol \cup { <<Ev.t, f>> : f \in Failures(Ev) }
        /\ phase' = "done" /\ status' = Ev.status /\ wrote' = Ev.wrote /\ diag' = Ev.diag /\ tb' = Ev.tb
        /\ l' = l + 1
Spec == Init /\ [][Next]_<<l, viol, phase, status, wrote, diag, tb>>

Consumed == TLCGet("stats").diameter = Len(Trace) + 1
CornersOf(e) == IF "corner" \in DOMAIN e THEN {e.corner[j] : j \in 1..Len(e.corner)} ELSE {}
Carried == UNION {CornersOf(Trace[j]) : j \in 1..Len(Trace)}
Uncovered == IF "CORNER_TIER" \in DOMAIN IOEnv THEN K!Required \ Carried ELSE {}
Report == l = Len(Trace) + 1 => /\ PrintT(<<"VERDICT", ToJson(viol)>>)
                                /\ PrintT(<<"COVER", ToJson(Uncovered)>>)
TerminalNonEmpty == Cardinality(Terminal) >= 3
=============================================================================
