SPECIFICATION Spec
INVARIANT Emit
INVARIANT FrontierComplete
CHECK_DEADLOCK FALSE
