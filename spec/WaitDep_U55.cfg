SPECIFICATION Spec
CONSTANTS Cells = {1, 2, 3}
 MaxDma = 1
 MaxKern = 2
 N = 4
 KernelWatermarkSlack = 0
INVARIANT NoHazard
CHECK_DEADLOCK FALSE
