-------------------------- MODULE SupportedOpsTrace --------------------------
(* Code -> spec: each line is one compiled case {t, c: case record, observed: "NPU" | "CPU" | "FAIL" | "LOST", unchanged}
   ("FAIL": the compiler produced no output model; "LOST": the operator is neither preserved nor explained by an
   ethos-u operator of the output model).
   c.force and the other option fields of the case record say how the compiler was invoked.
   TLC recomputes what the report says about the case (Expect, from the constants parsed out of the report the
   working tree generated) and compares it with where the compiler put the operator. *)
EXTENDS SupportedOps, Json, IOUtils

\* Whatever an undecided bullet means, the operator either satisfies the listed constraints (then it runs on the NPU) or
\* violates one (then it stays on the CPU): a compilation that produces no output model is neither.  TRUE makes such a
\* failure a verdict ("UndecidedButFails"); see the comment in SupportedOpsTrace.cfg for why the delivered value is FALSE.
CONSTANT UndecidedFailureIsVerdict

Trace == ndJsonDeserialize(IOEnv.TRACE_FILE)
VARIABLES l, viol
Ev == Trace[l]

Failures(e) ==
    LET x == Expect(e.c) IN
      (IF x = "NPU" /\ e.observed = "CPU" THEN {<<e.t, "SatisfiesButCpu", {}>>} ELSE {})
 \cup (IF x = "CPU" /\ e.observed = "NPU" THEN {<<e.t, "ViolatesButNpu", Failing(e.c)>>} ELSE {})
 \cup (IF e.observed = "CPU" /\ ~e.unchanged THEN {<<e.t, "CpuNotUnchanged", {}>>} ELSE {})
 \cup (IF e.observed = "LOST" /\ ~(NoOp(e.c) /\ x # "CPU") THEN {<<e.t, "OperatorLost", {}>>} ELSE {})
 \cup (IF x = "NPU" /\ e.observed = "FAIL" THEN {<<e.t, "SatisfiesButFails", {}>>} ELSE {})
 \cup (IF x = "CPU" /\ e.observed = "FAIL" THEN {<<e.t, "ViolatesButFails", Failing(e.c)>>} ELSE {})
 \cup (IF UndecidedFailureIsVerdict /\ x = "ANY" /\ e.observed = "FAIL" THEN {<<e.t, "UndecidedButFails", Undecided(e.c)>>} ELSE {})

Init == l = 1 /\ viol = {}
Next == /\ l <= Len(Trace)
        /\ viol' = viol \cup Failures(Ev)
        /\ l' = l + 1
Spec == Init /\ [][Next]_<<l, viol>>

Consumed == TLCGet("stats").diameter = Len(Trace) + 1
Report == l = Len(Trace) + 1 => PrintT(<<"VERDICT", ToJson(viol)>>)
=============================================================================
