SPECIFICATION Spec
CONSTANTS
  OptWriter = "all"
  OptKnown = TRUE
  InWriter = "positional"
  OutWriter = "all"
  CloneKeeps = {"minmax", "qdim", "peraxis"}
  MaxIn = 4
INVARIANT OptionRoundTrip
INVARIANT OperandPositions
INVARIANT TensorRoundTrip
INVARIANT OutputsDeclared
CHECK_DEADLOCK FALSE
