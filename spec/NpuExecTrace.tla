--------------------------- MODULE NpuExecTrace ---------------------------
(* Trace validation for C04: recorded command streams (decoded from output models or from the public
   command-stream generator) executed on the hardware model NpuHw.  The trace fixes the program order
   (Wait / Op events); TLC adds the silent completion steps, so every set of operations that can be in
   flight together at each point of the stream is visited, and evaluates
     NoDmaKernelHazard  at every state,
     BlockDepSafe       when a kernel operation is issued (A-HW3: job f of the operation and the job k
                        places from the end of the previous kernel operation overlap iff f + k < BLOCKDEP),
     LutRule            (previous kernel operation reads a SHRAM range the next one overwrites => BLOCKDEP 0).
   Violations are *printed* (one "VIOL" line per offending state) rather than accumulated in a state
   variable: with nondeterministic completions an accumulating history variable would multiply the state
   space by every subset of violations found so far (a stream with many hazards made TLC time out).
   Event records (ndjson):
     {"t","e":"Hdr","maxdma"}                                   start of a stream: queues empty
     {"t","e":"Wait","q":"k"|"d","n"}
     {"t","e":"Op","q":"k"|"d","i","R":[cells],"W":[cells],"bd","jr":[[cells]..],"pw":[[cells]..],"SR":[cells],"SW":[cells]}
     {"t","e":"Stop"}                                                                                  *)
EXTENDS Integers, Sequences, FiniteSets, Json, IOUtils, TLC

Trace == ndJsonDeserialize(IOEnv.TRACE_FILE)
MaxKern == 2

VARIABLES l,        \* next trace line
          kq, dq,   \* hardware queues: sequences of trace line numbers of Op events
          maxdma,   \* DMA queue depth of the accelerator of the current stream
          prevk     \* line number of the previous kernel operation of this stream (0 = none)
vars == <<l, kq, dq, maxdma, prevk>>

S(seq) == {seq[i] : i \in 1..Len(seq)}
R(i) == S(Trace[i].R)
W(i) == S(Trace[i].W)

HW == INSTANCE NpuHw WITH OpR <- R, OpW <- W

Ev == Trace[l]

Hazards == { <<Trace[a].t, "NoDmaKernelHazard", Trace[a].i, Trace[b].i>> :
               <<a, b>> \in { p \in HW!Range(kq) \X HW!Range(dq) : HW!Conflict(p[1], p[2]) } }

BlockDepViol(e) ==
   IF e.q # "k" \/ prevk = 0 THEN {}
   ELSE LET bad == \E f \in 1..Len(e.jr), k \in 1..Len(e.pw) :
                        (f - 1) + (k - 1) < e.bd /\ S(e.jr[f]) \cap S(e.pw[k]) # {}
            lut == e.bd > 0 /\ S(Trace[prevk].SR) \cap S(e.SW) # {}
        IN (IF bad THEN {<<e.t, "BlockDepSafe", e.i, e.bd>>} ELSE {})
           \cup (IF lut THEN {<<e.t, "LutRule", e.i, e.bd>>} ELSE {})

Tell(V) == V = {} \/ PrintT(<<"VIOL", ToJson(V)>>)

Init == l = 1 /\ kq = <<>> /\ dq = <<>> /\ maxdma = 1 /\ prevk = 0

Hdr == /\ Ev.e = "Hdr"
       /\ kq' = <<>> /\ dq' = <<>> /\ maxdma' = Ev.maxdma /\ prevk' = 0
       /\ l' = l + 1
Wait == /\ Ev.e = "Wait"
        /\ IF Ev.q = "k" THEN HW!KernelWait(Ev.n) ELSE HW!DmaWait(Ev.n)
        /\ l' = l + 1 /\ UNCHANGED <<maxdma, prevk>>
Op == /\ Ev.e = "Op"
      /\ IF Ev.q = "k" THEN HW!IssueKernel(l) ELSE HW!IssueDma(l, maxdma)
      /\ prevk' = IF Ev.q = "k" THEN l ELSE prevk
      /\ Tell(BlockDepViol(Ev))
      /\ l' = l + 1 /\ UNCHANGED maxdma
Stop == /\ Ev.e = "Stop"                     \* the stream ends; remaining operations drain
        /\ kq' = <<>> /\ dq' = <<>>
        /\ l' = l + 1 /\ UNCHANGED <<maxdma, prevk>>
DoneK == HW!CompleteKernel /\ UNCHANGED <<l, maxdma, prevk>>
DoneD == HW!CompleteDma /\ UNCHANGED <<l, maxdma, prevk>>

Next == \/ (l <= Len(Trace) /\ (Hdr \/ Wait \/ Op \/ Stop))
        \/ DoneK \/ DoneD
Spec == Init /\ [][Next]_vars

Consumed == TLCGet("stats").diameter >= Len(Trace) + 1
(* evaluated in every reachable state: the hazards of that state are reported *)
HazardReport == Tell(Hazards)
Report == (l = Len(Trace) + 1 /\ kq = <<>> /\ dq = <<>>) => PrintT(<<"VERDICT", "[]">>)
=============================================================================
