---------------------------- MODULE ShramAllocMC ----------------------------
(* C15 - model-checking harness: the transcription ShramAlloc.tla meets the requirement Shram.tla on
   a grid.  Two families of initial states:
     "op"    an operation (accelerator, kind, precision, scaling, LUT, kernel extent, stride, upscaling,
             IFM depth, weight traversal, one-row OFM); successor states place every legal block of a
             block grid with try_block_config's arithmetic (PlaceBlock: phase "fit" or "nofit");
     "shape" an OFM shape; successor states are the candidates enumerated by find_block_config
             (FindCand) and by api.npu_find_block_configs (QueryCand, then filtered by Try). *)
EXTENDS ShramAlloc

CONSTANTS KernelCodes,  \* set of 100 * kah + kaw (TLC cfg files cannot hold tuples)
          StrideCodes,  \* set of 10 * sy + sx
          IfmDepths,    \* IFM depths for operations whose IFM block depth is not the OFM block depth
          GridW, GridH, GridD,   \* block grid: multiples (of the micro-block) tried in each dimension
          ShapeH, ShapeW, ShapeD, \* OFM shapes for the candidate-enumeration family
          Tighten       \* 0; 1 in the negative-control configuration (demands one bank more than needed)

Kernels == { <<k \div 100, k % 100>> : k \in KernelCodes }
Strides == { <<s \div 10, s % 10>> : s \in StrideCodes }
Base(a, kind) == [accel |-> a, kind |-> kind, fam |-> "op", scalar |-> FALSE, bits |-> 8, scaled |-> TRUE, lut |-> FALSE,
                  kah |-> 1, kaw |-> 1, sy |-> 1, sx |-> 1, up |-> 0, ifm_d |-> 8, part |-> FALSE, ofm_h |-> 8,
                  ofm |-> [h |-> 8, w |-> 8, d |-> 8]]
BitsScaled(kind) == IF kind = "pool" THEN {<<8, TRUE>>, <<16, TRUE>>}
                    ELSE IF kind = "rsum" THEN {<<8, TRUE>>, <<16, TRUE>>, <<16, FALSE>>, <<32, TRUE>>}
                    ELSE {<<8, TRUE>>, <<16, TRUE>>, <<16, FALSE>>}
OfmHs(a, k) == IF k[1] = 1 /\ S!UBlock(a).h = 2 THEN {1, 8} ELSE {8}
ConvLike(a) ==
    { [Base(a, kp[1]) EXCEPT !.part = kp[2], !.bits = bs[1], !.scaled = bs[2], !.lut = lut, !.up = up, !.kah = k[1], !.kaw = k[2],
                             !.sy = s[1], !.sx = s[2], !.ifm_d = idp, !.ofm_h = oh] :
        kp \in {<<"conv", FALSE>>, <<"conv", TRUE>>}, bs \in BitsScaled("conv"), lut \in BOOLEAN, up \in {0, 1, 2},
        k \in Kernels, s \in Strides, idp \in IfmDepths, oh \in {1, 8} } \* filtered below
Cases ==
    LET conv(a) == { x \in ConvLike(a) : x.ofm_h \in OfmHs(a, <<x.kah, x.kaw>>) }
        dwpool(a) == UNION { { [Base(a, kind) EXCEPT !.bits = bs[1], !.scaled = bs[2], !.lut = lut, !.up = up, !.kah = k[1],
                                                     !.kaw = k[2], !.sy = s[1], !.sx = s[2], !.ofm_h = oh] :
                                 bs \in BitsScaled(kind), lut \in BOOLEAN, up \in {0, 1, 2}, s \in Strides, oh \in OfmHs(a, k) }
                             : kind \in {"dw", "pool"}, k \in Kernels }
        rsum(a) == { [Base(a, "rsum") EXCEPT !.bits = bs[1], !.scaled = bs[2], !.lut = lut, !.ifm_d = idp, !.ofm_h = oh] :
                       bs \in BitsScaled("rsum"), lut \in BOOLEAN, idp \in IfmDepths, oh \in OfmHs(a, <<1, 1>>) }
        ew(a) == { [Base(a, "ew") EXCEPT !.bits = b, !.scalar = sc, !.lut = lut] : b \in {8, 16, 32}, sc \in BOOLEAN, lut \in BOOLEAN }
    IN UNION { conv(a) \cup dwpool(a) \cup rsum(a) \cup ew(a) : a \in S!Accels }
ShapeCases == { [Base(a, "conv") EXCEPT !.fam = "shape", !.up = up, !.ofm = [h |-> h, w |-> w, d |-> d], !.ofm_h = h] :
                  a \in S!Accels, up \in {0, 1}, h \in ShapeH, w \in ShapeW, d \in ShapeD }
BlockGrid(a) == LET ub == S!UBlock(a) IN
    { [h |-> ub.h * i, w |-> ub.w * j, d |-> ub.d * k] : i \in GridH, j \in GridW, k \in GridD }

(* the driver mirrors Cases to realise every point as a public-API operation; it checks its count against this line *)
ASSUME PrintT(<<"LATTICE", Cardinality(Cases), Cardinality(ShapeCases)>>)

VARIABLES phase, c, blk, lay
vars == <<phase, c, blk, lay>>
NoBlk == [h |-> 0, w |-> 0, d |-> 0]
Init == /\ c \in Cases \cup ShapeCases
        /\ phase = c.fam /\ blk = NoBlk /\ lay = NoLayout
(* one (operation, block) point: what try_block_config answers *)
Grid == { x \in BlockGrid(c.accel) : S!BlockOK(c.accel, x) }
PlaceBlock == /\ phase = "op"
              /\ \E b \in Grid : LET L == Try(c, b) IN blk' = b /\ lay' = L /\ phase' = IF L = NoLayout THEN "nofit" ELSE "fit"
              /\ UNCHANGED c
(* vacuity: some point of the lattice fits and some does not (evaluated once, at start-up) *)
ASSUME \E x \in Cases : \E b \in BlockGrid(x.accel) : S!BlockOK(x.accel, b) /\ Try(x, b) # NoLayout
ASSUME \E x \in Cases : \E b \in BlockGrid(x.accel) : S!BlockOK(x.accel, b) /\ Try(x, b) = NoLayout
(* one candidate of the two search loops for an OFM shape *)
FindCand  == /\ phase = "shape" /\ c.up = 0 /\ \E b \in FindCandidates(c.accel, c.ofm) : blk' = b
             /\ phase' = "found" /\ UNCHANGED <<c, lay>>
QueryCand == /\ phase = "shape" /\ \E b \in QueryCandidates(c.accel, c.ofm, c.up, TRUE) \cup QueryCandidates(c.accel, c.ofm, c.up, FALSE) :
                    blk' = b /\ lay' = Try(c, b)
             /\ phase' = "queried" /\ UNCHANGED c
Next == PlaceBlock \/ FindCand \/ QueryCand
Spec == Init /\ [][Next]_vars

(* requirement-side descriptor of (c, blk): accumulator width is the one Shram expects (A-SH6) *)
OpOf == [accel |-> c.accel, kind |-> c.kind, bits |-> c.bits, accbits |-> S!ExpectedAccBits(c.kind, c.bits, c.scaled),
         lut |-> c.lut, kah |-> c.kah, kaw |-> c.kaw, sy |-> c.sy, sx |-> c.sx, up |-> c.up, ifm_d |-> c.ifm_d,
         part |-> c.part, ofm_h |-> c.ofm_h, binary |-> (c.kind = "ew" /\ ~c.scalar), bc |-> <<FALSE, FALSE, FALSE>>, blk |-> blk]

(* successor states are leaves: TLC checks the invariants on them but does not store or queue them *)
Frontier == phase \in {"op", "shape"}

(* ---- properties ---- *)
LayoutValid == (phase \in {"fit", "queried"} /\ lay # NoLayout) =>
                   /\ S!BlockOK(c.accel, blk) /\ S!Ordered(OpOf, lay) /\ S!LutReserved(OpOf, lay)
                   /\ S!IfmFits(OpOf, lay) /\ S!Ifm2Fits(OpOf, lay) /\ S!AccFits(OpOf, lay)
(* every block find_block_config can return, and every block the query can offer, is a legal block *)
CandidatesLegal == /\ phase = "found" => S!BlockOK(c.accel, blk)
                   /\ (phase = "queried" /\ lay # NoLayout) => S!BlockOK(c.accel, blk)
(* negative control: with Tighten = 1 this must fail - the layouts are tight, the antecedent is reachable *)
Slack == (phase = "fit" /\ c.kind # "ew") => lay.lut_start - lay.ab_start >= S!AccNeed(OpOf) + Tighten
=============================================================================
