---------------------------- MODULE AllocGreedy ----------------------------
(* Transcription of ethosu/vela/greedy_allocation.py (GreedyAllocator) and proof by model
   checking that, for every input of the lattice, it refines the most general allocator of
   Alloc.tla (PROPERTY Refines) and satisfies each clause of C05 (one INVARIANT per clause).

   Python                                              here
   ------------------------------------------------    ------------------------------------
   sorted(set((start, -end, lr)))                      Order(Q)   (LiveRange.__lt__: start, end, size, name;
                                                                   names are the presentation index)
   for lr in current_allocs: if lr.end_time < t: dealloc   SelectSeq(cur, end >= t)
   alloc(new_lr)                                       GStep
   best_offset_fit = (1 << 64) - 1                     fit = -1 ("infinite")
   current_allocs = sorted(current_allocs)             SortSeq by (address, LiveRange.__lt__)
   memory_required                                     total

   The pure operators (Order, GStep, GreedyRun) are reused by AllocTrace.tla to compare the
   transcription with what the real code returned (reported as model drift, never as a violation). *)
EXTENDS Integers, Sequences, FiniteSets, TLC

CONSTANTS MaxN, T, Sizes, Aligns, Eqs, MaxAddr, AddrStep
VARIABLES R, phase,
          k,        \* next position in the sorted order
          g         \* allocator state [cur, addr, total]
vars == <<R, phase, k, g>>

RoundUp(a, b) == ((a + b - 1) \div b) * b
Max2(a, b) == IF a >= b THEN a ELSE b
Dom(Q) == 1..Len(Q)

(* LiveRange.__lt__ *)
LrLess(Q, i, j) == IF Q[i].s # Q[j].s THEN Q[i].s < Q[j].s
                   ELSE IF Q[i].e # Q[j].e THEN Q[i].e < Q[j].e
                   ELSE IF Q[i].size # Q[j].size THEN Q[i].size < Q[j].size
                   ELSE i < j
(* (start_time, -end_time, lr) *)
Before(Q, i, j) == IF Q[i].s # Q[j].s THEN Q[i].s < Q[j].s
                   ELSE IF Q[i].e # Q[j].e THEN Q[i].e > Q[j].e
                   ELSE LrLess(Q, i, j)
Order(Q) == SortSeq([i \in Dom(Q) |-> i], LAMBDA i, j : Before(Q, i, j))

G0(Q) == [cur |-> <<>>, addr |-> [i \in Dom(Q) |-> -1], total |-> 0]

RECURSIVE Top(_, _, _)
Top(Q, cur, i) == IF i > Len(cur) THEN 0 ELSE Max2(cur[i][1] + Q[cur[i][2]].size, Top(Q, cur, i + 1))

(* the loop over current_allocs in alloc(): returns the chosen offset *)
RECURSIVE Scan(_, _, _, _, _, _, _, _)
Scan(Q, cur, i, al, asz, curoff, best, fit) ==
    IF i > Len(cur) THEN best
    ELSE LET st == cur[i][1]
             a == RoundUp(curoff, al)
             nxt == st + Q[cur[i][2]].size
         IN IF a + asz <= st /\ (fit = -1 \/ st - a < fit)
            THEN Scan(Q, cur, i + 1, al, asz, nxt, a, st - a)
            ELSE Scan(Q, cur, i + 1, al, asz, nxt, best, fit)

GStep(Q, st, new) ==
    LET cur1 == SelectSeq(st.cur, LAMBDA c : Q[c[2]].e >= Q[new].s)      \* dealloc: lr.end_time < curr_time
        al == Q[new].al
        asz == RoundUp(Q[new].size, al)
        best == Scan(Q, cur1, 1, al, asz, 0, RoundUp(Top(Q, cur1, 1), al), -1)
        cur2 == SortSeq(Append(cur1, <<best, new>>),
                        LAMBDA x, y : x[1] < y[1] \/ (x[1] = y[1] /\ LrLess(Q, x[2], y[2])))
    IN [cur |-> cur2, addr |-> [st.addr EXCEPT ![new] = best], total |-> Max2(st.total, best + asz)]

RECURSIVE GreedyFrom(_, _, _, _)
GreedyFrom(Q, ord, i, st) == IF i > Len(ord) THEN st ELSE GreedyFrom(Q, ord, i + 1, GStep(Q, st, ord[i]))
GreedyRun(Q) == LET st == GreedyFrom(Q, Order(Q), 1, G0(Q)) IN [addr |-> st.addr, total |-> st.total]

(* ---- the algorithm as a state machine over the lattice of Alloc -------------------------- *)
A == INSTANCE Alloc WITH phase <- IF phase = "done" THEN "done" ELSE "build",
                         out <- IF phase = "done" THEN [addr |-> g.addr, total |-> g.total]
                                ELSE [addr |-> <<>>, total |-> -1]

Init == R = <<>> /\ phase = "build" /\ k = 0 /\ g = G0(<<>>)
Extend == /\ phase = "build" /\ Len(R) < MaxN
          /\ \E d \in A!Desc : (IF R = <<>> THEN TRUE ELSE A!Key(R[Len(R)]) <= A!Key(d)) /\ R' = Append(R, d)
          /\ UNCHANGED <<phase, k, g>>
Start == /\ phase = "build" /\ Len(R) > 0
         /\ phase' = "run" /\ k' = 1 /\ g' = G0(R)
         /\ UNCHANGED R
AllocStep == /\ phase = "run"
             /\ g' = GStep(R, g, Order(R)[k])
             /\ k' = k + 1
             /\ phase' = IF k = Len(R) THEN "done" ELSE "run"
             /\ UNCHANGED R
Next == Extend \/ Start \/ AllocStep
Spec == Init /\ [][Next]_vars

Refines == A!SpecR
InvNoOverlapLive == A!InvNoOverlapLive
InvAligned == A!InvAligned
InvTotalOK == A!InvTotalOK
InvAboveLowerBound == A!InvAboveLowerBound
(* loop invariants of the algorithm: everything in current_allocs is alive at the current time,
   sorted by address and pairwise disjoint; the step function and the fold agree *)
InvCur == phase = "run" /\ k > 1 =>
            /\ \A i \in Dom(g.cur) : R[g.cur[i][2]].e >= R[Order(R)[k - 1]].s
            /\ \A i \in 1..(Len(g.cur) - 1) : g.cur[i][1] + R[g.cur[i][2]].size <= g.cur[i + 1][1]
InvFold == phase = "done" => GreedyRun(R) = [addr |-> g.addr, total |-> g.total]
=============================================================================
