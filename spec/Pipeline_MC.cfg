SPECIFICATION Spec
CONSTANTS MaxN = 2
 MaxC = 2
 RegsNeedFlashAlloc = TRUE
INVARIANT WriteComplete
INVARIANT RegsSeeFinalAddresses
INVARIANT NoWriteAfterFail
INVARIANT FlashFixedBeforeSer
CHECK_DEADLOCK FALSE
