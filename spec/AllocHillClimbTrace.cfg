SPECIFICATION Spec
CONSTANT MinImprove = 500
CONSTANT MaxStuck = 50
INVARIANT Report
POSTCONDITION Consumed
CHECK_DEADLOCK FALSE
