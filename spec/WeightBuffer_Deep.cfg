SPECIFICATION Spec
CONSTANTS Sizes = {16, 32, 48, 96}
 MaxSlices = 6
 Limits = {16, 32, 48, 64, 80, 96, 112, 128, 160, 192, 256}
 SingleSize = "max_range"
INVARIANT Fits
INVARIANT WithinBudget
CHECK_DEADLOCK FALSE
