---------------------------- MODULE NpuMemTrace ----------------------------
(* Trace validation for C02: every access of every operation of a command stream lies inside the
   extent of the region it names, as published in the output model; nothing is written to the
   constants region; in spilling (Dedicated SRAM) configurations the published fast-scratch extent is
   within the configured arena cache size.
   Cells come from coordinate compression in which the published extent of every region is itself an
   access, so "inside the extent" is set inclusion of cells.
   Events: {"t","e":"Hdr","ext":{"r0":[cells],"r1":..,"r2":..,"shram":..},"spilling":bool,
            "fast_len":n,"arena_cache":n,"known":[region keys]}
           {"t","e":"Op","i":n,"acc":[{"w":what,"dir":"r"|"w","region":key,"cells":[..]}...]}          *)
EXTENDS Integers, Sequences, FiniteSets, Json, IOUtils, TLC

Trace == ndJsonDeserialize(IOEnv.TRACE_FILE)
VARIABLES l, hdr, viol
S(seq) == {seq[i] : i \in 1..Len(seq)}
Ev == Trace[l]

ConstRegion == "r0"

AccViol(h, e, a) ==
      (IF a.region \notin S(h.known) THEN {<<e.t, "KnownRegion", e.i, a.w>>}
       ELSE IF ~(S(a.cells) \subseteq S(h.ext[a.region])) THEN {<<e.t, "InBounds", e.i, a.w>>} ELSE {})
 \cup (IF a.dir = "w" /\ a.region = ConstRegion THEN {<<e.t, "NoWriteToConst", e.i, a.w>>} ELSE {})

HdrViol(e) == IF e.spilling /\ e.fast_len > e.arena_cache THEN {<<e.t, "FastWithinCache", 0, "hdr">>} ELSE {}

Init == l = 1 /\ hdr = [t |-> -1] /\ viol = {}
Next == /\ l <= Len(Trace)
        /\ \/ /\ Ev.e = "Hdr" /\ hdr' = Ev /\ viol' = viol \cup HdrViol(Ev)
           \/ /\ Ev.e = "Op" /\ hdr' = hdr
              /\ viol' = viol \cup UNION { AccViol(hdr, Ev, Ev.acc[k]) : k \in 1..Len(Ev.acc) }
           \/ /\ Ev.e \notin {"Hdr", "Op"} /\ UNCHANGED <<hdr, viol>>
        /\ l' = l + 1
Spec == Init /\ [][Next]_<<l, hdr, viol>>
Consumed == TLCGet("stats").diameter = Len(Trace) + 1
Report == l = Len(Trace) + 1 => PrintT(<<"VERDICT", ToJson(viol)>>)
=============================================================================
