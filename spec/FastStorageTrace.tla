--------------------------- MODULE FastStorageTrace ---------------------------
(* Trace validation of the scheduler's fast-storage component allocation (FastStorage.tla) on calls recorded from real
   compilations.  One record per call of FastStorageComponentAllocator.allocate_component:
     {"t", "n": time steps of the component's span, "limit", "base":[..], "maxu":[..] (usage arrays over the span before
      the call), "lrs":[{s,e,z,sc}..] (times relative to the span), "ev":[bool..] (evicted flags the code chose)}
   Verdicts:  WithinLimit - with the chosen live ranges kept, base usage + kept sizes <= limit at every time step;
              Optimal     - (components of at most 10 live ranges) no fitting subset has a higher score.
   Drift:     the branch-and-bound transcription of FastStorage.tla chooses a different set. *)
EXTENDS Integers, Sequences, FiniteSets, Json, IOUtils, TLC
Trace == ndJsonDeserialize(IOEnv.TRACE_FILE)
VARIABLES l, viol, drift
Ev == Trace[l]
Live(lr, t) == lr.s <= t /\ t <= lr.e
RECURSIVE SumKept(_, _, _, _)
SumKept(lrs, keep, t, i) == IF i = 0 THEN 0 ELSE (IF i \in keep /\ Live(lrs[i], t) THEN lrs[i].z ELSE 0) + SumKept(lrs, keep, t, i - 1)
Fits(e, keep) == \A t \in 0..e.n - 1 : e.base[t + 1] + SumKept(e.lrs, keep, t, Len(e.lrs)) <= e.limit
RECURSIVE Score(_, _, _)
Score(lrs, keep, i) == IF i = 0 THEN 0 ELSE (IF i \in keep THEN lrs[i].sc ELSE 0) + Score(lrs, keep, i - 1)
Kept(e) == {i \in 1..Len(e.lrs) : ~e.ev[i]}

(* transcription (same as FastStorage!Exh, on 1-based arrays of the record) *)
Add(u, lr, sign) == [t \in 1..Len(u) |-> IF Live(lr, t - 1) THEN u[t] + sign * lr.z ELSE u[t]]
MaxOver(u, lr) == LET S == {u[t] : t \in {x \in 1..Len(u) : Live(lr, x - 1)}} IN CHOOSE m \in S : \A v \in S : v <= m
RECURSIVE Exh(_, _, _, _, _, _, _, _)
Exh(lrs, lim, ix, score, cur, b, m, bst) ==
   IF ix > Len(lrs) THEN (IF score > bst[1] THEN <<score, cur>> ELSE bst)
   ELSE LET lr == lrs[ix]
            canFit == MaxOver(b, lr) + lr.z <= lim
            b1 == IF canFit THEN Exh(lrs, lim, ix + 1, score + lr.sc, [cur EXCEPT ![ix] = FALSE], Add(b, lr, 1), m, bst) ELSE bst
        IN IF MaxOver(m, lr) <= lim THEN b1
           ELSE Exh(lrs, lim, ix + 1, score, [cur EXCEPT ![ix] = TRUE], b, Add(m, lr, -1), b1)
Model(e) == Exh(e.lrs, e.limit, 1, 0, [i \in 1..Len(e.lrs) |-> FALSE], e.base, e.maxu, <<-1, [i \in 1..Len(e.lrs) |-> FALSE]>>)[2]

Check(e) ==
   (IF Fits(e, Kept(e)) THEN {} ELSE {<<e.t, "WithinLimit">>})
   \cup (IF Len(e.lrs) <= 10 /\ \E K \in SUBSET (1..Len(e.lrs)) : Fits(e, K) /\ Score(e.lrs, K, Len(e.lrs)) > Score(e.lrs, Kept(e), Len(e.lrs))
         THEN {<<e.t, "Optimal">>} ELSE {})
Drift(e) == IF Len(e.lrs) <= 12 /\ Model(e) # e.ev THEN {<<e.t, "choice">>} ELSE {}
Init == l = 1 /\ viol = {} /\ drift = {}
Next == l <= Len(Trace) /\ viol' = viol \cup Check(Ev) /\ drift' = drift \cup Drift(Ev) /\ l' = l + 1
Spec == Init /\ [][Next]_<<l, viol, drift>>
Consumed == TLCGet("stats").diameter = Len(Trace) + 1
Report == l = Len(Trace) + 1 => PrintT(<<"VERDICT", ToJson(viol)>>) /\ PrintT(<<"DRIFT", ToJson(drift)>>)
=============================================================================
