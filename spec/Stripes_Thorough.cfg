SPECIFICATION Spec
CONSTANT MaxI = 18
CONSTANT MaxK = 6
CONSTANT MaxD = 2
CONSTANT MaxS = 3
CONSTANT EmitCases = TRUE
CONSTANT Mutant = "none"
INVARIANT TypeOK
INVARIANT ExactWhereClaimed
INVARIANT Candidates
INVARIANT Partition
INVARIANT Cases
CHECK_DEADLOCK FALSE
