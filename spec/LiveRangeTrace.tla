---------------------------- MODULE LiveRangeTrace ----------------------------
(* Trace validation of the live ranges of real compilations (harness/liverange.py).  One record per arena allocation
   pass of one compilation:
     {"t", "bufs":  [{"id", "lo","hi"   use interval in steps of the global execution order (root passes with the
                                         NPU subgraphs' high-level command streams nested inside),
                      "rg"              index of the live range the allocator received for it (-1: none),
                      "s","e"           that range (inclusive), "addr","size" the bytes finally assigned}],
           "fused": [{"op","kind","w","first"   operator `op` writes buffer w from step `first` on, into a range that
                                                 already holds the values `victims`,
                      "isize","osize","idt","odt"  storage size / data type of the operand it shares the range with, and of w,
                      "victims": [{"buf","isout","readers":[{"op","last"}]}]}]}
   Verdicts (predicates of LiveRangeProps, shared with the design model LiveRange.tla):
     CoversUse  two buffers with different ranges whose use intervals share a step have ranges that intersect;
                the last field says whether the assigned byte intervals intersect (manifest) or not (latent)
     Unranged   a buffer of this memory that the execution touches got no range at all
     FuseSafe   "shape": an elementwise operator writing over its operand has equal size and type;
                "clobber": no earlier value in the range has a reader left other than the overwriting operator. *)
EXTENDS Integers, Sequences, FiniteSets, Json, IOUtils, TLC, LiveRangeProps
Trace == ndJsonDeserialize(IOEnv.TRACE_FILE)
VARIABLES l, viol
Ev == Trace[l]
SeqSet(s) == {s[i] : i \in 1..Len(s)}
Use(b) == [lo |-> b.lo, hi |-> b.hi]
Rg(b) == [s |-> b.s, e |-> b.e]
BytesMeet(a, b) == a.addr >= 0 /\ b.addr >= 0 /\ LrMax(a.addr, b.addr) < LrMin(a.addr + a.size, b.addr + b.size)
CoverViol(e) ==
   LET B == e.bufs n == Len(B)
       bad == {p \in (1..n) \X (1..n) : /\ p[1] < p[2] /\ B[p[1]].rg >= 0 /\ B[p[2]].rg >= 0 /\ B[p[1]].rg # B[p[2]].rg
                                         /\ ~CoversPair(Use(B[p[1]]), Use(B[p[2]]), Rg(B[p[1]]), Rg(B[p[2]]))}
   IN {<<e.t, "CoversUse", B[p[1]].id, B[p[2]].id, BytesMeet(B[p[1]], B[p[2]])>> : p \in bad}
Unranged(e) == {<<e.t, "Unranged", e.bufs[i].id>> : i \in {k \in 1..Len(e.bufs) : e.bufs[k].rg < 0}}
ShapeOk(f) == f.kind = "elem" => (f.isize = f.osize /\ f.idt = f.odt)
ClobberOk(f) ==
   f.kind \in {"elem", "op", "cpu"} =>
      \A k \in 1..Len(f.victims) : ClobberSafe(SeqSet(f.victims[k].readers), f.victims[k].isout, f.op, f.first)
FuseViol(e) ==
   {<<e.t, "FuseSafe", k - 1, "shape">> : k \in {k \in 1..Len(e.fused) : ~ShapeOk(e.fused[k])}}
   \cup {<<e.t, "FuseSafe", k - 1, "clobber">> : k \in {k \in 1..Len(e.fused) : ~ClobberOk(e.fused[k])}}
Init == l = 1 /\ viol = {}
Next == /\ l <= Len(Trace)
        /\ viol' = viol \cup CoverViol(Ev) \cup Unranged(Ev) \cup FuseViol(Ev)
        /\ l' = l + 1
Spec == Init /\ [][Next]_<<l, viol>>
Consumed == TLCGet("stats").diameter = Len(Trace) + 1
Report == l = Len(Trace) + 1 => PrintT(<<"VERDICT", ToJson(viol)>>)
=============================================================================
