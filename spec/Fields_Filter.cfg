SPECIFICATION Spec
CONSTANTS
  OptWriter = "all"
  OptKnown = TRUE
  InWriter = "filter"
  OutWriter = "all"
  CloneKeeps = {"min", "max", "qdim", "peraxis"}
  TableKept = "always"
  CloneQuant = "private"
  MaxIn = 4
INVARIANT OptionRoundTrip
INVARIANT OperandPositions
INVARIANT TensorRoundTrip
INVARIANT WeightRoundTrip
INVARIANT OutputsDeclared
CHECK_DEADLOCK FALSE
