--------------------------- MODULE PartitionTrace ---------------------------
(* Trace validation for C11 (partition part): each line is the pass list one compilation produced in
   pack_into_passes (recorded at build_pass_links, before the compiler's own assertion) and, when the
   compilation got that far, the way extract_subgraph cut it into NPU runs:
     {t, pl: [placement per pass], na: [npu-able per pass], prod: [[producer passes]...],
      esc: [[tensor ids produced by the pass and used outside it]...], decl: [[tensor ids in ps.outputs]...],
      has_runs, runs: [[passes]...], cseq: [pass | -run]}
   passes are numbered 1..m in list order.  The property predicates are the ones model checked in
   Partition.tla.  `drift` collects disagreements between the transcription of extract_subgraph
   (PlaceVec / RunsOf / CSeqOf) and what the code did: model drift is reported, never a violation. *)
EXTENDS Integers, Sequences, FiniteSets, Json, IOUtils, TLC

Trace == ndJsonDeserialize(IOEnv.TRACE_FILE)
P == INSTANCE Partition WITH MaxN <- 0, MinN <- 0, Places <- {}, AllowExtra <- FALSE, MultiOut <- FALSE, SinkSees <- "all",
                             phase <- "trace", n <- 0, ifm <- <<>>, extra <- <<>>, plc <- <<>>, nout <- <<>>, second <- <<>>, list <- <<>>,
                             top <- <<>>, rest <- <<>>, k <- 0, pv <- <<>>, runs <- <<>>, cseq <- <<>>

VARIABLES l, viol, drift
Ev == Trace[l]

Rng(s) == {s[p] : p \in 1..Len(s)}
M(e) == Len(e.pl)
Lst(e) == [p \in 1..M(e) |-> p]
ProdF(e) == [i \in 1..M(e) |-> Rng(e.prod[i])]

EscF(e) == [i \in 1..M(e) |-> Rng(e.esc[i])]
DeclF(e) == [i \in 1..M(e) |-> Rng(e.decl[i])]

Failures(e) ==
      (IF ~P!TopoOrderOf(Lst(e), ProdF(e)) THEN {"TopoOrder"} ELSE {})
 \cup (IF ~P!OutputsDeclaredOf(EscF(e), DeclF(e)) THEN {"OutputsDeclared"} ELSE {})
 \cup (IF e.has_runs /\ ~P!RunsWellFormedOf(Lst(e), e.runs, e.pl, e.na) THEN {"RunsWellFormed"} ELSE {})
 \cup (IF e.has_runs /\ ~P!RunsMaximalOf(Lst(e), e.runs, e.pl, e.na) THEN {"RunsAreMaximal"} ELSE {})
 \cup (IF e.has_runs /\ ~P!CallAtRunStartOf(Lst(e), e.runs, e.cseq) THEN {"CallOpAtRunStart"} ELSE {})
 \cup (IF e.has_runs /\ P!TopoOrderOf(Lst(e), ProdF(e)) /\ ~P!QuotientTopoOf(Lst(e), e.runs, e.cseq, ProdF(e))
       THEN {"QuotientTopo"} ELSE {})

Drift(e) ==
    IF ~e.has_runs THEN {}
    ELSE LET v == P!PlaceVec(Lst(e), e.pl, e.na)
         IN (IF P!RunsOf(v, Lst(e)) # e.runs THEN {"runs"} ELSE {})
       \cup (IF P!CSeqOf(v, Lst(e)) # e.cseq THEN {"cseq"} ELSE {})

Init == l = 1 /\ viol = {} /\ drift = {}
Next == /\ l <= Len(Trace)
        /\ viol' = viol \cup { <<Ev.t, f>> : f \in Failures(Ev) }
        /\ drift' = drift \cup { <<Ev.t, f>> : f \in Drift(Ev) }
        /\ l' = l + 1
Spec == Init /\ [][Next]_<<l, viol, drift>>

Consumed == TLCGet("stats").diameter = Len(Trace) + 1
Report == l = Len(Trace) + 1 => PrintT(<<"VERDICT", ToJson(viol)>>)
ReportDrift == l = Len(Trace) + 1 => PrintT(<<"DRIFT", ToJson(drift)>>)
=============================================================================
