------------------------------ MODULE BlockDep ------------------------------
(* Design-level model check for the block-dependency half of C04.
   A transcription of register_command_stream_util.calc_blockdep / get_offset_block_coords /
   get_first_job_input_volume / get_prev_job_output_volume restricted to the vertical axis (one block
   column, one depth block for the producer; the consumer may have several IFM depth slices per OFM
   block), composed with the pipeline rule A-HW3 of DESIGN.md: with BLOCKDEP = d, job f of the consumer
   and the job k places from the end of the producer can be in flight together iff f + k < d, and the
   only hazard between consecutive kernel operations is a consumer job reading rows a producer job has
   not written yet.
   Every parameter combination is an initial state; the single step computes the BLOCKDEP the
   transcription returns and TLC checks that it is safe.  YPad = "right" is the negative control: the
   defect D5 (IFM y start computed from padding.right).                                                *)
EXTENDS Integers, Sequences, FiniteSets, TLC

CONSTANTS MaxH, YPad, EmitCases, Wide
MAXBD == 3

VARIABLES p, bd, done
vars == <<p, bd, done>>

Min(a, b) == IF a < b THEN a ELSE b
Max(a, b) == IF a > b THEN a ELSE b
CeilDiv(a, b) == (a + b - 1) \div b
RoundUp(a, b) == CeilDiv(a, b) * b

(* parameters: H rows of the shared feature map (producer OFM = consumer IFM), pb producer block height,
   k (dilated) kernel height, s stride, pt/pr pads, cb consumer block height, idb IFM depth slices, uh
   micro-block height *)
NarrowParams == { q \in [H : 1..MaxH, pb : 1..3, k : 1..3, s : 1..2, pt : 0..1, pr : 0..1, cb : 1..3, idb : 1..2, uh : 1..2] :
              /\ q.pt <= q.k - 1
              /\ q.H + q.pt >= q.k }
(* the deep lattice (Wide = TRUE; design level only, not printed as CASE lines): kernels to 5 rows, stride 3, pads to 2,
   blocks to 4 rows, 3 depth slices, micro-block heights 1, 2 and 4 *)
WideParams == { q \in [H : 1..MaxH, pb : 1..4, k : 1..5, s : 1..3, pt : 0..2, pr : 0..2, cb : 1..4, idb : 1..3, uh : {1, 2, 4}] :
              /\ q.pt <= q.k - 1
              /\ q.H + q.pt >= q.k }
Params == IF Wide THEN WideParams ELSE NarrowParams
OfmH(q) == (q.H + q.pt - q.k) \div q.s + 1          \* VALID at the bottom: no pad_bottom needed
CurBlocks(q) == CeilDiv(OfmH(q), q.cb)
PrevBlocks(q) == CeilDiv(q.H, q.pb)

(* ---- transcription ---------------------------------------------------------------------------- *)
IfmBlockH(q) == RoundUp((q.cb - 1) * q.s + Min(8, q.k), q.uh)
PadY(q) == IF YPad = "top" THEN q.pt ELSE q.pr
(* get_first_job_input_volume: rows [y0, y0 + ifm block height) or <<>> when the block does not exist *)
InArea(q, fo) == LET ob == fo \div q.idb IN
                 IF ob >= CurBlocks(q) THEN <<>>
                 ELSE LET y0 == Max(0, ob * q.cb * q.s - PadY(q)) IN <<y0, y0 + IfmBlockH(q)>>
(* get_prev_job_output_volume: block (total - 1 - bo); Python floor semantics for a negative index *)
OutArea(q, bo) == LET idx == PrevBlocks(q) - 1 - bo IN <<idx * q.pb, idx * q.pb + q.pb>>
Intersects(a, b) == Min(a[2], b[2]) - Max(a[1], b[1]) > 0

RECURSIVE Inner(_, _, _, _)
(* inner loop over block_offset; returns the number of outstanding jobs accumulated before the break *)
Inner(q, ia, bo, outstanding) ==
   IF bo >= MAXBD THEN outstanding
   ELSE IF Intersects(ia, OutArea(q, bo)) THEN outstanding
   ELSE IF outstanding > MAXBD THEN outstanding
   ELSE Inner(q, ia, bo + 1, outstanding + 1)

RECURSIVE Outer(_, _, _, _)
Outer(q, fo, elapsed, blockdep) ==
   IF fo >= MAXBD THEN blockdep
   ELSE LET ia == InArea(q, fo) IN
        IF ia = <<>> THEN blockdep
        ELSE LET b2 == Min(blockdep, elapsed + Inner(q, ia, 0, 0))
                 e2 == elapsed + 1
             IN IF e2 > MAXBD THEN b2 ELSE Outer(q, fo + 1, e2, b2)
CalcBlockDep(q) == Outer(q, 0, 0, MAXBD)

(* ---- hardware (A-HW3) ---------------------------------------------------------------------------- *)
(* rows really read by consumer job f (exact receptive field of its OFM block, clipped to the feature map) *)
ReadRows(q, f) == LET ob == f \div q.idb IN
                  IF ob >= CurBlocks(q) THEN {}
                  ELSE LET y0 == ob * q.cb
                           y1 == Min(y0 + q.cb, OfmH(q))
                       IN { r \in 0..q.H - 1 : r >= y0 * q.s - q.pt /\ r < (y1 - 1) * q.s - q.pt + q.k }
(* rows written by the producer job k places from the end *)
WriteRows(q, k) == LET idx == PrevBlocks(q) - 1 - k IN
                   IF idx < 0 THEN {} ELSE { r \in 0..q.H - 1 : r >= idx * q.pb /\ r < idx * q.pb + q.pb }
Safe(q, d) == \A f \in 0..MAXBD - 1, k \in 0..MAXBD - 1 : f + k < d => ReadRows(q, f) \cap WriteRows(q, k) = {}

Init == p \in Params /\ bd = -1 /\ done = FALSE
Calc == ~done /\ bd' = CalcBlockDep(p) /\ done' = TRUE /\ UNCHANGED p
Spec == Init /\ [][Calc]_vars

BlockDepSafe == done => Safe(p, bd)
(* S2C: every parameter point, extended by an independent horizontal stride sx, is printed (EmitCases) and realised by the
   harness as a producer/consumer pair of real operations through the public generator; the emitted BLOCKDEP is then judged
   by NpuExecTrace.  The design-level verdict above is about the transcription, this binds the same lattice to the code. *)
Cases == (EmitCases /\ ~done) => PrintT(<<"CASE", p.H, p.pb, p.k, p.s, p.pt, p.pr, p.cb, p.idb, p.uh>>)
(* non-vacuity witnesses: the transcription does return every value 0..3 somewhere *)
NeverThree == ~(done /\ bd = 3)
NeverZero == ~(done /\ bd = 0)
=============================================================================
