SPECIFICATION Spec
CONSTANTS MaxN = 5
 Kinds <- KindsFull
 Heights = {12}
 Limits = {6, 12, 20, 30, 50}
 NLs = {0, 4}
 Modes = {"perf", "size", "perf_spill", "size_spill"}
 Cmp = "limit"
 DelOld = TRUE
INVARIANT CascadesPartition
INVARIANT StripeWithinOfm
INVARIANT BuffersForNonFirst
INVARIANT BuffersHoldProducerStripe
INVARIANT WithinLimitOrMin
INVARIANT MaxOnlyIfFits
INVARIANT StepwiseIsBuild
INVARIANT SpillCascadeWithinLimit
CHECK_DEADLOCK FALSE
