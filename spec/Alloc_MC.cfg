SPECIFICATION Spec
CONSTANT MaxN = 3
CONSTANT T = 2
CONSTANT Sizes = {16, 48}
CONSTANT Aligns = {16, 32}
CONSTANT Eqs = {0}
CONSTANT MaxAddr = 96
CONSTANT AddrStep = 16
PROPERTY SpecR
INVARIANT TypeOK
INVARIANT InvNoOverlapLive
INVARIANT InvAligned
INVARIANT InvTotalOK
INVARIANT InvAboveLowerBound
INVARIANT LemmaFits
INVARIANT LemmaBound
INVARIANT LemmaPeak
CHECK_DEADLOCK FALSE
