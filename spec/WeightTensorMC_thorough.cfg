SPECIFICATION Spec
CONSTANT MaxN = 12
CONSTANT BlockDepths = {2, 4, 8, 16}
INVARIANT LayoutOK
INVARIANT CoverageOK
INVARIANT DoubleBufferOK
CHECK_DEADLOCK FALSE
