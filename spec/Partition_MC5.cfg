SPECIFICATION Spec
CONSTANT MaxN = 5
CONSTANT MinN = 1
CONSTANT Places = {"Cpu", "Npu", "MemN"}
CONSTANT MultiOut = FALSE
CONSTANT SinkSees = "all"
CONSTANT AllowExtra = FALSE
INVARIANT TypeOK
INVARIANT TopoOrder
INVARIANT StartupFirst
INVARIANT QuotientTopo
INVARIANT RunsWellFormed
INVARIANT RunsAreMaximal
INVARIANT CallOpAtRunStart
INVARIANT RunsBounded
CHECK_DEADLOCK FALSE
