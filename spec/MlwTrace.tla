----------------------------- MODULE MlwTrace -----------------------------
(* Trace validation for C07: one TLC run validates a batch of observations recorded from the C
   code of the working tree (ethosu.mlw_codec built by harness/codec.py, gcc and clang+ASan/UBSan).
   Line kinds
     vol      {t, cfg, w, outcome, dec, len}           api.npu_encode_weights on a volume
     raw      {t, w, outcome, dec, len}                mlw_codec.encode on one sequence
     rawgroup {t, prefix, alpha, maxsuf, cases}        exhaustive family: every sequence prefix \o s with
                                                       s over alpha, Len(s) <= maxsuf; cases = <<w, outcome, dec, len>>
     rawhdr   {t, alpha, plen, maxsuf, firsts, short}  announces which rawgroups the batch must contain
     rawend   {t}                                      closes the family: coverage is checked here
     xcheck   {t, cfg, order}                          Python rendering of Order(cfg) (harness/weight_order.py)
   viol accumulates <<t, clause>> (and <<t, clause, k>> for case k of a group). *)
EXTENDS MlwStream, Json, IOUtils

Trace == ndJsonDeserialize(IOEnv.TRACE_FILE)

VARIABLES l, viol, hdr, seen
vars == <<l, viol, hdr, seen>>

Ev == Trace[l]
Set(s) == {s[k] : k \in 1..Len(s)}

Cfg(j) == [od |-> j.od, kh |-> j.kh, kw |-> j.kw, id |-> j.id,
           iub |-> UBlocks(j.acc)[1], oub |-> UBlocks(j.acc)[2], oblk |-> j.oblk, trav |-> j.trav,
           bits |-> j.bits, dily |-> j.dily, dilx |-> j.dilx]
KnownAcc(j) == j.acc \in Accelerators

Seqs(alpha, n) == UNION {[1..m -> alpha] : m \in 0..n}

GroupFailures(e) ==
    LET want == {e.prefix \o s : s \in Seqs(Set(e.alpha), e.maxsuf)}
        got == {e.cases[k][1] : k \in 1..Len(e.cases)}
    IN (IF got = want /\ Len(e.cases) = Cardinality(want) THEN {} ELSE {<<e.t, "ExhaustiveGroup">>})
       \cup UNION {{<<e.t, f, k>> : f \in RawClauses(e.cases[k][1], e.cases[k][2], e.cases[k][3], e.cases[k][4])}
                   : k \in 1..Len(e.cases)}

(* the groups a header promises: every prefix of length plen starting with a letter of firsts,
   plus the group <<>> of all sequences shorter than plen when short is set *)
Promised(h) == {p \in [1..h.plen -> Set(h.alpha)] : p[1] \in Set(h.firsts)}
               \cup (IF h.short THEN {<<>>} ELSE {})
(* does group e belong to the family announced by h: a full-length prefix with the announced suffix
   bound, or the group of all sequences shorter than the prefix length *)
Belongs(e, h) == /\ e.alpha = h.alpha
                 /\ \/ Len(e.prefix) = h.plen /\ e.maxsuf = h.maxsuf
                    \/ Len(e.prefix) = 0 /\ e.maxsuf = h.plen - 1

Failures(e) ==
    CASE e.kind = "vol" ->
           IF ~KnownAcc(e.cfg) THEN {<<e.t, "MalformedObservation">>}
           ELSE {<<e.t, f>> : f \in VolumeClauses(Cfg(e.cfg), e.w, e.outcome, e.dec, e.len)}
      [] e.kind = "raw" -> {<<e.t, f>> : f \in RawClauses(e.w, e.outcome, e.dec, e.len)}
      [] e.kind = "rawgroup" -> GroupFailures(e)
      [] e.kind = "xcheck" -> IF KnownAcc(e.cfg) /\ e.order = Order(Cfg(e.cfg)) THEN {}
                              ELSE {<<e.t, "PyOrderMatchesSpec">>}
      [] e.kind = "rawend" ->
           IF hdr = <<>> THEN {<<e.t, "MalformedObservation">>}
           ELSE IF seen = Promised(hdr[1]) THEN {} ELSE {<<e.t, "ExhaustiveFamily">>}
      [] OTHER -> {}

Init == l = 1 /\ viol = {} /\ hdr = <<>> /\ seen = {}
Next == /\ l <= Len(Trace)
        /\ viol' = viol \cup Failures(Ev)
        /\ hdr' = IF Ev.kind = "rawhdr" THEN <<Ev>> ELSE hdr
        /\ seen' = CASE Ev.kind = "rawhdr" -> {}
                     [] Ev.kind = "rawgroup" /\ hdr # <<>> /\ Belongs(Ev, hdr[1]) -> seen \cup {Ev.prefix}
                     [] OTHER -> seen
        /\ l' = l + 1
Spec == Init /\ [][Next]_vars

Consumed == TLCGet("stats").diameter = Len(Trace) + 1
Report == l = Len(Trace) + 1 => PrintT(<<"VERDICT", ToJson(viol)>>)
=============================================================================
