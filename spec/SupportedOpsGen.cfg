SPECIFICATION Spec
CONSTANT WithPairs = FALSE
INVARIANT NominalOnNpu
INVARIANT PairsAreCpu
INVARIANT WellFormed
INVARIANT Emit
CHECK_DEADLOCK FALSE
