SPECIFICATION Spec
CONSTANT WithPairs = FALSE
INVARIANT Emit
CHECK_DEADLOCK FALSE
