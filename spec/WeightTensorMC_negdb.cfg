SPECIFICATION Spec
CONSTANT MaxN = 5
CONSTANT BlockDepths = {8}
INVARIANT BrokenDoubleBuffer
CHECK_DEADLOCK FALSE
