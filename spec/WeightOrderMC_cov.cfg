SPECIFICATION Spec
CONSTANT OfmDepths = {9}
CONSTANT IfmDepths = {1, 17}
CONSTANT KernelHs = {1}
CONSTANT KernelWs = {2}
CONSTANT Decomposing = TRUE
CONSTANT BlockDepths = {4, 8}
INVARIANT OrderIsBijection
CHECK_DEADLOCK FALSE
