-------------------------- MODULE WaitDepInd_Apa --------------------------
(* Apalache entry points for the inductive proof of WaitDepInd (constants, generator-based initial predicate,
   non-vacuity witness).  Kept apart so that TLC can load WaitDepInd.tla without the Apalache module. *)
EXTENDS WaitDepInd, Apalache

CInitU65 == Cells = {1, 2, 3} /\ MaxDma = 2 /\ MaxKern = 2 /\ N = 0 /\ SingletonOps = FALSE /\ KernelWatermarkSlack = 0
CInitU55 == Cells = {1, 2, 3} /\ MaxDma = 1 /\ MaxKern = 2 /\ N = 0 /\ SingletonOps = FALSE /\ KernelWatermarkSlack = 0

CInitU65Cells4 == Cells = {1, 2, 3, 4} /\ MaxDma = 2 /\ MaxKern = 2 /\ N = 0 /\ SingletonOps = FALSE /\ KernelWatermarkSlack = 0
CInitBroken == Cells = {1, 2, 3} /\ MaxDma = 2 /\ MaxKern = 2 /\ N = 0 /\ SingletonOps = FALSE /\ KernelWatermarkSlack = 1
\* non-vacuity witnesses: IndInit admits states with both queues full while an operation is pending (expected to be VIOLATED)
WitnessFull == ~(Len(kq) = MaxKern /\ Len(dq) = MaxDma /\ phase = "kwait" /\ kw = 1 /\ cur.kind = "d")

\* initial predicate of the inductive step: any state satisfying the invariant
IndInit == /\ gd = Gen(4) /\ gn = Gen(4) /\ kq = Gen(4) /\ dq = Gen(4)
           /\ phase = Gen(1) /\ cur = Gen(4) /\ kw = Gen(1) /\ dw = Gen(1) /\ cnt = Gen(1)
           /\ IndInv
===========================================================================
