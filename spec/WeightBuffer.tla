----------------------------- MODULE WeightBuffer -----------------------------
(* Growth beyond the listed properties: SRAM weight buffering decided by the scheduler
   (scheduler.py propose_weight_buffering / buffer_tensor, weight_compressor double_buffer_sizes).
   The encoded weights of an operator are cut into depth slices of sizes S[1..n] (bytes, multiples of 16).  Slice i is
   DMA'd into buffer (i-1) mod nbuf before the stripe that uses it.  The scheduler chooses
      none    - weights are read in place,
      single  - one buffer receiving every slice,
      double  - two buffers, slices alternate,
   from the limit of fast storage available for weights.
   Property Fits: every slice fits the buffer it is DMA'd into.
   SingleSize = "max_range" is the code after the repair of J1; "even_slices" is the defect (the single buffer sized like
   the first buffer of a double-buffering scheme: largest even-numbered slice only) and serves as negative control. *)
EXTENDS Integers, Sequences, FiniteSets, TLC
CONSTANTS Sizes, MaxSlices, Limits, SingleSize
VARIABLES inst, decision
vars == <<inst, decision>>

RECURSIVE MaxOf(_)
MaxOf(S) == IF S = {} THEN 0 ELSE LET x == CHOOSE x \in S : TRUE IN LET m == MaxOf(S \ {x}) IN IF x > m THEN x ELSE m
RECURSIVE Sum(_, _)
Sum(s, i) == IF i = 0 THEN 0 ELSE s[i] + Sum(s, i - 1)
Parity(s, p) == MaxOf({s[i] : i \in {j \in 1..Len(s) : (j - 1) % 2 = p}})

(* transcription of the decision *)
Decide(s, limit) ==
   LET total == Sum(s, Len(s))
       maxRange == MaxOf({s[i] : i \in 1..Len(s)})
       dbl == <<Parity(s, 0), Parity(s, 1)>>
       wbs == IF total < maxRange THEN total ELSE maxRange
   IN IF wbs > limit THEN [kind |-> "none", bufs |-> <<>>]
      ELSE IF dbl[1] + dbl[2] <= limit /\ wbs < total THEN [kind |-> "double", bufs |-> dbl]
      ELSE [kind |-> "single", bufs |-> <<IF SingleSize = "max_range" THEN maxRange ELSE dbl[1]>>]

Insts == {[s |-> s, limit |-> l] : s \in UNION {[1..n -> Sizes] : n \in 1..MaxSlices}, l \in Limits}
Init == inst \in Insts /\ decision = [kind |-> "undecided", bufs |-> <<>>]
Choose == decision.kind = "undecided" /\ decision' = Decide(inst.s, inst.limit) /\ UNCHANGED inst
Spec == Init /\ [][Choose]_vars

FitsBufs(s, bufs) == Len(bufs) > 0 => \A i \in 1..Len(s) : s[i] <= bufs[((i - 1) % Len(bufs)) + 1]
Fits == decision.kind \in {"single", "double"} => FitsBufs(inst.s, decision.bufs)
WithinBudget == decision.kind \in {"single", "double"} => Sum(decision.bufs, Len(decision.bufs)) <= inst.limit
=============================================================================
