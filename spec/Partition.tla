----------------------------- MODULE Partition -----------------------------
(* C11, design level: how Vela orders the passes of a mixed CPU/NPU graph and cuts it
   into NPU subgraphs.

   A graph is a set of passes 1..n (one operator each, id order = the order in which
   pack_into_passes emitted them, which is a topological order by construction) plus
   pass 0 = the start-up pass (graph inputs and constants).  ifm[i] is the set of
   passes that produce the IFM / IFM2 operands of pass i, extra[i] the producers of
   any *other* data operand (third operand of a CPU operator, dynamic weights).
   pl[i] is the placement {Cpu, Npu, Mem}; na[i] tells whether a memory-only pass
   may run on the NPU (ops[0].run_on_npu).

   The actions transcribe
     pass_packing.pack_into_passes  : rule 1 (FilterTop) and rule 2 (SinkStep, with the
                                      reversed()-iterator-over-a-mutated-list semantics),
     extract_npu_subgraphs.extract_subgraph : forward / backward absorption of memory-only
                                      passes (Absorb) and run splitting (Split).
   The property-level predicates (TopoOrderOf, QuotientTopoOf, RunsWellFormedOf,
   RunsMaximalOf, CallAtRunStartOf) take the structures as arguments so that the trace
   specification PartitionTrace applies the very same definitions to pass lists recorded
   from the real compiler. *)
EXTENDS Integers, Sequences, FiniteSets, TLC

CONSTANTS MaxN,        \* number of passes besides the start-up pass
          MinN,        \* smallest graph that is partitioned (1 for model checking; larger to steer -simulate)
          Places,      \* subset of {"Cpu", "Npu", "MemN", "MemC"}
          AllowExtra,  \* TRUE: CPU passes may have a data operand that is neither IFM nor IFM2
          MultiOut,    \* TRUE: a CPU pass may hold an operator with two outputs (third-party custom operator, TOPK_V2,
                       \*       UNIQUE, SPLIT kept on the CPU ...); a consumer reads the first output, or ONLY the second one
          SinkSees     \* "all": the sink rule asks whether the next pass reads ANY output of the CPU pass (the compiler);
                       \* "first": it asks about the first output only (a regression; negative control: TopoOrder fails)

\* nout[i] = number of outputs of the operator of pass i; second[i] = the producers p (nout[p] = 2) among ifm[i] \cup extra[i]
\* of which pass i reads the second output and not the first
VARIABLES phase, n, ifm, extra, plc, nout, second, list, top, rest, k, pv, runs, cseq

vars == <<phase, n, ifm, extra, plc, nout, second, list, top, rest, k, pv, runs, cseq>>

---------------------------------------------------------------------------
(* ---------- pure operators shared with the trace specification ---------- *)

Pos(s, x) == CHOOSE p \in 1..Len(s) : s[p] = x
Range(s) == {s[p] : p \in 1..Len(s)}

\* placement / npu-able views of the MC placement alphabet
PlOf(c) == IF c \in {"MemN", "MemC"} THEN "Mem" ELSE c
NaOf(c) == c \in {"Npu", "MemN"}

\* every pass comes after the passes producing its operands.  Prod(i) = set of producer passes.
TopoOrderOf(lst, prod) ==
    \A a, b \in 1..Len(lst) : lst[a] \in prod[lst[b]] => a < b

\* every tensor a pass produces that somebody outside the pass uses (an operator of another pass, or the subgraph
\* as its output) is one of the outputs the pass declares: the links between passes, the live ranges and the cut of
\* NPU subgraphs (extract_subgraph walks ps.outputs) are all computed from the declared outputs.
\* esc[i] / decl[i] = sets of tensor ids escaping from / declared by pass i.
OutputsDeclaredOf(esc, decl) == \A i \in DOMAIN esc : esc[i] \subseteq decl[i]

\* ---- extract_subgraph: place vector after the two absorption sweeps -----------------
\* Pl(i) in {"Cpu","Npu","Mem","Startup"}, Na(i) BOOLEAN, evaluated on the passes of lst
RECURSIVE Sweep(_, _, _, _, _)
Sweep(v, idxs, last, na, lst) ==
    IF idxs = <<>> THEN v
    ELSE LET p == Head(idxs)
             conv == v[p] = "Mem" /\ na[lst[p]] /\ last = "Npu"
             here == IF conv THEN "Npu" ELSE v[p]
             nl == IF here # "Mem" THEN here ELSE last
         IN Sweep([v EXCEPT ![p] = here], Tail(idxs), nl, na, lst)

PlaceVec(lst, pl, na) ==
    LET m == Len(lst)
        v0 == [p \in 1..m |-> IF pl[lst[p]] = "Startup" THEN "Cpu" ELSE pl[lst[p]]]
        fw == Sweep(v0, [p \in 1..m |-> p], "Cpu", na, lst)
        bw == Sweep(fw, [p \in 1..m |-> m + 1 - p], "Cpu", na, lst)
    IN [p \in 1..m |-> IF bw[p] = "Mem" THEN "Cpu" ELSE bw[p]]

\* maximal segments of consecutive "Npu" positions, as a sequence of sequences of passes
RECURSIVE RunsFrom(_, _, _, _)
RunsFrom(v, lst, p, acc) ==
    IF p > Len(lst) THEN acc
    ELSE IF v[p] # "Npu" THEN RunsFrom(v, lst, p + 1, acc)
    ELSE IF p > 1 /\ v[p - 1] = "Npu"
         THEN RunsFrom(v, lst, p + 1, [acc EXCEPT ![Len(acc)] = Append(@, lst[p])])
         ELSE RunsFrom(v, lst, p + 1, Append(acc, <<lst[p]>>))
RunsOf(v, lst) == RunsFrom(v, lst, 1, <<>>)

\* the CPU-level sequence: CPU passes in order, a call marker -r at the place of the first pass of run r
RECURSIVE CSeqFrom(_, _, _, _, _)
CSeqFrom(v, lst, p, r, acc) ==
    IF p > Len(lst) THEN acc
    ELSE IF v[p] # "Npu" THEN CSeqFrom(v, lst, p + 1, r, Append(acc, lst[p]))
    ELSE IF p > 1 /\ v[p - 1] = "Npu" THEN CSeqFrom(v, lst, p + 1, r, acc)
    ELSE CSeqFrom(v, lst, p + 1, r + 1, Append(acc, 0 - (r + 1)))
CSeqOf(v, lst) == CSeqFrom(v, lst, 1, 0, <<>>)

\* ---- property-level predicates on (lst, runs, cseq) --------------------------------
RunIdx(rs, i) == IF \E r \in 1..Len(rs) : i \in Range(rs[r])
                 THEN CHOOSE r \in 1..Len(rs) : i \in Range(rs[r]) ELSE 0
\* position of pass i's group in the CPU-level sequence (0 if it has none)
GPos(cs, rs, i) ==
    LET r == RunIdx(rs, i)
        key == IF r = 0 THEN i ELSE 0 - r
    IN IF key \in Range(cs) THEN Pos(cs, key) ELSE 0

\* every pass belongs to exactly one group and groups respect the data dependencies
QuotientTopoOf(lst, rs, cs, prod) ==
    /\ \A p \in 1..Len(lst) : GPos(cs, rs, lst[p]) # 0
    /\ \A a, b \in 1..Len(lst) :
          (lst[a] \in prod[lst[b]] /\ GPos(cs, rs, lst[a]) # GPos(cs, rs, lst[b]))
             => GPos(cs, rs, lst[a]) < GPos(cs, rs, lst[b])

\* runs: non-empty, pairwise disjoint, contiguous in lst, made of NPU or npu-able memory-only passes,
\* and every NPU pass is in a run
RunsWellFormedOf(lst, rs, pl, na) ==
    /\ \A r \in 1..Len(rs) : Len(rs[r]) >= 1
    /\ \A r, s \in 1..Len(rs) : r # s => Range(rs[r]) \cap Range(rs[s]) = {}
    /\ \A r \in 1..Len(rs) : \A q \in 1..Len(rs[r]) :
          /\ rs[r][q] \in Range(lst)
          /\ Pos(lst, rs[r][q]) = Pos(lst, rs[r][1]) + q - 1
          /\ \/ pl[rs[r][q]] = "Npu"
             \/ pl[rs[r][q]] = "Mem" /\ na[rs[r][q]]
    /\ \A p \in 1..Len(lst) : pl[lst[p]] = "Npu" => RunIdx(rs, lst[p]) # 0

\* two runs are never adjacent, and an npu-able memory-only pass left on the CPU has no NPU neighbour
RunsMaximalOf(lst, rs, pl, na) ==
    /\ \A p \in 1..(Len(lst) - 1) :
          LET a == RunIdx(rs, lst[p])
              b == RunIdx(rs, lst[p + 1])
          IN (a # 0 /\ b # 0) => a = b
    /\ \A p \in 1..Len(lst) :
          (pl[lst[p]] = "Mem" /\ na[lst[p]] /\ RunIdx(rs, lst[p]) = 0) =>
             /\ p > 1 => RunIdx(rs, lst[p - 1]) = 0
             /\ p < Len(lst) => RunIdx(rs, lst[p + 1]) = 0

\* the call operator of run r stands exactly where the first pass of the run stood among the CPU passes
CallAtRunStartOf(lst, rs, cs) ==
    \A r \in 1..Len(rs) :
       /\ (0 - r) \in Range(cs)
       /\ \A p \in 1..Len(lst) :
            LET i == lst[p] IN
            (RunIdx(rs, i) = 0 /\ i \in Range(cs)) =>
               (Pos(cs, i) < Pos(cs, 0 - r) <=> p < Pos(lst, rs[r][1]))

---------------------------------------------------------------------------
(* ------------------------------ the machine ------------------------------ *)

Nodes == 1..n
Prod(i) == IF i = 0 THEN {} ELSE ifm[i] \cup extra[i]
Pl(i) == IF i = 0 THEN "Startup" ELSE PlOf(plc[i])
Na(i) == IF i = 0 THEN FALSE ELSE NaOf(plc[i])
prodF == [i \in 0..n |-> Prod(i)]
plF == [i \in 0..n |-> Pl(i)]
naF == [i \in 0..n |-> Na(i)]

Init == /\ phase = "build" /\ n = 0
        /\ ifm = <<>> /\ extra = <<>> /\ plc = <<>> /\ nout = <<>> /\ second = <<>>
        /\ list = <<0>> /\ top = <<>> /\ rest = <<>> /\ k = 0
        /\ pv = <<>> /\ runs = <<>> /\ cseq = <<>>

\* pack_into_passes emits passes in a topological order: pass n+1 may use any earlier pass
AddNode ==
    /\ phase = "build" /\ n < MaxN
    /\ \E P \in SUBSET (0..n), c \in Places :
         /\ Cardinality(P) \in 1..2
         /\ \E E \in SUBSET ((0..n) \ P) :
              /\ Cardinality(E) <= (IF AllowExtra /\ c = "Cpu" THEN 1 ELSE 0)
              /\ ifm' = Append(ifm, P) /\ extra' = Append(extra, E) /\ plc' = Append(plc, c)
              /\ \E o \in (IF MultiOut /\ c = "Cpu" THEN {1, 2} ELSE {1}) : nout' = Append(nout, o)
              /\ \E S \in SUBSET {p \in (P \cup E) \ {0} : nout[p] = 2} : second' = Append(second, S)
    /\ n' = n + 1
    /\ list' = Append(list, n + 1)
    /\ UNCHANGED <<phase, top, rest, k, pv, runs, cseq>>

\* rule 1: CPU passes whose IFM and IFM2 are graph inputs go to the top (sorted by operator index)
IsTop(i) == plc[i] = "Cpu" /\ ifm[i] = {0}
FilterTop ==
    /\ phase = "build" /\ n >= MinN
    /\ LET ids == [p \in 1..n |-> p]
           t == SelectSeq(ids, IsTop)
           r == SelectSeq(ids, LAMBDA i : ~IsTop(i))
       IN /\ top' = <<0>> \o t /\ rest' = r /\ list' = <<0>> \o t \o r
          /\ k' = Len(r)
    /\ phase' = "sink"
    /\ UNCHANGED <<n, ifm, extra, plc, nout, second, pv, runs, cseq>>

\* rule 2, one iteration of `for cpu_ps in reversed(pass_list)`: the iterator holds an index, the list
\* is mutated in place; moves only go towards higher indices so positions below the cursor are stable.
RemoveAt(s, p) == SubSeq(s, 1, p - 1) \o SubSeq(s, p + 1, Len(s))
InsertAt(s, p, x) == SubSeq(s, 1, p - 1) \o <<x>> \o SubSeq(s, p, Len(s))
\* does the sink rule see that pass nx reads what CPU pass c produces?
SeenReading(nx, c) == c \in ifm[nx] /\ (SinkSees = "all" \/ c \notin second[nx])
RECURSIVE Scan(_, _, _)
Scan(s, c, j) ==           \* c = s[kk], j walks kk+1 .. Len(s)
    IF j > Len(s) THEN s
    ELSE LET nx == s[j] IN
         IF Pl(nx) = "Cpu" THEN InsertAt(RemoveAt(s, Pos(s, c)), j - 1, c)       \* move in front of the next CPU pass
         ELSE IF SeenReading(nx, c) \/ Pl(nx) = "Mem" THEN s                         \* blocked
         ELSE IF j = Len(s) THEN Append(RemoveAt(s, Pos(s, c)), c)               \* last element: move to the end
         ELSE Scan(s, c, j + 1)
SinkStep ==
    /\ phase = "sink" /\ k >= 1
    /\ LET c == rest[k] IN
       rest' = IF Pl(c) = "Cpu" THEN Scan(rest, c, k + 1) ELSE rest
    /\ list' = top \o rest'
    /\ k' = k - 1
    /\ UNCHANGED <<phase, n, ifm, extra, plc, nout, second, top, pv, runs, cseq>>
SinkDone ==
    /\ phase = "sink" /\ k = 0
    /\ phase' = "absorb"
    /\ UNCHANGED <<n, ifm, extra, plc, nout, second, list, top, rest, k, pv, runs, cseq>>

Absorb ==
    /\ phase = "absorb"
    /\ pv' = PlaceVec(list, plF, naF)
    /\ phase' = "split"
    /\ UNCHANGED <<n, ifm, extra, plc, nout, second, list, top, rest, k, runs, cseq>>

Split ==
    /\ phase = "split"
    /\ runs' = RunsOf(pv, list)
    /\ cseq' = CSeqOf(pv, list)
    /\ phase' = "done"
    /\ UNCHANGED <<n, ifm, extra, plc, nout, second, list, top, rest, k, pv>>

Next == AddNode \/ FilterTop \/ SinkStep \/ SinkDone \/ Absorb \/ Split
Spec == Init /\ [][Next]_vars

---------------------------------------------------------------------------
(* ------------------------------ invariants ------------------------------ *)
TypeOK == /\ phase \in {"build", "sink", "absorb", "split", "done"}
          /\ n \in 0..MaxN /\ Len(ifm) = n /\ Len(plc) = n /\ Len(extra) = n /\ Len(nout) = n /\ Len(second) = n
          /\ \A i \in 1..n : nout[i] \in 1..2 /\ second[i] \subseteq (ifm[i] \cup extra[i])
          /\ Range(list) = 0..n /\ Len(list) = n + 1

TopoOrder == TopoOrderOf(list, prodF)                     \* at every step
StartupFirst == list[1] = 0
QuotientTopo == phase = "done" => QuotientTopoOf(list, runs, cseq, prodF)
RunsWellFormed == phase = "done" => RunsWellFormedOf(list, runs, plF, naF)
RunsAreMaximal == phase = "done" => RunsMaximalOf(list, runs, plF, naF)
CallOpAtRunStart == phase = "done" => CallAtRunStartOf(list, runs, cseq)
\* sinking never separates a CPU pass from the graph more than grouping allows: number of runs never
\* exceeds the number of NPU-placed passes (sanity / non-vacuity helper)
RunsBounded == phase = "done" => Len(runs) <= Cardinality({i \in Nodes : NaOf(plc[i])})
=============================================================================
