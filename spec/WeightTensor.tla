---------------------------- MODULE WeightTensor ----------------------------
(* Layout of the constant tensor Vela assembles for one convolution-like operator
   (property C08).  Inputs of the layout:
       n    OFM depth (number of output channels)
       nc   number of NPU cores (1, or 2 on Ethos-U65-512)
       D    list of depth slices  <<0 = D[1] < D[2] < ... < D[m+1] = n>>  (slice i = channels D[i] .. D[i+1]-1)
       B    OFM block depth of the block configuration
   The tensor is a byte stream with one range per (core, slice).  A range has a scale section
   (one 10-byte record per output channel of that core in that slice, in channel order), zero
   padding to a 16-byte boundary, and a weight section (an MLW stream, a multiple of 16 bytes).
   Channels of a slice are dealt to the cores round-robin: core c gets D[i]+c, D[i]+c+nc, ...
   Slices follow each other in stream order, cores inside a slice in core order.  For weight
   double buffering, slice i (0-based) is fetched into buffer i mod 2.                       *)
EXTENDS Integers, Sequences, FiniteSets, TLC

Round16(x) == ((x + 15) \div 16) * 16
NSlices(D) == Len(D) - 1

WellFormedSlices(n, D) == /\ Len(D) >= 2 /\ D[1] = 0 /\ D[Len(D)] = n
                          /\ \A i \in 1..(Len(D) - 1) : D[i] < D[i + 1]

(* per-core share of the OFM block depth; a core whose share is 0 takes no part *)
CoreBlockDepth(B, nc, core) == (B + nc - 1 - core) \div nc
Cores(n, nc, B) == {core \in 0..(nc - 1) : core < n /\ CoreBlockDepth(B, nc, core) # 0}

(* channels of slice i handled by `core`, in order *)
Channels(D, nc, core, i) ==
    LET len == D[i + 1] - D[i]
        cnt == IF core >= len THEN 0 ELSE (len - core + nc - 1) \div nc
    IN [k \in 1..cnt |-> D[i] + core + (k - 1) * nc]

(* keys of the ranges, in stream order: <<core, first channel of the slice>> *)
KeySeq(n, nc, D, B) ==
    LET cs == Cores(n, nc, B)
        perSlice(i) == [k \in 1..Cardinality(cs) |-> <<CHOOSE c \in cs : Cardinality({x \in cs : x < c}) = k - 1, D[i]>>]
        RECURSIVE cat(_)
        cat(i) == IF i > NSlices(D) THEN <<>> ELSE perSlice(i) \o cat(i + 1)
    IN cat(1)
SliceOfKey(D, key) == CHOOSE i \in 1..NSlices(D) : D[i] = key[2]

(* ---- channel coverage: the (core, slice) cells partition the output channels ---------- *)
ChannelCoverage(n, nc, D, B) ==
    LET keys == KeySeq(n, nc, D, B)
        chans(k) == Channels(D, nc, keys[k][1], SliceOfKey(D, keys[k]))
        owners(ch) == {k \in 1..Len(keys) : \E j \in 1..Len(chans(k)) : chans(k)[j] = ch}
    IN \A ch \in 0..(n - 1) : Cardinality(owners(ch)) = 1

(* ---- a 10-byte scale record: 40-bit bias, 32-bit multiplier, 6-bit shift, little endian ----
   bias and multiplier arrive as 16-bit limbs (TLC integers are 32 bit):
   bias = <<bits 0-15, bits 16-31, bits 32-39>> of the two's complement 40-bit value,
   mult = <<bits 0-15, bits 16-31>>                                                       *)
Record(bias, mult, shift) ==
    <<bias[1] % 256, bias[1] \div 256, bias[2] % 256, bias[2] \div 256, bias[3] % 256,
      mult[1] % 256, mult[1] \div 256, mult[2] % 256, mult[2] \div 256, shift % 64>>
WellFormedRecordInput(bias, mult, shift) ==
    /\ bias[1] \in 0..65535 /\ bias[2] \in 0..65535 /\ bias[3] \in 0..255
    /\ mult[1] \in 0..65535 /\ mult[2] \in 0..65535 /\ shift \in 0..63

RECURSIVE ConcatAll(_)
ConcatAll(ss) == IF Len(ss) = 0 THEN <<>> ELSE Head(ss) \o ConcatAll(Tail(ss))

(* the scale section of (core, slice i): recs[ch + 1] is the 10-byte record of channel ch *)
ScaleSection(recs, D, nc, core, i) ==
    LET ch == Channels(D, nc, core, i) IN ConcatAll([k \in 1..Len(ch) |-> recs[ch[k] + 1]])

(* ---- observed ranges: records [core, depth, index, offset, scale_bytes, weight_offset, weight_bytes] *)
(* a range of a scales-only tensor has no weight section: its extent is the padded scale section *)
Extent(r) == IF r.weight_bytes = 0 THEN Round16(r.scale_bytes) ELSE r.weight_offset + r.weight_bytes
End(r) == r.offset + Extent(r)

KeyedByCoreAndSlice(rs, n, nc, D, B) ==
    LET keys == KeySeq(n, nc, D, B)
    IN /\ Len(rs) = Len(keys)
       /\ \A k \in 1..Len(rs) : <<rs[k].core, rs[k].depth>> = keys[k]      \* listed in stream order
RangesAligned16(rs) == \A k \in 1..Len(rs) : /\ rs[k].offset % 16 = 0
                                        /\ rs[k].weight_offset % 16 = 0    \* weight section starts aligned
                                        /\ rs[k].weight_bytes % 16 = 0
Disjoint(rs) == \A a, b \in 1..Len(rs) : a # b => (End(rs[a]) <= rs[b].offset \/ End(rs[b]) <= rs[a].offset)
InStreamOrder(rs, buflen) ==
    /\ \A k \in 1..Len(rs) : rs[k].index = k - 1
    /\ \A k \in 1..(Len(rs) - 1) : End(rs[k]) <= rs[k + 1].offset
    /\ \A k \in 1..Len(rs) : rs[k].offset >= 0 /\ End(rs[k]) <= buflen
SectionsInsideRange(rs) == \A k \in 1..Len(rs) : /\ rs[k].scale_bytes >= 0 /\ rs[k].weight_bytes >= 0
                                                  /\ (rs[k].weight_bytes > 0 => rs[k].scale_bytes <= rs[k].weight_offset)

(* bytes of slice i = what one weight DMA of that slice brings into its buffer *)
SliceBytes(rs, D, i) ==
    LET idx == {k \in 1..Len(rs) : rs[k].depth = D[i]}
        RECURSIVE sum(_)
        sum(S) == IF S = {} THEN 0 ELSE LET k == CHOOSE x \in S : TRUE IN Round16(Extent(rs[k])) + sum(S \ {k})
    IN sum(idx)
DoubleBufferBound(rs, D, db) == \A i \in 1..NSlices(D) : db[((i - 1) % 2) + 1] >= SliceBytes(rs, D, i)

(* ---- design-level model: Vela's assembly loop over abstract section sizes --------------------
   The loop appends, per slice and per core, [scales][pad16][weights]; weight streams are
   multiples of 16 bytes (C07).  wsize(core, i) is an arbitrary such size.                     *)
Assemble(n, nc, D, B, wsize(_, _)) ==
    LET keys == KeySeq(n, nc, D, B)
        sb(k) == 10 * Len(Channels(D, nc, keys[k][1], SliceOfKey(D, keys[k])))
        ext(k) == Round16(sb(k)) + wsize(keys[k][1], SliceOfKey(D, keys[k]))
        RECURSIVE off(_)
        off(k) == IF k = 1 THEN 0 ELSE off(k - 1) + ext(k - 1)
    IN [k \in 1..Len(keys) |->
          [core |-> keys[k][1], depth |-> keys[k][2], index |-> k - 1, offset |-> off(k), scale_bytes |-> sb(k),
           weight_offset |-> Round16(sb(k)), weight_bytes |-> wsize(keys[k][1], SliceOfKey(D, keys[k]))]]
BufLen(rs) == IF Len(rs) = 0 THEN 0 ELSE End(rs[Len(rs)])
DoubleBufferOf(rs, D) ==
    LET mx(p) == LET S == {SliceBytes(rs, D, i) : i \in {j \in 1..NSlices(D) : (j - 1) % 2 = p}}
                 IN IF S = {} THEN 0 ELSE CHOOSE m \in S : \A x \in S : x <= m
    IN <<mx(0), mx(1)>>
=============================================================================
