--------------------------- MODULE WeightBufferTrace ---------------------------
(* Trace validation of SRAM weight buffering on real compilations: one record per scheduled operator with buffered
   weights: {"t","op","slices":[bytes DMA'd per depth slice],"bufs":[bytes of each SRAM buffer],"kind":"single"|"double"}
   (taken from the final schedule of the compiling process).  Verdict: Fits. *)
EXTENDS Integers, Sequences, FiniteSets, Json, IOUtils, TLC
Trace == ndJsonDeserialize(IOEnv.TRACE_FILE)
VARIABLES l, viol
Ev == Trace[l]
Bad(e) == {i \in 1..Len(e.slices) : e.slices[i] > e.bufs[((i - 1) % Len(e.bufs)) + 1]}
Init == l = 1 /\ viol = {}
Next == /\ l <= Len(Trace)
        /\ viol' = viol \cup (IF Len(Ev.bufs) > 0 /\ Bad(Ev) # {} THEN {<<Ev.t, "Fits", Ev.op, Ev.kind>>} ELSE {})
        /\ l' = l + 1
Spec == Init /\ [][Next]_<<l, viol>>
Consumed == TLCGet("stats").diameter = Len(Trace) + 1
Report == l = Len(Trace) + 1 => PrintT(<<"VERDICT", ToJson(viol)>>)
=============================================================================
