------------------------------ MODULE History ------------------------------
(* Property C14: compilation is deterministic and independent of what the same
   process compiled before.

   The state of one Python process that has imported ethosu.vela, reduced to the
   process-wide mutable objects a compilation can read:

     wcache   weight_compressor.CompressedWeightCache.cache
              {WeightCompressionConfig -> NpuWeightTensor}.  The key is
              (block type, block depth, hash(str(depth_offsets)), dilation, weight value_id):
              it does NOT contain the accelerator, the IFM bit depth or the kernel shape.
              The value is the tensor *object* of the compilation that encoded it.
     eqids    functools.lru_cache of tensor.create_equivalence_id: value key -> UUID.
              Synthesised constants (LUT tables, all-ones MEAN kernels, zero biases)
              get their equivalence_id / value_id from it, so two compilations that
              synthesise equal values obtain the SAME ids.
     addrmap  tensor.TensorAddressMap.address_map: equivalence_id -> mem_type -> address;
              set_address_for_tens asserts that an id never receives two addresses.
     debugdb  debug_database.DebugDatabase tables.
     rng      the state of the global random generator (hillclimb_allocation).
     cbuf     state the CALLER owns and the compiler is handed: the bytes-like object given to
              convert_bytes (a bytearray the caller keeps and passes again, a writable memoryview of
              it, a read-only memoryview) or the model file.  cbuf = the models whose kept buffer no
              longer holds the bytes the caller put there.  No entry point can repair it.

   (architecture_features.default_arch_cache is only used by the external API and
   range_set.MemoryAccessSet.conflicts is memoised on object identity while the memo
   keeps its keys alive, so neither can be read by a later compilation; the harness
   records both, the specification leaves them out.)

   One action, Compile, for the three public entry points.  What each entry point
   clears is transcribed from vela.py (Policy = "as_is"):

       main           clears nothing
       convert        DebugDatabase.clean_db() after writing
       convert_bytes  DebugDatabase.clean_db() and TensorAddressMap.clear_address_map() after writing
       nobody         clears CompressedWeightCache.cache or the equivalence-id memo;
       an exception skips the clearing at the end of the entry point.

   Policy = "clear_at_entry" is the repaired design: every entry point resets all
   process-wide state before it compiles.

   A compilation *reads* earlier state through exactly two doors:
     (W) a weight-cache hit on an entry made by an earlier compilation - possible only
         for weights whose value_id is value keyed (ids of tensors read from a file are
         fresh uuid4); the hit hands over the earlier compilation's tensor object,
         encoded for that compilation's kernel shape and accelerator, and skips what the
         encoding path does to the current graph (scale_tens.element_size_bytes = 10), so
         even A;A lays out its constants differently from A alone;
     (A) assigning an address to an id that still has one in the address map - the
         value-keyed ids, and the ids of tensor objects obtained through (W).
   plus (R) the random generator if the allocator did not reseed it,
     (D) the debug database tables when the options of the compilation write them out
         (--enable-debug-db: <net>_debug.xml is one of the files a compilation produces; uids and
         command stream ids continue from what earlier compilations left in the tables),
     (B) the caller's buffer: the same bytearray (or a writable view of it) handed in again after
         an earlier compilation wrote into it.  The reader is specified to copy every constant out
         of the buffer it is given (ReaderCopies); graph rewrites that modify a constant in place
         (InPlace: split_pad_to_sub_pad for a PAD of batch and channels) then work on the copy.  If it
         did not copy, such a compilation would modify caller state (CallerStateUntouched), the next
         compilation of the kept buffer would compile another network (HistoryIndependent), and a
         read-only container would make the in-place write raise (ContainerIndependent).
     (L) interpreter-wide settings (resource limits): the recursion limit of the interpreter is process state like the
         caches.  The graph traversals recurse once or more per operator in a chain, so a deep network (Needs[mo] = {"rec"})
         compiles only under a raised limit.  An entry point has to establish what it needs itself (Establishes[e]; as
         transcribed from vela.py all three do: main from --recursion-limit, default 4000, convert and convert_bytes
         sys.setrecursionlimit(4000)).  One that did not would run with whatever an earlier call left behind: alone it fails
         where the other entry points succeed ("efail", EntryPointIndependent), after a call that raised the limit it
         succeeds (tainted, HistoryIndependent), after main(--recursion-limit <small>) (option "lowrec": a valid value under
         which that shallow compilation is fine) it fails again.  env = the settings currently established.  (The harness
         also records numpy's error state / print options, the warnings filters and the locale around every call: no entry
         point is specified to touch them; a change is reported as drift.)
   The model checker enumerates, for every history over the alphabet, which doors are
   open at which step ("exposure"); those histories are the replay plan of the harness.
   The outcome of an exposed step is left open (it may still be the isolated result);
   the outcome of an unexposed step is the isolated result - that is the design-level
   content of HistoryIndependent / NoFailureFromHistory. *)
EXTENDS Integers, Sequences, FiniteSets, TLC

CONSTANTS Letters,    \* alphabet: set of [e |-> entry point, mo |-> name of a (model, options) pair, c |-> container]
          VK,         \* VK[mo]  value keys handed to create_equivalence_id when compiling mo
          WK,         \* WK[mo]  weight-cache keys of mo whose weight value_id is value keyed
          Acc,        \* Acc[mo] accelerator of mo
          Opt,        \* Opt[mo] options of mo that write an additional file from process-wide state ("ddb")
          Mdl,        \* Mdl[mo] the model of mo (several mo differ in their options only)
          Needs,      \* Needs[mo] interpreter-wide settings the compilation of mo needs ({"rec"}: a raised recursion limit)
          Establishes, \* Establishes[e] the settings entry point e establishes itself before it compiles
          InPlace,    \* InPlace[mo]: a graph rewrite of this compilation writes into a constant of the input network in place
          ReaderCopies, \* the reader copies every constant out of the buffer it was handed
          MaxLen,     \* histories of length <= MaxLen
          Policy,     \* "as_is" | "clear_at_entry" | "clear_caches_at_entry"
          SeedsRng    \* the allocator calls random.seed(1) before drawing

VARIABLES st,         \* [wcache, eqids, addrmap, debugdb, rng, cbuf]
          hist,       \* sequence of letters compiled so far
          res         \* sequence of [kind, mo, expo, wrote] : outcome of each step
vars == <<st, hist, res>>

Entries == {"main", "convert", "convert_bytes"}
Boot == [wcache |-> {}, eqids |-> {}, addrmap |-> {}, debugdb |-> {}, rng |-> "boot", cbuf |-> {}, env |-> {}]

(* ---- containers: how the model reaches the entry point ----------------------------
   file    main / convert: a path; the entry point reads the file into a buffer of its own
   ba      convert_bytes(bytearray) that the caller drops afterwards
   shared  convert_bytes(bytearray) that the caller keeps and passes again later (one per model)
   mvrw    convert_bytes(memoryview) of that kept bytearray (writable)
   mvro    convert_bytes(memoryview) of a bytes object (read-only) *)
Containers == {"file", "ba", "shared", "mvrw", "mvro"}
Kept(c) == c \in {"shared", "mvrw"}
Writable(c) == c \in {"ba", "shared", "mvrw"}

(* ---- which state an entry point clears ------------------------------------ *)
AllState == {"wcache", "eqids", "addrmap", "debugdb"}
(* "clear_caches_at_entry": the entry points reset the caches and leave the debug database to the clean_db() calls at
   the end of convert / convert_bytes - the command line path has none *)
ClearedAtEntry(e) == CASE Policy = "clear_at_entry" -> AllState
                       [] Policy = "clear_caches_at_entry" -> AllState \ {"debugdb"}
                       [] OTHER -> {}
ClearedAtExit(e) == CASE e = "main" -> {}
                      [] e = "convert" -> {"debugdb"}
                      [] e = "convert_bytes" -> {"debugdb", "addrmap"}
Wipe(S, what) == [wcache |-> IF "wcache" \in what THEN {} ELSE S.wcache,
                  eqids |-> IF "eqids" \in what THEN {} ELSE S.eqids,
                  addrmap |-> IF "addrmap" \in what THEN {} ELSE S.addrmap,
                  debugdb |-> IF "debugdb" \in what THEN {} ELSE S.debugdb,
                  rng |-> S.rng, cbuf |-> S.cbuf, env |-> S.env]

(* ---- what a compilation reads ------------------------------------------------
   S : state at the call, vk / wk : value keys and weight-cache keys of the compilation *)
Pre(S, e) == Wipe(S, ClearedAtEntry(e))
WKeysOf(S) == {c.k : c \in S.wcache}
StaleW(S, wk) == {c \in S.wcache : c.k \in wk}
Touched(S, vk, wk) == {<<"v", k>> : k \in vk} \cup {<<"w", c.k, c.own>> : c \in StaleW(S, wk)}
StaleAddr(S, vk, wk) == {a \in S.addrmap : a.id \in Touched(S, vk, wk)}
OtherAccel(S, wk, acc) == \E c \in StaleW(S, wk) : c.acc # acc
(* p : the parameters of one compilation
       [vk, wk, acc, opts, mdl, c, inplace, e, needs]  (Par(l) for a letter of the alphabet, observed values in HistoryTrace) *)
(* the settings in force while p compiles: what the entry point establishes on top of what it finds; the command line
   option "lowrec" sets a limit of the user's choosing that is too small for deep networks *)
Avail(S, p) == IF "lowrec" \in p.opts THEN S.env \ {"rec"} ELSE S.env \cup Establishes[p.e]
Unmet(S, p) == ~(p.needs \subseteq Avail(S, p))
LeftBehind(S, p) == p.needs \subseteq Avail(S, p) /\ ~(p.needs \subseteq Avail(Boot, p))
WritesInput(p) == ~ReaderCopies /\ p.inplace /\ p.c # "file"
Expo(S, p) == [eq |-> p.vk \cap S.eqids,
               w |-> {c.k : c \in StaleW(S, p.wk)},
               xacc |-> OtherAccel(S, p.wk, p.acc),
               addr |-> {a.id : a \in StaleAddr(S, p.vk, p.wk)},
               rng |-> (~SeedsRng /\ S.rng # "boot"),
               ddb |-> ("ddb" \in p.opts /\ S.debugdb # {}),
               buf |-> (Kept(p.c) /\ p.mdl \in S.cbuf),
               lim |-> LeftBehind(S, p)]
Exposed(x) == x.w # {} \/ x.addr # {} \/ x.rng \/ x.ddb \/ x.buf \/ x.lim

(* outcomes the design permits for a step with exposure x.  "ok" = the isolated result;
   "cfail": the in-place write of a rewrite lands in a read-only container and raises, whatever was compiled before *)
AllowedKinds(S, p) ==
    LET x == Expo(S, p) IN
      IF WritesInput(p) /\ ~Writable(p.c) THEN {"cfail"}
      ELSE IF Unmet(S, p) THEN {"efail"}
      ELSE {"ok"} \cup (IF x.w # {} \/ x.rng \/ x.ddb \/ x.buf \/ x.lim THEN {"tainted"} ELSE {})
                  \cup (IF x.addr # {} \/ x.xacc THEN {"fail"} ELSE {})
Failed(kind) == kind \in {"fail", "cfail", "efail"}
(* the compilation modifies the object the caller handed in *)
Wrote(p, kind) == WritesInput(p) /\ Writable(p.c) /\ kind # "cfail"

(* ---- what a compilation writes ----------------------------------------------
   seeded: the hill-climb allocator ran (it calls random.seed(1) first); the other allocators never touch the RNG *)
Post(S, n, e, mo, p, failed, seeded, wrote) ==
    LET vk == p.vk
        wk == p.wk
        acc == p.acc
        new == wk \ WKeysOf(S)
        wc == S.wcache \cup {[k |-> k, own |-> n, mo |-> mo, acc |-> acc] : k \in new}
        am == S.addrmap
                \cup {[id |-> i, own |-> n] : i \in Touched(S, vk, wk) \ {a.id : a \in S.addrmap}}
                \cup {[id |-> <<"w", k, n>>, own |-> n] : k \in new}
                \cup {[id |-> <<"u", n>>, own |-> n]}
        full == [wcache |-> wc, eqids |-> S.eqids \cup vk, addrmap |-> am,
                 debugdb |-> S.debugdb \cup {n}, rng |-> IF seeded THEN mo ELSE S.rng,
                 cbuf |-> S.cbuf \cup (IF wrote /\ Kept(p.c) THEN {p.mdl} ELSE {}),
                 env |-> Avail(S, p)]
    IN IF failed THEN full ELSE Wipe(full, ClearedAtExit(e))

(* ---- the design as a state machine over the alphabet ---------------------- *)
Init == st = Boot /\ hist = <<>> /\ res = <<>>

Par(l) == [vk |-> VK[l.mo], wk |-> WK[l.mo], acc |-> Acc[l.mo], opts |-> Opt[l.mo], mdl |-> Mdl[l.mo], c |-> l.c,
           inplace |-> InPlace[l.mo], e |-> l.e, needs |-> Needs[l.mo]]
Compile(l) ==
    /\ Len(hist) < MaxLen
    /\ LET n == Len(hist) + 1
           S == Pre(st, l.e)
           p == Par(l)
           x == Expo(S, p)
       IN \E kind \in AllowedKinds(S, p) :
            /\ st' = Post(S, n, l.e, l.mo, p, Failed(kind), TRUE, Wrote(p, kind))
            /\ hist' = Append(hist, l)
            /\ res' = Append(res, [kind |-> kind, mo |-> l.mo, expo |-> x, wrote |-> Wrote(p, kind)])
Next == \E l \in Letters : Compile(l)
Spec == Init /\ [][Next]_vars

(* ---- properties -------------------------------------------------------------- *)
(* (the alphabet consists of models that compile when compiled alone: the isolated result is "ok") *)
(* the result of a step is a function of (model, options) only *)
HistoryIndependent == \A i \in DOMAIN res : res[i].kind # "tainted"
(* a compilation never fails because of state left behind by a previous one *)
NoFailureFromHistory == \A i \in DOMAIN res : res[i].kind # "fail"
(* a compilation leaves the object it was handed (the caller's bytearray / memoryview, the model file) as it found it *)
CallerStateUntouched == \A i \in DOMAIN res : ~res[i].wrote
(* the result does not depend on the kind of bytes-like object the model arrives in *)
ContainerIndependent == \A i \in DOMAIN res : res[i].kind # "cfail"
(* the result does not depend on the entry point: every entry point establishes the interpreter-wide settings it needs *)
EntryPointIndependent == \A i \in DOMAIN res : res[i].kind # "efail"
(* the structural reason: no step reads anything an earlier step wrote *)
NoExposure == \A i \in DOMAIN res : ~Exposed(res[i].expo)

(* the same predicates on one observed step, used by HistoryTrace:
   o, iso : [ok, exc, dig, csv, art] of the step and of the same letter compiled alone; art = every file the
   compilation wrote, as a set of <<name, digest>> (output model, summary, and whatever the options add:
   <net>_debug.xml, <net>_per-layer.csv ...) *)
SameResult(o, iso) == o.ok = iso.ok /\ (o.ok => o.dig = iso.dig /\ o.csv = iso.csv /\ o.art = iso.art)
StepIndependent(o, iso) == o.ok => SameResult(o, iso)
StepNoFailure(o, iso) == ~o.ok => (~iso.ok /\ iso.exc = o.exc)
ObservedKind(o, iso) == IF ~StepNoFailure(o, iso) THEN "fail" ELSE IF ~StepIndependent(o, iso) THEN "tainted" ELSE "ok"

TypeOK == /\ Len(hist) = Len(res) /\ Len(hist) <= MaxLen
          /\ \A i \in DOMAIN hist : hist[i] \in Letters /\ hist[i].c \in Containers
          /\ st.cbuf \subseteq {Mdl[l.mo] : l \in Letters}
          /\ \A c \in st.wcache : c.own \in 1..MaxLen
          /\ st.debugdb \subseteq 1..MaxLen
          /\ st.env \subseteq {"rec"}

(* every visited state is printed: "PLAN|history|exposure class per step|kind per step".
   Class letters: W weight-cache door, A address door, X weights encoded for another accelerator, R rng,
   D debug database written out, B kept caller buffer an earlier step wrote into, L a setting an earlier call left behind. *)
Class(x, i) == (IF x.w # {} THEN "W" ELSE "") \o (IF x.xacc THEN "X" ELSE "") \o (IF x.addr # {} THEN "A" ELSE "")
                 \o (IF x.rng THEN "R" ELSE "") \o (IF x.ddb THEN "D" ELSE "") \o (IF x.buf THEN "B" ELSE "") \o (IF x.lim THEN "L" ELSE "")
LetterName(l) == l.e \o (IF l.c \in {"file", "ba"} THEN "" ELSE "/" \o l.c) \o ":" \o l.mo
RECURSIVE Join(_, _)
Join(q, sep) == IF q = <<>> THEN "" ELSE IF Len(q) = 1 THEN q[1] ELSE q[1] \o sep \o Join(Tail(q), sep)
Plan == Len(hist) > 0 =>
          PrintT("PLAN|" \o Join([i \in DOMAIN hist |-> LetterName(hist[i])], ";")
                  \o "|" \o Join([i \in DOMAIN res |-> Class(res[i].expo, i)], ",")
                  \o "|" \o Join([i \in DOMAIN res |-> res[i].kind], ","))
=============================================================================
