SPECIFICATION Spec
CONSTANT KernelCodes = {101, 303, 901}
CONSTANT StrideCodes = {11, 22}
CONSTANT IfmDepths = {3, 40}
CONSTANT GridW = {1, 2, 4, 5, 8, 16, 64}
CONSTANT GridH = {1, 2, 3, 4, 8, 16, 32}
CONSTANT GridD = {1, 2, 3, 4, 8, 16}
CONSTANT ShapeH = {1, 2, 5, 16, 33}
CONSTANT ShapeW = {1, 3, 16, 65}
CONSTANT ShapeD = {1, 3, 8, 17, 64, 130}
CONSTANT Tighten = 1
INVARIANT LayoutValid
INVARIANT CandidatesLegal
INVARIANT Slack
CHECK_DEADLOCK FALSE
