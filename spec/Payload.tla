------------------------------ MODULE Payload ------------------------------
(* Framing of an Ethos-U command stream inside the driver payload (property C17).

   Payload  ::=  COP1 . Config(accel) . NOP* . CmdStreamHeader(len) . word^len

   A payload is a sequence of 32-bit little-endian words.  Every quantity that
   enters TLC stays below 2^31: a word is the pair <<lo, hi>> of its 16-bit limbs.

   Driver-action word (Ethos-U driver action format): bits 0-7 command, bits 8-15
   "reserved", bits 16-31 parameter.  Commands: 1 = optimiser configuration (two
   data words follow: an image of the CONFIG register and an image of the ID
   register), 2 = command stream (parameter = low 16 bits of the length in words,
   the reserved byte carries bits 16-23), 5 = no operation.
   The driver starts executing the word that follows the command-stream action and
   requires it to lie on a 16-byte boundary of the (16-byte aligned) payload.

   CONFIG register image (ethos_u55_regs.config_r): macs_per_cc bits 0-3 (log2 of
   the MACs per clock cycle), cmd_stream_version bits 4-7, shram_size bits 8-15
   (KiB), product bits 28-31 (0 = Ethos-U55, 1 = Ethos-U65).
   ID register image (ethos_u55_regs.id_r): arch_patch_rev bits 16-19,
   arch_minor_rev bits 20-27, arch_major_rev bits 28-31.

   The accelerator table below is written from the product description of the six
   configurations (MACs per cycle = the number in the name; shared RAM: 16 KiB for
   32 and 64 MACs, 24 KiB for 128, 48 KiB for 256 MACs per core; Ethos-U65-512 is
   two 256-MAC cores, so 512 MACs and 96 KiB), cf. the enumerations macs_per_cc
   and shram_size of the register file, not from emit_config's arithmetic. *)
EXTENDS Integers, Sequences, FiniteSets, TLC

Accels == {"ethos-u55-32", "ethos-u55-64", "ethos-u55-128", "ethos-u55-256", "ethos-u65-256", "ethos-u65-512"}

ProductOf(a)  == IF a \in {"ethos-u65-256", "ethos-u65-512"} THEN 1 ELSE 0
Log2MacsOf(a) == CASE a = "ethos-u55-32" -> 5 [] a = "ethos-u55-64" -> 6 [] a = "ethos-u55-128" -> 7
                   [] a = "ethos-u55-256" -> 8 [] a = "ethos-u65-256" -> 8 [] a = "ethos-u65-512" -> 9
ShramKiBOf(a) == CASE a = "ethos-u55-32" -> 16 [] a = "ethos-u55-64" -> 16 [] a = "ethos-u55-128" -> 24
                   [] a = "ethos-u55-256" -> 48 [] a = "ethos-u65-256" -> 48 [] a = "ethos-u65-512" -> 96
ArchMajor == 1
ArchMinor == 0
ArchPatch == 6

(* ---- words ------------------------------------------------------------------ *)
IsWord(w) == w \in (0..65535) \X (0..65535)
DA(cmd, res, param) == <<cmd + 256 * res, param>>
Cmd(w)   == w[1] % 256
Res(w)   == w[1] \div 256
Param(w) == w[2]
CmdConfig == 1
CmdStream == 2
CmdNop    == 5
COP1 == <<67 + 256 * 79, 80 + 256 * 49>>          \* 'C' 'O' 'P' '1' in memory order

CfgMacs(w)    == w[1] % 16
CfgShram(w)   == w[1] \div 256
CfgProduct(w) == w[2] \div 4096
IdPatch(w) == w[2] % 16
IdMinor(w) == (w[2] \div 16) % 256
IdMajor(w) == w[2] \div 4096

ConfigWord(a) == <<Log2MacsOf(a) + 256 * ShramKiBOf(a), 4096 * ProductOf(a)>>
IdWord == <<0, ArchPatch + 16 * ArchMinor + 4096 * ArchMajor>>

(* the length field is 8 + 16 bits wide: longer streams cannot be declared *)
MaxLen == 256 * 65536
HwLimitBytes == 256 * 65536      \* the hardware limit: 16 MiB of command stream (bytes), enforced by the generator
LenHi(n) == n \div 65536
LenLo(n) == n % 65536
DeclaredLen(w) == Res(w) * 65536 + Param(w)

(* ---- the property of a finished payload ---------------------------------------
   ws    : the first words of the payload (all of them, or enough to contain the header)
   total : number of words of the whole payload
   Each clause is named so that a rejection says which part of the statement failed. *)
FirstNonNop(ws) == IF \E i \in 5..Len(ws) : Cmd(ws[i]) # CmdNop
                   THEN CHOOSE i \in 5..Len(ws) : Cmd(ws[i]) # CmdNop /\ \A j \in 5..(i - 1) : Cmd(ws[j]) = CmdNop
                   ELSE 0
HeaderAt(ws) == LET h == FirstNonNop(ws) IN IF h # 0 /\ Cmd(ws[h]) = CmdStream THEN h ELSE 0

FrameFailures(ws, total, a, n) ==
  LET h == IF Len(ws) >= 5 THEN HeaderAt(ws) ELSE 0 IN
       (IF Len(ws) >= 1 /\ ws[1] = COP1 THEN {} ELSE {"StartsWithCOP1"})
  \cup (IF Len(ws) >= 4 /\ Cmd(ws[2]) = CmdConfig THEN {} ELSE {"ConfigAction"})
  \cup (IF Len(ws) >= 4 /\ CfgMacs(ws[3]) = Log2MacsOf(a) /\ CfgShram(ws[3]) = ShramKiBOf(a)
           /\ CfgProduct(ws[3]) = ProductOf(a) THEN {} ELSE {"ConfigMatchesAccelerator"})
  \cup (IF Len(ws) >= 4 /\ IdMajor(ws[4]) = ArchMajor /\ IdMinor(ws[4]) = ArchMinor /\ IdPatch(ws[4]) = ArchPatch
        THEN {} ELSE {"ArchVersion"})
  \cup (IF h # 0 THEN {} ELSE {"HeaderAfterNops"})
  \cup (IF h # 0 /\ h % 4 # 0 THEN {"BodyAligned16"} ELSE {})        \* body = 0-based word index h
  \cup (IF h # 0 /\ DeclaredLen(ws[h]) # n THEN {"DeclaresLength"} ELSE {})
  \cup (IF h # 0 /\ total # h + n THEN {"ExactlyLenWordsFollow"} ELSE {})

Framed(ws, total, a, n) == FrameFailures(ws, total, a, n) = {}

(* ---- design model: an emitter that builds the header word by word ---------------- *)
CONSTANTS MaxSmall,          \* all lengths 0..MaxSmall
          PadRule            \* "align" | "offbyone" (negative control: must violate FramedWhenDone)
Boundary == {65535, 65536, 65537, MaxLen - 1, MaxLen, MaxLen + 1}
            \cup {131072, 262144, 524288, 1048576, 2097152, 4194304, 8388608}     \* every bit of the high field
Lens == (0..MaxSmall) \cup Boundary

VARIABLES accel, n, out, nbody, phase
vars == <<accel, n, out, nbody, phase>>

Init == /\ accel \in Accels /\ n \in Lens
        /\ out = <<>> /\ nbody = 0 /\ phase = "tag"
EmitTag == /\ phase = "tag" /\ out' = Append(out, COP1) /\ phase' = "config" /\ UNCHANGED <<accel, n, nbody>>
EmitConfig == /\ phase = "config"
              /\ out' = out \o <<DA(CmdConfig, 0, 16), ConfigWord(accel), IdWord>>
              /\ phase' = "guard" /\ UNCHANGED <<accel, n, nbody>>
Reject == /\ phase = "guard" /\ n >= MaxLen
          /\ phase' = "rejected" /\ UNCHANGED <<accel, n, out, nbody>>
Accept == /\ phase = "guard" /\ n < MaxLen
          /\ phase' = "pad" /\ UNCHANGED <<accel, n, out, nbody>>
(* the header goes to 1-based position Len(out)+1; the body starts at 0-based word index Len(out)+1 *)
PadDone == IF PadRule = "align" THEN (Len(out) + 1) % 4 = 0 ELSE Len(out) % 4 = 0
EmitNop == /\ phase = "pad" /\ ~PadDone
           /\ out' = Append(out, DA(CmdNop, 0, 0)) /\ UNCHANGED <<accel, n, nbody, phase>>
EmitHeader == /\ phase = "pad" /\ PadDone
              /\ out' = Append(out, DA(CmdStream, LenHi(n), LenLo(n)))
              /\ phase' = "body" /\ UNCHANGED <<accel, n, nbody>>
EmitBody == /\ phase = "body" /\ nbody' = n /\ phase' = "done" /\ UNCHANGED <<accel, n, out>>
Next == EmitTag \/ EmitConfig \/ Reject \/ Accept \/ EmitNop \/ EmitHeader \/ EmitBody
Spec == Init /\ [][Next]_vars

TypeOK == /\ accel \in Accels /\ n \in Lens /\ nbody \in {0, n} /\ Len(out) <= 12
          /\ \A i \in 1..Len(out) : IsWord(out[i])
          /\ phase \in {"tag", "config", "guard", "pad", "body", "done", "rejected"}
FramedWhenDone == phase = "done" => Framed(out, Len(out) + nbody, accel, n)
RejectsTooLong == /\ phase = "rejected" => n >= MaxLen
                  /\ phase = "done" => n < MaxLen
(* the length field round-trips for every representable length *)
LengthRoundTrip == n < MaxLen => /\ LenHi(n) \in 0..255 /\ LenLo(n) \in 0..65535
                                 /\ DeclaredLen(DA(CmdStream, LenHi(n), LenLo(n))) = n
Lattice == PrintT(<<"LATTICE", Lens>>)
=============================================================================
