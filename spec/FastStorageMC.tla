---------------------------- MODULE FastStorageMC ----------------------------
(* Instances for model checking FastStorage.tla over four time steps, sizes 1..2, scores 1..2, base usage 0..1,
   limit 2: (a) one component of up to two live ranges anywhere, (b) two time-disjoint components (times 0..1 and
   2..3) of up to two live ranges each.  Every live range fits on its own (the caller evicts the others first). *)
EXTENDS Integers, Sequences, FiniteSets, TLC
CONSTANTS ResetScoreC, Quick
VARIABLES inst, ci, base, maxu, best, result
TT == 4
LRs(lo, hi) == {lr \in [s : lo..hi, e : lo..hi, z : 1..2, sc : 1..2] : lr.s <= lr.e}
CompsOver(lo, hi) == UNION {[1..n -> LRs(lo, hi)] : n \in 1..2}
CompsOne(lo, hi) == [1..1 -> LRs(lo, hi)]
CanFitAlone(cs, b) == \A c \in 1..Len(cs) : \A i \in 1..Len(cs[c]) :
                        \A t \in 0..TT - 1 : (cs[c][i].s <= t /\ t <= cs[c][i].e) => b[t] + cs[c][i].z <= 2
Bases == {[t \in 0..TT - 1 |-> 0], [t \in 0..TT - 1 |-> 1], [t \in 0..TT - 1 |-> IF t < 2 THEN 1 ELSE 0]}
MCInsts == { I \in ({[comps |-> <<c>>, base |-> b] : c \in CompsOver(0, TT - 1), b \in Bases}
                  \cup {[comps |-> <<c1, c2>>, base |-> b] : c1 \in (IF Quick THEN CompsOne(0, 1) ELSE CompsOver(0, 1)), c2 \in CompsOver(2, 3), b \in Bases}) :
               CanFitAlone(I.comps, I.base) }
INSTANCE FastStorage WITH T <- TT, Limit <- 2, ResetScore <- ResetScoreC, Insts <- MCInsts
=============================================================================
