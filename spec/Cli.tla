------------------------------- MODULE Cli -------------------------------
(* Outcome protocol of one invocation of the Vela command line (property C13).
   The phases follow vela.main(): argument parsing, configuration resolution
   (ArchitectureFeatures), model reading, compilation (compiler_driver), writing.
   Each phase either hands over to the next or ends the invocation with a
   diagnosis.  An internal exception is modelled explicitly (action Crash) so
   that the model checker shows which observable outcomes it produces; the
   property is that no behaviour of the *implementation* is one of those. *)
EXTENDS Integers, FiniteSets, TLC

CONSTANT AllowCrash          \* TRUE only in the "what would a crash look like" configuration

VARIABLES phase,             \* "args" | "config" | "read" | "compile" | "write" | "done"
          status,            \* exit status: -1 while running
          wrote,             \* an output model exists
          diag,              \* a usage message or an "Error:"-style Vela diagnosis was printed
          tb                 \* a Python traceback was printed
vars == <<phase, status, wrote, diag, tb>>

Phases == <<"args", "config", "read", "compile", "write">>
NextPhase(p) == CASE p = "args" -> "config" [] p = "config" -> "read" [] p = "read" -> "compile"
                  [] p = "compile" -> "write" [] p = "write" -> "done"

Init == phase = "args" /\ status = -1 /\ wrote = FALSE /\ diag = FALSE /\ tb = FALSE

(* a phase completes and hands over *)
Advance == /\ phase \in {"args", "config", "read", "compile"}
           /\ phase' = NextPhase(phase)
           /\ UNCHANGED <<status, wrote, diag, tb>>

(* argparse rejects the command line: usage text, status 2 *)
ArgReject == /\ phase = "args"
             /\ phase' = "done" /\ status' = 2 /\ diag' = TRUE
             /\ UNCHANGED <<wrote, tb>>

(* a VelaError (ConfigOptionError, InputFileError, UnsupportedFeatureError, AllocationError ...)
   is caught by main(), printed, status 1 *)
VelaReject == /\ phase \in {"config", "read", "compile", "write"}
              /\ phase' = "done" /\ status' = 1 /\ diag' = TRUE
              /\ UNCHANGED <<wrote, tb>>

(* the writer produced <name>_vela.tflite and main() returned 0 *)
WriteOk == /\ phase = "write"
           /\ phase' = "done" /\ status' = 0 /\ wrote' = TRUE
           /\ UNCHANGED <<diag, tb>>

(* an exception that is not a VelaError escapes main(): traceback, status 1, maybe a partial file *)
Crash == /\ AllowCrash
         /\ phase \in {"config", "read", "compile", "write"}
         /\ phase' = "done" /\ status' = 1 /\ tb' = TRUE
         /\ wrote' \in {wrote, phase = "write"}
         /\ UNCHANGED diag

Next == Advance \/ ArgReject \/ VelaReject \/ WriteOk \/ Crash
Spec == Init /\ [][Next]_vars

Obs == [status |-> status, wrote |-> wrote, diag |-> diag, tb |-> tb]

(* ---- the property --------------------------------------------------------- *)
Compiled(o) == o.status = 0 /\ o.wrote /\ ~o.tb
Rejected(o) == o.status # 0 /\ ~o.wrote /\ o.diag /\ ~o.tb
UsageError(o) == Rejected(o) /\ o.status = 2
Good(o) == Compiled(o) \/ Rejected(o)

CompilesOrDiagnoses == phase = "done" => Good(Obs)
TypeOK == /\ phase \in {"args", "config", "read", "compile", "write", "done"}
          /\ status \in {-1, 0, 1, 2} /\ wrote \in BOOLEAN /\ diag \in BOOLEAN /\ tb \in BOOLEAN
(* nothing is written before the write phase *)
NoEarlyOutput == wrote => phase = "done" /\ status = 0
=============================================================================
