SPECIFICATION Spec
CONSTANT MaxN = 3
CONSTANT MaxH = 9
CONSTANT Kernels = {1, 2, 3, 5}
CONSTANT Strides = {1, 2}
CONSTANT Dilations = {1}
CONSTANT EmitCases = TRUE
CONSTANT Shrink = 0
CONSTANT Mutant = "none"
INVARIANT TypeOK
INVARIANT Candidates
INVARIANT Cases
INVARIANT BoxFitsBuffer
INVARIANT Progress
CHECK_DEADLOCK FALSE
