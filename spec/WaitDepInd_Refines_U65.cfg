SPECIFICATION Spec
CONSTANTS Cells = {1, 2, 3}
 MaxDma = 2
 MaxKern = 2
 N = 4
 SingletonOps = TRUE
 KernelWatermarkSlack = 0
INVARIANT IndInvBounded
PROPERTY RefinesWaitDep
CHECK_DEADLOCK FALSE
