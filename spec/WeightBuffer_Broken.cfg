SPECIFICATION Spec
CONSTANTS Sizes = {16, 32, 48}
 MaxSlices = 5
 Limits = {16, 32, 48, 64, 80, 96, 112, 160}
 SingleSize = "even_slices"
INVARIANT Fits
INVARIANT WithinBudget
CHECK_DEADLOCK FALSE
