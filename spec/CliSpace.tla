----------------------------- MODULE CliSpace -----------------------------
(* Generator of *valid* command-line option combinations for C13 (spec -> code):
   one Pick per option dimension; -simulate draws behaviours, the driver runs each
   final record through the real CLI.  Validity constraints of the documented
   option space are guards of Pick (e.g. a system configuration must belong to the
   accelerator family, Dedicated_Sram exists only on Ethos-U65). *)
EXTENDS Naturals, Sequences, TLC
VARIABLES step, o
Dims == <<"accel", "sysmem", "optimise", "allocator", "arena", "align", "blockdep", "flags">>
U65(a) == a \in {"ethos-u65-256", "ethos-u65-512"}
Vals(d) ==
  CASE d = "accel" -> {"ethos-u55-32", "ethos-u55-64", "ethos-u55-128", "ethos-u55-256", "ethos-u65-256", "ethos-u65-512"}
    [] d = "sysmem" -> IF U65(o["accel"])
                       THEN {"default", "Ethos_U65_Embedded/Sram_Only", "Ethos_U65_Embedded/Shared_Sram",
                             "Ethos_U65_High_End/Dedicated_Sram", "Ethos_U65_Mid_End/Dedicated_Sram",
                             "Ethos_U65_Client_Server/Dedicated_Sram_512KB"}
                       ELSE {"default", "Ethos_U55_High_End_Embedded/Sram_Only",
                             "Ethos_U55_High_End_Embedded/Shared_Sram", "Ethos_U55_Deep_Embedded/Shared_Sram"}
    [] d = "optimise" -> {"Size", "Performance"}
    [] d = "allocator" -> {"Greedy", "LinearAlloc", "HillClimb"}
    [] d = "arena" -> {0, 4096, 6144, 8192, 16384, 65536, 393216, 2097152}     \* 0 = option not given
    [] d = "align" -> {0, 16, 32, 64, 128, 256}                    \* 0 = option not given
    [] d = "blockdep" -> {0, 1, 2, 3}
    [] d = "flags" -> SUBSET {"sym", "verbose", "timing", "debugdb", "cpuops"}
Init == step = 1 /\ o = <<>>
Pick == step <= Len(Dims) /\ \E v \in Vals(Dims[step]) : o' = (Dims[step] :> v) @@ o /\ step' = step + 1
Spec == Init /\ [][Pick]_<<step, o>>
=============================================================================
