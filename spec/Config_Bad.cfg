SPECIFICATION Spec
CONSTANT Secs = {"A", "B", "C"}
CONSTANT Keys = {"k1"}
CONSTANT Vals = {"u", "v"}
CONSTANT Unknown = "Z"
CONSTANT Overlay = "parent"
INVARIANT ChildWins
CHECK_DEADLOCK FALSE
