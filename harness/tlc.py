"""Run TLC (model checking, simulation, trace validation) and parse what it says."""
import os
import re
import shutil
import subprocess
import time

from .common import SPEC, MachineryError, scratch

JARS = "/opt/veriftools/tla/tla2tools.jar:/opt/veriftools/tla/CommunityModules-deps.jar"


def _java(gc, heap, props=()):
    return ["java", "-XX:+Use%sGC" % gc, "-Xmx%s" % heap, "-Xss16m"] + ["-D" + p for p in props] + ["-cp", JARS, "tlc2.TLC"]


class TlcResult(dict):
    @property
    def ok(self):
        return self["status"] == "ok"


_RE_STATES = re.compile(r"^(\d+) states generated, (\d+) distinct states found, (\d+) states left on queue", re.M)
_RE_DEPTH = re.compile(r"The depth of the complete state graph search is (\d+)")
_RE_INV = re.compile(r"Error: Invariant (\S+) is violated")
_RE_ACTPROP = re.compile(r"Error: Action property (\S+) is violated")
_RE_COV = re.compile(r"^<(\w+) line (\d+), col \d+ to line \d+, col \d+ of module (\w+)>: (\d+):(\d+)", re.M)


def run(module, cfg, workers=16, timeout=900, coverage=False, env=None, simulate=None, depth=None,
        seed=None, heap="6g", deadlock=None, dfs=False, cwd=None, dump=None, extra=()):
    """Run TLC on SPEC/<module>.tla with SPEC/<cfg>.  Returns TlcResult with
    status in {ok, invariant, action_property, deadlock, postcondition, assumption, error, timeout}."""
    cwd = cwd or SPEC
    meta = scratch("tlcmeta")
    gc = "Serial" if workers == 1 else "Parallel"
    props = ["tlc2.tool.queue.IStateQueue=StateDeque"] if dfs else []
    props.append("java.io.tmpdir=" + meta)          # TLC's own temporary directories go with the metadir (removed below)
    cmd = _java(gc, heap, props) + ["-workers", str(workers), "-metadir", meta, "-noGenerateSpecTE",
                                   "-config", cfg]
    if coverage:
        cmd += ["-coverage", "1"]
    if simulate:
        cmd += ["-simulate", simulate]
    if depth:
        cmd += ["-depth", str(depth)]
    if seed is not None:
        cmd += ["-seed", str(seed)]
    if deadlock is False:
        cmd += ["-deadlock"]
    if dump:
        cmd += ["-dump", dump]
    cmd += list(extra) + [module]
    e = dict(os.environ)
    e.pop("JAVA_TOOL_OPTIONS", None)
    if env:
        e.update({k: str(v) for k, v in env.items()})
    t0 = time.time()
    try:
        p = subprocess.run(cmd, cwd=cwd, env=e, capture_output=True, text=True, timeout=timeout)
        out = p.stdout + p.stderr
        rc = p.returncode
        timed_out = False
    except subprocess.TimeoutExpired as ex:
        out = (ex.stdout or b"").decode(errors="replace") if isinstance(ex.stdout, bytes) else (ex.stdout or "")
        rc = -1
        timed_out = True
    finally:
        shutil.rmtree(meta, ignore_errors=True)
    res = TlcResult(output=out, rc=rc, wall=time.time() - t0, cmd=" ".join(cmd))
    m = None
    for m in _RE_STATES.finditer(out):
        pass
    res["generated"] = int(m.group(1)) if m else 0
    res["distinct"] = int(m.group(2)) if m else 0
    d = _RE_DEPTH.search(out)
    res["depth"] = int(d.group(1)) if d else 0
    acts = {}
    for c in _RE_COV.finditer(out):
        name = c.group(3) + "." + c.group(1)
        acts[name] = acts.get(name, 0) + int(c.group(5))
    res["actions"] = acts
    res["printed"] = [ln for ln in out.splitlines() if ln.startswith("<<") or ln.startswith('"')]
    if timed_out:
        res["status"] = "timeout"
    elif _RE_INV.search(out):
        res["status"] = "invariant"
        res["violated"] = _RE_INV.search(out).group(1)
    elif _RE_ACTPROP.search(out):
        res["status"] = "action_property"
        res["violated"] = _RE_ACTPROP.search(out).group(1)
    elif "Deadlock reached" in out:
        res["status"] = "deadlock"
    elif "Temporal properties were violated" in out:
        res["status"] = "temporal"
    elif re.search(r"[Pp]ost-?condition .* violated|POSTCONDITION", out) and "violated" in out:
        res["status"] = "postcondition"
    elif "Assumption" in out and "is false" in out:
        res["status"] = "assumption"
    elif "Model checking completed. No error has been found." in out or (
            simulate and rc == 0 and "Error:" not in out):
        res["status"] = "ok"
    elif simulate and ("The number of states generated" in out or "Finished in" in out) and "Error:" not in out:
        res["status"] = "ok"
    else:
        res["status"] = "error"
    if res["status"] in ("invariant", "action_property", "deadlock", "temporal"):
        i = out.find("The behavior up to this point is")
        res["trace_text"] = out[i:i + 20000] if i >= 0 else ""
    return res


def must_ok(res, what):
    """Design-level model check that has to pass on the unchanged specification; failure = machinery error."""
    if not res.ok:
        raise MachineryError("%s: TLC status %s\n%s" % (what, res["status"], res["output"][-3000:]))
    return res


def sany(path):
    import shutil
    import tempfile
    tmp = tempfile.mkdtemp(prefix="sany-", dir="/var/tmp")      # SANY unpacks its standard modules into java.io.tmpdir
    try:
        p = subprocess.run(["java", "-Djava.io.tmpdir=" + tmp, "-cp", JARS, "tla2sany.SANY", path],
                           cwd=os.path.dirname(path) or ".", capture_output=True, text=True)
    finally:
        shutil.rmtree(tmp, ignore_errors=True)
    bad = p.returncode != 0 or "*** Errors" in p.stdout or "Fatal" in p.stdout or "Could not" in p.stdout
    return (not bad), p.stdout + p.stderr


# ------------------------------------------------------------------ TLA+ value parser
class _P:
    def __init__(self, s):
        self.s = s
        self.i = 0

    def ws(self):
        while self.i < len(self.s) and self.s[self.i] in " \t\r\n":
            self.i += 1

    def peek(self, k=1):
        return self.s[self.i:self.i + k]

    def expect(self, t):
        self.ws()
        if self.s[self.i:self.i + len(t)] != t:
            raise ValueError("expected %r at %d: %r" % (t, self.i, self.s[self.i:self.i + 30]))
        self.i += len(t)

    def value(self):
        self.ws()
        v = self.atom()
        # function constructors  a :> b @@ c :> d
        self.ws()
        if self.peek(2) == ":>":
            d = {}
            k = v
            while True:
                self.expect(":>")
                d[_key(k)] = self.atom_or()
                self.ws()
                if self.peek(2) == "@@":
                    self.i += 2
                    k = self.atom_or()
                    self.ws()
                else:
                    break
            return d
        return v

    def atom_or(self):
        self.ws()
        return self.atom()

    def atom(self):
        self.ws()
        c = self.peek()
        if self.peek(2) == "<<":
            self.i += 2
            out = []
            self.ws()
            if self.peek(2) == ">>":
                self.i += 2
                return out
            while True:
                out.append(self.value())
                self.ws()
                if self.peek() == ",":
                    self.i += 1
                else:
                    self.expect(">>")
                    return out
        if c == "{":
            self.i += 1
            out = []
            self.ws()
            if self.peek() == "}":
                self.i += 1
                return out
            while True:
                out.append(self.value())
                self.ws()
                if self.peek() == ",":
                    self.i += 1
                else:
                    self.expect("}")
                    return out
        if c == "[":
            self.i += 1
            d = {}
            self.ws()
            if self.peek() == "]":
                self.i += 1
                return d
            while True:
                self.ws()
                m = re.match(r"\w+", self.s[self.i:])
                k = m.group(0)
                self.i += len(k)
                self.expect("|->")
                d[k] = self.value()
                self.ws()
                if self.peek() == ",":
                    self.i += 1
                else:
                    self.expect("]")
                    return d
        if c == "(":
            self.i += 1
            v = self.value()
            self.expect(")")
            return v
        if c == '"':
            j = self.i + 1
            buf = []
            while self.s[j] != '"':
                if self.s[j] == "\\":
                    j += 1
                buf.append(self.s[j])
                j += 1
            self.i = j + 1
            return "".join(buf)
        m = re.match(r"-?\d+", self.s[self.i:])
        if m:
            self.i += len(m.group(0))
            return int(m.group(0))
        m = re.match(r"\w+", self.s[self.i:])
        if m:
            self.i += len(m.group(0))
            w = m.group(0)
            return True if w == "TRUE" else False if w == "FALSE" else w
        raise ValueError("cannot parse at %d: %r" % (self.i, self.s[self.i:self.i + 40]))


def _key(k):
    return tuple(k) if isinstance(k, list) else k


def parse_value(s):
    return _P(s).value()


def parse_states(text):
    """Parse 'State n: <Action ...>\\n/\\ v = ...' blocks (error traces) or
    'STATE_n == ...' blocks of -simulate files into [(action, {var: value})]."""
    out = []
    blocks = re.split(r"^(?:State \d+: |\\\* )(<[^\n]*>)\s*$", text, flags=re.M)
    # blocks: [pre, hdr1, body1, hdr2, body2 ...]
    for k in range(1, len(blocks) - 1, 2):
        hdr, body = blocks[k], blocks[k + 1]
        body = re.sub(r"^STATE_\d+ ==\s*", "", body.strip(), flags=re.M)
        act = re.match(r"<(\w+)", hdr).group(1)
        st = {}
        body = body.split("\n\n")[0] if "\n\n" in body else body
        for m in re.finditer(r"^/\\ (\w+) = (.*?)(?=^/\\ \w+ = |\Z)", body, flags=re.M | re.S):
            try:
                st[m.group(1)] = parse_value(m.group(2).strip())
            except Exception:
                st[m.group(1)] = m.group(2).strip()
        out.append((act, st))
    return out


def to_tla(v):
    """Python value -> TLA+ literal (ints, bools, strings, lists -> sequences, sets -> sets, dict -> record)."""
    if isinstance(v, bool):
        return "TRUE" if v else "FALSE"
    if isinstance(v, int):
        return str(v)
    if isinstance(v, str):
        return '"%s"' % v
    if isinstance(v, (list, tuple)):
        return "<<" + ", ".join(to_tla(x) for x in v) + ">>"
    if isinstance(v, (set, frozenset)):
        return "{" + ", ".join(to_tla(x) for x in sorted(v, key=repr)) + "}"
    if isinstance(v, dict):
        return "[" + ", ".join("%s |-> %s" % (k, to_tla(x)) for k, x in v.items()) + "]"
    raise TypeError(type(v))


# ------------------------------------------------------------------ trace validation helper
def validate_traces(module, cfg, events, timeout=900, heap="4g", env=None, dfs=False, keep=None):
    """Write `events` (list of JSON-able dicts, one per line) as an ndjson trace batch, run the trace
    specification, and return (result, violations) where violations is the parsed VERDICT list
    (lists of [trace id, ...]).  The spec must print <<"VERDICT", ToJson(viol)>> and state POSTCONDITION
    Consumed.  Any other TLC outcome is a machinery error: verdicts are total."""
    import json
    d = scratch("trace")
    path = os.path.join(d, "trace.ndjson")
    try:
        with open(path, "w") as f:
            for e in events:
                f.write(json.dumps(e, separators=(",", ":")) + "\n")
        e2 = {"TRACE_FILE": path}
        if env:
            e2.update(env)
        res = run(module, cfg, workers=1, timeout=timeout, heap=heap, env=e2, dfs=dfs)
        if keep:
            shutil.copy(path, keep)
    finally:
        shutil.rmtree(d, ignore_errors=True)
    if not res.ok:
        raise MachineryError("trace validation %s/%s: TLC status %s\n%s" % (module, cfg, res["status"], res["output"][-4000:]))
    # TLC wraps long tuples over several lines: match VERDICT / VIOL tuples in the whole output
    pat = re.compile(r'<<\s*"(VERDICT|VIOL)",\s*"((?:[^"\\]|\\.)*)"\s*>>', re.S)
    found = pat.findall(res["output"])
    if not any(k == "VERDICT" for k, _ in found):
        raise MachineryError("trace validation %s: no VERDICT line\n%s" % (module, res["output"][-3000:]))
    viol = []
    for _, body in found:
        text = json.loads('"' + body.replace("\n", " ") + '"') if body else ""
        for item in (json.loads(text) if text else []):
            if item not in viol:
                viol.append(item)
    return res, viol


def last_state(text):
    """only the final STATE_n block of a -simulate trace file -> {var: value}"""
    i = text.rfind("\nSTATE_")
    if i < 0:
        return None
    body = text[i:]
    body = body[body.index("==") + 2:]
    j = body.find("\n\n")
    if j >= 0:
        body = body[:j]
    st = {}
    for m in re.finditer(r"^/\\ (\w+) = (.*?)(?=^/\\ \w+ = |\Z)", body.strip() + "\n", flags=re.M | re.S):
        st[m.group(1)] = parse_value(m.group(2).strip())
    return st


def simulate_final_states(module, cfg, num, depth, seed, timeout=600):
    """Run TLC -simulate and return the final state of each generated behaviour."""
    d = scratch("sim")
    try:
        res = run(module, cfg, workers=1, simulate="file=%s/tr,num=%d" % (d, num), depth=depth, seed=seed, timeout=timeout)
        if not res.ok:
            raise MachineryError("%s simulation failed: %s" % (module, res["output"][-2000:]))
        out = []
        for fn in sorted(os.listdir(d)):
            with open(os.path.join(d, fn)) as f:
                st = last_state(f.read())
            if st is not None:
                out.append(st)
        return res, out
    finally:
        shutil.rmtree(d, ignore_errors=True)
