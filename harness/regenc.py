"""Independent, table-driven statement of which register values an operation description intends
(oracle (i) of DESIGN.md 5.6).  Written from the register layout of the Ethos-U programmer's model
(field positions), not from the generator; values are the *untruncated* intended values - a value that
does not fit its field is returned as is and can therefore never equal a decoded register."""
from . import npuhw

ESIZE = {"UINT8": 1, "INT8": 1, "UINT16": 2, "INT16": 2, "INT32": 4}
SIGNED = {"UINT8": 0, "INT8": 1, "UINT16": 0, "INT16": 1, "INT32": 1}
DT_RANGE = {"UINT8": (0, 255), "INT8": (-128, 127), "UINT16": (0, 65535), "INT16": (-32768, 32767),
            "INT32": (-(1 << 31), (1 << 31) - 1)}
PREC = {1: 0, 2: 1, 4: 2}
ROUNDING = {"TFL": 0, "TRUNCATE": 1, "NATURAL": 2}
UPSCALE = {"NONE": 0, "NEAREST": 1, "TRANSPOSE": 2}
ACT = {"NONE_OR_RELU": 0, "TANH": 3, "SIGMOID": 4}
BAD = 1 << 70


def s16(v):
    """two's complement encoding of a signed 16-bit field; out-of-range values cannot be encoded"""
    v = int(v)
    return v & 0xFFFF if -32768 <= v <= 32767 else BAD


def u16(v):
    v = int(v)
    return v if 0 <= v <= 0xFFFF else BAD


def limbs(v):
    v = int(v)
    if v < 0 or v >= (1 << 64):
        return [70000, 0, 0, 0]
    return [(v >> 48) & 0xFFFF, (v >> 32) & 0xFFFF, (v >> 16) & 0xFFFF, v & 0xFFFF]


def strides(d):
    if d.get("strides"):
        s = d["strides"]     # [height(y), width(x), depth(c)]
        return s[2], s[0], s[1]
    h, w, c = d["shape"]
    es = ESIZE[d.get("dtype", "INT8")]
    if d.get("layout", "NHWC") == "NHWC":
        return es, w * c * es, c * es                      # C, Y, X
    return 16 * es * w, es * w * ((c + 15) // 16) * 16, 16 * es


def rq(value, d):
    """quantise a real value with the feature map's quantisation: round half away from zero"""
    sc = d.get("scale", 1.0) or 1.0
    zp = d.get("zp", 0) if not d.get("noquant") else 0
    x = value / sc
    r = int(x + 0.5) if x >= 0 else -int(-x + 0.5)
    return zp + r


def fm_regs(pfx, d, out, with_depth=True):
    h, w, c = d["shape"]
    out["NPU_SET_%s_REGION" % pfx] = u16(d.get("region", 1))
    t = d.get("tiles") or {"w0": w, "h0": h, "h1": h, "addrs": [d["addr"], 0, 0, 0]}
    for i in range(4):
        a = t["addrs"][i]
        out["NPU_SET_%s_BASE%d" % (pfx, i)] = a if 0 <= a < (1 << 40) else BAD
    out["NPU_SET_%s_HEIGHT0_M1" % pfx] = u16(t["h0"] - 1)
    out["NPU_SET_%s_HEIGHT1_M1" % pfx] = u16(t["h1"] - 1)
    out["NPU_SET_%s_WIDTH0_M1" % pfx] = u16(t["w0"] - 1)
    sc, sy, sx = strides(d)
    out["NPU_SET_%s_STRIDE_C" % pfx] = sc
    out["NPU_SET_%s_STRIDE_Y" % pfx] = sy
    out["NPU_SET_%s_STRIDE_X" % pfx] = sx
    out["NPU_SET_%s_ZERO_POINT" % pfx] = s16(0 if d.get("noquant") else d.get("zp", 0)) if pfx != "OFM" or True else 0


def expected(d, accel):
    """operation description -> {register: intended value}"""
    out = {}
    t = d["type"]
    if t == "dma":
        out["NPU_SET_DMA0_SRC_REGION"] = u16(d["src"][0])
        out["NPU_SET_DMA0_SRC"] = d["src"][1]
        out["NPU_SET_DMA0_DST_REGION"] = u16(d["dst"][0])
        out["NPU_SET_DMA0_DST"] = d["dst"][1]
        out["NPU_SET_DMA0_LEN"] = d["src"][2]
        return out
    cores = npuhw.ACCEL[accel][1]
    ifm, ofm = d["ifm"], d["ofm"]
    fm_regs("IFM", ifm, out)
    out["NPU_SET_IFM_DEPTH_M1"] = u16(ifm["shape"][2] - 1)
    ies = ESIZE[ifm.get("dtype", "INT8")]
    prec = SIGNED[ifm.get("dtype", "INT8")] | (PREC[ies] << 2) | ((1 << 6) if ifm.get("layout") == "NHCWB16" else 0)
    if t != "ew":
        out["NPU_SET_IFM_PRECISION"] = prec
    elif d.get("sub") in ("ADD", "SUB") and d.get("rescale") is None and d.get("ifm2") is not None:
        # operand-to-scale bits (9:8): with unequal input scales the operand holding the tensor with the SMALLER scale is
        # rescaled (1 = operand A, 2 = operand B); operand A is the IFM unless the operands are reversed.  Equal scales
        # may or may not use this mode (depends on the derived output scale): not compared.
        s1 = None if ifm.get("noquant") else ifm.get("scale", 1.0)
        s2 = None if d["ifm2"].get("noquant") else d["ifm2"].get("scale", 1.0)
        so = None if ofm.get("noquant") else ofm.get("scale", 1.0)
        if None in (s1, s2, so):
            out["NPU_SET_IFM_PRECISION"] = prec
        elif s1 != s2:
            ifm_is_smaller = s1 < s2
            a_is_ifm = not d.get("reversed")
            bits = 1 if (ifm_is_smaller == a_is_ifm) else 2
            out["NPU_SET_IFM_PRECISION"] = prec | (bits << 8)
    elif d.get("sub") not in ("ADD", "SUB"):
        out["NPU_SET_IFM_PRECISION"] = prec
    out["NPU_SET_IFM_UPSCALE"] = UPSCALE[d.get("upscale", "NONE")]
    if d.get("pad") is not None or t != "ew":
        p = d.get("pad") or [0, 0, 0, 0]
        out["NPU_SET_IFM_PAD_TOP"], out["NPU_SET_IFM_PAD_LEFT"] = u16(p[0]), u16(p[1])
        out["NPU_SET_IFM_PAD_BOTTOM"], out["NPU_SET_IFM_PAD_RIGHT"] = u16(p[2]), u16(p[3])
    fm_regs("OFM", ofm, out)
    out["NPU_SET_OFM_HEIGHT_M1"] = u16(ofm["shape"][0] - 1)
    out["NPU_SET_OFM_WIDTH_M1"] = u16(ofm["shape"][1] - 1)
    out["NPU_SET_OFM_DEPTH_M1"] = u16(ofm["shape"][2] - 1)
    oes = ESIZE[ofm.get("dtype", "INT8")]
    sub = d.get("sub")
    pad_sum = sum(d.get("pad") or [0, 0, 0, 0])
    glob = (t == "pool" and sub in ("AVERAGE", "REDUCE_SUM") and pad_sum == 0) or \
           (t == "ew" and sub in ("ADD", "SUB", "MUL", "LRELU", "ABS"))
    out["NPU_SET_OFM_PRECISION"] = SIGNED[ofm.get("dtype", "INT8")] | (PREC[oes] << 1) | ((1 << 8) if glob else 0) | \
        ((1 << 6) if ofm.get("layout") == "NHCWB16" else 0) | (ROUNDING[d.get("rounding", "TFL")] << 14)
    if t != "ew":
        kw, kh, sx, sy, dx, dy = d.get("kernel") or [1, 1, 1, 1, 1, 1]
        out["NPU_SET_KERNEL_HEIGHT_M1"] = u16(dy * (kh - 1))
        out["NPU_SET_KERNEL_WIDTH_M1"] = u16(dx * (kw - 1))
        pk = 1 if (t == "conv" and d.get("traversal", "DEPTH_FIRST") == "PART_KERNEL_FIRST") else 0
        out["NPU_SET_KERNEL_STRIDE"] = ((sx - 1) & 1) | (((sy - 1) & 1) << 1) | (pk << 2) | ((dx - 1) << 3) | \
            ((dy - 1) << 4) | (((sx - 1) >> 1) << 6) | (((sy - 1) >> 1) << 9)
    if d.get("weights"):
        w = d["weights"]
        out["NPU_SET_WEIGHT_REGION"] = u16(w[0][0])
        out["NPU_SET_WEIGHT_BASE"], out["NPU_SET_WEIGHT_LENGTH"] = w[0][1], w[0][2]
        if cores > 1:
            out["NPU_SET_WEIGHT1_BASE"] = w[1][1] if len(w) > 1 else w[0][1]
            out["NPU_SET_WEIGHT1_LENGTH"] = w[1][2] if len(w) > 1 else 0
    if d.get("biases"):
        b = d["biases"]
        out["NPU_SET_SCALE_REGION"] = u16(b[0][0])
        out["NPU_SET_SCALE_BASE"], out["NPU_SET_SCALE_LENGTH"] = b[0][1], b[0][2]
        if cores > 1:
            out["NPU_SET_SCALE1_BASE"] = b[1][1] if len(b) > 1 else b[0][1]
            out["NPU_SET_SCALE1_LENGTH"] = b[1][2] if len(b) > 1 else 0
    act = d.get("act") or {"op": "NONE_OR_RELU"}
    lo, hi = DT_RANGE[ofm.get("dtype", "INT8")]
    qmin = lo if act.get("min") is None else rq(act["min"], ofm)
    qmax = hi if act.get("max") is None else rq(act["max"], ofm)
    qmin = max(qmin, -32768, lo)
    qmax = min(qmax, 32767, hi)
    if act["op"] == "TABLE_LOOKUP":
        av = 16 + act.get("lut", 0)
        if ofm.get("dtype") == "INT32":
            av |= 3 << 12
            qmin, qmax = max(-128, qmin), min(127, qmax)
    else:
        av = ACT[act["op"]]
    out["NPU_SET_ACTIVATION"] = av
    out["NPU_SET_ACTIVATION_MIN"] = s16(qmin)
    out["NPU_SET_ACTIVATION_MAX"] = s16(qmax)
    if d.get("block") and d["block"] != "auto":
        bh, bw, bd = d["block"]
        out["NPU_SET_OFM_BLK_HEIGHT_M1"], out["NPU_SET_OFM_BLK_WIDTH_M1"], out["NPU_SET_OFM_BLK_DEPTH_M1"] = bh - 1, bw - 1, bd - 1
    if t == "ew" and sub not in ("ABS", "LRELU", "CLZ"):
        ifm2 = d["ifm2"]
        scalar = d.get("scalar") is not None
        if not scalar:
            fm_regs("IFM2", ifm2, out)
        else:
            out["NPU_SET_IFM2_SCALAR"] = s16(rq(d["scalar"], ifm2))
        out["NPU_SET_IFM2_ZERO_POINT"] = s16(0 if ifm2.get("noquant") else ifm2.get("zp", 0))
        i2s = ESIZE[ifm2.get("dtype", "INT8")]
        out["NPU_SET_IFM2_PRECISION"] = SIGNED[ifm2.get("dtype", "INT8")] | (PREC[i2s] << 2) | \
            ((1 << 6) if ifm2.get("layout") == "NHCWB16" else 0)
        bc = (1 << 6) if d.get("reversed") else 0
        if scalar:
            bc |= 1 << 7
        else:
            for bit, k in ((1, 0), (2, 1), (4, 2)):
                if ifm["shape"][k] != ifm2["shape"][k]:
                    bc |= bit
        out["NPU_SET_IFM2_BROADCAST"] = bc
    return out


def alignment_obligations(op, accel):
    """[reg, modulus] obligations from the hardware alignment rules, derived from the *decoded* register state."""
    regs = op["regs"]
    al = []
    u65 = "u65" in accel
    if op["kind"] == "dma":
        sreg, dreg = regs.get("NPU_SET_DMA0_SRC_REGION", 0), regs.get("NPU_SET_DMA0_DST_REGION", 0)
        if not u65:
            al += [["NPU_SET_DMA0_SRC", 16], ["NPU_SET_DMA0_DST", 16], ["NPU_SET_DMA0_LEN", 16]]
        else:
            if sreg >= 256:
                al.append(["NPU_SET_DMA0_SRC", 16])
            if dreg >= 256:
                al += [["NPU_SET_DMA0_DST", 16], ["NPU_SET_DMA0_LEN", 16]]
        return al
    fms = ["IFM", "OFM"]
    if op["kind"] == "ew" and op["param"] not in npuhw.EW_UNARY and not (regs.get("NPU_SET_IFM2_BROADCAST", 0) & 0x80):
        fms.append("IFM2")
    for pfx in fms:
        prec = regs.get("NPU_SET_%s_PRECISION" % pfx)
        if prec is None:
            continue
        es = npuhw.ELEM[(prec >> 1) & 3] if pfx == "OFM" else npuhw.ELEM[(prec >> 2) & 3]
        b16 = (prec >> 6) & 1
        for i in range(4):
            al.append(["NPU_SET_%s_BASE%d" % (pfx, i), 16 if b16 else es])
        if b16:
            al += [["NPU_SET_%s_STRIDE_C" % pfx, 16], ["NPU_SET_%s_STRIDE_Y" % pfx, 16]]
        else:
            al += [["NPU_SET_%s_STRIDE_Y" % pfx, es], ["NPU_SET_%s_STRIDE_X" % pfx, es]]
    if op["kind"] in ("conv", "dw"):
        cores = npuhw.ACCEL[accel][1]
        for c in range(cores):
            sfx = "" if c == 0 else "1"
            al += [["NPU_SET_WEIGHT%s_BASE" % sfx, 16], ["NPU_SET_WEIGHT%s_LENGTH" % sfx, 16],
                   ["NPU_SET_SCALE%s_LENGTH" % sfx, 16]]
    return al
