"""JSON-able descriptions of NPU operations <-> objects of the public API (ethosu.vela.api) of the working tree.

Description:
 {"type": "conv"|"dw"|"pool"|"ew"|"dma",
  "ifm"/"ifm2"/"ofm": {"shape":[h,w,c], "region":r, "addr":a | "tiles":{"w0","h0","h1","addrs":[4]},
                       "dtype":"INT8"|..., "layout":"NHWC"|"NHCWB16", "zp":z, "scale":s|None, "strides":[c?]},
  "kernel": [w,h,sx,sy,dx,dy], "pad": [top,left,bottom,right], "weights": [[region,addr,len]..], "biases": [...],
  "act": {"op":"NONE_OR_RELU"|"TANH"|"SIGMOID"|"TABLE_LOOKUP","min":..,"max":..,"lut":i},
  "block": [h,w,d] | "auto", "traversal": "DEPTH_FIRST"|"PART_KERNEL_FIRST", "upscale": "NONE"|"NEAREST"|"TRANSPOSE",
  "rounding": "TFL"|"TRUNCATE"|"NATURAL", "sub": "MAX"|"AVERAGE"|"REDUCE_SUM" | "ADD"|..., "scalar": v,
  "reversed": bool, "fused_quantize": bool,
  "src": [region, addr, len], "dst": [region, addr, len]}
"""
from .common import ensure_repo_on_path

ensure_repo_on_path()
from ethosu.vela import api  # noqa: E402

ACCEL = {"ethos-u55-32": api.NpuAccelerator.Ethos_U55_32, "ethos-u55-64": api.NpuAccelerator.Ethos_U55_64,
         "ethos-u55-128": api.NpuAccelerator.Ethos_U55_128, "ethos-u55-256": api.NpuAccelerator.Ethos_U55_256,
         "ethos-u65-256": api.NpuAccelerator.Ethos_U65_256, "ethos-u65-512": api.NpuAccelerator.Ethos_U65_512}
ESIZE = {"UINT8": 1, "INT8": 1, "UINT16": 2, "INT16": 2, "INT32": 4}


def fm(d):
    f = api.NpuFeatureMap()
    h, w, c = d["shape"]
    f.shape = api.NpuShape3D(height=h, width=w, depth=c)
    f.data_type = getattr(api.NpuDataType, d.get("dtype", "INT8"))
    f.region = d.get("region", 1)
    f.layout = getattr(api.NpuLayout, d.get("layout", "NHWC"))
    if "tiles" in d:
        t = d["tiles"]
        f.tiles = api.NpuTileBox(width_0=t["w0"], height_0=t["h0"], height_1=t["h1"], addresses=list(t["addrs"]))
    else:
        f.tiles = api.NpuTileBox(width_0=w, height_0=h, height_1=h, addresses=[d["addr"], 0, 0, 0])
    sc = d.get("scale", 1.0)
    f.quantization = None if d.get("noquant") else api.NpuQuantization(scale_f32=sc, zero_point=d.get("zp", 0))
    if d.get("strides"):
        s = d["strides"]
        f.strides = api.NpuShape3D(height=s[0], width=s[1], depth=s[2])
    return f


def fm_bytes(d):
    """storage size of a one-tile feature map description"""
    h, w, c = d["shape"]
    es = ESIZE[d.get("dtype", "INT8")]
    if d.get("layout", "NHWC") == "NHCWB16":
        return h * w * ((c + 15) // 16) * 16 * es
    return h * w * c * es


def build(d):
    t = d["type"]
    if t == "dma":
        op = api.NpuDmaOperation(api.NpuAddressRange(*d["src"]), api.NpuAddressRange(*d["dst"]))
        return op
    if t == "conv":
        op = api.NpuConv2DOperation()
        op.block_traversal = getattr(api.NpuBlockTraversal, d.get("traversal", "DEPTH_FIRST"))
    elif t == "dw":
        op = api.NpuConvDepthWiseOperation()
    elif t == "pool":
        op = api.NpuPoolingOperation(getattr(api.NpuPoolingOp, d.get("sub", "MAX")))
        if d.get("rescale") is not None:
            op.rescale = d["rescale"]
    elif t == "ew":
        op = api.NpuElementWiseOperation(getattr(api.NpuElementWiseOp, d.get("sub", "ADD")))
        op.reversed_operands = bool(d.get("reversed", False))
        if d.get("rescale") is not None:
            op.rescale = tuple(d["rescale"])
    else:
        raise ValueError(t)
    op.ifm = fm(d["ifm"])
    op.ofm = fm(d["ofm"])
    if d.get("ifm2"):
        op.ifm2 = fm(d["ifm2"])
    if d.get("scalar") is not None:
        op.ifm2_scalar = d["scalar"]
    if d.get("kernel"):
        op.kernel = api.NpuKernel(*d["kernel"])
    elif t != "ew":
        op.kernel = api.NpuKernel(1, 1)
    if d.get("pad") is not None:
        p = d["pad"]
        op.padding = api.NpuPadding(top=p[0], left=p[1], bottom=p[2], right=p[3])
    elif t != "ew":
        op.padding = api.NpuPadding(0, 0, 0, 0)
    op.weights = [api.NpuAddressRange(*w) for w in d.get("weights", [])]
    op.biases = [api.NpuAddressRange(*w) for w in d.get("biases", [])]
    if d.get("act"):
        a = api.NpuActivation(getattr(api.NpuActivationOp, d["act"].get("op", "NONE_OR_RELU")))
        a.min = d["act"].get("min")
        a.max = d["act"].get("max")
        a.lookup_table_index = d["act"].get("lut", 0)
        op.activation = a
    op.rounding_mode = getattr(api.NpuRoundingMode, d.get("rounding", "TFL"))
    op.ifm_upscale = getattr(api.NpuResamplingMode, d.get("upscale", "NONE"))
    op.fused_quantize = bool(d.get("fused_quantize", False))
    return op


def set_block(op, d, accel):
    """block config: explicit, or the first one the public query offers"""
    if isinstance(op, api.NpuDmaOperation):
        return
    if d.get("block") and d["block"] != "auto":
        b = d["block"]
        op.block_config = api.NpuShape3D(height=b[0], width=b[1], depth=b[2])
    else:
        cfgs = api.npu_find_block_configs(op, ACCEL[accel])
        if not cfgs:
            raise ValueError("no block config offered")
        # spread the (small) pick index over the whole offered list: first, ~1/3, ~2/3, last
        idx = (d.get("block_pick", 0) % 4) * (len(cfgs) - 1) // 3
        op.block_config = cfgs[idx]


def generate(descs, accel):
    """-> (words, ops, error) : runs the real public generator of the working tree"""
    ops = []
    for d in descs:
        o = build(d)
        set_block(o, d, accel)
        ops.append(o)
    return api.npu_generate_register_command_stream(ops, ACCEL[accel]), ops


# ------------------------------------------------------------------ objects -> descriptions
def _fm_desc(f):
    if f is None:
        return None
    d = {"shape": [int(f.shape.height), int(f.shape.width), int(f.shape.depth)], "region": int(f.region), "dtype": f.data_type.name,
         "layout": f.layout.name,
         "tiles": {"w0": int(f.tiles.width_0), "h0": int(f.tiles.height_0), "h1": int(f.tiles.height_1),
                   "addrs": [int(a) for a in f.tiles.addresses]}}
    q = f.quantization
    if q is None:
        d["noquant"] = True
    else:
        d["scale"] = None if q.scale_f32 is None else float(q.scale_f32)
        d["zp"] = int(q.zero_point)
    if f.strides is not None:
        d["strides"] = [int(f.strides.height), int(f.strides.width), int(f.strides.depth)]
    return d


def describe(op):
    """NpuOperation object -> description (inverse of build, for operations Vela itself produced)"""
    if isinstance(op, api.NpuDmaOperation):
        return {"type": "dma", "src": [int(op.src.region), int(op.src.address), int(op.src.length)],
                "dst": [int(op.dest.region), int(op.dest.address), int(op.dest.length)]}
    if isinstance(op, api.NpuConv2DOperation):
        d = {"type": "conv", "traversal": op.block_traversal.name}
    elif isinstance(op, api.NpuConvDepthWiseOperation):
        d = {"type": "dw"}
    elif isinstance(op, api.NpuPoolingOperation):
        d = {"type": "pool", "sub": op.sub_op_type.name}
    else:
        d = {"type": "ew", "sub": op.sub_op_type.name, "reversed": bool(op.reversed_operands)}
    d["ifm"] = _fm_desc(op.ifm)
    d["ofm"] = _fm_desc(op.ofm)
    if op.ifm2 is not None:
        d["ifm2"] = _fm_desc(op.ifm2)
    if op.ifm2_scalar is not None:
        d["scalar"] = float(op.ifm2_scalar)
    if op.kernel is not None:
        k = op.kernel
        d["kernel"] = [int(v) for v in (k.width, k.height, k.stride_x, k.stride_y, k.dilation_x, k.dilation_y)]
    if op.padding is not None:
        d["pad"] = [int(v) for v in (op.padding.top, op.padding.left, op.padding.bottom, op.padding.right)]
    d["weights"] = [[int(w.region), int(w.address), int(w.length)] for w in op.weights]
    d["biases"] = [[int(w.region), int(w.address), int(w.length)] for w in op.biases]
    if op.activation is not None:
        a = op.activation
        d["act"] = {"op": a.op_type.name, "min": None if a.min is None else float(a.min),
                    "max": None if a.max is None else float(a.max), "lut": int(a.lookup_table_index)}
    bc = op.block_config
    d["block"] = [int(bc.height), int(bc.width), int(bc.depth)]
    d["rounding"] = op.rounding_mode.name
    d["upscale"] = op.ifm_upscale.name
    d["fused_quantize"] = bool(op.fused_quantize)
    return d


def generate_reusing(descs1, descs2, accel):
    """History of two calls of the public generator in one process that reuse the SAME operation objects: the objects are
    built from descs1 and generated, then every object is given the fields of descs2 (same kinds, other addresses) in place
    and generated again.  Returns the words of the second call (and the objects)."""
    ops = []
    for d in descs1:
        o = build(d)
        set_block(o, d, accel)
        ops.append(o)
    api.npu_generate_register_command_stream(ops, ACCEL[accel])
    for o, d in zip(ops, descs2):
        n = build(d)
        set_block(n, d, accel)
        o.__dict__.update(n.__dict__)          # same object identity, new field values
    return api.npu_generate_register_command_stream(ops, ACCEL[accel]), ops
