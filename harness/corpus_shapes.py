"""Graph-shape / configuration part of the shared corpus: small multi-operator networks whose *shape* (which tensor is
read where, what sits between two NPU operators, which tensors are graph inputs / outputs, how few channels there are)
together with a configuration hint reaches compiler paths that neither the operator-coverage kinds (corpus_ops.py) nor
the legacy families reach.  Registered into corpus.FAMILIES by corpus.py (appended, never renumbered); compiled by the
checks through corpus.shape_jobs(seed, tier, ...), which rotates the styles of every family by the seed.

Every family is `f(rng, seed, style=None) -> (label, description, hint)`, deterministic in (rng state, seed, style);
`STYLES[family]` lists its styles, the label is "family:style[:detail]".  Networks are tiny (compile well below a
second).  The hint names the configuration under which the shape is interesting (None values remove a key of the
configuration point: config=None, system_config=None, memory_mode=None = the internal default architecture)."""
from .netgen import Net
from .vela_run import ARM_INI

PENDING = set()   # "family:style" names left out of random / rotating style selection (filled from corpus.PENDING_TRIAGE)
FAMILIES = {}     # family -> builder (registration order = numbering, append only)
STYLES = {}       # family -> list of styles (append only)

NO_CFG = {"config": None, "system_config": None, "memory_mode": None}


def family(name, styles):
    def deco(f):
        assert name not in FAMILIES, name
        FAMILIES[name] = f
        STYLES[name] = list(styles)
        return f
    return deco


def live_styles(fam):
    return [s for s in STYLES[fam] if "%s:%s" % (fam, s) not in PENDING]


def pick_style(rng, fam, style=None):
    """random style of a family, leaving out the styles that are pending triage (an explicit style is always honoured)"""
    return style or rng.choice(live_styles(fam))


def cfg(rng, *kinds):
    """configuration hint: one of the named corners of the configuration lattice"""
    kind = rng.choice(kinds)
    if kind == "any":
        return {}
    if kind == "u65_spill":          # feature maps are staged into a separate fast storage: internal default or Dedicated_Sram
        h = dict(NO_CFG, accel=rng.choice(["ethos-u65-256", "ethos-u65-512"]))
        if rng.random() < 0.5:
            h.update(config=ARM_INI, system_config=rng.choice(["Ethos_U65_High_End", "Ethos_U65_Client_Server"]),
                     memory_mode="Dedicated_Sram")
        return h
    if kind == "u65_shared":
        return dict(accel=rng.choice(["ethos-u65-256", "ethos-u65-512"]), config=ARM_INI, system_config="Ethos_U65_Embedded",
                    memory_mode="Shared_Sram")
    if kind == "u55_shared":
        return dict(accel=rng.choice(["ethos-u55-32", "ethos-u55-64", "ethos-u55-128", "ethos-u55-256"]), config=ARM_INI,
                    system_config=rng.choice(["Ethos_U55_High_End_Embedded", "Ethos_U55_Deep_Embedded"]), memory_mode="Shared_Sram")
    if kind == "u55":
        return dict(NO_CFG, accel=rng.choice(["ethos-u55-32", "ethos-u55-64", "ethos-u55-128", "ethos-u55-256"]))
    if kind == "bank16":             # 16 SHRAM banks: the lookup table shares its banks with the working memory of other operators
        return dict(NO_CFG, accel=rng.choice(["ethos-u55-32", "ethos-u55-64"]))
    if kind == "u65_512":            # two cores, weights not resident in SRAM
        h = dict(NO_CFG, accel="ethos-u65-512")
        r = rng.random()
        if r < 0.3:
            h.update(config=ARM_INI, system_config="Ethos_U65_High_End", memory_mode="Dedicated_Sram")
        elif r < 0.55:
            h.update(config=ARM_INI, system_config="Ethos_U65_Embedded", memory_mode="Shared_Sram")
        return h
    raise ValueError(kind)


# ----------------------------------------------------------------------------- small building blocks
PRODUCERS = ["conv", "conv", "dw", "maxpool", "avgpool", "add", "mulc", "abs"]
CONSUMERS = ["conv", "conv", "dw", "maxpool", "add", "addc", "abs", "lrelu"]


def produce(n, rng, x, kind, tag="p"):
    """an NPU operator that keeps the shape of x (the depth too, except that conv could change it: it does not here)"""
    shp = n.shape(x)
    c = shp[-1]
    if kind == "conv":
        return n.conv(x, c, rng.choice([1, 3]), name=tag + "_conv")
    if kind == "dw":
        return n.dwconv(x, 3, name=tag + "_dw")
    if kind == "maxpool":
        return n.pool(x, "MAX_POOL_2D", k=3, stride=1, name=tag + "_maxpool")
    if kind == "avgpool":
        return n.pool(x, "AVERAGE_POOL_2D", k=2, stride=1, name=tag + "_avgpool")
    if kind == "add":
        x2 = n.fm(tag + "_in", shp, scale=0.03, zp=2, is_input=True)
        return n.eltwise("ADD", x, x2, name=tag + "_add")
    if kind == "mulc":
        k = n.const(tag + "_k", [1, 1, 1, c], "INT8", -100, 100, scale=[0.02], zp=[0])
        return n.eltwise("MUL", x, k, name=tag + "_mul")
    return n.unary("ABS", x, name=tag + "_abs")


def consume(n, rng, x, kind, tag="c"):
    shp = n.shape(x)
    c = shp[-1]
    if kind == "conv":
        return n.conv(x, rng.choice([8, 16, 5]), rng.choice([1, 3]), name=tag + "_conv")
    if kind == "dw":
        return n.dwconv(x, 3, name=tag + "_dw")
    if kind == "maxpool":
        return n.pool(x, "MAX_POOL_2D", k=2, stride=1, name=tag + "_maxpool")
    if kind == "add":
        x2 = n.fm(tag + "_in", shp, scale=0.04, zp=-3, is_input=True)
        return n.eltwise("ADD", x, x2, name=tag + "_add")
    if kind == "addc":
        k = n.const(tag + "_k", [1, 1, 1, c], "INT8", -100, 100, scale=[0.02], zp=[0])
        return n.eltwise("ADD", x, k, name=tag + "_addc")
    if kind == "lrelu":
        return n.unary("LEAKY_RELU", x, name=tag + "_lrelu", alpha=0.2)
    return n.unary("ABS", x, name=tag + "_abs")


def cpu(n, rng, x, tag="cpu"):
    return n.cpu_op(x, rng.choice(["ROUND", "CUSTOM", "ROUND"]), name="%s%d" % (tag, len(n.o)))


# ----------------------------------------------------------------------------- reshape_between
RESHAPE_PAIRS = {
    # (shape written by the producer, shape read by the consumer); same number of elements
    "depth_up": [([1, 8, 8, 2], [1, 4, 4, 8]), ([1, 4, 8, 6], [1, 4, 4, 12]), ([1, 8, 6, 8], [1, 4, 4, 24]),
                 ([1, 8, 8, 3], [1, 4, 4, 12]), ([1, 6, 6, 4], [1, 3, 3, 16]), ([1, 8, 4, 5], [1, 4, 4, 10]),
                 ([1, 8, 8, 4], [1, 8, 2, 16]), ([1, 4, 4, 8], [1, 2, 2, 32])],
    "to16": [([1, 8, 4, 8], [1, 4, 4, 16]), ([1, 8, 4, 12], [1, 4, 2, 48]), ([1, 8, 8, 5], [1, 4, 5, 16]),
             ([1, 4, 8, 4], [1, 2, 4, 16]), ([1, 6, 8, 8], [1, 6, 2, 32]), ([1, 16, 2, 4], [1, 2, 4, 16])],
    # depth up by a factor >= 4: the producer's brick-format footprint is several times the storage of the reshaped tensor
    "depth_up4": [([1, 8, 8, 2], [1, 4, 4, 8]), ([1, 8, 8, 4], [1, 8, 2, 16]), ([1, 8, 8, 1], [1, 4, 4, 4]), ([1, 12, 8, 2], [1, 4, 3, 16]),
                  ([1, 8, 8, 3], [1, 4, 4, 12]), ([1, 6, 6, 4], [1, 3, 3, 16]), ([1, 16, 4, 2], [1, 4, 4, 8]), ([1, 8, 12, 4], [1, 4, 6, 16])],
    "hw": [([1, 8, 4, 8], [1, 32, 1, 8]), ([1, 4, 8, 16], [1, 1, 32, 16]), ([1, 8, 4, 24], [1, 4, 8, 24]),
           ([1, 6, 6, 5], [1, 4, 9, 5]), ([1, 2, 16, 8], [1, 16, 2, 8])],
}


@family("reshape_between", ["depth", "hw", "to_from16", "squeeze_expand", "two_reshapes", "expand_depth1", "producer_observed"])
def f_reshape_between(rng, seed, style=None):
    """a memory-only operator that changes the shape (often the depth) of a tensor BETWEEN two NPU operators: the bypass
    rewires the producer to write the reshaped tensor with its own shape (format restrictions, strides, footprints).
    The shape-pair styles build two independent branches, one per direction (depth up and depth down, ...)"""
    n = Net(seed)
    style = pick_style(rng, "reshape_between", style)
    outs, detail = [], []

    def branch(tag, s_in, s_out, via_flat=False, observe=False, kernel_ops=False):
        pk, ck = rng.choice(PRODUCERS), rng.choice(CONSUMERS)
        if kernel_ops:          # no elementwise operator (those run in place on their input): producer and consumer have kernels
            pk, ck = rng.choice(["conv", "dw", "maxpool", "avgpool"]), rng.choice(["conv", "dw", "maxpool"])
        x = n.fm(tag + "_in", s_in, is_input=True)
        a = produce(n, rng, x, pk, tag + "p")
        if via_flat:
            b = n.reshape(n.reshape(a, [1, s_in[1] * s_in[2] * s_in[3]], name=tag + "_flat"), s_out, name=tag + "_reshape")
        else:
            b = n.reshape(a, s_out, name=tag + "_reshape")
        outs.append(consume(n, rng, b, ck, tag + "c"))
        if observe:
            outs.append(a)
        detail.append("%s-%s-%s-%s" % (pk, "x".join(map(str, s_in[1:])), "x".join(map(str, s_out[1:])), ck))
    if style in ("squeeze_expand", "expand_depth1"):
        pk, ck = rng.choice(PRODUCERS), rng.choice(CONSUMERS)
        H, C = rng.choice([4, 8, 12]), rng.choice([4, 8, 16, 24])
        x = n.fm("in", [1, H, 1, C], is_input=True)
        a = produce(n, rng, x, pk)
        s = n.squeeze(a, [2])                                       # [1, H, C]
        b = n.expand_dims(s, 1) if style == "squeeze_expand" else n.expand_dims(s, -1)      # [1,1,H,C] / [1,H,C,1]
        outs.append(consume(n, rng, b, ck))
        detail.append("%s-%dx%d-%s" % (pk, H, C, ck))
    elif style in ("depth", "to_from16", "hw"):
        base = {"depth": "depth_up", "to_from16": "to16", "hw": "hw"}[style]
        (u_in, u_out), (d_out, d_in) = rng.sample(RESHAPE_PAIRS[base], 2)
        if style == "depth" and rng.random() < 0.7:
            u_in, u_out = rng.choice(RESHAPE_PAIRS["depth_up4"])
        branch("u", u_in, u_out, kernel_ops=(style != "hw"))        # depth up / to a multiple of 16 / merge
        branch("d", d_in, d_out)                                    # the other direction
    else:
        s_in, s_out = rng.choice(RESHAPE_PAIRS[rng.choice(["depth_up4", "depth_up", "to16"] if style == "two_reshapes" else ["depth_up4", "depth_up4", "to16", "hw"])])
        up = rng.random() < 0.7
        if not up:
            s_in, s_out = s_out, s_in
        branch("b", s_in, s_out, via_flat=(style == "two_reshapes"), observe=(style == "producer_observed"), kernel_ops=up)
    hint = cfg(rng, "u65_spill", "u65_spill", "u65_spill", "u65_spill", "u65_spill", "u65_shared", "u55_shared", "any")
    return "reshape_between:%s:%s" % (style, "+".join(detail)), n.desc(outs), hint


# ----------------------------------------------------------------------------- tr_hw
@family("tr_hw", ["post", "alone", "mid", "square", "twice", "wc_hc", "fanout", "pre", "r3", "r2"])
def f_tr_hw(rng, seed, style=None):
    """NPU-placed TRANSPOSE with unequal extents on the swapped axes, alone, behind and in front of NPU operators.  Every
    style except `square` builds two independent branches: one input wider than high, one higher than wide"""
    n = Net(seed)
    style = pick_style(rng, "tr_hw", style)
    lo, hi = rng.choice([2, 3, 4, 5]), rng.choice([8, 11, 13, 16])
    C = rng.choice([3, 8, 16, 24])
    outs, detail = [], []

    def r4(tag, H, W):
        pk, ck = rng.choice(PRODUCERS), rng.choice(CONSUMERS)
        x = n.fm(tag + "_in", [1, H, W, C], is_input=True)
        a = produce(n, rng, x, pk, tag + "p") if style in ("pre", "mid", "square", "twice", "fanout") else x
        t = n.transpose(a, [0, 2, 1, 3], name=tag + "_tr")
        if style == "twice":
            t = n.transpose(consume(n, rng, t, "abs", tag + "c"), [0, 2, 1, 3], name=tag + "_tr2")
            outs.append(n.eltwise("ADD", t, a, name=tag + "_add"))
        elif style == "fanout":
            outs.extend([consume(n, rng, t, ck, tag + "c"), consume(n, rng, a, "abs", tag + "c2")])
        elif style in ("post", "mid", "square"):
            outs.append(consume(n, rng, t, ck, tag + "c"))
        else:
            outs.append(t)
        detail.append("-".join(([pk] if a != x else []) + ["%dx%dx%d" % (H, W, C)] + ([ck] if style in ("post", "mid", "square", "fanout") else [])))
    if style == "square":
        r4("s", hi, hi)
    elif style in ("alone", "pre", "post", "mid", "twice", "fanout"):
        r4("w", lo, hi)
        r4("t", rng.choice([8, 11, 13, 16]), rng.choice([2, 3, 4, 5]))
    elif style == "r3":
        for tag, (H, W) in (("w", (lo, hi)), ("t", (hi, lo))):
            x = n.fm(tag + "_in", [H, W, C], is_input=True)
            a = n.unary("ABS", x, name=tag + "_abs") if rng.random() < 0.5 else x
            t = n.transpose(a, [1, 0, 2], name=tag + "_tr")
            outs.append(n.unary("LEAKY_RELU", t, name=tag + "_lrelu", alpha=0.3) if (tag == "w" or rng.random() < 0.5) else t)
            detail.append("%dx%dx%d" % (H, W, C))
    elif style == "wc_hc":
        for tag, (L, D) in (("w", rng.choice([(hi, 4), (13, 8)])), ("t", rng.choice([(3, 16), (lo, 24)]))):
            for axis, perm in ((2, [0, 1, 3, 2]), (1, [0, 3, 2, 1])):
                shp = [1, 1, 1, D]
                shp[axis] = L
                x = n.fm("%s%d_in" % (tag, axis), shp, is_input=True)
                a = produce(n, rng, x, rng.choice(["conv", "abs", "mulc"]), "%s%dp" % (tag, axis)) if rng.random() < 0.6 else x
                t = n.transpose(a, perm, name="%s%d_tr" % (tag, axis))
                outs.append(consume(n, rng, t, rng.choice(["conv", "abs", "addc"]), "%s%dc" % (tag, axis)) if rng.random() < 0.6 else t)
            detail.append("%dx%d" % (L, D))
    else:
        for tag, (L, D) in (("w", rng.choice([(hi, 4), (13, 8)])), ("t", rng.choice([(3, 16), (lo, 40)]))):
            x = n.fm(tag + "_in", [L, D], is_input=True)
            a = n.unary("ABS", x, name=tag + "_abs") if rng.random() < 0.5 else x
            t = n.transpose(a, [1, 0], name=tag + "_tr")
            outs.append(n.unary("ABS", t, name=tag + "_abs2") if rng.random() < 0.5 else t)
            detail.append("%dx%d" % (L, D))
    hint = cfg(rng, "u55_shared", "u55", "u65_spill", "u65_shared", "any")
    return "tr_hw:%s:%s" % (style, "+".join(detail)), n.desc(outs), hint


# ----------------------------------------------------------------------------- lut_gap
@family("lut_gap", ["same_ew", "same_ew2", "same_pool", "same_conv", "same_mixed", "diff_ew", "aba", "same_ew_fanout"])
def f_lut_gap(rng, seed, style=None):
    """LUT operator, then k >= 1 operators WITHOUT a table, then a LUT operator with the SAME table values (or another
    table): on 16-bank accelerators the operators in between use the table's banks as working memory"""
    n = Net(seed)
    style = pick_style(rng, "lut_gap", style)
    H, W, C = rng.choice([4, 8]), rng.choice([4, 8]), rng.choice([8, 16])
    lut = rng.choice(["TANH", "LOGISTIC", "LEAKY_RELU", "LEAKY_RELU"])
    s0, z0 = {"TANH": (1 / 128, 0), "LOGISTIC": (1 / 256, -128)}.get(lut, (rng.choice([0.05, 0.1]), rng.choice([0, 3])))
    alpha = rng.choice([0.1, 0.25])
    x = n.fm("in", [1, H, W, C], scale=s0, zp=z0, is_input=True)

    def table(t, other=False):
        if other:
            if lut == "LEAKY_RELU":
                return n.unary("LEAKY_RELU", t, alpha=alpha + 0.2)
            t2 = n.unary("LEAKY_RELU", t, alpha=0.3)
            return t2
        return n.unary(lut, t, alpha=alpha)

    def gap(t, kind):
        if kind == "addc":
            k = n.const("k%d" % len(n.o), [1, 1, 1, C], "INT8", -60, 60, scale=[s0], zp=[0])
            return n.eltwise("ADD", t, k, oscale=s0, ozp=z0)
        if kind == "mulc":
            k = n.const("k%d" % len(n.o), [], "INT8", scale=[1 / 64], zp=[0], data=[rng.choice([40, 64, 90])])
            return n.eltwise("MUL", t, k, oscale=s0, ozp=z0)
        if kind == "add2":
            t2 = n.fm("side%d" % len(n.o), [1, H, W, C], scale=s0, zp=z0, is_input=True)
            return n.eltwise("ADD", t, t2, oscale=s0, ozp=z0)
        if kind == "maxpool":
            return n.pool(t, "MAX_POOL_2D", k=2, stride=1)
        if kind == "conv":
            return n.conv(t, C, 1, oscale=s0, ozp=z0)
        return n.unary("ABS", t)

    kinds = {"same_ew": [rng.choice(["addc", "mulc", "add2"])], "same_ew2": [rng.choice(["addc", "mulc"]), rng.choice(["add2", "abs", "mulc"])],
             "same_pool": ["maxpool"], "same_conv": ["conv"], "same_mixed": [rng.choice(["addc", "mulc"]), rng.choice(["maxpool", "conv"]), "addc"][:rng.choice([2, 3])],
             "diff_ew": [rng.choice(["addc", "mulc", "add2"])], "aba": ["addc"], "same_ew_fanout": ["addc"]}[style]
    a = table(x)
    t = a
    for k in kinds:
        t = gap(t, k)
    b = table(t, other=(style == "diff_ew"))
    outs = [b]
    if style == "aba":                          # table A, gap, table B, gap, table A again
        b2 = table(gap(b, "mulc"), other=True)
        outs = [table(gap(b2, "addc"))]
    if style == "same_ew_fanout":
        outs = [b, n.eltwise("ADD", a, t, oscale=s0, ozp=z0)]
    hint = cfg(rng, "bank16", "bank16", "bank16", "bank16", "bank16", "any")
    return "lut_gap:%s:%s-%s" % (style, lut.lower(), "-".join(kinds)), n.desc(outs), hint


# ----------------------------------------------------------------------------- skip_out
@family("skip_out", ["cpu", "later_npu", "output", "cpu_and_output", "later_npu_and_cpu", "two_inside_cpu", "later_npu_output",
                     "chain_of_skips"])
def f_skip_out(rng, seed, style=None):
    """an NPU-produced tensor with one consumer inside its NPU subgraph and one outside it: a CPU operator, an NPU operator
    of a LATER subgraph behind a CPU operator, the network output list - or several of them"""
    n = Net(seed)
    style = pick_style(rng, "skip_out", style)
    H, W, C = rng.choice([4, 8, 16]), rng.choice([4, 8]), rng.choice([8, 16])
    x = n.fm("in", [1, H, W, C], is_input=True)
    pk = rng.choice(["conv", "conv", "dw", "maxpool", "add", "mulc"])
    ik = rng.choice(["conv", "conv", "dw", "maxpool", "addc", "abs", "lrelu"])
    t = produce(n, rng, x, pk, "skip")                     # the tensor that leaves the subgraph and is read inside it
    u = consume(n, rng, t, ik, "inner")
    if n.shape(u) != n.shape(t):                           # (consumers keep H and W)
        u = n.conv(u, C, 1, name="inner_fix")
    keep = rng.random() < 0.75                             # the graph input stays live across the subgraph: it is read again at the end

    def late(v):
        """CPU consumer of v; with `keep` a two-operand CPU operator that also reads the graph input again"""
        if not keep:
            return cpu(n, rng, v)
        y = n.fm("cpu_late%d" % len(n.o), n.shape(v), n.t[v]["type"], 0.05, 0)
        n.op(rng.choice(["FLOOR_DIV", "FLOOR_MOD"]), [x, v], [y])
        return y
    if style == "cpu":
        outs = [u, late(t)]
    elif style == "later_npu":
        v = cpu(n, rng, u)
        outs = [n.eltwise("ADD", v, t, name="late_add")] + ([late(v)] if keep else [])
    elif style == "output":
        outs = [u, t] if rng.random() < 0.5 else [t, u]
        if keep:
            outs.append(late(u))
    elif style == "cpu_and_output":
        outs = [u, late(t), t]
    elif style == "later_npu_and_cpu":
        v = cpu(n, rng, u)
        w = late(t)
        outs = [n.eltwise("ADD", v, t, name="late_add"), w]
    elif style == "two_inside_cpu":                        # two consumers inside (never cascaded) and one on the CPU
        u2 = consume(n, rng, t, "abs", "inner2")
        outs = [u, u2, late(t)]
    elif style == "later_npu_output":
        v = cpu(n, rng, u)
        outs = [n.unary("ABS", v, name="late_abs"), n.pool(t, "MAX_POOL_2D", k=2, stride=1, name="late_pool"), t]
        outs = [outs[0], t] if rng.random() < 0.5 else outs
        if keep:
            outs.append(late(v))
    else:                                                  # every intermediate of a chain also leaves through the CPU
        a = consume(n, rng, u, "abs", "inner2")
        outs = [a, late(t), cpu(n, rng, u)]
    hint = cfg(rng, "u65_spill", "u65_spill", "u55", "u55", "u55_shared", "any")
    if rng.random() < 0.7:
        hint["optimise"] = "Performance"
    return "skip_out:%s:%s-%s%s" % (style, pk, ik, "-keep" if keep else ""), n.desc(outs), hint


# ----------------------------------------------------------------------------- io_alias
@family("io_alias", ["pass_through", "in_out_npu", "cpu_prod_out", "npu_mid_out", "const_out", "pass_through2", "in_out_cpu_npu", "in2_out",
                     "pass_through_cpu", "cpu_mid_out_late"])
def f_io_alias(rng, seed, style=None):
    """tensors that play two interface roles: graph input AND graph output (read by nobody, by an NPU operator, by both
    sides); a tensor entering an NPU subgraph from the CPU side (input, constant, CPU result) that is also a model output"""
    n = Net(seed)
    style = pick_style(rng, "io_alias", style)
    H, W, C = rng.choice([4, 8]), rng.choice([4, 8]), rng.choice([8, 16])
    x = n.fm("in", [1, H, W, C], is_input=True)
    if style in ("pass_through", "pass_through_cpu", "pass_through2"):
        p = n.fm("through", [1, rng.choice([2, 4, 8]), rng.choice([4, 8]), rng.choice([4, 16])], is_input=True)
        a = n.conv(x, C, 3) if style != "pass_through_cpu" else cpu(n, rng, x)
        b = cpu(n, rng, a) if (style == "pass_through2" or rng.random() < 0.7) else n.unary("ABS", a)
        c = consume(n, rng, b, rng.choice(["conv", "maxpool", "abs"]))
        outs = [c, p] if rng.random() < 0.5 else [p, c]
        if style == "pass_through2":                       # a second pass-through tensor of another type, results in between
            p2 = n.fm("through2", [1, rng.choice([3, 8]), rng.choice([16, 40])], "INT16", 0.001, 0, is_input=True)
            outs = [p2] + outs
    elif style == "in_out_npu":
        a = consume(n, rng, x, rng.choice(["conv", "maxpool", "abs", "addc"]))
        outs = [a, x] if rng.random() < 0.5 else [x, a]
    elif style == "in_out_cpu_npu":
        a = n.conv(x, C, 1)
        b = cpu(n, rng, x)
        outs = [n.eltwise("ADD", a, b), x]
    elif style == "cpu_prod_out":
        c = cpu(n, rng, x)
        a = consume(n, rng, c, rng.choice(["conv", "abs", "maxpool", "add"]))
        outs = [a, c] if rng.random() < 0.5 else [c, a]
    elif style == "const_out":
        k = n.const("k", [1, H, W, C], "INT8", -100, 100, scale=[0.02], zp=[0])
        a = n.eltwise(rng.choice(["ADD", "MUL"]), x, k)
        outs = [a, k]
    elif style == "in2_out":                               # second operand of an NPU elementwise operator is input and output
        x2 = n.fm("in2", [1, H, W, C], scale=0.03, zp=2, is_input=True)
        a = n.eltwise("ADD", n.conv(x, C, 1), x2)
        outs = [a, x2]
    elif style == "npu_mid_out":
        a = n.conv(x, C, 3)
        b = consume(n, rng, a, rng.choice(["conv", "abs", "maxpool"]))
        outs = [b, a]
    else:                                                  # CPU result exported AND read by an NPU operator that runs much later
        c = cpu(n, rng, x)
        a = n.conv(x, C, 3)
        b = n.conv(a, C, 1)
        outs = [n.eltwise("ADD", b, c), c]
    hint = cfg(rng, "any", "u55", "u65_spill", "u55_shared")
    return "io_alias:" + style, n.desc(outs), hint


# ----------------------------------------------------------------------------- tiny_depth
@family("tiny_depth", ["ofm", "ofm_chain", "dw_c", "ifm_c", "spatial1", "ofm_wh1", "fc_out"])
def f_tiny_depth(rng, seed, style=None):
    """fewer channels than cores x micro-block: convolution / depthwise with OFM depth 1, 2, 3 (and IFM depth 1..3, 1x1
    spatial extents, OFM width / height 1) on the two-core part with DMA-buffered weights.  Several instances per network
    (branches on one input or a chain), one of them always with OFM depth 1"""
    n = Net(seed)
    style = pick_style(rng, "tiny_depth", style)
    H, W = rng.choice([4, 8, 16]), rng.choice([4, 8, 16])
    C = rng.choice([1, 2, 3, 8, 16])
    k = rng.choice([1, 3])
    if style == "ofm":
        x = n.fm("in", [1, H, W, C], is_input=True)
        outs = [n.conv(x, oc, kk, name="oc%d" % oc) for oc, kk in ((1, k), (2, rng.choice([1, 3])), (3, rng.choice([1, 3])))]
        if rng.random() < 0.5:
            outs[0] = n.conv(outs[0], rng.choice([1, 2, 8]), 1)
        detail = "c%d-k%d" % (C, k)
    elif style == "dw_c":
        outs = []
        for c in (1, 2, 3):
            x = n.fm("in%d" % c, [1, H, W, c], is_input=True)
            outs.append(n.dwconv(n.dwconv(x, 3), 3) if rng.random() < 0.4 else n.dwconv(x, 3))
        detail = "%dx%d" % (H, W)
    elif style == "ifm_c":
        outs = []
        for c in (1, 2, 3):
            x = n.fm("in%d" % c, [1, H, W, c], is_input=True)
            outs.append(n.conv(x, {1: 1, 2: rng.choice([2, 8]), 3: rng.choice([16, 40])}[c], rng.choice([1, 3])))
        detail = "%dx%d" % (H, W)
    elif style == "spatial1":
        c = rng.choice([1, 3, 16, 64])
        x = n.fm("in", [1, 1, 1, c], is_input=True)
        a = n.conv(x, 1, 1)
        outs = [n.conv(a, rng.choice([1, 3]), 1), n.conv(x, rng.choice([2, 16]), 1)]
        detail = "c%d" % c
    elif style == "ofm_wh1":
        kk = rng.choice([3, 4])
        xw = n.fm("in_w", [1, H, kk, C], is_input=True)
        xh = n.fm("in_h", [1, kk, W, C], is_input=True)
        yw = n.conv2(xw, 1, kh=3, kw=kk, pad="VALID")                 # OFM width 1, depth 1
        yh = n.conv2(xh, rng.choice([1, 2, 8]), kh=kk, kw=3, pad="VALID")   # OFM height 1
        outs = [n.conv(yw, rng.choice([1, 8]), 1), yh]
        detail = "c%d-k%d" % (C, kk)
    elif style == "fc_out":
        x = n.fm("in", [1, rng.choice([8, 32, 100])], is_input=True)
        outs = [n.fc2(x, oc, name="fc%d" % oc) for oc in (1, 2, 3)]
        detail = "fc"
    else:
        x = n.fm("in", [1, H, W, C], is_input=True)
        y = n.conv(x, 1, 3)
        y = n.conv(y, 2, k)
        y = n.dwconv(y, 3)
        y = n.conv(y, 3, 1)
        outs = [n.pool(y, "MAX_POOL_2D", k=2, stride=2)]
        detail = "c%d" % C
    hint = cfg(rng, "u65_512", "u65_512", "u65_512", "u65_512", "u65_512", "u65_spill", "any")
    if rng.random() < 0.85:
        hint["optimise"] = "Performance"
    return "tiny_depth:%s:%s" % (style, detail), n.desc(outs), hint


# ----------------------------------------------------------------------------- astride
ASTRIDES = [(1, 2), (2, 1), (1, 3), (3, 1), (2, 3), (3, 2)]


@family("astride", ["tall_conv", "pool", "tall_dw", "conv", "tall_pool", "dw", "tall_two", "pool_wide_k", "two"])
def f_astride(rng, seed, style=None):
    """consumers with different strides in x and y directly behind the producer whose OFM they read.  The tall_ styles
    build three independent branches on narrow, very tall feature maps (several block rows, at most two blocks across and
    deep) whose vertical stride is the larger one"""
    n = Net(seed)
    style = pick_style(rng, "astride", style)
    tall = style.startswith("tall_")
    kind0 = style[5:] if tall else style
    outs, detail = [], []

    def strided(t, kind, sh, sw, pad, C):
        if kind == "pool":
            return n.pool2(t, rng.choice(["MAX_POOL_2D", "AVERAGE_POOL_2D"]), rng.choice([1, 2, sh]), rng.choice([1, 2, sw]), sh, sw, pad)
        if kind == "pool_wide_k":
            return n.pool2(t, "MAX_POOL_2D", rng.choice([2, 3]), rng.choice([3, 5]), sh, sw, pad)
        if kind == "conv":
            return n.conv2(t, C, rng.choice([1, 3]), rng.choice([1, 3]), sh, sw, pad=pad)
        return n.dwconv2(t, 3, 3, sh, sw, pad=pad)

    def branch(tag, H, W, C, sh, sw):
        x = n.fm(tag + "in", [1, H, W, C], is_input=True)
        pk = rng.choice(["conv", "conv", "dw", "maxpool", "add", "abs"])
        a = produce(n, rng, x, pk, tag + "p")
        pad = rng.choice(["SAME", "VALID"])
        if kind0 == "two":
            b = strided(a, rng.choice(["pool", "conv", "dw"]), sh, sw, pad, C)
            b = strided(b, rng.choice(["pool", "conv"]), sw, sh, pad, C) if min(n.shape(b)[1:3]) >= 3 else b
        else:
            b = strided(a, kind0, sh, sw, pad, C)
        outs.append(n.conv(b, C, 1) if rng.random() < 0.5 else b)
        detail.append("%s-%dx%dx%d-s%dx%d-%s" % (pk, H, W, C, sh, sw, pad.lower()))
    if tall:
        for i, (sh, sw) in enumerate(rng.sample([(2, 1), (3, 1), (3, 2)], 3 if kind0 != "two" else 1)):
            branch("b%d_" % i, rng.choice([96, 130, 130, 160, 200]), rng.choice([2, 4, 8]), rng.choice([4, 8, 16]), sh, sw)
    else:
        sh, sw = rng.choice(ASTRIDES)
        branch("", rng.choice([8, 12, 16, 24]), rng.choice([8, 12, 16]), rng.choice([8, 16, 32]), sh, sw)
    return "astride:%s:%s" % (style, "+".join(detail)), n.desc(outs), cfg(rng, "any", "u55", "u65_shared", "u65_spill")


# ----------------------------------------------------------------------------- islands
@family("islands", ["two", "three", "parallel", "outs_each", "cpu_first_last", "join_late"])
def f_islands(rng, seed, style=None):
    """two or three NPU subgraphs with CPU operators between them; network outputs produced at different times"""
    n = Net(seed)
    style = pick_style(rng, "islands", style)
    H, W, C = rng.choice([4, 8]), rng.choice([4, 8]), rng.choice([8, 16])
    x = n.fm("in", [1, H, W, C], is_input=True)

    def island(t, tag, depth=None):
        for i in range(depth or rng.randint(1, 3)):
            t = produce(n, rng, t, rng.choice(["conv", "conv", "dw", "maxpool", "abs", "mulc"]), "%s%d" % (tag, i))
        return t
    if style in ("two", "three", "outs_each"):
        k = 3 if style == "three" else rng.choice([2, 3]) if style == "outs_each" else 2
        t, mids = x, []
        for i in range(k):
            t = island(t, "i%d" % i)
            mids.append(t)
            if i < k - 1:
                t = cpu(n, rng, t)
        outs = mids[::-1] if style == "outs_each" else [t]
    elif style == "parallel":
        a = island(cpu(n, rng, island(x, "a")), "a2")
        b = island(cpu(n, rng, island(x, "b")), "b2")
        outs = [n.eltwise("ADD", a, b)] if rng.random() < 0.6 else [a, b]
    elif style == "cpu_first_last":
        t = cpu(n, rng, island(cpu(n, rng, island(cpu(n, rng, x), "a")), "b"))
        outs = [t]
    else:                                                  # the first island's result is read again by the last island
        a = island(x, "a")
        b = island(cpu(n, rng, a), "b")
        c = cpu(n, rng, b)
        outs = [n.eltwise("ADD", island(c, "c", 1), a)]
    return "islands:" + style, n.desc(outs), cfg(rng, "any", "u65_spill", "u55", "u55_shared")


# ----------------------------------------------------------------------------- fanout
@family("fanout", ["fan3", "fan4_join", "shared_const", "shared_scalar", "shared_weights_bias", "same_twice", "fan_out_and_output"])
def f_fanout(rng, seed, style=None):
    """fan-out > 2, the same constant feeding two operators, the same tensor twice in one operator"""
    n = Net(seed)
    style = pick_style(rng, "fanout", style)
    H, W, C = rng.choice([4, 8, 16]), rng.choice([4, 8]), rng.choice([8, 16])
    x = n.fm("in", [1, H, W, C], is_input=True)
    a = n.conv(x, C, rng.choice([1, 3]))
    if style == "fan3":
        outs = [consume(n, rng, a, k, "f%d" % i) for i, k in enumerate(rng.sample(["conv", "dw", "maxpool", "abs", "addc", "lrelu"], 3))]
    elif style == "fan4_join":
        bs = [produce(n, rng, a, k, "f%d" % i) for i, k in enumerate(rng.sample(["conv", "dw", "maxpool", "abs", "mulc", "avgpool"], 4))]
        s1 = n.eltwise("ADD", bs[0], bs[1])
        s2 = n.eltwise("ADD", bs[2], bs[3])
        outs = [n.concat([s1, s2, a])]
    elif style == "shared_const":
        k = n.const("shared_k", [1, 1, 1, C], "INT8", -100, 100, scale=[0.02], zp=[0])
        b = n.eltwise("ADD", a, k)
        c = n.eltwise(rng.choice(["MUL", "ADD", "SUB"]), n.pool(a, "MAX_POOL_2D", k=3, stride=1), k)
        outs = [n.eltwise("ADD", b, c)]
    elif style == "shared_scalar":
        k = n.const("shared_s", [], "INT8", scale=[0.02], zp=[0], data=[rng.choice([17, 64, -50])])
        b = n.eltwise("MUL", a, k)
        c = n.eltwise("ADD", x, k)
        outs = [b, c]
    elif style == "shared_weights_bias":                   # two convolutions sharing weights AND bias, different inputs
        x2 = n.fm("in2", [1, H, W, C], scale=0.04, is_input=True)
        y1 = n.conv(a, 16, 3, name="ca")
        wt, bt = n.o[-1]["inputs"][1:3]
        y2 = n.conv(x2, 16, 3, name="cb")
        n.o[-1]["inputs"][1:3] = [wt, bt]
        outs = [y1, y2]
    elif style == "same_twice":
        b = n.eltwise(rng.choice(["ADD", "MUL"]), a, a)
        outs = [n.concat([b, b], axis=rng.choice([1, 3]))]
    else:
        outs = [consume(n, rng, a, "conv", "f0"), consume(n, rng, a, "maxpool", "f1"), consume(n, rng, a, "abs", "f2"), a]
    return "fanout:" + style, n.desc(outs), cfg(rng, "any", "u65_spill", "u55", "u65_shared")


# ----------------------------------------------------------------------------- ewchain
@family("ewchain", ["long", "long_input", "with_fanout", "bcast_mix", "two_operand_tail", "widening"])
def f_ewchain(rng, seed, style=None):
    """long elementwise chains (the live ranges of IFM and OFM are fused, the chain runs in place)"""
    n = Net(seed)
    style = pick_style(rng, "ewchain", style)
    H, W, C = rng.choice([4, 8, 16]), rng.choice([4, 8]), rng.choice([8, 16, 24])
    if style == "widening":          # int8 -> int16 / int32 in the middle of a chain of NPU-internal tensors, ADD and MUL
        C = rng.choice([16, 16, 32, 8])
        outs = []
        for kind, wide in rng.sample([("ADD", "INT16"), ("MUL", "INT32"), ("ADD", "INT32"), ("MUL", "INT16")], 3):
            tag = "%s%s" % (kind.lower(), wide[3:])
            a, b, c = (n.fm("%s_%s" % (tag, nm), [1, H, W, C], scale=sc, is_input=True) for nm, sc in (("a", 0.05), ("b", 0.03), ("c", 0.04)))
            d = n.fm(tag + "_d", [1, H, W, C], wide, 0.001, 0, is_input=True)
            t1 = n.eltwise(kind, a, b, name=tag + "_1")
            t2 = n.eltwise(kind, t1, c, name=tag + "_2", oscale=0.001, ozp=0)
            n.t[t2]["type"] = wide
            o = n.eltwise(kind, t2, d, name=tag + "_3", oscale=0.002, ozp=0)
            n.t[o]["type"] = wide
            outs.append(o)
        return "ewchain:widening:%dx%dx%d" % (H, W, C), n.desc(outs), cfg(rng, "any", "u55", "u65_spill", "u55_shared")
    x = n.fm("in", [1, H, W, C], is_input=True)
    t = x if style == "long_input" else n.conv(x, C, 1)
    first = t
    keep = None
    depth = rng.randint(6, 11)
    for i in range(depth):
        kind = rng.choice(["addc", "mulc", "abs", "lrelu", "maxc", "add2", "addc", "mulc"])
        if kind == "addc":
            t = n.eltwise("ADD", t, n.const("k%d" % i, [1, 1, 1, C], "INT8", -90, 90, scale=[0.02], zp=[0]))
        elif kind == "mulc":
            t = n.eltwise("MUL", t, n.const("k%d" % i, [], "INT8", scale=[0.02], zp=[0], data=[rng.choice([30, 50, 70])]))
        elif kind == "abs":
            t = n.unary("ABS", t)
        elif kind == "lrelu":
            t = n.unary("LEAKY_RELU", t, alpha=0.1)
        elif kind == "maxc":
            k = n.const("k%d" % i, [1, 1, 1, C], "INT8", -90, 90, scale=n.t[t]["scale"], zp=n.t[t]["zp"])
            t = n.eltwise("MAXIMUM", t, k)
        else:
            shp = [1, H, W, C] if style != "bcast_mix" else rng.choice([[1, 1, 1, C], [1, 1, W, 1], [1, H, 1, 1], [1, 1, 1, 1]])
            t = n.eltwise("ADD", t, n.fm("side%d" % i, shp, scale=0.03, zp=1, is_input=True))
        if style == "with_fanout" and i == depth // 2:
            keep = t
    outs = [t]
    if keep is not None:
        outs = [n.eltwise("SUB", t, keep), keep] if rng.random() < 0.5 else [n.eltwise("SUB", t, keep)]
    if style == "two_operand_tail":
        outs = [n.eltwise("ADD", t, first)]
    return "ewchain:%s:%d" % (style, depth), n.desc(outs), cfg(rng, "any", "u55", "u65_spill", "u55_shared")


# ----------------------------------------------------------------------------- catcat
@family("catcat", ["concat_concat", "concat_concat_axes", "split_concat", "split_ops_concat", "concat_split", "concat_shared", "split_split"])
def f_catcat(rng, seed, style=None):
    """concatenation of concatenations, split feeding concat, concat feeding split (write / read offsets composed)"""
    n = Net(seed)
    style = pick_style(rng, "catcat", style)
    H, W, C = rng.choice([4, 8]), rng.choice([4, 8]), rng.choice([8, 16])
    x = n.fm("in", [1, H, W, C], is_input=True)
    a = n.conv(x, C, 1)
    b = n.pool(x, "MAX_POOL_2D", k=3, stride=1)
    c = n.unary("ABS", x)
    if style == "concat_concat":
        ax = rng.choice([1, 2, 3])
        outs = [n.conv(n.concat([n.concat([a, b], ax), c], ax), 8, 1)]
    elif style == "concat_concat_axes":
        ax1, ax2 = rng.choice([(3, 1), (1, 3), (2, 3), (3, 2), (1, 2)])
        inner = n.concat([a, a if rng.random() < 0.3 else n.conv(x, C, 3)], ax1)
        other = n.concat([b, c], ax1)
        outs = [n.unary("ABS", n.concat([inner, other], ax2))]
    elif style == "split_concat":
        ax = rng.choice([1, 2, 3])
        ys = n.split(a, 2, axis=ax)
        outs = [n.conv(n.concat(ys[::-1], ax), 8, 3)]
    elif style == "split_ops_concat":
        ys = n.split(a, 2, axis=3)
        p = n.conv(ys[0], C // 2, 3)
        q = n.unary("LEAKY_RELU", ys[1], alpha=0.2)
        outs = [n.concat([q, p, ys[0]], 3)]
    elif style == "concat_split":
        cc = n.concat([a, b], 3)
        ys = n.split(cc, 4, axis=3)
        outs = [n.eltwise("ADD", ys[0], ys[3]), n.conv(ys[1], 8, 1), ys[2]]
    elif style == "concat_shared":                          # one tensor is member of two concatenations
        outs = [n.conv(n.concat([a, b], 3), 8, 1), n.concat([c, a], rng.choice([1, 3]))]
    else:
        ys = n.split(a, 2, axis=3)
        zs = n.split(ys[0], 2, axis=rng.choice([1, 2]))
        outs = [n.unary("ABS", zs[0]), n.conv(zs[1], 8, 1), n.dwconv(ys[1], 3)]
    return "catcat:" + style, n.desc(outs), cfg(rng, "any", "u55_shared", "u65_spill")


# ----------------------------------------------------------------------------- extreme
EXTREME_SHAPES = {"wide": [[1, 2, 256, 8], [1, 3, 500, 4], [1, 1, 1024, 3], [1, 4, 192, 16]],
                  "tall": [[1, 256, 2, 8], [1, 500, 3, 4], [1, 700, 1, 3], [1, 192, 4, 16]],
                  "depth1": [[1, 32, 32, 1], [1, 48, 16, 1], [1, 17, 23, 1]],
                  "odd_depth": [[1, 16, 16, 17], [1, 24, 12, 33], [1, 20, 20, 5], [1, 12, 12, 47], [1, 16, 8, 15]],
                  "deep_thin": [[1, 2, 2, 256], [1, 1, 3, 300], [1, 3, 1, 260]]}


@family("extreme", ["wide", "tall", "depth1", "odd_depth", "deep_thin"])
def f_extreme(rng, seed, style=None):
    """very wide / very tall / depth-1 / depth-not-a-multiple-of-16 / deep-and-thin tensors through cascades of 2-4 operators"""
    n = Net(seed)
    style = pick_style(rng, "extreme", style)
    shp = rng.choice(EXTREME_SHAPES[style])
    x = n.fm("in", shp, is_input=True)
    t = x
    kinds = []
    for i in range(rng.randint(2, 4)):
        k = rng.choice(["conv3", "conv1", "dw3", "maxpool", "conv3", "abs", "convs2"])
        h, w = n.shape(t)[1:3]
        if k == "convs2" and min(h, w) < 4:
            k = "conv1"
        c = n.shape(t)[3]
        if c > 64 and k in ("conv3", "convs2"):
            k = "conv1"
        kinds.append(k)
        if k == "conv3":
            t = n.conv(t, c, 3)
        elif k == "conv1":
            t = n.conv(t, rng.choice([c, c, 8]), 1)
        elif k == "dw3":
            t = n.dwconv(t, 3)
        elif k == "maxpool":
            t = n.pool(t, "MAX_POOL_2D", k=3, stride=1)
        elif k == "convs2":
            t = n.conv(t, c, 3, stride=2)
        else:
            t = n.unary("ABS", t)
    hint = cfg(rng, "any", "u55_shared", "u65_spill", "u65_shared")
    hint["optimise"] = rng.choice(["Size", "Size", "Performance"])
    if hint["optimise"] == "Performance":
        hint["arena"] = rng.choice([2048, 4096, 8192])
    return "extreme:%s:%s:%s" % (style, "x".join(map(str, shp[1:])), "-".join(kinds)), n.desc([t]), hint


# ----------------------------------------------------------------------------- fsgroups
@family("fsgroups", ["big_first", "small_first", "three", "shared_input"])
def f_fsgroups(rng, seed, style=None):
    """several time-disjoint groups of feature maps that compete for the fast storage (each fits on its own, two of a group
    do not), of different sizes, scheduled in either order; arena cache between one and two feature maps"""
    n = Net(seed)
    style = pick_style(rng, "fsgroups", style)
    C = 16
    big, small = [1, 16, 16, C], [1, 16, rng.choice([14, 12, 10]), C]
    shapes = {"big_first": [small, big], "small_first": [big, small], "three": rng.choice([[small, big, big], [small, small, big], [big, small, big]]),
              "shared_input": [small, big]}[style]          # the subgraph output listed last is scheduled first
    outs = []
    shared = n.fm("shared", big, scale=0.5, is_input=True) if style == "shared_input" else None
    for gi, sh in enumerate(shapes):
        a = shared if (shared is not None and sh == big) else n.fm("g%d_a" % gi, sh, scale=0.5, is_input=True)
        b = n.fm("g%d_b" % gi, sh, scale=0.25, is_input=True)
        c = n.fm("g%d_c" % gi, sh, scale=0.125, is_input=True)
        t1 = n.eltwise("ADD", a, b, name="g%d_t1" % gi, oscale=0.75, ozp=0)
        t2 = n.eltwise(rng.choice(["ADD", "ADD", "MUL"]), t1, c, name="g%d_t2" % gi, oscale=0.8, ozp=0)
        outs.append(n.eltwise("ADD", t1, t2, name="g%d_out" % gi, oscale=1.0, ozp=0))
    fm = min(s_[1] * s_[2] * s_[3] for s_ in shapes)
    hint = dict(cfg(rng, "u65_spill"), optimise="Performance", arena=rng.choice([fm + 2048, fm + 2560, 6144]),
                allocator=rng.choice(["HillClimb", "Greedy"]))
    return "fsgroups:" + style, n.desc(outs), hint


# ============================================================================= opt-in families
# Families below are NOT compiled by shape_jobs() / shape_sample() unless a check names them (families= / extra=): the
# rotation of the families above, and with it every existing draw, stays as it was.
OPT_IN = set()


def _state(n, name, shape, dt="INT8", scale=0.05, zp=0):
    """a variable (state) tensor: no buffer, is_variable, neither network input nor output - it keeps its value between
    inferences, so it is live during the whole operator sequence"""
    v = n.fm(name, shape, dt, scale, zp)
    n.t[v]["is_variable"] = True
    return v


# ----------------------------------------------------------------------------- statevar
OPT_IN.add("statevar")


@family("statevar", ["npu_early", "cpu_early", "npu_late", "cpu_late", "npu_mid", "npu_and_cpu", "two_states", "early_in_second_island",
                     "early_then_wide", "npu_ew_early", "npu_ew_mid", "npu_ew_late"])
def f_statevar(rng, seed, style=None):
    """variable (state) tensors as operands of NPU and CPU operators, read early / in the middle / late, in chains of NPU and
    CPU operators whose later tensors have exactly the size of the state tensor (they fit into the hole a too short live
    range would leave).  npu_*: the state is read by an NPU convolution / pooling operator whose result joins the chain;
    npu_ew_*: the state is itself an operand of an NPU elementwise operator (a candidate for in-place output)"""
    n = Net(seed)
    style = pick_style(rng, "statevar", style)
    H, W, C = rng.choice([4, 8]), rng.choice([4, 8, 16]), rng.choice([8, 16])
    shp = [1, H, W, C]
    x = n.fm("in", shp, is_input=True)
    v = _state(n, "state", shp, scale=0.04, zp=1)
    direct = style.startswith("npu_ew")

    def npu(t, tag, other=None):
        if other is not None:
            if not direct:      # read by an operator that never works in place
                other = produce(n, rng, other, rng.choice(["conv", "dw", "maxpool", "avgpool"]), tag + "_rd")
            return n.eltwise(rng.choice(["ADD", "ADD", "SUB", "MUL"]), t, other, name=tag)
        return produce(n, rng, t, rng.choice(["conv", "dw", "maxpool", "abs", "mulc"]), tag)

    def host(t, tag, other=None):
        if other is not None:
            y = n.like(t, tag)
            n.op(rng.choice(["FLOOR_DIV", "FLOOR_MOD"]), [t, other], [y])
            return y
        return n.cpu_op(t, rng.choice(["ROUND", "CUSTOM", "ROUND"]), name=tag)
    depth = rng.randint(4, 6)
    kinds = [("n" if i % 2 == 0 else "c") for i in range(depth)]       # NPU and CPU operators alternate ...
    if rng.random() < 0.4:
        kinds = [rng.choice("nnc") for _ in range(depth)]                # ... or come in runs
    where = {"npu_early": ("n", 0), "cpu_early": ("c", 0), "npu_late": ("n", depth - 1), "cpu_late": ("c", depth - 1),
             "npu_mid": ("n", depth // 2), "npu_and_cpu": ("n", 0), "two_states": ("n", 0), "early_in_second_island": ("n", 2),
             "early_then_wide": ("n", 0), "npu_ew_early": ("n", 0), "npu_ew_mid": ("n", depth // 2),
             "npu_ew_late": ("n", depth - 1)}[style]
    kinds[where[1]] = where[0]
    if style == "early_in_second_island":
        kinds[0], kinds[1] = "n", "c"
    second = None
    if style == "npu_and_cpu":
        kinds[2] = "c"
        second = (2, v)
    if style == "two_states":
        kinds[depth - 2] = "c"
        second = (depth - 2, _state(n, "state2", shp, scale=0.03, zp=-2))
    t = x
    for i, k in enumerate(kinds):
        other = v if i == where[1] else second[1] if (second and i == second[0]) else None
        t = (npu if k == "n" else host)(t, "%s%d" % ("n" if k == "n" else "c", i), other)
    outs = [t]
    if style == "early_then_wide":      # two branches live together after the state's last reader: more candidates for its bytes
        u = npu(n.cpu_op(t, "ROUND", name="cw"), "nw")
        outs = [t, u] if rng.random() < 0.5 else [n.eltwise("ADD", t, u, name="join")]
    hint = cfg(rng, "any", "u55", "u55_shared", "u65_shared", "u65_spill")
    hint["allocator"] = rng.choice(["HillClimb", "Greedy", "HillClimb", "Greedy", "LinearAlloc"])
    return "statevar:%s:%s" % (style, "".join(kinds)), n.desc(outs), hint


# ----------------------------------------------------------------------------- dangling
OPT_IN.add("dangling")


@family("dangling", ["topk_idx", "topk_vals", "custom2_second", "custom2_first", "custom3_middle", "unique_idx", "split_cpu_second",
                     "unpack_cpu_last", "all_but_one", "dangling_at_end"])
def f_dangling(rng, seed, style=None):
    """operators with several outputs that stay in the output graph (CPU) and of whose outputs some are used by nobody - not
    by an operator, not as a network output: the kernel still writes them, they need a place in the arena plan.  NPU
    operators before and after; a second consumer keeps the operand of the multi-output operator alive across it"""
    n = Net(seed)
    style = pick_style(rng, "dangling", style)
    H, W, C = rng.choice([4, 8]), rng.choice([4, 8]), rng.choice([8, 16])
    x = n.fm("in", [1, H, W, C], is_input=True)
    a = produce(n, rng, x, rng.choice(["add", "conv", "abs", "maxpool"]), "pre") if style != "dangling_at_end" or rng.random() < 0.5 else x
    src = n.t[a]
    q = (src["type"], src["scale"][0], src["zp"][0])
    used = []
    if style in ("topk_idx", "topk_vals", "dangling_at_end"):
        kk = rng.choice([2, 4])
        vals = n.fm("topk_v", [1, H, W, kk], *q)
        idx = n.fm("topk_i", [1, H, W, kk], "INT32", None)
        n.op("TOPK_V2", [a, n.const("k", [], "INT32", data=[kk])], [vals, idx], ["TopKV2Options", {}])
        used = [idx] if style == "topk_vals" else [vals]
    elif style in ("custom2_second", "custom2_first", "custom3_middle", "all_but_one"):
        cnt = {"custom2_second": 2, "custom2_first": 2, "custom3_middle": 3, "all_but_one": rng.choice([3, 4])}[style]
        ys = [n.fm("cust_o%d" % i, [1, H, W, C], *q) for i in range(cnt)]
        n.op("CUSTOM", [a], ys, custom_code="ThirdPartyMulti", custom_options=[1, 2, 3, 4])
        keep = {"custom2_second": [0], "custom2_first": [1], "custom3_middle": [0, 2], "all_but_one": [rng.randrange(cnt)]}[style]
        used = [ys[i] for i in keep]
    elif style == "unique_idx":
        flat = n.cpu_op(n.reshape(a, [H * W * C]), "ROUND", name="flat")
        vals = n.fm("uniq_v", [H * W * C], *q)
        idx = n.fm("uniq_i", [H * W * C], "INT32", None)
        n.op("UNIQUE", [flat], [vals, idx], ["UniqueOptions", {"IdxOutType": 2}])
        used = [n.reshape(vals, [1, H, W, C])]
    elif style == "split_cpu_second":    # SPLIT of a 32-bit tensor stays on the CPU
        two = n.fm("two", [1, H, W, 2 * C], "INT32", None)
        n.op("CUSTOM", [a], [two], custom_code="ThirdPartyWiden", custom_options=[1])
        ys = [n.fm("split_o%d" % i, [1, H, W, C], "INT32", None) for i in range(2)]
        n.op("SPLIT", [n.const("split_axis", [], "INT32", data=[3]), two], ys, ["SplitOptions", {"NumSplits": 2}])
        used = [ys[0]]
    else:                                # unpack_cpu_last: UNPACK of a 32-bit tensor stays on the CPU
        two = n.fm("two", [3, H, W, C], "INT32", None)
        n.op("CUSTOM", [a], [two], custom_code="ThirdPartyStack", custom_options=[1])
        ys = [n.fm("unpack_o%d" % i, [H, W, C], "INT32", None) for i in range(3)]
        n.op("UNPACK", [two], ys, ["UnpackOptions", {"Num": 3, "Axis": 0}])
        used = [ys[0], ys[1]]
    outs = []
    if style == "dangling_at_end":
        outs = list(used)
    else:
        for i, u in enumerate(used):
            if n.t[u]["type"] == "INT32":
                outs.append(u)
            else:
                outs.append(consume(n, rng, u, rng.choice(["add", "abs", "maxpool", "conv"]), "post%d" % i))
    if a != x and rng.random() < 0.7:    # the operand of the multi-output operator is read again afterwards
        outs.append(consume(n, rng, a, rng.choice(["add", "abs", "maxpool"]), "side"))
    hint = cfg(rng, "any", "u55", "u55_shared", "u65_shared", "u65_spill")
    return "dangling:" + style, n.desc(outs), hint


# ----------------------------------------------------------------------------- fc_batch
OPT_IN.add("fc_batch")

# every batch size from 1 to 17: the sizes the compiler lays out over H x W from a table (4, 8, 16), their neighbours (one
# below / above a power of two), primes, odd and even sizes in between
FC_BATCHES = list(range(1, 18))


@family("fc_batch", ["alone", "alone_keep", "between", "chain", "branches", "r3_in", "keep_r3", "alone_deep"])
def f_fc_batch(rng, seed, style=None):
    """FULLY_CONNECTED with a batch (rows of the 2-D input) of 1..17, which the compiler lays out over H x W: alone (its
    result is the last thing in the arena), with keep_num_dims, between other NPU operators, chained, several batches in one
    network, rank-3 inputs.  Hinted to spilling (Dedicated SRAM / internal default of the U65) and non-spilling modes"""
    n = Net(seed)
    style = pick_style(rng, "fc_batch", style)
    # (depths whose rows do not fit into the 16-byte rounding of an allocation: one row more than the tensor has is then
    # outside the tensor's storage)
    C, oc = rng.choice([24, 16, 20, 32]), rng.choice([4, 10, 16, 24])
    N = rng.choice(FC_BATCHES)
    detail = []
    if style in ("alone", "alone_keep", "alone_deep"):
        if style == "alone_deep":
            C, oc = rng.choice([64, 100]), rng.choice([40, 72])
        x = n.fm("in", [N, C], is_input=True)
        outs = [n.fc2(x, oc, name="fc", keep_num_dims=(style == "alone_keep"), act=rng.choice([0, 0, 1]))]
        detail.append(N)
    elif style == "between":
        x = n.fm("in", [N, C], is_input=True)
        a = n.unary("ABS", x, name="pre_abs") if rng.random() < 0.5 else n.fc2(x, C, name="pre_fc")
        b = n.fc2(a, oc, name="fc", keep_num_dims=rng.random() < 0.3)
        k = rng.choice(["lrelu", "add", "abs"])
        outs = [n.eltwise("ADD", b, n.fm("side", [N, oc], scale=0.04, zp=1, is_input=True), name="post_add") if k == "add" else
                n.unary("LEAKY_RELU", b, name="post_lrelu", alpha=0.2) if k == "lrelu" else n.unary("ABS", b, name="post_abs")]
        detail.append(N)
    elif style == "chain":
        x = n.fm("in", [N, C], is_input=True)
        t = x
        for i in range(rng.randint(2, 3)):
            t = n.fc2(t, rng.choice([8, 16, 24]), name="fc%d" % i, keep_num_dims=rng.random() < 0.3)
        outs = [t]
        detail.append(N)
    elif style == "branches":
        outs = []
        for i, b in enumerate(rng.sample(FC_BATCHES[1:], 3)):
            x = n.fm("in%d" % i, [b, C], is_input=True)
            outs.append(n.fc2(x, rng.choice([4, 10, 16]), name="fc%d" % i, keep_num_dims=rng.random() < 0.3))
            detail.append(b)
    else:                                 # rank-3 input [a, b, C] with a x b rows, viewed as 2-D (keep_r3: rank-3 result)
        a = rng.choice([d for d in (1, 2, 3, 5) if N % d == 0])
        x = n.fm("in", [a, N // a, C], is_input=True)
        outs = [n.fc2(x, oc, name="fc", keep_num_dims=(style == "keep_r3"))]
        detail.append("%dx%d" % (a, N // a))
    hint = cfg(rng, "u65_spill", "u65_spill", "u65_spill", "u65_shared", "u55_shared", "any")
    return "fc_batch:%s:n%s" % (style, "+".join(map(str, detail))), n.desc(outs), hint


# ----------------------------------------------------------------------------- memonly_first
OPT_IN.add("memonly_first")


@family("memonly_first", ["input_reshape", "input_squeeze", "cpu_reshape", "input_expand", "after_inputs", "two_copies", "const_reshape",
                          "same_shape", "copy_and_output", "cpu_squeeze", "after_npu_island", "both_consumers"])
def f_memonly_first(rng, seed, style=None):
    """a memory-only operator (RESHAPE / SQUEEZE / EXPAND_DIMS, also one that keeps the shape) directly on a tensor that ENTERS
    the NPU subgraph - a network input, the result of a CPU operator, a constant - feeding an NPU operator: it cannot be
    bypassed and stays as a feature-map copy.  As the first thing in the network (source and destination are the first
    allocations of their memories) and with other inputs / operators before it; in two-memory modes the copy crosses from
    the arena into the fast storage, in one-memory modes it is elided"""
    n = Net(seed)
    style = pick_style(rng, "memonly_first", style)
    H, W, C = rng.choice([4, 8, 16]), rng.choice([4, 8]), rng.choice([8, 16, 24])
    ck = rng.choice(["conv", "conv", "dw", "maxpool", "abs", "addc", "lrelu", "conv"])

    def memonly(t, kind, tag):
        shp = n.shape(t)
        if kind == "squeeze":             # [1, H, 1, C] -> [1, H, C] -> consumer sees H x C
            return n.expand_dims(n.squeeze(t, [2], name=tag + "_squeeze"), 1, name=tag + "_expand") if rng.random() < 0.5 else \
                n.reshape(n.squeeze(t, [2], name=tag + "_squeeze"), [1, shp[1], 1, shp[3]], name=tag + "_back")
        if kind == "expand":              # [H, W, C] -> [1, H, W, C]
            return n.expand_dims(t, 0, name=tag + "_expand")
        if kind == "same":
            return n.reshape(t, list(shp), name=tag + "_same")
        return n.reshape(t, rng.choice([[1, shp[1] * shp[2], 1, shp[3]], [1, shp[2], shp[1], shp[3]], [1, 1, shp[1] * shp[2], shp[3]]]),
                         name=tag + "_reshape")
    outs = []
    if style in ("input_reshape", "same_shape", "copy_and_output", "both_consumers"):
        x = n.fm("in", [1, H, W, C], is_input=True)
        r = memonly(x, "same" if style == "same_shape" else "reshape", "m")
        outs = [consume(n, rng, r, ck)]
        if style == "copy_and_output":
            outs.append(r)
        if style == "both_consumers":     # the source is read again by an NPU operator of the same subgraph
            outs.append(consume(n, rng, x, rng.choice(["abs", "maxpool", "conv"]), "src"))
    elif style in ("input_squeeze", "cpu_squeeze"):
        x = n.fm("in", [1, H * 2, 1, C], is_input=True)
        a = cpu(n, rng, x) if style == "cpu_squeeze" else x
        outs = [consume(n, rng, memonly(a, "squeeze", "m"), ck)]
    elif style == "input_expand":
        x = n.fm("in", [H, W, C], is_input=True)
        outs = [consume(n, rng, memonly(x, "expand", "m"), ck)]
    elif style == "cpu_reshape":
        x = n.fm("in", [1, H, W, C], is_input=True)
        outs = [consume(n, rng, memonly(cpu(n, rng, x), "reshape", "m"), ck)]
    elif style == "after_inputs":         # other inputs (and an operator on them) come first: the source is not at offset 0
        x0 = n.fm("first", [1, rng.choice([2, 4]), 8, rng.choice([8, 16])], is_input=True)
        outs.append(consume(n, rng, x0, rng.choice(["abs", "conv", "maxpool"]), "first"))
        x = n.fm("in", [1, H, W, C], is_input=True)
        outs.append(consume(n, rng, memonly(x, rng.choice(["reshape", "same"]), "m"), ck))
        if rng.random() < 0.5:
            outs.reverse()
    elif style == "two_copies":           # both operands of a binary elementwise operator are copies of network inputs
        x = n.fm("in", [1, H, W, C], is_input=True)
        x2 = n.fm("in2", [1, H * W, 1, C], scale=0.03, zp=2, is_input=True)
        a = n.reshape(x, [1, H * W, 1, C], name="m_reshape")
        b = n.reshape(x2, [1, H * W, 1, C], name="m2_same") if rng.random() < 0.5 else n.reshape(n.reshape(x2, [1, W, H, C], name="m2_a"), [1, H * W, 1, C], name="m2_b")
        outs = [n.eltwise(rng.choice(["ADD", "MUL", "SUB"]), a, b, name="join")]
    elif style == "const_reshape":        # constant seen through a reshape as the second operand; the first is a copied input
        x = n.fm("in", [1, H, W, C], is_input=True)
        k = n.const("k", [1, H * W, 1, C], "INT8", -100, 100, scale=[0.02], zp=[0])
        kr = n.reshape(k, [1, H, W, C], name="k_reshape")
        a = memonly(x, "same", "m") if rng.random() < 0.5 else x
        outs = [n.eltwise(rng.choice(["ADD", "MUL"]), a, kr, name="join")]
    else:                                 # after_npu_island: NPU operators, a CPU operator, then the copy feeding the second island
        x = n.fm("in", [1, H, W, C], is_input=True)
        a = produce(n, rng, x, rng.choice(["conv", "dw", "abs", "maxpool"]), "isl")
        outs = [consume(n, rng, memonly(cpu(n, rng, a), rng.choice(["reshape", "same"]), "m"), ck)]
    hint = cfg(rng, "u65_spill", "u65_spill", "u65_spill", "u65_spill", "u65_spill", "u65_shared", "u55_shared", "any")
    if rng.random() < 0.5:
        hint["optimise"] = "Performance"
    return "memonly_first:%s:%s" % (style, ck), n.desc(outs), hint


# ---- cascades whose rolling buffers have a depth that is not a multiple of 16 (round 4/5: seeded change c10-r4m2 was caught or
# missed depending on whether a random chain happened to have such a depth AND a configuration that forces a cascade)
OPT_IN.add("odd_cascade")


@family("odd_cascade", ["c24", "c20", "c40", "c12", "c3", "c24_pool", "c33_dw"])
def f_odd_cascade(rng, seed, style=None):
    """chains of 3-4 windowed operators on 32..64-row feature maps whose INTERMEDIATE tensors have 24 / 20 / 40 / 12 / 3 / 33
    channels (NHCWB16 rolling buffers with a padded last brick), hinted to configurations that make the scheduler cascade them
    (--optimise Size, or Performance with an arena cache far below the un-cascaded peak)"""
    n = Net(seed)
    style = pick_style(rng, "odd_cascade", style)
    c = {"c24": 24, "c20": 20, "c40": 40, "c12": 12, "c3": 3, "c24_pool": 24, "c33_dw": 33}[style]
    H, W = rng.choice([32, 48, 64]), rng.choice([8, 16, 24])
    x = n.fm("in", [1, H, W, rng.choice([8, 16, c])], is_input=True)
    t = n.conv(x, c, 3)
    if style == "c24_pool":
        t = n.pool(t, "MAX_POOL_2D", k=3, stride=1)
    elif style == "c33_dw":
        t = n.dwconv(t, 3)
    else:
        t = n.conv(t, c, 3)
    t = n.conv(t, c, rng.choice([1, 3]))
    y = n.conv(t, rng.choice([8, 16]), 3)
    hint = cfg(rng, "u55", "u55_shared", "u65_spill", "u65_shared")
    if rng.random() < 0.6:
        hint["optimise"] = "Size"
    else:
        hint["optimise"] = "Performance"
        hint["arena"] = rng.choice([6144, 9000, 12288, 16384])
    return "odd_cascade:%s:%dx%d" % (style, H, W), n.desc([y]), hint
