"""Graph-shape / configuration part of the shared corpus: small multi-operator networks whose *shape* (which tensor is
read where, what sits between two NPU operators, which tensors are graph inputs / outputs, how few channels there are)
together with a configuration hint reaches compiler paths that neither the operator-coverage kinds (corpus_ops.py) nor
the legacy families reach.  Registered into corpus.FAMILIES by corpus.py (appended, never renumbered); compiled by the
checks through corpus.shape_jobs(seed, tier, ...), which rotates the styles of every family by the seed.

Every family is `f(rng, seed, style=None) -> (label, description, hint)`, deterministic in (rng state, seed, style);
`STYLES[family]` lists its styles, the label is "family:style[:detail]".  Networks are tiny (compile well below a
second).  The hint names the configuration under which the shape is interesting (None values remove a key of the
configuration point: config=None, system_config=None, memory_mode=None = the internal default architecture)."""
from .netgen import Net
from .vela_run import ARM_INI

PENDING = set()   # "family:style" names left out of random / rotating style selection (filled from corpus.PENDING_TRIAGE)
FAMILIES = {}     # family -> builder (registration order = numbering, append only)
STYLES = {}       # family -> list of styles (append only)

NO_CFG = {"config": None, "system_config": None, "memory_mode": None}


def family(name, styles):
    def deco(f):
        assert name not in FAMILIES, name
        FAMILIES[name] = f
        STYLES[name] = list(styles)
        return f
    return deco


def live_styles(fam):
    return [s for s in STYLES[fam] if "%s:%s" % (fam, s) not in PENDING]


def pick_style(rng, fam, style=None):
    """random style of a family, leaving out the styles that are pending triage (an explicit style is always honoured)"""
    return style or rng.choice(live_styles(fam))


def cfg(rng, *kinds):
    """configuration hint: one of the named corners of the configuration lattice"""
    kind = rng.choice(kinds)
    if kind == "any":
        return {}
    if kind == "u65_spill":          # feature maps are staged into a separate fast storage: internal default or Dedicated_Sram
        h = dict(NO_CFG, accel=rng.choice(["ethos-u65-256", "ethos-u65-512"]))
        if rng.random() < 0.5:
            h.update(config=ARM_INI, system_config=rng.choice(["Ethos_U65_High_End", "Ethos_U65_Client_Server"]),
                     memory_mode="Dedicated_Sram")
        return h
    if kind == "u65_shared":
        return dict(accel=rng.choice(["ethos-u65-256", "ethos-u65-512"]), config=ARM_INI, system_config="Ethos_U65_Embedded",
                    memory_mode="Shared_Sram")
    if kind == "u55_shared":
        return dict(accel=rng.choice(["ethos-u55-32", "ethos-u55-64", "ethos-u55-128", "ethos-u55-256"]), config=ARM_INI,
                    system_config=rng.choice(["Ethos_U55_High_End_Embedded", "Ethos_U55_Deep_Embedded"]), memory_mode="Shared_Sram")
    if kind == "u55":
        return dict(NO_CFG, accel=rng.choice(["ethos-u55-32", "ethos-u55-64", "ethos-u55-128", "ethos-u55-256"]))
    if kind == "bank16":             # 16 SHRAM banks: the lookup table shares its banks with the working memory of other operators
        return dict(NO_CFG, accel=rng.choice(["ethos-u55-32", "ethos-u55-64"]))
    if kind == "u65_512":            # two cores, weights not resident in SRAM
        h = dict(NO_CFG, accel="ethos-u65-512")
        r = rng.random()
        if r < 0.3:
            h.update(config=ARM_INI, system_config="Ethos_U65_High_End", memory_mode="Dedicated_Sram")
        elif r < 0.55:
            h.update(config=ARM_INI, system_config="Ethos_U65_Embedded", memory_mode="Shared_Sram")
        return h
    raise ValueError(kind)


# ----------------------------------------------------------------------------- small building blocks
PRODUCERS = ["conv", "conv", "dw", "maxpool", "avgpool", "add", "mulc", "abs"]
CONSUMERS = ["conv", "conv", "dw", "maxpool", "add", "addc", "abs", "lrelu"]


def produce(n, rng, x, kind, tag="p"):
    """an NPU operator that keeps the shape of x (the depth too, except that conv could change it: it does not here)"""
    shp = n.shape(x)
    c = shp[-1]
    if kind == "conv":
        return n.conv(x, c, rng.choice([1, 3]), name=tag + "_conv")
    if kind == "dw":
        return n.dwconv(x, 3, name=tag + "_dw")
    if kind == "maxpool":
        return n.pool(x, "MAX_POOL_2D", k=3, stride=1, name=tag + "_maxpool")
    if kind == "avgpool":
        return n.pool(x, "AVERAGE_POOL_2D", k=2, stride=1, name=tag + "_avgpool")
    if kind == "add":
        x2 = n.fm(tag + "_in", shp, scale=0.03, zp=2, is_input=True)
        return n.eltwise("ADD", x, x2, name=tag + "_add")
    if kind == "mulc":
        k = n.const(tag + "_k", [1, 1, 1, c], "INT8", -100, 100, scale=[0.02], zp=[0])
        return n.eltwise("MUL", x, k, name=tag + "_mul")
    return n.unary("ABS", x, name=tag + "_abs")


def consume(n, rng, x, kind, tag="c"):
    shp = n.shape(x)
    c = shp[-1]
    if kind == "conv":
        return n.conv(x, rng.choice([8, 16, 5]), rng.choice([1, 3]), name=tag + "_conv")
    if kind == "dw":
        return n.dwconv(x, 3, name=tag + "_dw")
    if kind == "maxpool":
        return n.pool(x, "MAX_POOL_2D", k=2, stride=1, name=tag + "_maxpool")
    if kind == "add":
        x2 = n.fm(tag + "_in", shp, scale=0.04, zp=-3, is_input=True)
        return n.eltwise("ADD", x, x2, name=tag + "_add")
    if kind == "addc":
        k = n.const(tag + "_k", [1, 1, 1, c], "INT8", -100, 100, scale=[0.02], zp=[0])
        return n.eltwise("ADD", x, k, name=tag + "_addc")
    if kind == "lrelu":
        return n.unary("LEAKY_RELU", x, name=tag + "_lrelu", alpha=0.2)
    return n.unary("ABS", x, name=tag + "_abs")


def cpu(n, rng, x, tag="cpu"):
    return n.cpu_op(x, rng.choice(["ROUND", "CUSTOM", "ROUND"]), name="%s%d" % (tag, len(n.o)))


# ----------------------------------------------------------------------------- reshape_between
RESHAPE_PAIRS = {
    # (shape written by the producer, shape read by the consumer); same number of elements
    "depth_up": [([1, 8, 8, 2], [1, 4, 4, 8]), ([1, 4, 8, 6], [1, 4, 4, 12]), ([1, 8, 6, 8], [1, 4, 4, 24]),
                 ([1, 8, 8, 3], [1, 4, 4, 12]), ([1, 6, 6, 4], [1, 3, 3, 16]), ([1, 8, 4, 5], [1, 4, 4, 10]),
                 ([1, 8, 8, 4], [1, 8, 2, 16]), ([1, 4, 4, 8], [1, 2, 2, 32])],
    "to16": [([1, 8, 4, 8], [1, 4, 4, 16]), ([1, 8, 4, 12], [1, 4, 2, 48]), ([1, 8, 8, 5], [1, 4, 5, 16]),
             ([1, 4, 8, 4], [1, 2, 4, 16]), ([1, 6, 8, 8], [1, 6, 2, 32]), ([1, 16, 2, 4], [1, 2, 4, 16])],
    # depth up by a factor >= 4: the producer's brick-format footprint is several times the storage of the reshaped tensor
    "depth_up4": [([1, 8, 8, 2], [1, 4, 4, 8]), ([1, 8, 8, 4], [1, 8, 2, 16]), ([1, 8, 8, 1], [1, 4, 4, 4]), ([1, 12, 8, 2], [1, 4, 3, 16]),
                  ([1, 8, 8, 3], [1, 4, 4, 12]), ([1, 6, 6, 4], [1, 3, 3, 16]), ([1, 16, 4, 2], [1, 4, 4, 8]), ([1, 8, 12, 4], [1, 4, 6, 16])],
    "hw": [([1, 8, 4, 8], [1, 32, 1, 8]), ([1, 4, 8, 16], [1, 1, 32, 16]), ([1, 8, 4, 24], [1, 4, 8, 24]),
           ([1, 6, 6, 5], [1, 4, 9, 5]), ([1, 2, 16, 8], [1, 16, 2, 8])],
}


@family("reshape_between", ["depth", "hw", "to_from16", "squeeze_expand", "two_reshapes", "expand_depth1", "producer_observed"])
def f_reshape_between(rng, seed, style=None):
    """a memory-only operator that changes the shape (often the depth) of a tensor BETWEEN two NPU operators: the bypass
    rewires the producer to write the reshaped tensor with its own shape (format restrictions, strides, footprints).
    The shape-pair styles build two independent branches, one per direction (depth up and depth down, ...)"""
    n = Net(seed)
    style = pick_style(rng, "reshape_between", style)
    outs, detail = [], []

    def branch(tag, s_in, s_out, via_flat=False, observe=False, kernel_ops=False):
        pk, ck = rng.choice(PRODUCERS), rng.choice(CONSUMERS)
        if kernel_ops:          # no elementwise operator (those run in place on their input): producer and consumer have kernels
            pk, ck = rng.choice(["conv", "dw", "maxpool", "avgpool"]), rng.choice(["conv", "dw", "maxpool"])
        x = n.fm(tag + "_in", s_in, is_input=True)
        a = produce(n, rng, x, pk, tag + "p")
        if via_flat:
            b = n.reshape(n.reshape(a, [1, s_in[1] * s_in[2] * s_in[3]], name=tag + "_flat"), s_out, name=tag + "_reshape")
        else:
            b = n.reshape(a, s_out, name=tag + "_reshape")
        outs.append(consume(n, rng, b, ck, tag + "c"))
        if observe:
            outs.append(a)
        detail.append("%s-%s-%s-%s" % (pk, "x".join(map(str, s_in[1:])), "x".join(map(str, s_out[1:])), ck))
    if style in ("squeeze_expand", "expand_depth1"):
        pk, ck = rng.choice(PRODUCERS), rng.choice(CONSUMERS)
        H, C = rng.choice([4, 8, 12]), rng.choice([4, 8, 16, 24])
        x = n.fm("in", [1, H, 1, C], is_input=True)
        a = produce(n, rng, x, pk)
        s = n.squeeze(a, [2])                                       # [1, H, C]
        b = n.expand_dims(s, 1) if style == "squeeze_expand" else n.expand_dims(s, -1)      # [1,1,H,C] / [1,H,C,1]
        outs.append(consume(n, rng, b, ck))
        detail.append("%s-%dx%d-%s" % (pk, H, C, ck))
    elif style in ("depth", "to_from16", "hw"):
        base = {"depth": "depth_up", "to_from16": "to16", "hw": "hw"}[style]
        (u_in, u_out), (d_out, d_in) = rng.sample(RESHAPE_PAIRS[base], 2)
        if style == "depth" and rng.random() < 0.7:
            u_in, u_out = rng.choice(RESHAPE_PAIRS["depth_up4"])
        branch("u", u_in, u_out, kernel_ops=(style != "hw"))        # depth up / to a multiple of 16 / merge
        branch("d", d_in, d_out)                                    # the other direction
    else:
        s_in, s_out = rng.choice(RESHAPE_PAIRS[rng.choice(["depth_up4", "depth_up", "to16"] if style == "two_reshapes" else ["depth_up4", "depth_up4", "to16", "hw"])])
        up = rng.random() < 0.7
        if not up:
            s_in, s_out = s_out, s_in
        branch("b", s_in, s_out, via_flat=(style == "two_reshapes"), observe=(style == "producer_observed"), kernel_ops=up)
    hint = cfg(rng, "u65_spill", "u65_spill", "u65_spill", "u65_spill", "u65_spill", "u65_shared", "u55_shared", "any")
    return "reshape_between:%s:%s" % (style, "+".join(detail)), n.desc(outs), hint


# ----------------------------------------------------------------------------- tr_hw
@family("tr_hw", ["post", "alone", "mid", "square", "twice", "wc_hc", "fanout", "pre", "r3", "r2"])
def f_tr_hw(rng, seed, style=None):
    """NPU-placed TRANSPOSE with unequal extents on the swapped axes, alone, behind and in front of NPU operators.  Every
    style except `square` builds two independent branches: one input wider than high, one higher than wide"""
    n = Net(seed)
    style = pick_style(rng, "tr_hw", style)
    lo, hi = rng.choice([2, 3, 4, 5]), rng.choice([8, 11, 13, 16])
    C = rng.choice([3, 8, 16, 24])
    outs, detail = [], []

    def r4(tag, H, W):
        pk, ck = rng.choice(PRODUCERS), rng.choice(CONSUMERS)
        x = n.fm(tag + "_in", [1, H, W, C], is_input=True)
        a = produce(n, rng, x, pk, tag + "p") if style in ("pre", "mid", "square", "twice", "fanout") else x
        t = n.transpose(a, [0, 2, 1, 3], name=tag + "_tr")
        if style == "twice":
            t = n.transpose(consume(n, rng, t, "abs", tag + "c"), [0, 2, 1, 3], name=tag + "_tr2")
            outs.append(n.eltwise("ADD", t, a, name=tag + "_add"))
        elif style == "fanout":
            outs.extend([consume(n, rng, t, ck, tag + "c"), consume(n, rng, a, "abs", tag + "c2")])
        elif style in ("post", "mid", "square"):
            outs.append(consume(n, rng, t, ck, tag + "c"))
        else:
            outs.append(t)
        detail.append("-".join(([pk] if a != x else []) + ["%dx%dx%d" % (H, W, C)] + ([ck] if style in ("post", "mid", "square", "fanout") else [])))
    if style == "square":
        r4("s", hi, hi)
    elif style in ("alone", "pre", "post", "mid", "twice", "fanout"):
        r4("w", lo, hi)
        r4("t", rng.choice([8, 11, 13, 16]), rng.choice([2, 3, 4, 5]))
    elif style == "r3":
        for tag, (H, W) in (("w", (lo, hi)), ("t", (hi, lo))):
            x = n.fm(tag + "_in", [H, W, C], is_input=True)
            a = n.unary("ABS", x, name=tag + "_abs") if rng.random() < 0.5 else x
            t = n.transpose(a, [1, 0, 2], name=tag + "_tr")
            outs.append(n.unary("LEAKY_RELU", t, name=tag + "_lrelu", alpha=0.3) if (tag == "w" or rng.random() < 0.5) else t)
            detail.append("%dx%dx%d" % (H, W, C))
    elif style == "wc_hc":
        for tag, (L, D) in (("w", rng.choice([(hi, 4), (13, 8)])), ("t", rng.choice([(3, 16), (lo, 24)]))):
            for axis, perm in ((2, [0, 1, 3, 2]), (1, [0, 3, 2, 1])):
                shp = [1, 1, 1, D]
                shp[axis] = L
                x = n.fm("%s%d_in" % (tag, axis), shp, is_input=True)
                a = produce(n, rng, x, rng.choice(["conv", "abs", "mulc"]), "%s%dp" % (tag, axis)) if rng.random() < 0.6 else x
                t = n.transpose(a, perm, name="%s%d_tr" % (tag, axis))
                outs.append(consume(n, rng, t, rng.choice(["conv", "abs", "addc"]), "%s%dc" % (tag, axis)) if rng.random() < 0.6 else t)
            detail.append("%dx%d" % (L, D))
    else:
        for tag, (L, D) in (("w", rng.choice([(hi, 4), (13, 8)])), ("t", rng.choice([(3, 16), (lo, 40)]))):
            x = n.fm(tag + "_in", [L, D], is_input=True)
            a = n.unary("ABS", x, name=tag + "_abs") if rng.random() < 0.5 else x
            t = n.transpose(a, [1, 0], name=tag + "_tr")
            outs.append(n.unary("ABS", t, name=tag + "_abs2") if rng.random() < 0.5 else t)
            detail.append("%dx%d" % (L, D))
    hint = cfg(rng, "u55_shared", "u55", "u65_spill", "u65_shared", "any")
    return "tr_hw:%s:%s" % (style, "+".join(detail)), n.desc(outs), hint


# ----------------------------------------------------------------------------- lut_gap
@family("lut_gap", ["same_ew", "same_ew2", "same_pool", "same_conv", "same_mixed", "diff_ew", "aba", "same_ew_fanout"])
def f_lut_gap(rng, seed, style=None):
    """LUT operator, then k >= 1 operators WITHOUT a table, then a LUT operator with the SAME table values (or another
    table): on 16-bank accelerators the operators in between use the table's banks as working memory"""
    n = Net(seed)
    style = pick_style(rng, "lut_gap", style)
    H, W, C = rng.choice([4, 8]), rng.choice([4, 8]), rng.choice([8, 16])
    lut = rng.choice(["TANH", "LOGISTIC", "LEAKY_RELU", "LEAKY_RELU"])
    s0, z0 = {"TANH": (1 / 128, 0), "LOGISTIC": (1 / 256, -128)}.get(lut, (rng.choice([0.05, 0.1]), rng.choice([0, 3])))
    alpha = rng.choice([0.1, 0.25])
    x = n.fm("in", [1, H, W, C], scale=s0, zp=z0, is_input=True)

    def table(t, other=False):
        if other:
            if lut == "LEAKY_RELU":
                return n.unary("LEAKY_RELU", t, alpha=alpha + 0.2)
            t2 = n.unary("LEAKY_RELU", t, alpha=0.3)
            return t2
        return n.unary(lut, t, alpha=alpha)

    def gap(t, kind):
        if kind == "addc":
            k = n.const("k%d" % len(n.o), [1, 1, 1, C], "INT8", -60, 60, scale=[s0], zp=[0])
            return n.eltwise("ADD", t, k, oscale=s0, ozp=z0)
        if kind == "mulc":
            k = n.const("k%d" % len(n.o), [], "INT8", scale=[1 / 64], zp=[0], data=[rng.choice([40, 64, 90])])
            return n.eltwise("MUL", t, k, oscale=s0, ozp=z0)
        if kind == "add2":
            t2 = n.fm("side%d" % len(n.o), [1, H, W, C], scale=s0, zp=z0, is_input=True)
            return n.eltwise("ADD", t, t2, oscale=s0, ozp=z0)
        if kind == "maxpool":
            return n.pool(t, "MAX_POOL_2D", k=2, stride=1)
        if kind == "conv":
            return n.conv(t, C, 1, oscale=s0, ozp=z0)
        return n.unary("ABS", t)

    kinds = {"same_ew": [rng.choice(["addc", "mulc", "add2"])], "same_ew2": [rng.choice(["addc", "mulc"]), rng.choice(["add2", "abs", "mulc"])],
             "same_pool": ["maxpool"], "same_conv": ["conv"], "same_mixed": [rng.choice(["addc", "mulc"]), rng.choice(["maxpool", "conv"]), "addc"][:rng.choice([2, 3])],
             "diff_ew": [rng.choice(["addc", "mulc", "add2"])], "aba": ["addc"], "same_ew_fanout": ["addc"]}[style]
    a = table(x)
    t = a
    for k in kinds:
        t = gap(t, k)
    b = table(t, other=(style == "diff_ew"))
    outs = [b]
    if style == "aba":                          # table A, gap, table B, gap, table A again
        b2 = table(gap(b, "mulc"), other=True)
        outs = [table(gap(b2, "addc"))]
    if style == "same_ew_fanout":
        outs = [b, n.eltwise("ADD", a, t, oscale=s0, ozp=z0)]
    hint = cfg(rng, "bank16", "bank16", "bank16", "bank16", "bank16", "any")
    return "lut_gap:%s:%s-%s" % (style, lut.lower(), "-".join(kinds)), n.desc(outs), hint


# ----------------------------------------------------------------------------- skip_out
@family("skip_out", ["cpu", "later_npu", "output", "cpu_and_output", "later_npu_and_cpu", "two_inside_cpu", "later_npu_output",
                     "chain_of_skips"])
def f_skip_out(rng, seed, style=None):
    """an NPU-produced tensor with one consumer inside its NPU subgraph and one outside it: a CPU operator, an NPU operator
    of a LATER subgraph behind a CPU operator, the network output list - or several of them"""
    n = Net(seed)
    style = pick_style(rng, "skip_out", style)
    H, W, C = rng.choice([4, 8, 16]), rng.choice([4, 8]), rng.choice([8, 16])
    x = n.fm("in", [1, H, W, C], is_input=True)
    pk = rng.choice(["conv", "conv", "dw", "maxpool", "add", "mulc"])
    ik = rng.choice(["conv", "conv", "dw", "maxpool", "addc", "abs", "lrelu"])
    t = produce(n, rng, x, pk, "skip")                     # the tensor that leaves the subgraph and is read inside it
    u = consume(n, rng, t, ik, "inner")
    if n.shape(u) != n.shape(t):                           # (consumers keep H and W)
        u = n.conv(u, C, 1, name="inner_fix")
    keep = rng.random() < 0.75                             # the graph input stays live across the subgraph: it is read again at the end

    def late(v):
        """CPU consumer of v; with `keep` a two-operand CPU operator that also reads the graph input again"""
        if not keep:
            return cpu(n, rng, v)
        y = n.fm("cpu_late%d" % len(n.o), n.shape(v), n.t[v]["type"], 0.05, 0)
        n.op(rng.choice(["FLOOR_DIV", "FLOOR_MOD"]), [x, v], [y])
        return y
    if style == "cpu":
        outs = [u, late(t)]
    elif style == "later_npu":
        v = cpu(n, rng, u)
        outs = [n.eltwise("ADD", v, t, name="late_add")] + ([late(v)] if keep else [])
    elif style == "output":
        outs = [u, t] if rng.random() < 0.5 else [t, u]
        if keep:
            outs.append(late(u))
    elif style == "cpu_and_output":
        outs = [u, late(t), t]
    elif style == "later_npu_and_cpu":
        v = cpu(n, rng, u)
        w = late(t)
        outs = [n.eltwise("ADD", v, t, name="late_add"), w]
    elif style == "two_inside_cpu":                        # two consumers inside (never cascaded) and one on the CPU
        u2 = consume(n, rng, t, "abs", "inner2")
        outs = [u, u2, late(t)]
    elif style == "later_npu_output":
        v = cpu(n, rng, u)
        outs = [n.unary("ABS", v, name="late_abs"), n.pool(t, "MAX_POOL_2D", k=2, stride=1, name="late_pool"), t]
        outs = [outs[0], t] if rng.random() < 0.5 else outs
        if keep:
            outs.append(late(v))
    else:                                                  # every intermediate of a chain also leaves through the CPU
        a = consume(n, rng, u, "abs", "inner2")
        outs = [a, late(t), cpu(n, rng, u)]
    hint = cfg(rng, "u65_spill", "u65_spill", "u55", "u55", "u55_shared", "any")
    if rng.random() < 0.7:
        hint["optimise"] = "Performance"
    return "skip_out:%s:%s-%s%s" % (style, pk, ik, "-keep" if keep else ""), n.desc(outs), hint


# ----------------------------------------------------------------------------- io_alias
@family("io_alias", ["pass_through", "in_out_npu", "cpu_prod_out", "npu_mid_out", "const_out", "pass_through2", "in_out_cpu_npu", "in2_out",
                     "pass_through_cpu", "cpu_mid_out_late"])
def f_io_alias(rng, seed, style=None):
    """tensors that play two interface roles: graph input AND graph output (read by nobody, by an NPU operator, by both
    sides); a tensor entering an NPU subgraph from the CPU side (input, constant, CPU result) that is also a model output"""
    n = Net(seed)
    style = pick_style(rng, "io_alias", style)
    H, W, C = rng.choice([4, 8]), rng.choice([4, 8]), rng.choice([8, 16])
    x = n.fm("in", [1, H, W, C], is_input=True)
    if style in ("pass_through", "pass_through_cpu", "pass_through2"):
        p = n.fm("through", [1, rng.choice([2, 4, 8]), rng.choice([4, 8]), rng.choice([4, 16])], is_input=True)
        a = n.conv(x, C, 3) if style != "pass_through_cpu" else cpu(n, rng, x)
        b = cpu(n, rng, a) if (style == "pass_through2" or rng.random() < 0.7) else n.unary("ABS", a)
        c = consume(n, rng, b, rng.choice(["conv", "maxpool", "abs"]))
        outs = [c, p] if rng.random() < 0.5 else [p, c]
        if style == "pass_through2":                       # a second pass-through tensor of another type, results in between
            p2 = n.fm("through2", [1, rng.choice([3, 8]), rng.choice([16, 40])], "INT16", 0.001, 0, is_input=True)
            outs = [p2] + outs
    elif style == "in_out_npu":
        a = consume(n, rng, x, rng.choice(["conv", "maxpool", "abs", "addc"]))
        outs = [a, x] if rng.random() < 0.5 else [x, a]
    elif style == "in_out_cpu_npu":
        a = n.conv(x, C, 1)
        b = cpu(n, rng, x)
        outs = [n.eltwise("ADD", a, b), x]
    elif style == "cpu_prod_out":
        c = cpu(n, rng, x)
        a = consume(n, rng, c, rng.choice(["conv", "abs", "maxpool", "add"]))
        outs = [a, c] if rng.random() < 0.5 else [c, a]
    elif style == "const_out":
        k = n.const("k", [1, H, W, C], "INT8", -100, 100, scale=[0.02], zp=[0])
        a = n.eltwise(rng.choice(["ADD", "MUL"]), x, k)
        outs = [a, k]
    elif style == "in2_out":                               # second operand of an NPU elementwise operator is input and output
        x2 = n.fm("in2", [1, H, W, C], scale=0.03, zp=2, is_input=True)
        a = n.eltwise("ADD", n.conv(x, C, 1), x2)
        outs = [a, x2]
    elif style == "npu_mid_out":
        a = n.conv(x, C, 3)
        b = consume(n, rng, a, rng.choice(["conv", "abs", "maxpool"]))
        outs = [b, a]
    else:                                                  # CPU result exported AND read by an NPU operator that runs much later
        c = cpu(n, rng, x)
        a = n.conv(x, C, 3)
        b = n.conv(a, C, 1)
        outs = [n.eltwise("ADD", b, c), c]
    hint = cfg(rng, "any", "u55", "u65_spill", "u55_shared")
    return "io_alias:" + style, n.desc(outs), hint


# ----------------------------------------------------------------------------- tiny_depth
@family("tiny_depth", ["ofm", "ofm_chain", "dw_c", "ifm_c", "spatial1", "ofm_wh1", "fc_out"])
def f_tiny_depth(rng, seed, style=None):
    """fewer channels than cores x micro-block: convolution / depthwise with OFM depth 1, 2, 3 (and IFM depth 1..3, 1x1
    spatial extents, OFM width / height 1) on the two-core part with DMA-buffered weights.  Several instances per network
    (branches on one input or a chain), one of them always with OFM depth 1"""
    n = Net(seed)
    style = pick_style(rng, "tiny_depth", style)
    H, W = rng.choice([4, 8, 16]), rng.choice([4, 8, 16])
    C = rng.choice([1, 2, 3, 8, 16])
    k = rng.choice([1, 3])
    if style == "ofm":
        x = n.fm("in", [1, H, W, C], is_input=True)
        outs = [n.conv(x, oc, kk, name="oc%d" % oc) for oc, kk in ((1, k), (2, rng.choice([1, 3])), (3, rng.choice([1, 3])))]
        if rng.random() < 0.5:
            outs[0] = n.conv(outs[0], rng.choice([1, 2, 8]), 1)
        detail = "c%d-k%d" % (C, k)
    elif style == "dw_c":
        outs = []
        for c in (1, 2, 3):
            x = n.fm("in%d" % c, [1, H, W, c], is_input=True)
            outs.append(n.dwconv(n.dwconv(x, 3), 3) if rng.random() < 0.4 else n.dwconv(x, 3))
        detail = "%dx%d" % (H, W)
    elif style == "ifm_c":
        outs = []
        for c in (1, 2, 3):
            x = n.fm("in%d" % c, [1, H, W, c], is_input=True)
            outs.append(n.conv(x, {1: 1, 2: rng.choice([2, 8]), 3: rng.choice([16, 40])}[c], rng.choice([1, 3])))
        detail = "%dx%d" % (H, W)
    elif style == "spatial1":
        c = rng.choice([1, 3, 16, 64])
        x = n.fm("in", [1, 1, 1, c], is_input=True)
        a = n.conv(x, 1, 1)
        outs = [n.conv(a, rng.choice([1, 3]), 1), n.conv(x, rng.choice([2, 16]), 1)]
        detail = "c%d" % c
    elif style == "ofm_wh1":
        kk = rng.choice([3, 4])
        xw = n.fm("in_w", [1, H, kk, C], is_input=True)
        xh = n.fm("in_h", [1, kk, W, C], is_input=True)
        yw = n.conv2(xw, 1, kh=3, kw=kk, pad="VALID")                 # OFM width 1, depth 1
        yh = n.conv2(xh, rng.choice([1, 2, 8]), kh=kk, kw=3, pad="VALID")   # OFM height 1
        outs = [n.conv(yw, rng.choice([1, 8]), 1), yh]
        detail = "c%d-k%d" % (C, kk)
    elif style == "fc_out":
        x = n.fm("in", [1, rng.choice([8, 32, 100])], is_input=True)
        outs = [n.fc2(x, oc, name="fc%d" % oc) for oc in (1, 2, 3)]
        detail = "fc"
    else:
        x = n.fm("in", [1, H, W, C], is_input=True)
        y = n.conv(x, 1, 3)
        y = n.conv(y, 2, k)
        y = n.dwconv(y, 3)
        y = n.conv(y, 3, 1)
        outs = [n.pool(y, "MAX_POOL_2D", k=2, stride=2)]
        detail = "c%d" % C
    hint = cfg(rng, "u65_512", "u65_512", "u65_512", "u65_512", "u65_512", "u65_spill", "any")
    if rng.random() < 0.85:
        hint["optimise"] = "Performance"
    return "tiny_depth:%s:%s" % (style, detail), n.desc(outs), hint


# ----------------------------------------------------------------------------- astride
ASTRIDES = [(1, 2), (2, 1), (1, 3), (3, 1), (2, 3), (3, 2)]


@family("astride", ["tall_conv", "pool", "tall_dw", "conv", "tall_pool", "dw", "tall_two", "pool_wide_k", "two"])
def f_astride(rng, seed, style=None):
    """consumers with different strides in x and y directly behind the producer whose OFM they read.  The tall_ styles
    build three independent branches on narrow, very tall feature maps (several block rows, at most two blocks across and
    deep) whose vertical stride is the larger one"""
    n = Net(seed)
    style = pick_style(rng, "astride", style)
    tall = style.startswith("tall_")
    kind0 = style[5:] if tall else style
    outs, detail = [], []

    def strided(t, kind, sh, sw, pad, C):
        if kind == "pool":
            return n.pool2(t, rng.choice(["MAX_POOL_2D", "AVERAGE_POOL_2D"]), rng.choice([1, 2, sh]), rng.choice([1, 2, sw]), sh, sw, pad)
        if kind == "pool_wide_k":
            return n.pool2(t, "MAX_POOL_2D", rng.choice([2, 3]), rng.choice([3, 5]), sh, sw, pad)
        if kind == "conv":
            return n.conv2(t, C, rng.choice([1, 3]), rng.choice([1, 3]), sh, sw, pad=pad)
        return n.dwconv2(t, 3, 3, sh, sw, pad=pad)

    def branch(tag, H, W, C, sh, sw):
        x = n.fm(tag + "in", [1, H, W, C], is_input=True)
        pk = rng.choice(["conv", "conv", "dw", "maxpool", "add", "abs"])
        a = produce(n, rng, x, pk, tag + "p")
        pad = rng.choice(["SAME", "VALID"])
        if kind0 == "two":
            b = strided(a, rng.choice(["pool", "conv", "dw"]), sh, sw, pad, C)
            b = strided(b, rng.choice(["pool", "conv"]), sw, sh, pad, C) if min(n.shape(b)[1:3]) >= 3 else b
        else:
            b = strided(a, kind0, sh, sw, pad, C)
        outs.append(n.conv(b, C, 1) if rng.random() < 0.5 else b)
        detail.append("%s-%dx%dx%d-s%dx%d-%s" % (pk, H, W, C, sh, sw, pad.lower()))
    if tall:
        for i, (sh, sw) in enumerate(rng.sample([(2, 1), (3, 1), (3, 2)], 3 if kind0 != "two" else 1)):
            branch("b%d_" % i, rng.choice([96, 130, 130, 160, 200]), rng.choice([2, 4, 8]), rng.choice([4, 8, 16]), sh, sw)
    else:
        sh, sw = rng.choice(ASTRIDES)
        branch("", rng.choice([8, 12, 16, 24]), rng.choice([8, 12, 16]), rng.choice([8, 16, 32]), sh, sw)
    return "astride:%s:%s" % (style, "+".join(detail)), n.desc(outs), cfg(rng, "any", "u55", "u65_shared", "u65_spill")


# ----------------------------------------------------------------------------- islands
@family("islands", ["two", "three", "parallel", "outs_each", "cpu_first_last", "join_late"])
def f_islands(rng, seed, style=None):
    """two or three NPU subgraphs with CPU operators between them; network outputs produced at different times"""
    n = Net(seed)
    style = pick_style(rng, "islands", style)
    H, W, C = rng.choice([4, 8]), rng.choice([4, 8]), rng.choice([8, 16])
    x = n.fm("in", [1, H, W, C], is_input=True)

    def island(t, tag, depth=None):
        for i in range(depth or rng.randint(1, 3)):
            t = produce(n, rng, t, rng.choice(["conv", "conv", "dw", "maxpool", "abs", "mulc"]), "%s%d" % (tag, i))
        return t
    if style in ("two", "three", "outs_each"):
        k = 3 if style == "three" else rng.choice([2, 3]) if style == "outs_each" else 2
        t, mids = x, []
        for i in range(k):
            t = island(t, "i%d" % i)
            mids.append(t)
            if i < k - 1:
                t = cpu(n, rng, t)
        outs = mids[::-1] if style == "outs_each" else [t]
    elif style == "parallel":
        a = island(cpu(n, rng, island(x, "a")), "a2")
        b = island(cpu(n, rng, island(x, "b")), "b2")
        outs = [n.eltwise("ADD", a, b)] if rng.random() < 0.6 else [a, b]
    elif style == "cpu_first_last":
        t = cpu(n, rng, island(cpu(n, rng, island(cpu(n, rng, x), "a")), "b"))
        outs = [t]
    else:                                                  # the first island's result is read again by the last island
        a = island(x, "a")
        b = island(cpu(n, rng, a), "b")
        c = cpu(n, rng, b)
        outs = [n.eltwise("ADD", island(c, "c", 1), a)]
    return "islands:" + style, n.desc(outs), cfg(rng, "any", "u65_spill", "u55", "u55_shared")


# ----------------------------------------------------------------------------- fanout
@family("fanout", ["fan3", "fan4_join", "shared_const", "shared_scalar", "shared_weights_bias", "same_twice", "fan_out_and_output"])
def f_fanout(rng, seed, style=None):
    """fan-out > 2, the same constant feeding two operators, the same tensor twice in one operator"""
    n = Net(seed)
    style = pick_style(rng, "fanout", style)
    H, W, C = rng.choice([4, 8, 16]), rng.choice([4, 8]), rng.choice([8, 16])
    x = n.fm("in", [1, H, W, C], is_input=True)
    a = n.conv(x, C, rng.choice([1, 3]))
    if style == "fan3":
        outs = [consume(n, rng, a, k, "f%d" % i) for i, k in enumerate(rng.sample(["conv", "dw", "maxpool", "abs", "addc", "lrelu"], 3))]
    elif style == "fan4_join":
        bs = [produce(n, rng, a, k, "f%d" % i) for i, k in enumerate(rng.sample(["conv", "dw", "maxpool", "abs", "mulc", "avgpool"], 4))]
        s1 = n.eltwise("ADD", bs[0], bs[1])
        s2 = n.eltwise("ADD", bs[2], bs[3])
        outs = [n.concat([s1, s2, a])]
    elif style == "shared_const":
        k = n.const("shared_k", [1, 1, 1, C], "INT8", -100, 100, scale=[0.02], zp=[0])
        b = n.eltwise("ADD", a, k)
        c = n.eltwise(rng.choice(["MUL", "ADD", "SUB"]), n.pool(a, "MAX_POOL_2D", k=3, stride=1), k)
        outs = [n.eltwise("ADD", b, c)]
    elif style == "shared_scalar":
        k = n.const("shared_s", [], "INT8", scale=[0.02], zp=[0], data=[rng.choice([17, 64, -50])])
        b = n.eltwise("MUL", a, k)
        c = n.eltwise("ADD", x, k)
        outs = [b, c]
    elif style == "shared_weights_bias":                   # two convolutions sharing weights AND bias, different inputs
        x2 = n.fm("in2", [1, H, W, C], scale=0.04, is_input=True)
        y1 = n.conv(a, 16, 3, name="ca")
        wt, bt = n.o[-1]["inputs"][1:3]
        y2 = n.conv(x2, 16, 3, name="cb")
        n.o[-1]["inputs"][1:3] = [wt, bt]
        outs = [y1, y2]
    elif style == "same_twice":
        b = n.eltwise(rng.choice(["ADD", "MUL"]), a, a)
        outs = [n.concat([b, b], axis=rng.choice([1, 3]))]
    else:
        outs = [consume(n, rng, a, "conv", "f0"), consume(n, rng, a, "maxpool", "f1"), consume(n, rng, a, "abs", "f2"), a]
    return "fanout:" + style, n.desc(outs), cfg(rng, "any", "u65_spill", "u55", "u65_shared")


# ----------------------------------------------------------------------------- ewchain
@family("ewchain", ["long", "long_input", "with_fanout", "bcast_mix", "two_operand_tail", "widening"])
def f_ewchain(rng, seed, style=None):
    """long elementwise chains (the live ranges of IFM and OFM are fused, the chain runs in place)"""
    n = Net(seed)
    style = pick_style(rng, "ewchain", style)
    H, W, C = rng.choice([4, 8, 16]), rng.choice([4, 8]), rng.choice([8, 16, 24])
    if style == "widening":          # int8 -> int16 / int32 in the middle of a chain of NPU-internal tensors, ADD and MUL
        C = rng.choice([16, 16, 32, 8])
        outs = []
        for kind, wide in rng.sample([("ADD", "INT16"), ("MUL", "INT32"), ("ADD", "INT32"), ("MUL", "INT16")], 3):
            tag = "%s%s" % (kind.lower(), wide[3:])
            a, b, c = (n.fm("%s_%s" % (tag, nm), [1, H, W, C], scale=sc, is_input=True) for nm, sc in (("a", 0.05), ("b", 0.03), ("c", 0.04)))
            d = n.fm(tag + "_d", [1, H, W, C], wide, 0.001, 0, is_input=True)
            t1 = n.eltwise(kind, a, b, name=tag + "_1")
            t2 = n.eltwise(kind, t1, c, name=tag + "_2", oscale=0.001, ozp=0)
            n.t[t2]["type"] = wide
            o = n.eltwise(kind, t2, d, name=tag + "_3", oscale=0.002, ozp=0)
            n.t[o]["type"] = wide
            outs.append(o)
        return "ewchain:widening:%dx%dx%d" % (H, W, C), n.desc(outs), cfg(rng, "any", "u55", "u65_spill", "u55_shared")
    x = n.fm("in", [1, H, W, C], is_input=True)
    t = x if style == "long_input" else n.conv(x, C, 1)
    first = t
    keep = None
    depth = rng.randint(6, 11)
    for i in range(depth):
        kind = rng.choice(["addc", "mulc", "abs", "lrelu", "maxc", "add2", "addc", "mulc"])
        if kind == "addc":
            t = n.eltwise("ADD", t, n.const("k%d" % i, [1, 1, 1, C], "INT8", -90, 90, scale=[0.02], zp=[0]))
        elif kind == "mulc":
            t = n.eltwise("MUL", t, n.const("k%d" % i, [], "INT8", scale=[0.02], zp=[0], data=[rng.choice([30, 50, 70])]))
        elif kind == "abs":
            t = n.unary("ABS", t)
        elif kind == "lrelu":
            t = n.unary("LEAKY_RELU", t, alpha=0.1)
        elif kind == "maxc":
            k = n.const("k%d" % i, [1, 1, 1, C], "INT8", -90, 90, scale=n.t[t]["scale"], zp=n.t[t]["zp"])
            t = n.eltwise("MAXIMUM", t, k)
        else:
            shp = [1, H, W, C] if style != "bcast_mix" else rng.choice([[1, 1, 1, C], [1, 1, W, 1], [1, H, 1, 1], [1, 1, 1, 1]])
            t = n.eltwise("ADD", t, n.fm("side%d" % i, shp, scale=0.03, zp=1, is_input=True))
        if style == "with_fanout" and i == depth // 2:
            keep = t
    outs = [t]
    if keep is not None:
        outs = [n.eltwise("SUB", t, keep), keep] if rng.random() < 0.5 else [n.eltwise("SUB", t, keep)]
    if style == "two_operand_tail":
        outs = [n.eltwise("ADD", t, first)]
    return "ewchain:%s:%d" % (style, depth), n.desc(outs), cfg(rng, "any", "u55", "u65_spill", "u55_shared")


# ----------------------------------------------------------------------------- catcat
@family("catcat", ["concat_concat", "concat_concat_axes", "split_concat", "split_ops_concat", "concat_split", "concat_shared", "split_split"])
def f_catcat(rng, seed, style=None):
    """concatenation of concatenations, split feeding concat, concat feeding split (write / read offsets composed)"""
    n = Net(seed)
    style = pick_style(rng, "catcat", style)
    H, W, C = rng.choice([4, 8]), rng.choice([4, 8]), rng.choice([8, 16])
    x = n.fm("in", [1, H, W, C], is_input=True)
    a = n.conv(x, C, 1)
    b = n.pool(x, "MAX_POOL_2D", k=3, stride=1)
    c = n.unary("ABS", x)
    if style == "concat_concat":
        ax = rng.choice([1, 2, 3])
        outs = [n.conv(n.concat([n.concat([a, b], ax), c], ax), 8, 1)]
    elif style == "concat_concat_axes":
        ax1, ax2 = rng.choice([(3, 1), (1, 3), (2, 3), (3, 2), (1, 2)])
        inner = n.concat([a, a if rng.random() < 0.3 else n.conv(x, C, 3)], ax1)
        other = n.concat([b, c], ax1)
        outs = [n.unary("ABS", n.concat([inner, other], ax2))]
    elif style == "split_concat":
        ax = rng.choice([1, 2, 3])
        ys = n.split(a, 2, axis=ax)
        outs = [n.conv(n.concat(ys[::-1], ax), 8, 3)]
    elif style == "split_ops_concat":
        ys = n.split(a, 2, axis=3)
        p = n.conv(ys[0], C // 2, 3)
        q = n.unary("LEAKY_RELU", ys[1], alpha=0.2)
        outs = [n.concat([q, p, ys[0]], 3)]
    elif style == "concat_split":
        cc = n.concat([a, b], 3)
        ys = n.split(cc, 4, axis=3)
        outs = [n.eltwise("ADD", ys[0], ys[3]), n.conv(ys[1], 8, 1), ys[2]]
    elif style == "concat_shared":                          # one tensor is member of two concatenations
        outs = [n.conv(n.concat([a, b], 3), 8, 1), n.concat([c, a], rng.choice([1, 3]))]
    else:
        ys = n.split(a, 2, axis=3)
        zs = n.split(ys[0], 2, axis=rng.choice([1, 2]))
        outs = [n.unary("ABS", zs[0]), n.conv(zs[1], 8, 1), n.dwconv(ys[1], 3)]
    return "catcat:" + style, n.desc(outs), cfg(rng, "any", "u55_shared", "u65_spill")


# ----------------------------------------------------------------------------- extreme
EXTREME_SHAPES = {"wide": [[1, 2, 256, 8], [1, 3, 500, 4], [1, 1, 1024, 3], [1, 4, 192, 16]],
                  "tall": [[1, 256, 2, 8], [1, 500, 3, 4], [1, 700, 1, 3], [1, 192, 4, 16]],
                  "depth1": [[1, 32, 32, 1], [1, 48, 16, 1], [1, 17, 23, 1]],
                  "odd_depth": [[1, 16, 16, 17], [1, 24, 12, 33], [1, 20, 20, 5], [1, 12, 12, 47], [1, 16, 8, 15]],
                  "deep_thin": [[1, 2, 2, 256], [1, 1, 3, 300], [1, 3, 1, 260]]}


@family("extreme", ["wide", "tall", "depth1", "odd_depth", "deep_thin"])
def f_extreme(rng, seed, style=None):
    """very wide / very tall / depth-1 / depth-not-a-multiple-of-16 / deep-and-thin tensors through cascades of 2-4 operators"""
    n = Net(seed)
    style = pick_style(rng, "extreme", style)
    shp = rng.choice(EXTREME_SHAPES[style])
    x = n.fm("in", shp, is_input=True)
    t = x
    kinds = []
    for i in range(rng.randint(2, 4)):
        k = rng.choice(["conv3", "conv1", "dw3", "maxpool", "conv3", "abs", "convs2"])
        h, w = n.shape(t)[1:3]
        if k == "convs2" and min(h, w) < 4:
            k = "conv1"
        c = n.shape(t)[3]
        if c > 64 and k in ("conv3", "convs2"):
            k = "conv1"
        kinds.append(k)
        if k == "conv3":
            t = n.conv(t, c, 3)
        elif k == "conv1":
            t = n.conv(t, rng.choice([c, c, 8]), 1)
        elif k == "dw3":
            t = n.dwconv(t, 3)
        elif k == "maxpool":
            t = n.pool(t, "MAX_POOL_2D", k=3, stride=1)
        elif k == "convs2":
            t = n.conv(t, c, 3, stride=2)
        else:
            t = n.unary("ABS", t)
    hint = cfg(rng, "any", "u55_shared", "u65_spill", "u65_shared")
    hint["optimise"] = rng.choice(["Size", "Size", "Performance"])
    if hint["optimise"] == "Performance":
        hint["arena"] = rng.choice([2048, 4096, 8192])
    return "extreme:%s:%s:%s" % (style, "x".join(map(str, shp[1:])), "-".join(kinds)), n.desc([t]), hint


# ----------------------------------------------------------------------------- fsgroups
@family("fsgroups", ["big_first", "small_first", "three", "shared_input"])
def f_fsgroups(rng, seed, style=None):
    """several time-disjoint groups of feature maps that compete for the fast storage (each fits on its own, two of a group
    do not), of different sizes, scheduled in either order; arena cache between one and two feature maps"""
    n = Net(seed)
    style = pick_style(rng, "fsgroups", style)
    C = 16
    big, small = [1, 16, 16, C], [1, 16, rng.choice([14, 12, 10]), C]
    shapes = {"big_first": [small, big], "small_first": [big, small], "three": rng.choice([[small, big, big], [small, small, big], [big, small, big]]),
              "shared_input": [small, big]}[style]          # the subgraph output listed last is scheduled first
    outs = []
    shared = n.fm("shared", big, scale=0.5, is_input=True) if style == "shared_input" else None
    for gi, sh in enumerate(shapes):
        a = shared if (shared is not None and sh == big) else n.fm("g%d_a" % gi, sh, scale=0.5, is_input=True)
        b = n.fm("g%d_b" % gi, sh, scale=0.25, is_input=True)
        c = n.fm("g%d_c" % gi, sh, scale=0.125, is_input=True)
        t1 = n.eltwise("ADD", a, b, name="g%d_t1" % gi, oscale=0.75, ozp=0)
        t2 = n.eltwise(rng.choice(["ADD", "ADD", "MUL"]), t1, c, name="g%d_t2" % gi, oscale=0.8, ozp=0)
        outs.append(n.eltwise("ADD", t1, t2, name="g%d_out" % gi, oscale=1.0, ozp=0))
    fm = min(s_[1] * s_[2] * s_[3] for s_ in shapes)
    hint = dict(cfg(rng, "u65_spill"), optimise="Performance", arena=rng.choice([fm + 2048, fm + 2560, 6144]),
                allocator=rng.choice(["HillClimb", "Greedy"]))
    return "fsgroups:" + style, n.desc(outs), hint
