import json
claimed = json.load(open('/verif/harness/claims.json'))
props = [json.loads(l) for l in open('/verif/properties.jsonl')]
checks = []
na = []
for p in props:
    c = claimed.get(p['id'])
    if c and c.get("claimed"):
        checks.append({"property_id": p['id'], "quick_cmd": "./check %s --tier quick" % p['id'],
                       "thorough_cmd": "./check %s --tier thorough" % p['id'],
                       "evidence_file": "/verif/evidence/%s.json" % p['id'],
                       "replay_cmd_template": "./check %s --replay {path}" % p['id'],
                       "engine": "tlc", "level_claimed": {"category": "model_checking", "text": c["text"], "design_ref": c["design_ref"]},
                       "level_note": c["note"], "technique": c["technique"]})
    else:
        na.append({"property_id": p['id'], "reason": (c or {}).get("reason", "check not built yet in this round; see DESIGN.md")})
m = {"version": 1, "setup_cmd": "./check --setup",
     "hooks": {"guard": "ETHOS_U_VELA_VERIF", "enable": "no source hooks: the harness wraps module attributes at run time when ETHOS_U_VELA_VERIF=1 (set by ./check)",
               "baseline_off_cmd": "cd /repo && /venv/bin/python -m pytest -ra -q -p no:cacheprovider --timeout=900 --continue-on-collection-errors",
               "source_commits": [], "add_only": True},
     "engines": [{"name": "tlc", "path": "/opt/veriftools/tla/tla2tools.jar", "serves_properties": [c["property_id"] for c in checks],
                  "kind_free_text": "TLC 1.8 model checker: design-level model checking of spec/*.tla, -simulate for spec->code behaviours, trace validation of ndjson traces recorded from the real code"},
                 {"name": "apalache", "path": "/opt/veriftools/apalache/bin/apalache-mc", "serves_properties": ["C04"],
                  "kind_free_text": "Apalache 0.58 symbolic model checker: inductive-invariant obligations (Init => IndInv, IndInv /\\ Next => IndInv') of spec/WaitDepInd.tla, lifting the bounded TLC result on the wait insertion to streams of unbounded length"}],
     "checks": checks, "not_applicable": na,
     "notes": "All checks are ./check <id>; specs in /verif/spec, harness in /verif/harness; known findings in /verif/known_findings.json"}
json.dump(m, open('/verif/MANIFEST.json','w'), indent=1)
print(len(checks), "claimed;", len(na), "not applicable")
