"""Realise abstract operation records of spec/OpSeq.tla as operation descriptions for harness/apiops.py."""
from . import npuhw

H = W = 8
C = 16
BUF = 0x1000          # buffers are spaced 4 KiB apart in region 1
FLASH_W = 0x100       # weights in the constants region
FLASH_B = 0x4000      # biases
FLASH_LUT = 0x8000
FLASH_FM = 0x2000
SHRAM_REGION = 259


def _fm(buf, shape, layout, region=1, tile=0):
    d = {"shape": list(shape), "region": region, "addr": BUF * buf if region == 1 else FLASH_FM, "dtype": "INT8",
         "layout": "NHCWB16" if layout else "NHWC", "scale": 0.5, "zp": 0}
    h, w, _ = shape
    b = d["addr"]
    if tile == 1 and h >= 2:
        d["tiles"] = {"w0": w, "h0": h // 2, "h1": h // 2, "addrs": [b, 0, b + 0x800, 0]}
    elif tile == 2 and w >= 2:
        d["tiles"] = {"w0": w // 2, "h0": h, "h1": h, "addrs": [b, b + 0x400, 0, 0]}
    elif tile == 3 and w >= 2 and h >= 2:
        d["tiles"] = {"w0": w // 2, "h0": h // 2, "h1": h, "addrs": [b, b + 0x400, b + 0x800, 0]}
    return d


def realise(rec, accel, prev_w=None):
    if rec.get("chain") and prev_w is not None:
        rec = dict(rec, r=prev_w)
    k = rec["kind"]
    cores = npuhw.ACCEL[accel][1]
    if k == "dma":
        src = [1, BUF * rec["r"], 1024] if rec["r"] != rec["w"] else [0, FLASH_FM, 1024]
        return {"type": "dma", "src": src, "dst": [1, BUF * rec["w"], 1024]}
    if k == "lutdma":
        slot = max(rec["lut"] - 1, 0)
        return {"type": "dma", "src": [0, FLASH_LUT + 256 * slot, 256],
                "dst": [SHRAM_REGION, npuhw.lut_base(accel) + 256 * slot, 256]}
    li, lo = rec["lay"] & 1, (rec["lay"] >> 1) & 1
    ifm = _fm(rec["r"], (H, W, C), li, tile=rec.get("tile", 0))
    if rec.get("shift", 0) >= 4 and "tiles" not in ifm:
        ifm["addr"] += rec["shift"] * W * C        # row pitch of both layouts for C = 16, int8
    d = {"ifm": ifm, "block": "auto", "block_pick": rec["blk"]}
    if rec["lut"]:
        d["act"] = {"op": "TABLE_LOOKUP", "lut": rec["lut"] - 1}
    if k == "ew":
        d["type"] = "ew"
        d["sub"] = "ADD"
        d["ofm"] = _fm(rec["w"], (H, W, C), lo, tile=rec.get("tileo", 0))
        if rec["wb"] == 0:
            d["ifm2"] = {"shape": [1, 1, 1], "region": 0, "addr": 0, "dtype": "INT8", "scale": 0.5, "zp": 0}
            d["scalar"] = 3.0
        else:
            d["ifm2"] = _fm(rec["wb"], (H, W, C), li)
            d["ifm2"]["scale"] = (0.5, 0.25, 1.0)[rec.get("sc2", 0)]
            d["reversed"] = bool(rec.get("rev", 0))
            d["sub"] = "SUB" if rec.get("blk", 0) % 2 else "ADD"
        return d
    kh, kw, s = rec["kh"], rec["kw"], rec["s"]
    sx = rec.get("sx", 0) or s            # independent horizontal stride (0: same as the vertical one)
    pt, pb = min(rec["pt"], kh - 1), min(rec["pb"], kh - 1)
    pl, pr = min(rec["pl"], kw - 1), min(rec["pr"], kw - 1)
    oh = (H + pt + pb - kh) // s + 1
    ow = (W + pl + pr - kw) // sx + 1
    d["kernel"] = [kw, kh, sx, s, 1, 1]
    d["pad"] = [pt, pl, pb, pr]
    d["ofm"] = _fm(rec["w"], (oh, ow, C), lo, tile=rec.get("tileo", 0))
    if k == "pool":
        d["type"] = "pool"
        d["sub"] = "MAX"
        return d
    d["type"] = k
    wlen = 16 * (4 + kh * kw)
    if rec.get("w1"):
        cores = 1
    if rec["wb"] == 0:
        d["weights"] = [[0, FLASH_W + 0x400 * c, wlen] for c in range(cores)]
    else:
        d["weights"] = [[1, BUF * rec["wb"] + 0x400 * c, wlen] for c in range(cores)]
    d["biases"] = [[0, FLASH_B + 0x100 * c, 160] for c in range(cores)]
    if k == "conv":
        d["traversal"] = "DEPTH_FIRST"
    return d


def _shift(d, off):
    """move every scratch-region (region 1) address of an operation description by off"""
    for k in ("ifm", "ifm2", "ofm"):
        f = d.get(k)
        if f and f.get("region") == 1:
            if "tiles" in f:
                f["tiles"]["addrs"] = [a + off if (a or i == 0) else 0 for i, a in enumerate(f["tiles"]["addrs"])]
            f["addr"] = f["addr"] + off
    for k in ("weights", "biases"):
        for w in d.get(k, []):
            if w[0] == 1:
                w[1] += off
    for k in ("src", "dst"):
        if k in d and d[k][0] == 1:
            d[k][1] += off
    return d


HIGH = 0x1200000000


def realise_list(recs, accel):
    out = []
    prev_w = None
    hi = bool(recs) and recs[0].get("hi") and "u65" in accel
    for r in recs:
        out.append(_shift(realise(r, accel, prev_w), HIGH) if hi else realise(r, accel, prev_w))
        if r["kind"] != "lutdma":
            prev_w = r["w"]
    return out


def blockdep_pair(q, sx, accel):
    """A case of spec/BlockDep.tla (H, pb, k, s, pt, pr, cb) with horizontal stride sx as a producer / consumer pair of real
    operations: an elementwise producer writing an H x 8 x 16 feature map in blocks of pb rows (one block column, one depth
    block), and a max-pool consumer with kernel k x (1 + pr), strides (s vertical, sx horizontal), pads top = pt, right = pr,
    in blocks of cb rows.  None when the accelerator cannot take these block heights (micro-block height 2)."""
    uh = npuhw.ACCEL[accel][4][1]
    uw = npuhw.ACCEL[accel][4][0]
    if q["pb"] % uh or q["cb"] % uh:
        return None
    Hh, Ww = q["H"], 8
    kw = 1 + q["pr"]
    oh = (Hh + q["pt"] - q["k"]) // q["s"] + 1
    ow = (Ww + q["pr"] - kw) // sx + 1
    if oh < 1 or ow < 1:
        return None
    prod = {"type": "ew", "sub": "ADD", "ifm": _fm(1, (Hh, Ww, C), 0), "ofm": _fm(2, (Hh, Ww, C), 0),
            "ifm2": {"shape": [1, 1, 1], "region": 0, "addr": 0, "dtype": "INT8", "scale": 0.5, "zp": 0}, "scalar": 3.0,
            "block": [q["pb"], Ww, C]}
    cons = {"type": "pool", "sub": "MAX", "ifm": _fm(2, (Hh, Ww, C), 0), "ofm": _fm(3, (oh, ow, C), 0),
            "kernel": [kw, q["k"], sx, q["s"], 1, 1], "pad": [q["pt"], 0, 0, q["pr"]],
            "block": [q["cb"], -(-ow // uw) * uw, C]}
    return [prod, cons]
