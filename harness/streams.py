"""From an output model (bytes) to analysed command streams: decoded events, operations with their waits and
hardware footprints.  Artefact-only (nothing of Vela's in-memory state)."""
from . import artefact, npuhw


class StreamError(Exception):
    """The artefact cannot be interpreted (bad payload, op without its registers): reported by the checks as a
    violation of the stream grammar, not as machinery failure."""


def analyse(out_bytes, accel_hint=None):
    model = artefact.parse_model(out_bytes)
    res = []
    for eo in artefact.ethosu_ops(model):
        pl = artefact.parse_payload(eo["payload"])
        accel = artefact.accel_from_config_word(pl["config"][1]) if pl["config"] else None
        events = artefact.decode(pl["words"])
        ops = artefact.ops_with_waits(events)
        for o in ops:
            try:
                o["fp"] = npuhw.footprint(o, accel or accel_hint)
            except KeyError as e:
                o["fp"] = None
                o["fp_error"] = "register %s never written before operation %d" % (e.args[0], o["index"])
        res.append({"k": eo["k"], "accel": accel, "payload": pl, "events": events, "ops": ops,
                    "extent": {0: eo["flash_len"], 1: eo["scratch_len"], 2: eo["scratch_fast_len"],
                               npuhw.SHRAM: npuhw.ACCEL[accel or accel_hint][0] * npuhw.BANK},
                    "io": {"inputs": eo["inputs"], "outputs": eo["outputs"]}, "eo": eo})
    return model, res
