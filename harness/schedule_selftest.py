"""Stand-alone driver of the spec-growth component "Schedule":  cd /verif && /venv/bin/python -m harness.schedule_selftest
[--tier quick|thorough] [--n 60] [--no-mc] [--dump FILE].  Compiles corpus networks with the run-time wrappers of
harness/schedule.py installed, validates every recorded schedule / cascade-builder call / sub-schedule optimisation with
spec/ScheduleTrace.tla and prints the counters and the findings (data only, never a property violation)."""
import argparse
import json
import os
import sys
import time

from . import schedule, vela_run
from .common import EVIDENCE, MachineryError, seed

def run(tier="quick", n=60, do_mc=True, dump=None):
    t0 = time.time()
    sd = seed()
    out = {"seed": sd, "tier": tier}
    if do_mc:
        out["mc"] = [{"spec": name, "status": r["status"], "violated": r.get("violated"), "distinct": r["distinct"],
                      "wall_s": round(r["wall"], 1)} for name, r in schedule.mc(tier)]
    t1 = time.time()
    jobs = schedule.jobs(sd, n)
    schedule.install()
    try:
        rs = vela_run.compile_many(jobs, extractor=schedule.extractor)
    finally:
        schedule.uninstall()
    t2 = time.time()
    recs = [x.get("extract") for x in rs]
    bad = [x.get("extract_error") for x in rs if x.get("extract_error")]
    if bad:
        raise MachineryError("schedule extractor failed: %s" % bad[0])
    if dump:
        with open(dump, "w") as f:
            json.dump([{"job": j, "rc": x["rc"], "extract": r} for j, x, r in zip(jobs, rs, recs)], f)
    res, findings = schedule.validate(recs)
    events, _, _ = schedule.events_of(recs)
    out["negative_controls"] = schedule.negative_controls(events)
    t3 = time.time()
    out["counters"] = res["counters"]
    out["compile_failures"] = sum(1 for x in rs if x["rc"] != 0)
    out["trace_run"] = {"distinct": res["distinct"], "wall_s": round(res["wall"], 1)}
    out["wall_s"] = {"mc": round(t1 - t0, 1), "compile": round(t2 - t1, 1), "validate": round(t3 - t2, 1)}
    seen = {}
    for f in findings:
        j = jobs[f["record"]]
        key = (f["kind"], f["pred"], j["family"].split(":")[0])
        seen.setdefault(key, []).append({"family": j["family"], "opts": j["opts"], "sg": f["sg"], "what": f["what"],
                                         "job": f["record"]})
    out["findings"] = [{"kind": k[0], "pred": k[1], "family": k[2], "count": len(v), "first": v[0]} for k, v in sorted(seen.items())]
    out["_raw_findings"] = findings
    out["_jobs"] = jobs
    return out


def main(argv=None):
    ap = argparse.ArgumentParser()
    ap.add_argument("--tier", default="quick")
    ap.add_argument("--n", type=int, default=60)
    ap.add_argument("--no-mc", action="store_true")
    ap.add_argument("--dump")
    a = ap.parse_args(argv)
    try:
        out = run(a.tier, a.n, not a.no_mc, a.dump)
    except MachineryError as e:
        print("MACHINERY-ERROR: %s" % e)
        return 2
    raw, jobs = out.pop("_raw_findings"), out.pop("_jobs")
    for m in out.get("mc", []):
        print("MC %-28s %-10s %-18s distinct=%d wall=%.1fs" % (m["spec"], m["status"], m["violated"] or "", m["distinct"], m["wall_s"]))
    print("negative controls on corrupted records rejected:", ", ".join(out["negative_controls"]))
    print("counters:", json.dumps(out["counters"], sort_keys=True))
    print("compile failures: %d   trace run: %s   wall: %s" % (out["compile_failures"], out["trace_run"], out["wall_s"]))
    for f in out["findings"]:
        print("FINDING %-6s %-24s family=%-12s x%d  first: %s %s sg=%s %s" % (
            f["kind"], f["pred"], f["family"], f["count"], f["first"]["family"], json.dumps(f["first"]["opts"], sort_keys=True),
            f["first"]["sg"], f["first"]["what"]))
    print("schedule selftest: latent=%d drift=%d" % (out["counters"]["latent"], out["counters"]["drift"]))
    os.makedirs(EVIDENCE, exist_ok=True)
    with open(os.path.join(os.environ.get("VERIF_TMP", "/var/tmp"), "Schedule-selftest.json"), "w") as f:   # not an evidence file of a property
        json.dump(dict(out, first_findings=[{"kind": x["kind"], "pred": x["pred"], "what": x["what"], "sg": x["sg"],
                                             "net": jobs[x["record"]]["net"], "opts": jobs[x["record"]]["opts"],
                                             "event": x["event"]} for x in raw[:10]]), f, indent=1, default=str)
    return 0


if __name__ == "__main__":
    sys.exit(main())
