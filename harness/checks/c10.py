"""C10 - striping does not change what is computed (function level + design level).

MC   : StripesMC.tla   the transcription of calc_padding_and_skirt / Box.transform_with_strides_and_skirt /
                       create_padding (Stripes.tla) satisfies the declarative oracle Exact for SAME/VALID operators
                       (all stripe heights, concat offsets, x2 upscaling as one stripe); outside that region every
                       inexact case is printed as a *candidate* (no verdict).  Seeded mutants of the transcription must
                       violate (negative controls).
       Cascade.tla     producer/consumer interleaving + rolling buffers; NoEarlyOverwrite candidates; a buffer one row
                       shorter than a consumer stripe's input must violate (negative control).
S2C  : every candidate printed by TLC, and the parameter lattice of the property (kernels 1..8, strides 1..3, dilations
       1..2, SAME/VALID/explicit padding, nearest/transpose upscaling, split read offsets, concat write offsets, depth
       slices, all stripe heights; chains of 2-3 cascaded operators), is replayed through the REAL code by
       harness/c10_driver.py (real Tensor/Operation/Pass/SchedulerOperation objects; real add_padding_fields,
       create_scheduler_info, propose_schedule_striping, rolling_buffer_shape, apply_schedule,
       generate_high_level_commands_for_sched_op, transform_with_strides_and_skirt, create_padding,
       create_feature_map/addresses_for_rolling_buffer).
C2S  : the recorded stripes are validated in batches by TLC: StripesTrace.tla (Exact per axis, Partition per operator)
       and CascadeTrace.tla (NoEarlyOverwrite / ReadBeforeProduced on the recorded tile addressing).  Only these
       two verdict lists produce violations; disagreement between transcription and code is reported as drift.
"""
import itertools
import json
import multiprocessing as mp
import os
import random
from concurrent.futures import ThreadPoolExecutor

from .. import tlc
from .. import c10_driver as drv
from ..common import Run, MachineryError, seed

WIN = ("conv", "dw", "maxpool", "avgpool")


# ------------------------------------------------------------------------------------------- lattice
def _explicit_pads(kd, s):
    """(before, after) pairs replace_pad_by_hw_pad accepts for a dilated kernel extent kd and stride s."""
    m = kd // 2
    out = []
    for pb in range(0, m + 1):
        if not (pb == m or m <= s or pb % s == 0):
            continue
        for pa in range(0, m + 1):
            if pb + pa > 0:
                out.append((pb, pa))
    return out


def lattice_single(max_i, kernels, full):
    """single operators striped in height: class x extent x kernel x dilation x stride x padding x stripe height."""
    for cls in WIN:
        for i in range(1, max_i + 1):
            for k in kernels:
                for d in ((1, 2) if cls in ("conv", "dw") and k > 1 else (1,)):
                    kd = d * (k - 1) + 1
                    for s in (1, 2, 3):
                        pads = [("SAME", (0, 0)), ("VALID", (0, 0))]
                        if cls != "maxpool":
                            pads += [("EXPLICIT", e) for e in _explicit_pads(kd, s)]
                        for pad, ep in pads:
                            kw = k if (i + k + s) % 2 else 1
                            o = {"cls": cls, "kh": k, "kw": kw, "dh": d, "dw": d if kw > 1 else 1, "sh": s, "sw": s,
                                 "pad": pad, "ep": [ep[0], ep[0] if kw > 1 else 0, ep[1], ep[1] if kw > 1 else 0], "oc": 8}
                            c0 = {"ifm": [i, max(i, 2), 8], "ops": [o]}
                            if pad == "EXPLICIT" and kw > 1 and (ep[0] > (d * (kw - 1) + 1) // 2):
                                continue
                            sh = drv.case_shapes(c0)
                            if sh is None:
                                continue
                            oh = sh[0][2][0]
                            for h in range(1, oh + 1):
                                yield ("single", c0, h)


def lattice_split():
    for cls in WIN + ("ew1", "ew2"):
        for (i, ro, rl) in ((12, 0, 6), (12, 3, 6), (12, 6, 6), (12, 1, 11), (9, 4, 5), (7, 2, 3)):
            for k in (1, 2, 3, 4):
                for s in (1, 2, 3):
                    for pad in ("SAME", "VALID"):
                        for axs in ("H", "W", "C", "HW"):
                            if cls in ("ew1", "ew2") and (k > 1 or s > 1 or pad == "SAME"):
                                continue
                            roff = [ro if "H" in axs else 0, ro if "W" in axs else 0, 8 if "C" in axs else 0]
                            rsh = [rl if "H" in axs else i, rl if "W" in axs else i, 8 if "C" in axs else 16]
                            yield ("split", {"ifm": [i, i, 16], "ops": [{"cls": cls, "kh": k, "kw": k, "sh": s, "sw": s, "pad": pad,
                                                                         "oc": 8, "roff": roff, "rshape": rsh}]}, None)


def lattice_concat():
    for cls in WIN + ("ew1", "ew2", "cat"):
        for i in (5, 8, 12):
            for k in (1, 2, 3):
                for s in (1, 2):
                    for pad in ("SAME", "VALID"):
                        if cls in ("ew1", "ew2", "cat") and (k > 1 or s > 1 or pad == "SAME"):
                            continue
                        for axs in "HWC":
                            c0 = {"ifm": [i, i, 16], "ops": [{"cls": cls, "kh": k, "kw": k, "sh": s, "sw": s, "pad": pad, "oc": 16}]}
                            sh = drv.case_shapes(c0)
                            if sh is None:
                                continue
                            wr = sh[0][2]
                            for off in (0, 3, 16):
                                woff = [off if axs == "HWC"[j] else 0 for j in range(3)]
                                ot = [wr[j] + woff[j] + ((16 if j == 2 else 2) if axs == "HWC"[j] else 0) for j in range(3)]
                                c1 = json.loads(json.dumps(c0))
                                c1["ops"][0].update(woff=woff, otens=ot)
                                for h in range(1, wr[0] + 1):
                                    yield ("concat", c1, h)


NEAREST = (("avgpool", 1, "SAME", [0, 0, 0, 0]), ("avgpool", 2, "EXPLICIT", [0, 0, 1, 1]), ("avgpool", 4, "EXPLICIT", [0, 0, 3, 3]),
           ("avgpool", 8, "EXPLICIT", [0, 0, 7, 7]), ("avgpool", 2, "VALID", [0, 0, 0, 0]), ("avgpool", 4, "VALID", [0, 0, 0, 0]),
           ("dw", 2, "VALID", [0, 0, 0, 0]), ("dw", 4, "VALID", [0, 0, 0, 0]))


def lattice_upscale():
    """x2 upscaling: operations executed as ONE stripe (first-round scope of DESIGN.md 5.10), plus the nearest-neighbour
    kernels the resize lowering produces with the even stripe heights the scheduler forces."""
    for i in range(1, 10):
        for k in range(1, 9):
            for pad in ("SAME", "VALID"):
                yield ("transpose", {"ifm": [i, i, 8], "ops": [{"cls": "tconv", "kh": k, "kw": k, "pad": pad, "up": "transpose", "oc": 8}]}, None)
        for (cls, k, pad, ep) in NEAREST:
            c0 = {"ifm": [i, i, 8], "ops": [{"cls": cls, "kh": k, "kw": k, "pad": pad, "ep": ep, "up": "nearest"}]}
            if drv.case_shapes(c0) is None:
                continue
            yield ("nearest", c0, None)
            if pad != "VALID":
                for h in range(2, 2 * i + 1, 2):
                    yield ("nearest-striped", c0, h)


def lattice_misc():
    for i in (1, 4, 7):
        yield ("fc", {"ifm": [1, 1, 16 * i], "ops": [{"cls": "fc", "oc": 8}]}, None)
        for h in range(1, i + 1):
            yield ("rsum", {"ifm": [i, i, 16], "ops": [{"cls": "rsum"}]}, h)
            for bc in (None, "H", "W"):
                yield ("ew2", {"ifm": [i, i, 16], "ops": [{"cls": "ew2", "bc": bc}]}, h)
            for sl in ([0, 8, 16], [0, 16], [0, 4, 8, 12, 16]):
                for cls in ("conv", "dw", "maxpool"):
                    yield ("slices", {"ifm": [i, i, 16], "ops": [{"cls": cls, "kh": 3, "kw": 3, "pad": "SAME", "oc": 16, "slices": sl}]}, h)


def lattice_random(rng, n, max_i):
    """beyond the exhaustive extents: random large cases."""
    out = 0
    while out < n:
        cls = rng.choice(WIN)
        k = rng.randint(1, 8)
        d = rng.choice((1, 1, 2)) if cls in ("conv", "dw") and k > 1 else 1
        s = rng.randint(1, 3)
        i = rng.randint(13, max_i)
        kd = d * (k - 1) + 1
        pad = rng.choice(("SAME", "VALID", "EXPLICIT")) if cls != "maxpool" else rng.choice(("SAME", "VALID"))
        ep = [0, 0, 0, 0]
        if pad == "EXPLICIT":
            eps = _explicit_pads(kd, s)
            if not eps:
                continue
            e = rng.choice(eps)
            ep = [e[0], 0, e[1], 0]
        c0 = {"ifm": [i, rng.randint(1, 20), 8], "ops": [{"cls": cls, "kh": k, "kw": 1, "dh": d, "sh": s, "pad": pad, "ep": ep, "oc": 8}]}
        sh = drv.case_shapes(c0)
        if sh is None:
            continue
        yield ("random", c0, rng.randint(1, sh[0][2][0]))
        out += 1


def lattice_cascades(rng, n, systematic):
    """chains of 2..3 cascaded operators; the producers' stripe heights are derived by the real propose_schedule_striping."""
    if systematic:
        for h1 in (6, 9, 10, 12):
            for k in (1, 2, 3, 4, 5):
                for s in (1, 2, 3):
                    for pad in ("SAME", "VALID"):
                        c0 = {"ifm": [h1 + 2, 4, 8], "ops": [{"cls": "conv", "kh": 3, "kw": 1, "pad": "VALID", "oc": 8},
                                                            {"cls": ("dw", "maxpool", "conv")[k % 3], "kh": k, "kw": 1, "sh": s, "pad": pad, "oc": 8}]}
                        sh = drv.case_shapes(c0)
                        if sh is None:
                            continue
                        for h in range(1, sh[-1][2][0] + 1):
                            yield ("cascade2", c0, h)
    for _ in range(n):
        nn = rng.choice((2, 2, 3))
        i = rng.randint(3, 16)
        ops = []
        for j in range(nn):
            cls = rng.choice(("conv", "dw", "maxpool", "avgpool", "ew1"))
            k = rng.randint(1, 5)
            o = {"cls": cls, "kh": k, "kw": rng.choice((1, 3)), "sh": rng.choice((1, 1, 2, 2, 3)), "sw": 1,
                 "dh": rng.choice((1, 1, 2)) if cls in ("conv", "dw") and k > 1 else 1, "pad": rng.choice(("SAME", "VALID")), "oc": 16}
            if rng.random() < 0.15 and cls in ("conv", "dw", "maxpool"):
                o["slices"] = [0, 8, 16]
                o["oc"] = 16
            ops.append(o)
        c0 = {"ifm": [i, 6, 16], "ops": ops}
        sh = drv.case_shapes(c0)
        if sh is None:
            continue
        yield ("cascade%d" % nn, c0, rng.randint(1, min(6, sh[-1][2][0])))


def with_stripe(c0, h, cid, fam):
    c = json.loads(json.dumps(c0))
    c["id"] = cid
    c["fam"] = fam
    if h is not None:
        c["ops"][-1]["stripe"] = h
    return c


def build_lattice(tier, rng):
    gens = []
    if tier == "quick":
        single = list(lattice_single(12, (1, 2, 3, 4, 5, 6, 7, 8), False))
        rng.shuffle(single)
        gens += single[:6000]
        for g, frac in ((lattice_split(), 0.35), (lattice_concat(), 0.25)):
            xs = list(g)
            rng.shuffle(xs)
            gens += xs[:int(len(xs) * frac)]
        gens += list(lattice_upscale()) + list(lattice_misc())
        gens += list(lattice_random(rng, 400, 64))
        gens += list(lattice_cascades(rng, 1500, True))
    else:
        gens += list(lattice_single(16, (1, 2, 3, 4, 5, 6, 7, 8), True))
        gens += list(lattice_split()) + list(lattice_concat()) + list(lattice_upscale()) + list(lattice_misc())
        gens += list(lattice_random(rng, 6000, 160))
        gens += list(lattice_cascades(rng, 30000, True))
    return gens


# ------------------------------------------------------------------------------------------- candidates from TLC
def case_from_tuple(t, cid, fam):
    """a case of the StripesMC lattice (CaseTuple) -> driver case exercising that axis of a real operator."""
    ax, i, ro, rl, sp, wo, o_, k, d, s, pt, epb, epa, up, h, a = t
    other = 6
    if up == 2:
        o = {"cls": "tconv", "oc": 8, "pad": pt, "up": "transpose"}
    elif up == 1:
        o = {"cls": "avgpool", "pad": pt, "up": "nearest"}
    else:
        cls = ("conv", "dw", "avgpool", "maxpool")[(k + s + i) % 4] if d == 1 else ("conv", "dw")[(k + i) % 2]
        if cls == "maxpool" and pt == "EXPLICIT":
            cls = "avgpool"
        o = {"cls": cls, "oc": 8, "pad": pt}
    if ax == "H":
        o.update(kh=k, kw=1, dh=d, sh=s, ep=[epb, 0, epa, 0])
        ifm = [i, other, 8]
        if sp:
            o.update(roff=[ro, 0, 0], rshape=[rl, other, 8])
        if wo:
            o.update(woff=[wo, 0, 0], otens=[o_ + wo + 2, other, 8])
    else:
        o.update(kh=1, kw=k, dw=d, sw=s, ep=[0, epb, 0, epa])
        ifm = [other, i, 8]
        if sp:
            o.update(roff=[0, ro, 0], rshape=[other, rl, 8])
        if wo:
            o.update(woff=[0, wo, 0], otens=[other, o_ + wo + 2, 8])
    c = {"id": cid, "fam": fam, "ifm": ifm, "ops": [o]}
    if ax == "H":
        c["ops"][0]["stripe"] = h
    sh = drv.case_shapes(c)
    if sh is None or sh[0][2][0 if ax == "H" else 1] != o_:
        raise MachineryError("lattice mismatch: StripesMC says O=%s for %s, the driver computes %s" % (o_, t, sh and sh[0][2]))
    return c


def case_from_cascade_cand(t, cid, fam="mc-cascade-candidate"):
    h1, shapes, hf = t
    ops = [{"cls": "conv", "kh": 1, "kw": 1, "pad": "VALID", "oc": 8}]
    for j, (k, d, s, pt) in enumerate(shapes):
        cls = "conv" if d > 1 else ("dw", "maxpool", "conv", "avgpool")[(k + j) % 4]
        ops.append({"cls": cls, "kh": k, "kw": 1, "dh": d, "sh": s, "pad": pt, "oc": 8})
    ops[-1]["stripe"] = hf
    return {"id": cid, "fam": fam, "ifm": [h1, 4, 8], "ops": ops}


def parse_cands(res, tag="CAND"):
    out = []
    for ln in res["printed"]:
        if ln.startswith('<<"%s"' % tag):
            out.append(json.loads(tlc.parse_value(ln)[1]))
    return out


# ------------------------------------------------------------------------------------------- real code, in parallel
def _work(chunk):
    out = []
    for c in chunk:
        try:
            ev = drv.run_case(c)
            out.append((c["id"], ev, None))
        except Exception as ex:      # the real code raised: recorded, decided below
            import traceback
            tb = traceback.extract_tb(ex.__traceback__)
            where = "%s:%s" % (os.path.basename(tb[-1].filename), tb[-1].name)
            out.append((c["id"], None, "%s in %s: %s" % (type(ex).__name__, where, str(ex)[:120])))
    return out


def run_cases(cases, procs=16):
    chunks = [cases[i:i + 200] for i in range(0, len(cases), 200)]
    if not chunks:
        return {}
    drv.env()       # import once, children are forked
    ctx = mp.get_context("fork")
    with ctx.Pool(min(procs, len(chunks))) as pool:
        res = pool.map(_work, chunks)
    return {cid: (ev, err) for ch in res for (cid, ev, err) in ch}


def validate(module, events, heap="3g"):
    """one TLC run over a batch -> (res, viol, drift)"""
    d = tlc.scratch("c10tr")
    path = os.path.join(d, "t.ndjson")
    try:
        with open(path, "w") as f:
            for e in events:
                f.write(json.dumps(e, separators=(",", ":")) + "\n")
        res = tlc.run(module, module + ".cfg", workers=1, timeout=1800, heap=heap, env={"TRACE_FILE": path})
    finally:
        import shutil
        shutil.rmtree(d, ignore_errors=True)
    if not res.ok:
        raise MachineryError("trace validation %s: TLC status %s\n%s" % (module, res["status"], res["output"][-3000:]))
    viol = drift = None
    for ln in res["printed"]:
        if ln.startswith('<<"VERDICT"'):
            viol = json.loads(tlc.parse_value(ln)[1])
        elif ln.startswith('<<"DRIFT"'):
            drift = json.loads(tlc.parse_value(ln)[1])
    if viol is None or drift is None:
        raise MachineryError("trace validation %s: no VERDICT/DRIFT line\n%s" % (module, res["output"][-2000:]))
    return res, viol, drift


def validate_batches(run, module, per_case_events, batch_events=25000):
    """per_case_events: list of event lists.  -> (viol, drift), with run accounting."""
    batches, cur, n = [], [], 0
    for evs in per_case_events:
        cur.append(evs)
        n += len(evs)
        if n >= batch_events:
            batches.append(cur)
            cur, n = [], 0
    if cur:
        batches.append(cur)
    viol, drift = [], []
    with ThreadPoolExecutor(6) as ex:
        futs = [ex.submit(validate, module, [e for evs in b for e in evs]) for b in batches]
        for b, f in zip(batches, futs):
            res, v, d = f.result()
            run.add_trace_run(module, res, len(b))
            viol += v
            drift += d
    return viol, drift


# ------------------------------------------------------------------------------------------- verdict keys
def stripe_key(op, axis, single, clauses):
    x = op["ax"][axis] if axis in op["ax"] else op["ax"]["H"]
    return "Exact|axis=%s|split=%d|pad=%s|strided=%d|single_stripe=%s|up=%d" % (
        axis, int(op["sp"]), op["pt"] if op["cls"] not in ("ew1", "ew2") else "none", int(x["s"] > 1),
        int(single) if axis == "H" else "-", op["up"])


def describe(case, hdr, ev, axis, clauses):
    op = hdr["ops"][ev["op"]]
    x = op["ax"].get(axis, {})
    v = ev.get(axis)
    return ("%s fail on axis %s of %s (I=%s read[%s,+%s) write@%s O=%s k=%s d=%s s=%s pad=%s%s up=%s): ofm [%s,%s) -> real code gave "
            "ifm [%s,%s) pad_before=%s pad_after=%s" % (
                "+".join(sorted(clauses)), axis, op["cls"], x.get("I"), x.get("ro"), x.get("rl"), x.get("wo"), x.get("O"), x.get("k"),
                x.get("d"), x.get("s"), op["pt"], x.get("ep") if op["pt"] == "EXPLICIT" else "", op["up"],
                v[0], v[1], v[2], v[3], v[4], v[5]))


# ------------------------------------------------------------------------------------------- compiled streams
COMPILED_FAMILIES = ["chain", "stride3", "branch", "mixed", "resize", "wide", "inplace", "chain", "u8i16", "widen", "lut",
                     "diamonds", "pruned", "lutmany"]


def compiled_jobs(tier, sd):
    from .. import corpus
    from .. import c10_repro
    from .. import netgen
    jobs = [dict(j, family="directed:" + j["id"]) for j in c10_repro.jobs()]      # the end-to-end reproductions of F1, F2, F3, F5
    n = netgen.Net(7)             # split read offsets along W and C feeding padded kernels (exact on the unchanged tree)
    x = n.fm("in", [1, 8, 12, 32], is_input=True)
    parts = n.split(x, 3, axis=2)
    halves = n.split(x, 2, axis=3)
    outs = [n.dwconv(parts[1], k=3, pad="SAME"), n.conv(parts[2], 8, k=3, pad="SAME"), n.pool(halves[1], "MAX_POOL_2D", k=2, stride=2, pad="VALID")]
    jobs.append({"id": "d-split", "family": "directed:split(W,C) -> padded kernels", "net": n.desc(outs), "opts": {"accel": "ethos-u55-128"}})
    jobs += corpus.all_singles(sd)
    jobs += corpus.draw(30 if tier == "quick" else 1000, sd, families=COMPILED_FAMILIES, dedicated_bias=0.5)
    # graph shapes (corpus_shapes.py): asymmetric strides, extreme extents through cascades, composed read / write offsets
    jobs += corpus.shape_jobs(sd, tier, families=["astride", "astride", "extreme", "extreme", "catcat", "reshape_between", "tr_hw",
                                                  "tiny_depth", "islands", "fanout", "ewchain"], thorough=20)
    jobs = sweep_jobs(tier, sd) + jobs            # the big ones first: they bound the wall time of the background thread
    for n, j in enumerate(jobs):
        j["id"] = "c%d" % n
    return jobs


def sweep_jobs(tier, sd):
    """Scheduler-level families that only show in real compilations: deep chains of 3x3 convolutions (optionally with a x2
    nearest-neighbour resize in the middle) on large feature maps, compiled for Performance with the arena cache swept
    between the size of one feature map and the unstriped peak, so that optimize_sub_schedule() proposes several stripings
    of the same cascade (growing stripes, rolling buffers re-derived per proposal, even-stripe rule for upscaling)."""
    from .. import netgen, vela_run
    rng = random.Random(sd * 7919 + 17)
    nets = 4 if tier == "quick" else 60
    per_net = 4 if tier == "quick" else 9
    jobs = []
    for ni in range(nets):
        kind = ("chain", "nearest")[ni % 2]
        if kind == "chain":
            h, w = rng.choice([(96, 32), (64, 64), (128, 48), (80, 40), (112, 32), (64, 96), (128, 128)][:5 if tier == "quick" else 7])
        else:
            h, w = rng.choice([(32, 32), (48, 24), (40, 40), (24, 64), (64, 32)])
        c0 = rng.choice([8, 16])
        depth = rng.randint(3, 5) if kind == "chain" else rng.randint(2, 3)
        chans = [rng.choice([16, 24, 32, 48, 64]) for _ in range(depth - 1)] + [rng.choice([8, 16])]
        n = netgen.Net(rng.randrange(1 << 20))
        x = n.fm("in", [1, h, w, c0], is_input=True)
        fms = [h * w * c0]
        hh, ww = h, w
        y = x
        if kind == "nearest":
            c1 = rng.choice([24, 32, 48])
            y = n.conv(y, c1, k=3, pad="SAME")
            fms.append(hh * ww * c1)
            y = n.resize(y, "RESIZE_NEAREST_NEIGHBOR", 2)
            hh, ww = 2 * hh, 2 * ww
            fms.append(hh * ww * c1)
        for oc in chans:
            k = rng.choice([3, 3, 3, 5]) if tier != "quick" else 3
            y = n.conv(y, oc, k=k, pad="SAME")
            fms.append(hh * ww * oc)
        net = n.desc([y])
        lo = max(min(fms[1:-1] or fms), 20000)
        hi = max(a + b for a, b in zip(fms, fms[1:]))
        for ai in range(per_net):
            arena = int(lo + (hi - lo) * (ai + rng.random()) / per_net)
            accel = rng.choice(["ethos-u55-128", "ethos-u55-256", "ethos-u65-256", "ethos-u55-64"])
            opts = {"accel": accel, "optimise": "Performance", "arena": arena}
            r = rng.random()
            if "u65" in accel and r < 0.6:
                opts.update(config=vela_run.ARM_INI, system_config="Ethos_U65_High_End", memory_mode="Dedicated_Sram")
            elif "u55" in accel and r < 0.4:
                opts.update(config=vela_run.ARM_INI, system_config="Ethos_U55_High_End_Embedded", memory_mode="Shared_Sram")
            jobs.append({"id": "w%d_%d" % (ni, ai), "family": "sweep:%s:%dx%dx%d:d%d" % (kind, h, w, c0, depth), "net": net, "opts": opts})
    return jobs


def compile_jobs(jobs):
    from .. import logical, vela_run
    return vela_run.compile_many(jobs, extractor=logical.extract)


def compiled_traces(jobs, results, first_tid=1000000):
    """-> (stripes traces [(tid, events)], cascade traces [(ctid, events)], meta {tid: ...}, stats)"""
    from .. import streams, c10_compiled
    stats = {"compiled_jobs": len(jobs), "compile_rejected": 0, "compiled_streams": 0, "compiled_stripes": 0, "compiled_operators": 0,
             "compiled_cascades": 0, "rolling_buffer_reads": 0, "operators_outside_oracle": 0, "operators_partition_only": 0}
    straces, ctraces, meta = [], [], {}
    raw = []              # (ops, logical subgraph) of the first streams, for the register-corruption controls
    tid = first_tid
    for j, x in zip(jobs, results):
        if x.get("rc") != 0 or "out_bytes" not in x:
            stats["compile_rejected"] += 1          # rejected / crashed compilations are C13's business
            continue
        if "extract" not in x:
            raise MachineryError("no logical command list for %s: %s" % (j["family"], x.get("extract_error")))
        _, ss = streams.analyse(x["out_bytes"], j["opts"]["accel"])
        lgs = x["extract"]
        if len(lgs) != len(ss):
            raise MachineryError("pairing of subgraphs failed for " + j["family"])
        for k, (st, lg) in enumerate(zip(ss, lgs)):
            if list(st["payload"]["words"]) != lg["words"]:
                raise MachineryError("command stream of the output file differs from the generated one (%s)" % j["family"])
            tid += 1
            evs, cascades, hdr, stt = c10_compiled.stream_events(tid, st["ops"], lg)
            if len(raw) < 60:
                raw.append((st["ops"], lg))
            short = {"id": tid, "compiled": j["family"], "opts": j["opts"], "stream": k}
            full = {"compiled": True, "family": j["family"], "net": j["net"], "opts": j["opts"], "stream": k}
            if hdr["n"]:
                straces.append((tid, evs))
                meta[tid] = (short, full, hdr)
            for ctid, ch, cev in cascades:
                ctraces.append((ctid, cev))
                meta[ctid] = (dict(short, id=ctid, operators=[hdr["ops"][i]["name"] for i in ch]), full, hdr)
            stats["compiled_streams"] += 1
            stats["compiled_stripes"] += stt["stripes"]
            stats["compiled_operators"] += stt["ops"]
            stats["compiled_cascades"] += stt["cascades"]
            stats["rolling_buffer_reads"] += stt["rolling_reads"]
            stats["operators_outside_oracle"] += stt["skipped_ops"]
            stats["operators_partition_only"] += stt["unchecked_ops"]
    stats["_raw"] = raw
    return straces, ctraces, meta, stats


def compiled_controls(run, raw):
    """corrupt ONE decoded register of a real stream and require the trace specifications to reject it: the compiled
    part must see a wrong pad register, OFM height or tile base even though the logical command is untouched."""
    from .. import c10_compiled
    done = []

    def corrupt(pred, change, module, want, name):
        for ops, lg in raw:
            for q, (o, c) in enumerate(zip(ops, lg["cmds"])):
                if c["type"] == "stripe" and o["kind"] != "dma" and pred(o, c):
                    ops2 = [dict(x, regs=dict(x["regs"])) if n == q else x for n, x in enumerate(ops)]
                    change(ops2[q]["regs"])
                    evs, cascades, hdr, _ = c10_compiled.stream_events(999999, ops2, lg)
                    if hdr["n"] == 0 or c["name"] not in [x.get("name") for x in hdr["ops"]]:
                        continue
                    if module == "StripesTrace":
                        _, v, _ = validate(module, evs)
                        hit = any(x[4] == want for x in v)
                    else:
                        hit = False
                        for _, _, cev in cascades:
                            _, v, _ = validate(module, cev)
                            hit = hit or any(x[3] in want for x in v)
                    if not hit:
                        raise MachineryError("compiled control '%s' not rejected (%s expected): %s" % (name, want, v[:4]))
                    done.append(name)
                    return
        done.append(name + " (no suitable stripe in the first streams: skipped)")

    def bump(reg, d):
        def f(regs):
            regs[reg] = regs.get(reg, 0) + d
        return f
    corrupt(lambda o, c: o["kind"] != "ew" and o["regs"].get("NPU_SET_IFM_PAD_TOP", 0) > 0 and not c.get("tile_padding"),
            bump("NPU_SET_IFM_PAD_TOP", -1), "StripesTrace", "PadBefore", "IFM_PAD_TOP - 1")
    corrupt(lambda o, c: o["kind"] != "ew" and o["regs"].get("NPU_SET_IFM_PAD_RIGHT", 0) > 0 and not c.get("tile_padding"),
            bump("NPU_SET_IFM_PAD_RIGHT", -1), "StripesTrace", "PadAfter", "IFM_PAD_RIGHT - 1")
    corrupt(lambda o, c: o["regs"].get("NPU_SET_OFM_HEIGHT_M1", 0) > 0 and c.get("orig") != "Transpose",
            bump("NPU_SET_OFM_HEIGHT_M1", -1), "StripesTrace", "Partition", "OFM_HEIGHT - 1")
    corrupt(lambda o, c: c10_compiled.rolling(c.get("ifm")) and o["kind"] != "ew",
            lambda regs: regs.__setitem__("NPU_SET_IFM_BASE0", regs["NPU_SET_IFM_BASE0"] + regs["NPU_SET_IFM_STRIDE_Y"]),
            "CascadeTrace", ("NoEarlyOverwrite", "ReadBeforeProduced"), "IFM_BASE0 + one row on a rolling buffer")
    run.cov["compiled_negative_controls"] = done


class _Acc:
    """stands in for Run inside the background thread (Run is not shared between threads): remembers the accounting
    calls, which the main thread replays."""

    def __init__(self):
        self.trace_runs, self.cov = [], {}

    def add_trace_run(self, name, res, n):
        self.trace_runs.append((name, res, n))


def compiled_work(jobs):
    """everything of the compiled part that does not need the Run object: compile, decode, pair, build the traces, let TLC
    decide, run the register-corruption controls.  Runs in a background thread next to the model checking."""
    results = compile_jobs(jobs)
    straces, ctraces, meta, stats = compiled_traces(jobs, results)
    raw = stats.pop("_raw")
    if not straces:
        raise MachineryError("no compiled stream produced a stripe")
    acc = _Acc()
    sviol, _ = validate_batches(acc, "StripesTrace", [ev for _, ev in straces])
    cviol = []
    if ctraces:
        cviol, _ = validate_batches(acc, "CascadeTrace", [ev for _, ev in ctraces])
    compiled_controls(acc, raw)
    return dict(straces=straces, ctraces=ctraces, meta=meta, stats=stats, sviol=sviol, cviol=cviol, acc=acc)


def validate_compiled(run, tier, pending=None):
    """Stripe groups decoded from COMPILED command streams (see harness/c10_compiled.py): (a) the OFM boxes of every
    operator partition its output, (b) per stripe the rows/columns/channels the hardware reads (logical box start +
    register-derived extent) and the pad registers are Exact for the operator's geometry, (c) NoEarlyOverwrite /
    ReadBeforeProduced on real rolling buffers, with the slots taken from the tile registers.
    pending = future of compiled_work() when main() started it early."""
    w = pending.result() if pending is not None else compiled_work(compiled_jobs(tier, seed()))
    straces, ctraces, meta, stats, sviol, cviol = w["straces"], w["ctraces"], w["meta"], w["stats"], w["sviol"], w["cviol"]
    for name, res, n in w["acc"].trace_runs:
        run.add_trace_run(name + "(compiled)", res, n)
    run.cov.update(w["acc"].cov)
    evmap = dict(straces)
    evmap.update(dict(ctraces))
    by_id = {t: m[0] for t, m in meta.items()}
    full = {t: m[1] for t, m in meta.items()}
    for t, evs in straces:
        hdr = meta[t][2]
        for e in evs:
            if e["e"] == "S":
                op = hdr["ops"][e["op"]]
                run.nontrivial(("compiled", op["cls"], op["pt"], op["ax"]["H"]["k"], op["ax"]["H"]["s"], op["sp"], op["ax"]["H"]["wo"] > 0,
                                op["up"], e["H"][4] > 0, e["H"][5] > 0, e["first"], e["last"], bool(e["rd"]), bool(e["rd"] and e["rd"][1] < e["H"][3] - e["H"][2])))
    run.evaluated(stats["compiled_stripes"] * 3)
    keys = report_stripe_violations(run, by_id, evmap, sviol, full) | report_cascade_violations(run, by_id, evmap, cviol, full)
    stats["compiled_violation_keys"] = sorted(keys)
    stats["compiled_violating_stripes"] = len({(v[0], v[1]) for v in sviol})
    stats["compiled_violating_cascade_reads"] = len({(v[0], v[1]) for v in cviol})
    run.cov.update(stats)
    for t, evs in straces[:2]:
        run.sample({"compiled": by_id[t], "operators": [o["cls"] for o in evs[0]["ops"]], "first_stripe": evs[1] if len(evs) > 1 else None})
    return stats


# ------------------------------------------------------------------------------------------- main
MC_ACTIONS = {"StripesMC": ("StripesMC.Init", "StripesMC.Step"), "Cascade": ("Cascade.Init", "Cascade.Next")}


def _mc(module, cfg, workers, expect="ok", coverage=True, timeout=1500):
    res = tlc.run(module, cfg, workers=workers, coverage=coverage, timeout=timeout, heap="3g")
    if res["status"] != expect:
        raise MachineryError("%s/%s: expected TLC status %s, got %s\n%s" % (module, cfg, expect, res["status"], res["output"][-3000:]))
    if expect == "ok" and coverage:
        for a in MC_ACTIONS[module]:
            if res["actions"].get(a, 0) == 0:
                raise MachineryError("vacuity: action %s never taken in %s" % (a, cfg))
    return res


# Golden traces: recorded once from the unchanged tree and frozen here, so that the negative controls exercise the
# trace specifications independently of the tree under test (a mutated tree must yield VIOLATION, not exit 2).
# single: conv 3x3 SAME on 9x6x8, stripes of 2 rows;  cascade: conv 3x3 SAME -> conv 3x1 SAME on 12 rows, final stripe 2.
GOLDEN_SINGLE = [json.loads(x) for x in r"""
{"t":900001,"e":"Hdr","n":1,"ops":[{"cls":"conv","sp":false,"up":0,"pt":"SAME","i2":[],"h":2,"hin":4,"buf":0,"store":9,"ax":{"H":{"I":9,"ro":0,"rl":9,"wo":0,"O":9,"OT":9,"k":3,"d":1,"s":1,"ep":[0,0]},"W":{"I":6,"ro":0,"rl":6,"wo":0,"O":6,"OT":6,"k":3,"d":1,"s":1,"ep":[0,0]},"C":{"I":8,"ro":0,"rl":8,"wo":0,"O":8,"OT":8,"k":1,"d":1,"s":1,"ep":[0,0]}}}]}
{"t":900001,"e":"S","q":0,"op":0,"first":true,"last":false,"H":[0,2,0,3,1,0],"W":[0,6,0,6,1,1],"C":[0,8,0,8,0,0],"b2":[],"rd":[],"wr":[]}
{"t":900001,"e":"S","q":1,"op":0,"first":false,"last":false,"H":[2,4,1,5,0,0],"W":[0,6,0,6,1,1],"C":[0,8,0,8,0,0],"b2":[],"rd":[],"wr":[]}
{"t":900001,"e":"S","q":2,"op":0,"first":false,"last":false,"H":[4,6,3,7,0,0],"W":[0,6,0,6,1,1],"C":[0,8,0,8,0,0],"b2":[],"rd":[],"wr":[]}
{"t":900001,"e":"S","q":3,"op":0,"first":false,"last":false,"H":[6,8,5,9,0,0],"W":[0,6,0,6,1,1],"C":[0,8,0,8,0,0],"b2":[],"rd":[],"wr":[]}
{"t":900001,"e":"S","q":4,"op":0,"first":false,"last":true,"H":[8,9,7,9,0,1],"W":[0,6,0,6,1,1],"C":[0,8,0,8,0,0],"b2":[],"rd":[],"wr":[]}
{"t":900001,"e":"End"}
""".strip().splitlines()]
GOLDEN_CASCADE = [json.loads(x) for x in r"""
{"t":900002,"e":"Hdr","n":2,"ops":[{"cls":"conv","sp":false,"up":0,"pt":"SAME","i2":[],"h":2,"hin":4,"buf":0,"store":12,"ax":{"H":{"I":12,"ro":0,"rl":12,"wo":0,"O":12,"OT":12,"k":3,"d":1,"s":1,"ep":[0,0]},"W":{"I":6,"ro":0,"rl":6,"wo":0,"O":6,"OT":6,"k":3,"d":1,"s":1,"ep":[0,0]},"C":{"I":8,"ro":0,"rl":8,"wo":0,"O":8,"OT":8,"k":1,"d":1,"s":1,"ep":[0,0]}}},{"cls":"conv","sp":false,"up":0,"pt":"SAME","i2":[],"h":2,"hin":4,"buf":8,"store":8,"ax":{"H":{"I":12,"ro":0,"rl":12,"wo":0,"O":12,"OT":12,"k":3,"d":1,"s":1,"ep":[0,0]},"W":{"I":6,"ro":0,"rl":6,"wo":0,"O":6,"OT":6,"k":1,"d":1,"s":1,"ep":[0,0]},"C":{"I":8,"ro":0,"rl":8,"wo":0,"O":8,"OT":8,"k":1,"d":1,"s":1,"ep":[0,0]}}}]}
{"t":900002,"e":"S","q":0,"op":0,"first":true,"last":false,"H":[0,2,0,3,1,0],"W":[0,6,0,6,1,1],"C":[0,8,0,8,0,0],"b2":[],"rd":[],"wr":[0,2,-1]}
{"t":900002,"e":"S","q":1,"op":0,"first":false,"last":false,"H":[2,4,1,5,0,0],"W":[0,6,0,6,1,1],"C":[0,8,0,8,0,0],"b2":[],"rd":[],"wr":[2,2,-1]}
{"t":900002,"e":"S","q":2,"op":1,"first":true,"last":false,"H":[0,2,0,3,1,0],"W":[0,6,0,6,0,0],"C":[0,8,0,8,0,0],"b2":[],"rd":[0,3,-1],"wr":[]}
{"t":900002,"e":"S","q":3,"op":0,"first":false,"last":false,"H":[4,6,3,7,0,0],"W":[0,6,0,6,1,1],"C":[0,8,0,8,0,0],"b2":[],"rd":[],"wr":[4,2,-1]}
{"t":900002,"e":"S","q":4,"op":1,"first":false,"last":false,"H":[2,4,1,5,0,0],"W":[0,6,0,6,0,0],"C":[0,8,0,8,0,0],"b2":[],"rd":[1,4,-1],"wr":[]}
{"t":900002,"e":"S","q":5,"op":0,"first":false,"last":false,"H":[6,8,5,9,0,0],"W":[0,6,0,6,1,1],"C":[0,8,0,8,0,0],"b2":[],"rd":[],"wr":[6,2,-1]}
{"t":900002,"e":"S","q":6,"op":1,"first":false,"last":false,"H":[4,6,3,7,0,0],"W":[0,6,0,6,0,0],"C":[0,8,0,8,0,0],"b2":[],"rd":[3,4,-1],"wr":[]}
{"t":900002,"e":"S","q":7,"op":0,"first":false,"last":false,"H":[8,10,7,11,0,0],"W":[0,6,0,6,1,1],"C":[0,8,0,8,0,0],"b2":[],"rd":[],"wr":[0,2,-1]}
{"t":900002,"e":"S","q":8,"op":1,"first":false,"last":false,"H":[6,8,5,9,0,0],"W":[0,6,0,6,0,0],"C":[0,8,0,8,0,0],"b2":[],"rd":[5,3,0],"wr":[]}
{"t":900002,"e":"S","q":9,"op":0,"first":false,"last":true,"H":[10,12,9,12,0,1],"W":[0,6,0,6,1,1],"C":[0,8,0,8,0,0],"b2":[],"rd":[],"wr":[2,2,-1]}
{"t":900002,"e":"S","q":10,"op":1,"first":false,"last":false,"H":[8,10,7,11,0,0],"W":[0,6,0,6,0,0],"C":[0,8,0,8,0,0],"b2":[],"rd":[7,1,0],"wr":[]}
{"t":900002,"e":"S","q":11,"op":1,"first":false,"last":true,"H":[10,12,9,12,0,1],"W":[0,6,0,6,0,0],"C":[0,8,0,8,0,0],"b2":[],"rd":[1,3,-1],"wr":[]}
{"t":900002,"e":"End"}
""".strip().splitlines()]
for _tr in (GOLDEN_SINGLE, GOLDEN_CASCADE):      # header fields added after the traces were frozen
    _tr[0]["model"] = True
    for _i, _o in enumerate(_tr[0]["ops"]):
        _o.update(chk=True, full=_i == len(_tr[0]["ops"]) - 1)


def negative_controls(run):
    """corrupted records must be rejected by the trace specifications (and the uncorrupted ones accepted)."""
    evs = GOLDEN_SINGLE
    _, v0, _ = validate("StripesTrace", evs)
    if v0:
        raise MachineryError("golden trace rejected by StripesTrace: %s" % v0[:3])
    bad_pad = json.loads(json.dumps(evs))
    bad_pad[1]["H"][4] += 1            # pad_top of the first stripe
    bad_box = json.loads(json.dumps(evs))
    bad_box[2]["H"][2] += 1            # IFM start of the second stripe shifted by a row
    bad_gap = json.loads(json.dumps(evs))
    del bad_gap[3]                     # one stripe missing
    bad_left = json.loads(json.dumps(evs))
    bad_left[2]["W"][4] = 0            # left padding dropped on a full-width stripe
    for name, tr, want in (("pad+1", bad_pad, "PadBefore"), ("ifm start+1", bad_box, "Aligned"), ("stripe dropped", bad_gap, "Partition"),
                           ("left pad dropped", bad_left, "PadBefore")):
        _, v, _ = validate("StripesTrace", tr)
        if not any(x[4] == want for x in v):
            raise MachineryError("negative control '%s' not rejected by StripesTrace (%s expected): %s" % (name, want, v[:4]))
    casc = GOLDEN_CASCADE
    _, v, d = validate("CascadeTrace", casc)
    if v or d:
        raise MachineryError("golden cascade rejected by CascadeTrace: %s %s" % (v[:3], d[:3]))
    short = json.loads(json.dumps(casc))          # the same events replayed into a buffer of (stripe input - 1) = 3 rows
    short[0]["ops"][1]["store"] = 3
    for e in short[1:]:
        if e["e"] == "S":
            for f, first, n in (("rd", e["H"][2], e["H"][3] - e["H"][2]), ("wr", e["H"][0], e["H"][1] - e["H"][0])):
                if e[f]:
                    h0 = min(n, 3 - first % 3)
                    e[f] = [first % 3, h0, 0 if n > h0 else -1]
    _, v, _ = validate("CascadeTrace", short)
    if not any(x[3] == "NoEarlyOverwrite" for x in v):
        raise MachineryError("negative control: buffer of (stripe input - 1) rows not rejected by CascadeTrace: %s" % v[:4])
    early = json.loads(json.dumps(casc))          # a producer stripe removed: its consumer reads rows that do not exist yet
    k = [i for i, e in enumerate(early) if e["e"] == "S" and e["op"] == 0][1]
    del early[k]
    _, v, _ = validate("CascadeTrace", early)
    if not any(x[3] == "ReadBeforeProduced" for x in v):
        raise MachineryError("negative control: dropped producer stripe not rejected by CascadeTrace: %s" % v[:4])
    run.cov["negative_controls"] = ["pad+1 -> PadBefore", "ifm start+1 -> Aligned", "stripe dropped -> Partition", "left pad dropped -> PadBefore",
                                    "rolling buffer = stripe input - 1 rows -> NoEarlyOverwrite", "producer stripe dropped -> ReadBeforeProduced"]


def main(tier, only=None):
    run = Run("C10", tier)
    sd = seed()
    rng = random.Random(sd)
    quick = tier == "quick"
    if os.environ.get("C10_PART") == "compiled":      # diagnostic mode (harness.c10_mutants --part compiled): the compiled part alone
        validate_compiled(run, tier)
        run.cov["rule"] = "diagnostic run of the compiled part only"
        return run.finish()
    # ---- design level: model checking, all configurations concurrently
    jobs = {
        "stripes": ("StripesMC", "Stripes_MC.cfg" if quick else "Stripes_Thorough.cfg", 6, "ok"),
        "mut_padtop": ("StripesMC", "Stripes_MutPadTop.cfg", 2, "invariant"),
        "mut_ltle": ("StripesMC", "Stripes_MutLtLe.cfg", 2, "invariant"),
        "mut_skirt": ("StripesMC", "Stripes_MutSkirt.cfg", 2, "invariant"),
        "mut_f3": ("StripesMC", "Stripes_MutF3.cfg", 2, "invariant"),      # the code before the repair of F3 / F4: not exact
        "mut_f4": ("StripesMC", "Stripes_MutF4.cfg", 2, "invariant"),
        "mut_f12": ("StripesMC", "Stripes_MutF12.cfg", 2, "invariant"),    # split offset before the stride multiplication (F1/F2)
        "cascade": ("Cascade", "Cascade_Quick.cfg" if quick else "Cascade_MC.cfg", 8, "ok"),
        "cascade_s3": ("Cascade", "Cascade_S3.cfg" if quick else "Cascade_S3T.cfg", 4, "ok"),
        "cascade_short": ("Cascade", "Cascade_Short.cfg", 1, "invariant"),
    }
    # compilations of the corpus for validate_compiled run in forked children next to TLC and the lattice
    cjobs = compiled_jobs(tier, sd)
    cpool = ThreadPoolExecutor(1)
    cfut = cpool.submit(compiled_work, cjobs)
    pool = ThreadPoolExecutor(len(jobs))
    futs = {k: pool.submit(_mc, m, c, w, exp, exp == "ok") for k, (m, c, w, exp) in jobs.items()}
    # ---- S2C: the lattice through the real code (runs while TLC works)
    lat = build_lattice(tier, rng)
    cases = [with_stripe(c0, h, cid + 1, fam) for cid, (fam, c0, h) in enumerate(lat)]
    results = run_cases(cases)
    negative_controls(run)
    mc = {k: f.result() for k, f in futs.items()}
    pool.shutdown()
    for k, res in mc.items():
        run.add_mc("%s/%s" % (jobs[k][0], jobs[k][1]), res)
    for k in ("mut_padtop", "mut_ltle", "mut_skirt", "mut_f3", "mut_f4", "mut_f12"):
        if mc[k].get("violated") != "ExactWhereClaimed":
            raise MachineryError("seeded mutant %s violated %s instead of ExactWhereClaimed" % (k, mc[k].get("violated")))
    if mc["cascade_short"].get("violated") != "NoEarlyOverwrite":
        raise MachineryError("short-buffer control violated %s" % mc["cascade_short"].get("violated"))
    # ---- candidates found by TLC -> replay on the real code
    scands = parse_cands(mc["stripes"])
    ccands = [c for c in parse_cands(mc["cascade"])] + [c for c in parse_cands(mc["cascade_s3"])]
    seen, ccs = set(), []
    for c in ccands:
        key = json.dumps(c)
        if key not in seen:
            seen.add(key)
            ccs.append(c)
    by_class = {}
    for t, fails in scands:
        cl = (t[0], t[4], t[10], t[9] > 1, t[14] == t[6], tuple(sorted(fails)))
        by_class.setdefault(cl, []).append(t)
    cand_cases = []
    cid = len(cases) + 1000
    per_class = 12 if quick else 10 ** 9
    for cl in sorted(by_class, key=repr):
        ts = by_class[cl]
        rng.shuffle(ts)
        for t in ts[:per_class]:
            cand_cases.append(case_from_tuple(t, cid, "mc-candidate"))
            cid += 1
    # the lattice TLC enumerated for the design-level proof, replayed case by case on the real code
    tlc_cases = parse_cands(mc["stripes"], "CASE")
    if not tlc_cases:
        raise MachineryError("StripesMC printed no CASE line")
    for t in tlc_cases:
        cand_cases.append(case_from_tuple(t, cid, "tlc-lattice"))
        cid += 1
    rng.shuffle(ccs)
    for t in ccs[:(60 if quick else 5000)]:
        cand_cases.append(case_from_cascade_cand(t, cid))
        cid += 1
    seen, tlc_casc = set(), []
    for t in parse_cands(mc["cascade"], "CASE") + parse_cands(mc["cascade_s3"], "CASE"):
        key = json.dumps(t)
        if key not in seen:
            seen.add(key)
            tlc_casc.append(t)
    if not tlc_casc:
        raise MachineryError("Cascade printed no CASE line")
    for t in tlc_casc:
        cand_cases.append(case_from_cascade_cand(t, cid, "tlc-cascade-lattice"))
        cid += 1
    cand_results = run_cases(cand_cases)
    run.cov["mc_candidates"] = {"stripes_states": len(scands), "stripes_classes": len(by_class), "cascade_geometries": len(ccs),
                                "cascade_claimed_region": len(parse_cands(mc["cascade"])), "tlc_enumerated_lattice": len(tlc_cases), "tlc_enumerated_cascades": len(tlc_casc),
                                "replayed_on_real_code": len(cand_cases)}
    cases += cand_cases
    results.update(cand_results)
    # ---- C2S: TLC decides
    by_id = {c["id"]: c for c in cases}
    good = [(cid_, ev) for cid_, (ev, err) in sorted(results.items()) if ev is not None]
    crashed = [(cid_, err) for cid_, (ev, err) in sorted(results.items()) if err is not None]
    empty = sum(1 for cid_, (ev, err) in results.items() if ev is None and err is None)
    sviol, sdrift = validate_batches(run, "StripesTrace", [ev for _, ev in good])
    cas = [ev for _, ev in good if ev[0]["n"] > 1]
    cviol, cdrift = validate_batches(run, "CascadeTrace", cas)
    evmap = {cid_: ev for cid_, ev in good}
    nstripes = 0
    for cid_, ev in good:
        hdr = ev[0]
        for e in ev[1:]:
            if e["e"] != "S":
                continue
            nstripes += 1
            op = hdr["ops"][e["op"]]
            h = e["H"]
            run.nontrivial((op["cls"], op["pt"], op["ax"]["H"]["k"], op["ax"]["H"]["d"], op["ax"]["H"]["s"], op["sp"],
                            op["ax"]["H"]["wo"] > 0, op["up"], h[4] > 0, h[5] > 0, e["first"], e["last"], hdr["n"], bool(e["rd"] and e["rd"][2] >= 0)))
    run.evaluated(nstripes * 3)
    report_stripe_violations(run, by_id, evmap, sviol)
    report_cascade_violations(run, by_id, evmap, cviol)
    # the real code raised on a case of the lattice: the property cannot hold for a stripe that cannot be described
    for cid_, err in crashed:
        c = by_id[cid_]
        o = drv.op_defaults(c["ops"][0])
        key = "Crash|%s|split=%d|strided=%d" % (err.split(":")[0] + ":" + err.split(":")[1].split(" ")[0] if ":" in err else err,
                                              int(o["roff"] is not None), int(o["sh"] > 1 or o["sw"] > 1))
        run.violation(key, "the real striping code raised on case %s: %s" % (json.dumps({k: v for k, v in c.items() if k not in ("id", "fam")}), err),
                      {"case": c, "error": err})
    run.cov["model_drift"] = {"stripes": len(sdrift), "cascade": len(cdrift),
                              "examples": [str(x) for x in (sdrift[:3] + cdrift[:3])]}
    run.cov["cases"] = {"total": len(cases), "with_geometry": len(good), "empty_geometry": empty, "real_code_raised": len(crashed),
                        "stripes": nstripes, "cascades": len(cas),
                        "families": {f: sum(1 for c in cases if c.get("fam") == f) for f in sorted({c.get("fam") for c in cases})}}
    for cid_, ev in good[:3]:
        run.sample({"case": by_id[cid_], "first_stripe": ev[1] if len(ev) > 1 else None})
    validate_compiled(run, tier, cfut)
    cpool.shutdown()
    run.cov["rule"] = (
        "cases = (operator chain, stripe height): exhaustive/sampled lattice of class x extent x kernel 1..8 x dilation x stride 1..3 x "
        "SAME/VALID/explicit padding x all stripe heights, split read offsets (single stripe), concat write offsets, x2 nearest/transpose "
        "upscaling (single stripe; nearest also with the scheduler's even stripe heights), depth slices, random extents up to 64 (quick) / "
        "160 (thorough), chains of 2-3 cascaded operators whose stripe heights come from the real propose_schedule_striping, plus every "
        "candidate printed by the TLC runs of StripesMC/Cascade; each case runs through the real code (c10_driver) and every stripe is "
        "judged by TLC (StripesTrace: Exact on H, W, C + Partition; CascadeTrace: NoEarlyOverwrite on the recorded tile addressing). "
        "Compiled part: every NPU stream of the corpus compilations (all single-operator kinds + cascade/branch/resize/stride-3 families) "
        "is decoded; per operator the stripes (logical positions, register-derived extents, pad and tile registers) go through the same "
        "two trace specifications. "
        "evaluations = stripes x 3 axes; distinct_nontrivial = distinct (class, padding, k, d, s, split, concat, upscale, pad_before>0, "
        "pad_after>0, first, last, chain length, wrapped tile) signatures")
    run.assumptions += [
        "A-HW4: the hardware reads the IFM extent it derives from OFM extent, kernel, stride and the pad registers, starting at the IFM base",
        "split read offsets are only exercised as single stripes in height (CascadeBuilder._is_cascadable excludes operators with read offsets)",
        "x2 upscaling: Exact is demanded for single-stripe operations and for the 1x1/2x2/4x4 nearest kernels with even stripe heights (DESIGN 5.10 first-round scope)",
        "an operator feeding a rolling buffer must tile a prefix of its rows (the generator never drains a producer); the last operator must tile everything",
        "width is never striped by the scheduler: W is validated for full-width boxes only",
        "weight encoding and cycle estimation are stubbed in the driver; block configs are irrelevant to geometry",
    ]
    return run.finish()


def report_stripe_violations(run, by_id, evmap, sviol, full=None):
    full = full or {}
    groups = {}
    keys = set()
    for t, q, opi, axis, clause in sviol:
        groups.setdefault((t, q, opi, axis), set()).add(clause)
    for (t, q, opi, axis), clauses in sorted(groups.items(), key=lambda kv: (sorted(kv[1]), kv[0])):
        ev = evmap[t]
        hdr = ev[0]
        case = by_id.get(t, {"id": t})
        if q < 0:
            op = hdr["ops"][opi]
            keys.add("Partition|cls=%s" % op["cls"])
            run.violation("Partition|cls=%s|chain=%d|op=%d" % (op["cls"], hdr["n"], opi) if hdr.get("model", True) else "Partition|cls=%s|compiled" % op["cls"],
                          "the OFM boxes of operator %d (%s) do not partition its written volume; case %s" % (
                              opi, op["cls"], json.dumps({k: v for k, v in case.items() if k not in ("id", "fam")})),
                          {"case": full.get(t, case), "clauses": sorted(clauses)})
            continue
        e = [x for x in ev if x["e"] == "S" and x["q"] == q][0]
        op = hdr["ops"][opi]
        key = stripe_key(op, axis, e["first"] and e["last"], clauses)
        keys.add(key)
        run.violation(key, describe(case, hdr, e, axis, clauses) + "; case " + json.dumps({k: v for k, v in case.items() if k not in ("id", "fam")}),
                      {"case": full.get(t, case), "stripe": e, "axis": axis, "clauses": sorted(clauses)})
    return keys


def report_cascade_violations(run, by_id, evmap, cviol, full=None):
    full = full or {}
    groups = {}
    keys = set()
    for t, q, opi, what in cviol:
        groups.setdefault((t, what), []).append((q, opi))
    for (t, what), lst in sorted(groups.items()):
        ev = evmap[t]
        hdr = ev[0]
        case = by_id.get(t, {"id": t})
        q, opi = lst[0]
        op = hdr["ops"][opi]
        x = op["ax"]["H"]
        key = "Cascade|%s|consumer_stride=%d" % (what, x["s"])
        keys.add(key)
        e = [y for y in ev if y["e"] == "S" and y["q"] == q]
        run.violation(key, "%s: consumer %s (k=%s d=%s s=%s pad=%s, stripe %s rows, stripe input %s) reads through a rolling buffer of %s rows "
                           "(producer stripe %s rows); stripe %s reads a row that is %s; case %s" % (
                               what, op["cls"], x["k"], x["d"], x["s"], op["pt"], op["h"], op["hin"], op["store"], hdr["ops"][opi - 1]["h"],
                               e[0]["H"][:4] if e else q, "no longer in its slot" if what == "NoEarlyOverwrite" else "not produced yet",
                               json.dumps({k: v for k, v in case.items() if k not in ("id", "fam")})),
                      {"case": full.get(t, case), "events": lst[:8], "what": what})
    return keys


def replay(path):
    rp = json.load(open(path))["replay"]
    case = rp["case"]
    if case.get("compiled"):
        jobs = [{"id": "r0", "family": case["family"], "net": case["net"], "opts": case["opts"]}]
        straces, ctraces, meta, _ = compiled_traces(jobs, compile_jobs(jobs))
        bad = 0
        for mod, trs in (("StripesTrace", straces), ("CascadeTrace", ctraces)):
            for t, ev in trs:
                _, v, _ = validate(mod, ev)
                print("%s verdict for stream %s:" % (mod, meta[t][0].get("stream")), v)
                bad += len(v)
        return 1 if bad else 0
    try:
        ev = drv.run_case(case)
    except Exception as ex:
        print("real code raised: %r" % ex)
        return 1
    if ev is None:
        print("case has no geometry")
        return 0
    _, sv, sd_ = validate("StripesTrace", ev)
    cv = []
    if ev[0]["n"] > 1:
        _, cv, _ = validate("CascadeTrace", ev)
    for e in ev:
        print(json.dumps(e))
    print("StripesTrace verdict:", sv)
    print("CascadeTrace verdict:", cv)
    return 1 if (sv or cv) else 0


def selftest():
    run = Run("C10", "quick")
    negative_controls(run)
    print("negative controls:", run.cov["negative_controls"])
    run.cleanup()
    return 0
