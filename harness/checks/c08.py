"""C08 - encoded weight and scale tensors cover each output channel exactly once; cached encodings are fresh.

MC  : WeightTensorMC.tla - for every OFM depth <= MaxN, 1 or 2 cores, *every* depth-slice list, block depths and
      abstract section sizes the assembly yields ranges keyed (core, slice), 16-byte aligned, disjoint, in stream
      order, covering every channel exactly once, with double-buffer sizes bounding every slice.  Negative controls:
      BrokenDoubleBuffer, BrokenCoverage; block depth 1 on two cores shows the environment assumption B >= cores.
      Cache.tla - coherence of the process-wide compression cache; TLC shows that the design is coherent when only
      key fields vary, and incoherent as soon as one omitted field varies (IFM bit depth, transpose-convolution
      flip, accelerator with value-derived ids), coherent again under the environment assumption / when cleared.
S2C : generated operators (conv / depthwise / FC / transpose conv; int8, uint8, int16 IFM; per-channel and
      per-tensor scales; channel-identifying biases; zero points; block depths; 16-granular and ragged slice lists;
      U55 single core, U55-32 micro-blocks, U65-512 two cores) are passed to the real
      weight_compressor.encode_weight_and_scale_tensor; request histories drawn by TLC (-simulate) from Cache.tla
      are replayed against the real process-wide CompressedWeightCache.
C2S : every returned tensor is a line validated by WeightTensorTrace.tla (TLC decides keys, alignment, disjointness,
      order, the 10-byte records of each (core, slice), the decoded weight sections against WeightOrder!Order of the
      zero-point-corrected channel weights, the double-buffer bound); every history event is validated by
      CacheTrace.tla (hit => digest of reused bytes = digest of a fresh encoding computed with an emptied cache).
Artefact level (validate_compiled): corpus networks (single conv/dw/fc kinds, chain, wide, pruned, branch, u8i16; every
      fourth on the two-core U65-512; half with biases that need all 40 bits) are compiled by the real compiler; for every
      distinct weight-reading NPU operation the SCALE/WEIGHT region, base and length registers of the *output file* are
      followed (scratch regions back through the stream's DMA operations) to bytes of the flash tensor; TLC
      (WeightTensorTrace.tla, kind "stripe") decides that they are one 10-byte record per channel of that core with the
      *source model's* bias, and that the weight bytes decode to the source weights minus zero point in
      WeightOrder!Order for the block depth / traversal / dilation / bit depth found in the registers.
"""
import json
import os
import random
import shutil
import subprocess
import threading
from concurrent.futures import ThreadPoolExecutor

from .. import codec, tlc, weight_order
from ..common import PY, VERIF, MachineryError, Run, seed

MAX_VIOLATIONS_PER_CLAUSE = 12
# omitted key fields for which a hit with different bytes is reachable by public calls (see DESIGN.md 5.8 / report):
#   bits, flip : one compilation of a model in which two operators share a weight tensor (tflite_reader clones keep
#                the value id) - IFM data types int8/int16, CONV_2D / TRANSPOSE_CONV
#   shape      : one compilation of a model with two MEAN operators whose windows have the same number of elements
#                (convert_mean_to_depthwise_conv derives the value id from the flattened all-ones weights)
#   acc        : two compilations in one process (the cache is never cleared) of tensors with value-derived ids
# each is exhibited end to end through vela.main by harness/c08_exhibit.py
REACHABLE_FIELDS = {"bits", "flip", "acc", "shape"}

CACHE_MC = [  # cfg, expected status, what it shows
    ("key", "ok", "only key fields vary: coherent"),
    ("hits", "invariant", "control: cache hits are reachable"),
    ("bits", "invariant", "IFM bit depth omitted from the key: incoherent"),
    ("flip", "invariant", "transpose-convolution flip omitted from the key: incoherent"),
    ("shape_vk", "invariant", "value-derived id is blind to the weight shape: incoherent"),
    ("shape_fresh", "ok", "shape varies but ids are per tensor object: coherent"),
    ("acc_vk", "invariant", "accelerator omitted + value-derived ids survive compilations: incoherent"),
    ("acc_fresh", "ok", "accelerator varies but ids are per compilation: coherent"),
    ("acc_clear", "ok", "cache cleared at compilation start: coherent"),
    ("assume", "ok", "all omitted fields vary under the environment assumption: coherent"),
    ("fixed", "ok", "extended key (shape, IFM bits, flip) + reset at compilation start, everything varies: coherent"),
    ("fixed_noclear", "invariant", "extended key without the reset: accelerator still omitted: incoherent"),
    ("fixed_shortkey", "invariant", "reset at compilation start with the original key: incoherent inside one compilation")]


def private_build(run):
    d = run.tmpdir("c08so")
    for attempt in range(3):
        src = codec.build()
        try:
            return shutil.copy(src, os.path.join(d, os.path.basename(src)))
        except OSError:
            pass
    raise MachineryError("codec build vanished from the cache")


def run_jobs(run, so, jobs, nproc=8, timeout=3000):
    """Run jobs in c08 worker subprocesses -> {id: result}; a death inside a request gives {"died": stderr tail}."""
    if not jobs:
        return {}
    d = run.tmpdir("c08w")
    env = dict(os.environ, PYTHONPATH=VERIF, PYTHONHASHSEED="0")
    shards = [jobs[i::nproc] for i in range(nproc)]
    results = {}
    lock = threading.Lock()

    def work(si):
        todo = list(shards[si])
        attempt = 0
        while todo:
            attempt += 1
            jp, op = os.path.join(d, "j%d_%d.json" % (si, attempt)), os.path.join(d, "o%d_%d.ndjson" % (si, attempt))
            with open(jp, "w") as f:
                json.dump(todo, f)
            p = subprocess.run([PY, "-m", "harness.c08_worker", so, jp, op], cwd=VERIF, env=env, capture_output=True,
                               text=True, timeout=timeout, errors="replace")
            started, done, decoding = [], {}, set()
            if os.path.exists(op):
                for ln in open(op):
                    try:
                        o = json.loads(ln)
                    except ValueError:
                        continue
                    if "start" in o:
                        started.append(o["start"])
                    elif "decoding" in o:
                        decoding.add(o["decoding"])
                    else:
                        done[o["id"]] = o
            with lock:
                results.update(done)
            rest = [j for j in todo if j["id"] not in done]
            if not rest:
                return
            culprit = [s for s in started if s not in done]
            if not culprit or attempt > 6:
                raise MachineryError("c08 worker failed (rc %d): %s" % (p.returncode, (p.stderr + p.stdout)[-3000:]))
            if "Traceback (most recent call last)" in p.stderr and p.returncode == 1:
                raise MachineryError("c08 worker raised: " + p.stderr[-3000:])
            cid = culprit[-1]
            with lock:
                results[cid] = {"id": cid, "died": (p.stderr + p.stdout)[-1200:], "in_decoder": cid in decoding,
                                "rc": p.returncode}
            todo = [j for j in rest if j["id"] != cid]

    with ThreadPoolExecutor(nproc) as ex:
        list(ex.map(work, range(nproc)))
    return results


# ------------------------------------------------------------------ operator generation
def valid_block_depth(blk, nc, oub, slices):
    """Per-core share of the block depth is a whole number of OFM micro-blocks, or every (core, slice) cell fits in
    one block (what architecture_allocator produces: multiples of 16 below the OFM depth, else the rounded depth)."""
    if blk < nc:
        return False
    for core in range(nc):
        cbd = (blk + nc - 1 - core) // nc
        if cbd % oub == 0:
            continue
        for a, b in zip(slices, slices[1:]):
            ln = b - a
            cnt = 0 if core >= ln else (ln - core + nc - 1) // nc
            if cnt > cbd:
                return False
    return True


def gen_spec(rng, i):
    for _ in range(2000):
        acc = rng.choice(["U55_128", "U55_128", "U65_512", "U65_512", "U65_512", "U55_32", "U55_256", "U65_256"])
        nc = 2 if acc == "U65_512" else 1
        oub = weight_order.UBLOCKS[acc][1]
        kind = rng.choice(["conv"] * 9 + ["dw"] * 4 + ["fc"] * 4 + ["tconv"] * 3)
        ifm = rng.choice(["int8", "int8", "uint8", "int16"])
        if kind == "fc":
            kh = kw = 1
            ic = rng.choice([1, 3, 8, 16, 17, 33, 64])
        else:
            kh, kw = rng.choice([(1, 1), (1, 1), (3, 3), (3, 3), (2, 3), (3, 1), (1, 2), (2, 2), (5, 5), (9, 1), (1, 9)])
            ic = 1 if kind == "dw" else rng.choice([1, 2, 3, 7, 8, 9, 16, 17, 24])
        oc = rng.choice([1, 2, 3, 5, 8, 9, 16, 17, 20, 24, 31, 32, 33, 40, 47, 48, 64])
        dily, dilx = rng.choice([(1, 1), (1, 1), (1, 1), (2, 2), (1, 2), (2, 1)]) if kind in ("conv", "dw") else (1, 1)
        if oc * kh * kw * ic > 7000:
            continue
        mode = rng.choice(["full", "g16", "g16", "ragged", "ragged"])
        if mode == "full" or oc == 1:
            slices = [0, oc]
        elif mode == "g16":
            cuts = [c for c in range(16, oc, 16) if rng.random() < 0.7]
            slices = [0] + cuts + [oc]
        else:
            k = rng.randrange(1, min(5, oc))
            slices = [0] + sorted(rng.sample(range(1, oc), k)) + [oc]
        cands = [b for b in (4, 8, 12, 16, 24, 32, 48, 64, 96) if valid_block_depth(b, nc, oub, slices)]
        if not cands:
            continue
        blk = rng.choice(cands)
        per_channel = rng.random() < 0.6
        wscale = [round(0.004 * (1 + 0.07 * ch) * (1 + (ch % 3) * 0.31), 7) for ch in range(oc)] if per_channel else [0.013]
        if ifm == "uint8":
            zp = [rng.choice([0, 128, 7, 255, 100])] if rng.random() < 0.7 else [rng.randrange(0, 256) for _ in range(oc)]
        else:
            zp = [0] if rng.random() < 0.5 else [0] * oc
        bias64 = ifm == "int16" and rng.random() < 0.8
        bias_mode = rng.choice(["small", "signed", "large", "wide"] if bias64 else ["small", "signed", "large"])
        return {"acc": acc, "kind": kind, "kh": kh, "kw": kw, "ic": ic, "oc": oc, "ifm": ifm, "wscale": wscale, "zp": zp,
                "seed": seed() * 100003 + i, "bias_mode": bias_mode, "bias64": bias64, "sparse": rng.random() < 0.2,
                "ifm_scale": rng.choice([0.5, 0.0235, 1.0]), "ofm_scale": rng.choice([0.25, 0.047, 1.5]), "blk": blk,
                "dily": dily, "dilx": dilx, "slices": slices, "slice_mode": mode}
    raise MachineryError("operator generator found no valid specification")


def spec_ident(s):
    return ("%s,%s,ifm=%s,k=%dx%d,ic=%d,oc=%d,blk=%d,slices=%s,dil=%d%d,scales=%s,zp=%s,bias=%s,seed=%d" % (
        s["kind"], s["acc"], s["ifm"], s["kh"], s["kw"], s["ic"], s["oc"], s["blk"], "-".join(map(str, s["slices"])),
        s["dily"], s["dilx"], "ch" if len(s["wscale"]) > 1 else "tensor", "ch" if len(s["zp"]) > 1 else s["zp"][0],
        s["bias_mode"] + ("64" if s["bias64"] else "32"), s["seed"]))


class Collector:
    def __init__(self, run):
        self.run = run
        self.count = {}

    def add(self, clause, ident, detail, replay):
        self.count[clause] = self.count.get(clause, 0) + 1
        if self.count[clause] > MAX_VIOLATIONS_PER_CLAUSE:
            return
        self.run.violation("%s|%s" % (clause, ident), "%s: %s %s" % (clause, ident, detail), replay)


def validate_layout(run, name, events, parallel):
    parts = [[] for _ in range(parallel)]
    load = [0] * parallel
    for e in sorted(events, key=lambda e: -len(e.get("wraw", ()))):
        k = load.index(min(load))
        parts[k].append(e)
        load[k] += len(e.get("wraw", ())) + sum(len(x) for x in e.get("wdec", ())) + 200
    batches = [p for p in parts if p]
    out = []
    with ThreadPoolExecutor(max(1, len(batches))) as ex:
        rs = ex.map(lambda b: tlc.validate_traces("WeightTensorTrace", "WeightTensorTrace.cfg", b, timeout=3000, heap="6g"), batches)
        for b, (res, viol) in zip(batches, rs):
            run.add_trace_run("WeightTensorTrace(%s)" % name, res, len(b))
            out += viol
    return out


def overread_signature(e, k):
    """Names one specific way a scale section can be wrong (used for the violation key only, the verdict is TLC's):
    on two cores, core 1's section of a slice of odd length ends with one extra record, that of the first channel
    of the next slice (slice [a, b) is cut as [a+core : a+core+len : ncores])."""
    r = e["sranges"][k]
    D = e["D"]
    i = D.index(r["depth"])
    ln = D[i + 1] - D[i]
    if e["nc"] != 2 or r["core"] != 1 or ln % 2 == 0 or D[i + 1] >= e["n"]:
        return None
    chans = list(range(D[i] + 1, D[i + 1], 2)) + [D[i + 1]]

    def rec(ch):
        b, m = e["bias"][ch], e["mult"][ch]
        return [b[0] % 256, b[0] // 256, b[1] % 256, b[1] // 256, b[2] % 256, m[0] % 256, m[0] // 256, m[1] % 256, m[1] // 256,
                e["shift"][ch] % 64]
    want = [x for ch in chans for x in rec(ch)]
    if e["sbytes"][k] == want:
        return "two cores, interior slice of odd length: scale section of core 1 carries an extra record (first channel of the next slice)"
    return None


def judge_layout(run, col, name, events, meta, parallel=6):
    if not events:
        return
    for t, e in enumerate(events):
        e["t"] = t
    for v in validate_layout(run, name, events, parallel):
        t, clause = v[0], v[1]
        ident, replay = meta[t]
        if clause == "MalformedObservation":
            raise MachineryError("layout batch %s: malformed record for %s" % (name, ident))
        e = events[t]
        detail = ""
        if len(v) > 2:
            rs = e["sranges"] if clause == "ScaleSection" else e["wranges"]
            r = rs[v[2]]
            detail = "range (core %d, slice at %d)" % (r["core"], r["depth"])
            if clause == "ScaleSection":
                detail += " bytes=%s" % e["sbytes"][v[2]][:20]
                known = overread_signature(e, v[2])
                if known:
                    # same defect for every such operator: one stable identity instead of one per operator
                    col.add(clause, known, "e.g. %s %s" % (ident, detail), replay)
                    continue
        elif clause == "DoubleBufferBound":
            detail = "double_buffer_sizes=%s" % e.get("db")
        elif clause == "Assembled":
            detail = e.get("error", "")
        col.add(clause, ident, detail, replay)


# ------------------------------------------------------------------ cache histories
def histories_from_tlc(run, n, sd):
    d = run.tmpdir("c08sim")
    res = tlc.run("Cache", "Cache_sim.cfg", workers=1, simulate="file=%s/tr,num=%d" % (d, n), depth=7, seed=sd + 11,
                  timeout=900)
    if not res.ok:
        raise MachineryError("Cache simulation failed: " + res["output"][-2000:])
    run.add_mc("Cache(simulate)", res)
    out = []
    for fn in sorted(os.listdir(d)):
        st = tlc.parse_states(open(os.path.join(d, fn)).read())
        if not st:
            continue
        hist = st[-1][1].get("hist")
        if isinstance(hist, list) and hist and all(isinstance(h, dict) for h in hist):
            out.append(hist)
    if len(out) < n * 0.9:
        raise MachineryError("Cache simulation: only %d of %d behaviours parsed" % (len(out), n))
    return out


def crafted_histories():
    """Histories that meet in one cache entry by construction (one per omitted field and the legitimate sharings);
    they complement the random draws, which collide only by chance."""
    def r(**kw):
        base = {"w": "w1", "shape": "a", "bias": "b1", "kind": "conv", "blk": 16, "sl": "s1", "dil": 1, "bits": 8, "flip": False}
        base.update(kw)
        return base

    def enc(req, acc="U55_128", epoch=0):
        return {"op": "enc", "req": req, "acc": acc, "epoch": epoch}
    hs = []
    hs.append([enc(r()), enc(r())])                                       # same request twice: full hit
    hs.append([enc(r()), enc(r(bias="b2"))])                              # same weights, other bias: weights hit
    hs.append([enc(r(sl="s2")), enc(r(sl="s1")), enc(r(sl="s2"))])        # key fields differ: miss, miss, hit
    hs.append([enc(r(blk=16)), enc(r(blk=32)), enc(r(dil=2)), enc(r(w="w2"))])
    hs.append([enc(r(bits=8)), enc(r(bits=16, bias="b2"))])               # omitted: IFM bit depth
    hs.append([enc(r(bits=16)), enc(r(bits=8, bias="b2"))])
    hs.append([enc(r(w="w2", bits=8)), enc(r(w="w2", bits=16))])
    hs.append([enc(r(flip=False)), enc(r(flip=True))])                    # omitted: transpose-convolution flip
    hs.append([enc(r(flip=True, bias="b2")), enc(r(flip=False, bias="b1"))])
    hs.append([enc(r(shape="a")), enc(r(shape="b"))])                     # omitted: shape (value-derived id)
    hs.append([enc(r(shape="b", bias="b2")), enc(r(shape="a"))])
    hs.append([enc(r(w="w2", shape="a")), enc(r(w="w2", shape="b"))])      # ordinary tensors: other shape = other id
    for a, b in (("U55_128", "U65_512"), ("U55_128", "U55_32"), ("U65_512", "U55_128"), ("U55_128", "U55_256")):
        hs.append([enc(r(), a), {"op": "comp", "acc": b}, enc(r(), b, 1)])             # value-derived id, other accelerator
        hs.append([enc(r(w="w2"), a), {"op": "comp", "acc": b}, enc(r(w="w2"), b, 1)])  # per-compilation id: miss
    return hs


def judge_histories(run, col, results, jobs):
    events, meta = [], {}
    layouts, lmeta = [], {}
    digest_ids = {}
    hits = {"miss": 0, "weights": 0, "full": 0}
    for job in jobs:
        r = results.get(job["id"])
        if r is None or "died" in r:
            raise MachineryError("cache history %d did not complete: %s" % (job["id"], (r or {}).get("died", "")))
        for e in r["events"]:
            if e["op"] == "raised":
                col.add("Assembled", spec_ident(e["spec"]), "encode_weight_and_scale_tensor raised %s in history %s"
                        % (e["error"], job["id"]), {"history": job["events"], "vk": job["vk"], "seed": job["seed"]})
                break
            ev = {"t": job["id"], "i": e["i"], "op": e["op"], "acc": e["acc"]}
            if e["op"] == "enc":
                hits[e["hit"]] += 1
                ev.update(req=e["req"], epoch=e["epoch"], hit=e["hit"])
                for k in ("cachedW", "freshW", "cachedS", "freshS"):
                    ev[k] = digest_ids.setdefault(e[k], len(digest_ids))
                run.evaluated()
                run.nontrivial(("hist", json.dumps(e["req"], sort_keys=True), e["acc"], e["hit"]))
                if "layout" in e and e["hit"] != "full" and e["cachedW"] == e["freshW"]:
                    lay = e["layout"]
                    lmeta[len(layouts)] = ("history %d event %d %s" % (job["id"], e["i"], spec_ident(e["spec"])),
                                           {"history": job["events"], "vk": job["vk"], "seed": job["seed"]})
                    layouts.append(lay)
            meta[(job["id"], e["i"])] = (job, e)
            events.append(ev)
    res, viol = tlc.validate_traces("CacheTrace", "CacheTrace.cfg", events, timeout=3000, heap="4g")
    run.add_trace_run("CacheTrace", res, len(jobs))
    breached, drift, incoherent = {}, [], []
    for v in viol:
        if v[1] == "AssumptionBreached":
            breached.setdefault((v[0], v[2]), set()).add(v[3])
        elif v[1] == "ModelDrift":
            drift.append(v)
        else:
            incoherent.append(v)
    run.cov["cache_hits_observed"] = hits
    run.cov["cache_model_drift"] = len(drift)
    benign = sum(1 for k in breached if not any((x[0], x[2]) == k for x in incoherent))
    run.cov["cache_assumption_breached_events"] = len(breached)
    run.cov["cache_assumption_breached_but_bytes_equal"] = benign
    by_field = {}
    cases = {}
    for v in incoherent:
        t, i = v[0], v[2]
        fields = tuple(sorted(breached.get((t, i), ())))
        if (t, i) not in cases:
            cases[(t, i)] = fields
            by_field["+".join(fields) or "none"] = by_field.get("+".join(fields) or "none", 0) + 1
    single = {f[0] for f in cases.values() if len(f) == 1}
    # one violation per root cause: hits that differ in exactly one omitted field name it; a hit differing in several
    # fields is reported only if none of them is already named; "none" = requests agree on everything the key omits
    for (t, i), fields in sorted(cases.items(), key=lambda kv: (len(kv[1]), kv[0])):
        job, e = meta[(t, i)]
        if fields and not set(fields) <= REACHABLE_FIELDS:
            continue        # recorded in the evidence only: no public call sequence known that produces it
        if len(fields) > 1 and set(fields) & single:
            continue
        req = e["req"]
        if fields:
            ident = "omitted=%s" % "+".join(fields)
        else:
            ident = "omitted=none|hit=%s,%s" % (e["hit"], ",".join("%s=%s" % (k, req[k]) for k in sorted(req)))
        col.add("Coherent", ident, "history %s: the bytes reused from the cache differ from a fresh encoding (request %s on "
                "%s, %s hit; the entry was filled by an earlier request differing in %s)" % (
                    [(x["req"], x["acc"]) if x["op"] == "enc" else ("comp", x["acc"]) for x in job["events"]], req, e["acc"],
                    e["hit"], list(fields) or "no omitted field"),
                {"history": job["events"], "vk": job["vk"], "seed": job["seed"], "event": i})
    run.cov["cache_incoherent_hits_by_omitted_field"] = by_field
    if drift:
        run.cov["cache_model_drift_samples"] = [str(d) for d in drift[:4]]
    return layouts, lmeta, hits


# ------------------------------------------------------------------ negative controls
def negative_controls(run, good):
    """Corrupt a real, accepted observation field by field; WeightTensorTrace must name the clause."""
    import copy
    base = next((e for e in good if len(e["wranges"]) >= 2 and e["n"] >= 4 and len(set(e["wraw"])) > 4
                 and len(e["sbytes"][0]) >= 20), None)
    if base is None:
        raise MachineryError("no observation suitable for the negative controls")
    bad = []

    def mut(clause, f):
        e = copy.deepcopy(base)
        f(e)
        e["t"] = len(bad)
        bad.append((e, clause))

    def swap_records(e):
        b = e["sbytes"][0]
        b[0:10], b[10:20] = b[10:20], b[0:10]
    mut("ScaleSection", swap_records)
    mut("ScaleSection", lambda e: e["sbytes"][0].__setitem__(4, (e["sbytes"][0][4] + 1) % 256))       # bias byte 4
    mut("Aligned16", lambda e: [r.__setitem__("offset", r["offset"] + 8) for r in e["wranges"][1:]])
    mut("Disjoint", lambda e: e["wranges"][1].__setitem__("offset", e["wranges"][0]["offset"]))
    mut("KeyedByCoreAndSlice", lambda e: e["wranges"].reverse())
    mut("DoubleBufferBound", lambda e: e.__setitem__("db", [0, e["db"][1]]))
    def swap_dec(e):
        d = e["wdec"][0]
        i = next(k for k in range(len(d) - 1) if d[k] != d[k + 1])
        d[i], d[i + 1] = d[i + 1], d[i]
    mut("WeightSection", swap_dec)
    mut("WeightSection", lambda e: e.__setitem__("zp", [z + 1 for z in e["zp"]]))                    # zero point not applied
    mut("Assembled", lambda e: e.__setitem__("outcome", "raised"))
    res, viol = tlc.validate_traces("WeightTensorTrace", "WeightTensorTrace.cfg", [b for b, _ in bad], timeout=900)
    got = {(v[0], v[1]) for v in viol}
    for b, clause in bad:
        if (b["t"], clause) not in got:
            raise MachineryError("negative control not detected: record %d should violate %s (got %s)" % (b["t"], clause, sorted(got)))
    # cache: a hit whose reused bytes differ must be flagged, and attributed to the omitted field
    req = {"w": "w1", "shape": "a", "bias": "b1", "kind": "conv", "blk": 16, "sl": "s1", "dil": 1, "bits": 8, "flip": False}
    ev = [{"t": 0, "i": 0, "op": "enc", "acc": "U55_128", "req": req, "epoch": 0, "hit": "miss", "cachedW": 1, "freshW": 1, "cachedS": 2, "freshS": 2},
          {"t": 0, "i": 1, "op": "enc", "acc": "U55_128", "req": dict(req, bits=16), "epoch": 0, "hit": "full", "cachedW": 1, "freshW": 3, "cachedS": 2, "freshS": 2},
          {"t": 1, "i": 0, "op": "enc", "acc": "U55_128", "req": req, "epoch": 0, "hit": "full", "cachedW": 1, "freshW": 1, "cachedS": 2, "freshS": 2}]
    res, viol = tlc.validate_traces("CacheTrace", "CacheTrace.cfg", ev, timeout=900)
    got = {tuple(v[:3]) for v in viol}
    # (the model follows the extended key: the stale hit of history 0 is also a drift from the predicted miss)
    want = {(0, "Coherent", 1), (0, "ModelDrift", 1), (1, "ModelDrift", 0)}
    if not want <= got:
        raise MachineryError("cache negative controls not detected: %s" % sorted(got))
    run.cov["negative_controls"] = ["scale records swapped", "bias byte 4 altered", "range offset +8", "overlapping ranges",
                                    "ranges out of stream order", "double-buffer size 0", "decoded weights swapped",
                                    "zero point not applied", "call raised", "cache: stale hit", "cache: hit on a fresh process",
                                    "WeightTensorMC BrokenDoubleBuffer/BrokenCoverage/B=1 violated", "Cache MC: 5 incoherent configurations"]


# ------------------------------------------------------------------ artefact level (DESIGN.md 5.8, last sentence)
# For every NPU convolution-like operation of compiled corpus networks: the bytes the *output file* makes the
# hardware read (SCALE/WEIGHT region, base and length registers; scratch regions followed back through the DMA
# operations of the stream to the flash tensor) against the constants of the *source model*.
ACC_NAME = {"ethos-u55-32": "U55_32", "ethos-u55-64": "U55_64", "ethos-u55-128": "U55_128", "ethos-u55-256": "U55_256",
            "ethos-u65-256": "U65_256", "ethos-u65-512": "U65_512"}
SRC_KIND = {3: "conv", 4: "dw", 9: "fc"}          # BuiltinOperator CONV_2D, DEPTHWISE_CONV_2D, FULLY_CONNECTED
NP_TYPE = {9: "int8", 3: "uint8", 2: "int32", 4: "int64", 7: "int16"}
TLC_STRIPE_LIMIT = 12000      # weights of one stripe above which the order comparison is done in python


def source_constants(model):
    """(name of the weight tensor, name of the bias tensor) -> what the source model says about the one CONV_2D /
    DEPTHWISE_CONV_2D / FULLY_CONNECTED that uses this pair: kind, OHWI weights, zero points, biases and the real
    per-channel rescale.  Ambiguous pairs, other operator kinds and tensors without constant data are left out (the
    compiled operation is then counted as skipped)."""
    import numpy as np
    T = model["tensors"]

    def values(t):
        dt = NP_TYPE.get(t["type"])
        raw = model["_buf"](t["buffer"])
        if dt is None or not raw:
            return None
        return np.frombuffer(raw, dtype=dt).astype(np.int64)
    names = {}
    for t in T:
        names[t["name"]] = names.get(t["name"], 0) + 1
    users = {}
    for o in model["ops"]:
        for i in o["inputs"][1:2]:
            if i >= 0:
                users.setdefault(i, []).append(o)
    out = {}
    for o in model["ops"]:
        kind = SRC_KIND.get(o["code"])
        if kind is None or len(o["inputs"]) < 3 or o["inputs"][1] < 0 or o["inputs"][2] < 0:
            continue
        wt, bt = T[o["inputs"][1]], T[o["inputs"][2]]
        # tied weights (one weight tensor, several operators) are fine as long as every user is of the same kind and
        # the (weights, bias) pair names one operator
        if names[wt["name"]] != 1 or names[bt["name"]] != 1 or any(SRC_KIND.get(u["code"]) != kind for u in users[o["inputs"][1]]):
            continue
        if sum(1 for u in users[o["inputs"][1]] if len(u["inputs"]) > 2 and u["inputs"][2] == o["inputs"][2]) != 1:
            continue
        w, b = values(wt), values(bt)
        ifm, ofm = T[o["inputs"][0]], T[o["outputs"][0]]
        if w is None or b is None or not wt["quant"] or not ifm["quant"] or not ofm["quant"]:
            continue
        shp = wt["shape"]
        if kind == "conv" and len(shp) == 4:
            ohwi = w.reshape(shp)
        elif kind == "dw" and len(shp) == 4 and shp[0] == 1:
            ohwi = np.transpose(w.reshape(shp), (3, 1, 2, 0))
        elif kind == "fc" and len(shp) == 2:
            ohwi = w.reshape(shp[0], 1, 1, shp[1])
        else:
            continue
        n = ohwi.shape[0]
        zp = wt["quant"]["zp"] or [0]
        ws = wt["quant"]["scale"]
        if len(b) != n or len(zp) not in (1, n) or len(ws) not in (1, n) or not ifm["quant"]["scale"] or not ofm["quant"]["scale"]:
            continue
        real = [ifm["quant"]["scale"][0] * (ws[ch] if len(ws) > 1 else ws[0]) / ofm["quant"]["scale"][0] for ch in range(n)]
        out[(wt["name"], bt["name"])] = {
            "kind": kind, "ohwi": ohwi, "zp": [int(zp[ch] if len(zp) > 1 else zp[0]) for ch in range(n)],
            "bias": [int(v) for v in b], "real_scale": real, "tied": len(users[o["inputs"][1]]) > 1}
    return out


def source_name(vela_name):
    """Vela's name of a constant -> name in the source model (the reader clones with suffix _reshape, the optimiser
    with _npu); anything else is not an identification and the operation is skipped."""
    n = vela_name
    changed = True
    while changed:
        changed = False
        for suf in ("_npu", "_reshape"):
            if n.endswith(suf):
                n, changed = n[:-len(suf)], True
    return n


class Provenance:
    """Which flash bytes a scratch address holds at a point of the stream: the DMA operations seen so far, latest
    first.  resolve() returns the bytes a read of [a, a+n) in `region` delivers, or None if some byte was never
    written from (a chain leading to) the flash tensor."""

    def __init__(self, flash):
        self.flash = flash
        self.writes = []        # (dst region, dst, n, src region, src)

    def dma(self, regs):
        self.writes.append((regs["NPU_SET_DMA0_DST_REGION"], regs["NPU_SET_DMA0_DST"], regs["NPU_SET_DMA0_LEN"],
                            regs["NPU_SET_DMA0_SRC_REGION"], regs["NPU_SET_DMA0_SRC"]))

    def resolve(self, region, a, n, upto=None, depth=0):
        if n == 0:
            return b""
        if region == 0:
            return bytes(self.flash[a:a + n]) if 0 <= a and a + n <= len(self.flash) else None
        if depth > 4:
            return None
        upto = len(self.writes) if upto is None else upto
        out = bytearray(n)
        todo = [(a, a + n)]
        for k in range(upto - 1, -1, -1):
            dr, d, ln, sr, sa = self.writes[k]
            if dr != region or not todo:
                continue
            nxt = []
            for (x, y) in todo:
                lo, hi = max(x, d), min(y, d + ln)
                if lo >= hi:
                    nxt.append((x, y))
                    continue
                piece = self.resolve(sr, sa + (lo - d), hi - lo, k, depth + 1)
                if piece is None:
                    return None
                out[lo - a:hi - a] = piece
                if x < lo:
                    nxt.append((x, lo))
                if hi < y:
                    nxt.append((hi, y))
            todo = nxt
        return bytes(out) if not todo else None


def decode_isolated(so, sections):
    """Reference decoder on a list of byte strings, in a forked child (the decoder exits the process on a stream it
    cannot follow).  Returns a list of lists, None for a section on which the child died."""
    import multiprocessing as mp
    ctx = mp.get_context("fork")

    def child(conn, secs):
        try:
            mlw = codec.inject(so)
            for sec in secs:
                conn.send(mlw.decode(bytearray(sec)) if sec else [])
        finally:
            conn.close()
            os._exit(0)

    def attempt(secs):
        pc, cc = ctx.Pipe(duplex=False)
        p = ctx.Process(target=child, args=(cc, secs))
        p.start()
        cc.close()
        got = []
        try:
            while len(got) < len(secs) and pc.poll(300):
                got.append(pc.recv())
        except EOFError:
            pass
        p.join(5)
        if p.is_alive():
            p.kill()
        return got
    out = []
    rest = list(sections)
    while rest:
        got = attempt(rest)
        out += got
        rest = rest[len(got):]
        if rest:                    # the child died on rest[0]
            out.append(None)
            rest = rest[1:]
    return out


def tied_net(rng, sd):
    """Two (or three) CONV_2D that reference one weight tensor but have their own bias tensors and output scales (tied
    weights; valid TFLite): the later encode requests hit the weight cache with another scale configuration, so the
    operators get stand-alone scale tensors."""
    from ..netgen import Net
    n = Net(sd)
    H, W, C = rng.choice([4, 8, 16]), rng.choice([4, 8]), rng.choice([8, 16, 32, 64])
    oc = rng.choice([16, 24, 32, 64, 96, 128, 192])
    k = rng.choice([1, 1, 3])
    xs = [n.fm("in%d" % i, [1, H, W, C], is_input=True) for i in range(rng.choice([1, 2]))]
    y0 = n.conv(xs[0], oc, k)
    wt = n.o[-1]["inputs"][1]
    per_channel = "qdim" in n.t[wt] and n.t[wt]["qdim"] is not None
    outs = [y0]
    for i in range(rng.choice([1, 1, 2])):
        nm = "tied%d" % i
        ns = oc if per_channel else 1
        bt = n.const(nm + "_b", [oc], "INT32", -(1 << 20), 1 << 20, scale=[0.0005] * ns, zp=[0] * ns,
                     qdim=0 if per_channel else None)
        y = n.fm(nm, n.shape(y0), "INT8", rng.choice([0.05, 0.09, 0.13]), rng.choice([-3, 0, 4]))
        n.op("CONV_2D", [xs[-1] if i % 2 == 0 else xs[0], wt, bt], [y], n.o[0]["opts"] if False else
             ["Conv2DOptions", {"Padding": 0, "StrideW": 1, "StrideH": 1, "DilationWFactor": 1, "DilationHFactor": 1,
                                "FusedActivationFunction": 0}])
        outs.append(y)
    return "tied:%d" % len(outs), n.desc(outs)


def compiled_jobs(tier, sd):
    from .. import corpus
    rng = random.Random(sd * 31 + 5)
    n = 42 if tier == "quick" else 700
    jobs = []
    kinds = ["conv", "conv_s2", "conv_valid", "conv1x1", "dw", "dw_s2", "fc", "int16conv", "dilconv", "split", "pad",
             "mean", "tconv"]          # the last two are rewritten by the optimiser: counted as skipped
    for i, k in enumerate(kinds if tier == "quick" else kinds * 4):
        label, net = corpus.f_single(rng, rng.randrange(1 << 20), k)
        jobs.append({"id": "s%d" % i, "family": label, "net": net, "opts": corpus.config_point(rng)})
    jobs += corpus.draw(n - len(jobs), sd * 13 + 1, families=["wide", "chain", "pruned", "branch", "wide", "u8i16"],
                        dedicated_bias=0.5)
    # tied weights: several ranges per encoding through two cores or sliced (buffered) weights
    ntied = 8 if tier == "quick" else 100
    for i in range(ntied):
        label, net = tied_net(rng, rng.randrange(1 << 20))
        opts = corpus.config_point(rng, "ethos-u65-512" if i % 2 == 0 else rng.choice(["ethos-u55-128", "ethos-u55-256", "ethos-u65-256"]))
        if i % 2:
            opts.update(config=corpus.ARM_INI, system_config="Ethos_U55_Deep_Embedded" if "u55" in opts["accel"] else
                        "Ethos_U65_High_End", memory_mode="Shared_Sram" if "u55" in opts["accel"] else "Dedicated_Sram")
            opts["arena"] = rng.choice([8192, 16384, 32768])
        jobs.append({"id": "t%d" % i, "family": label, "net": net, "opts": opts, "tied": True})
    # biases that need all five bytes of the 40-bit field (the corpus draws them from -1000..1000)
    for k, j in enumerate(jobs):
        if k % 2 == 0:
            j["net"] = json.loads(json.dumps(j["net"]))
            for o in j["net"]["ops"]:
                if o["op"] in ("CONV_2D", "DEPTHWISE_CONV_2D", "FULLY_CONNECTED") and len(o["inputs"]) > 2:
                    bt = j["net"]["tensors"][o["inputs"][2]]
                    if isinstance(bt.get("data"), dict) and "rng" in bt["data"]:
                        big = (1 << 38) if bt["type"] == "INT64" else (1 << 30)
                        bt["data"] = dict(bt["data"], lo=-big, hi=big)
    # the two-core accelerator and small staging areas (buffered, depth-sliced weights) must be present
    for k, j in enumerate(jobs):
        if k % 4 == 1 and not j.get("tied"):
            j["opts"] = dict(j["opts"], accel="ethos-u65-512")
            for key in ("config", "system_config", "memory_mode"):
                j["opts"].pop(key, None)
    return jobs


def stripes_of_job(j, x, counts):
    """Observation dicts (without decoded weights) of the distinct weight-reading operations of one compiled job."""
    import numpy as np
    from .. import artefact, npuhw, streams
    if "extract" not in x:
        raise MachineryError("no logical command list for %s: %s" % (j["family"], x.get("extract_error")))
    src = source_constants(artefact.parse_model(x["in_bytes"]))
    _, ss = streams.analyse(x["out_bytes"], j["opts"]["accel"])
    lgs = x["extract"]
    if len(lgs) != len(ss):
        raise MachineryError("pairing of subgraphs failed for " + j["family"])
    obs, seen = [], set()
    for s, lg in zip(ss, lgs):
        if len(s["ops"]) != len(lg["cmds"]):
            raise MachineryError("pairing: %d operations in the stream, %d high-level commands (%s)" % (
                len(s["ops"]), len(lg["cmds"]), j["family"]))
        accel = s["accel"] or j["opts"]["accel"]
        nc = npuhw.ACCEL[accel][1]
        prov = Provenance(s["eo"]["flash"])
        for o, c in zip(s["ops"], lg["cmds"]):
            regs = o["regs"]
            if (o["kind"] == "dma") != (c["type"] == "dma"):
                raise MachineryError("pairing: operation %d is %s but the command is %s" % (o["index"], o["kind"], c["type"]))
            if o["kind"] == "dma":
                prov.dma(regs)
                continue
            w = c.get("weights")
            if o["kind"] not in ("conv", "dw") or not w:
                continue
            sc = src.get((source_name(w.get("wname", "")), source_name(w.get("bname", ""))))
            g = npuhw.geometry(o["kind"], regs)
            c0, c1 = w["depth"]
            why = None
            if sc is None or c.get("orig") not in ("Conv2DBias", "Conv2D", "DepthwiseConv2DBias", "FullyConnected"):
                why = "not_a_source_conv_dw_fc"
            else:
                n_all, kh, kw, idp = sc["ohwi"].shape
                want_shape = {"conv": [kh, kw, idp, n_all], "dw": [kh, kw, 1, n_all], "fc": [idp, n_all]}[sc["kind"]]
                if list(w.get("wshape", [])) not in (want_shape, [1, 1] + want_shape if sc["kind"] == "fc" else want_shape):
                    why = "weights_rewritten"
                elif (o["kind"] == "dw") != (sc["kind"] == "dw"):
                    why = "operator_kind_rewritten"
                elif (g["kh"] - 1) != (kh - 1) * g["dy"] or (g["kw"] - 1) != (kw - 1) * g["dx"] or g["od"] != c1 - c0 \
                        or not (0 <= c0 < c1 <= n_all) or (sc["kind"] != "dw" and g["id"] != idp):
                    why = "geometry_differs_from_source"
            if why is None:
                cfg0 = {"od": 1, "kh": kh, "kw": kw, "id": idp, "acc": ACC_NAME[accel], "oblk": 1,
                        "trav": "dw" if o["kind"] == "dw" else ("part" if g["part_kernel"] else "depth"),
                        "bits": g["ifm_bits"], "dily": g["dy"], "dilx": g["dx"]}
                if g["ifm_bits"] not in (8, 16) or g["bd"] < nc:
                    why = "unsupported_precision_or_block"
                else:
                    for core in range(nc):
                        cnt = len(range(c0 + core, c1, nc))
                        if cnt and not weight_order.valid(dict(cfg0, od=cnt, oblk=(g["bd"] + nc - 1 - core) // nc)):
                            why = "block_depth_not_in_model"
            if why:
                counts["skipped"][why] = counts["skipped"].get(why, 0) + 1
                continue
            cores = []
            for core in range(nc):
                sfx = "" if core == 0 else "1"
                wl, sl = regs.get("NPU_SET_WEIGHT%s_LENGTH" % sfx, 0), regs.get("NPU_SET_SCALE%s_LENGTH" % sfx, 0)
                wb = prov.resolve(regs["NPU_SET_WEIGHT_REGION"], regs.get("NPU_SET_WEIGHT%s_BASE" % sfx, 0), wl)
                sb = prov.resolve(regs["NPU_SET_SCALE_REGION"], regs.get("NPU_SET_SCALE%s_BASE" % sfx, 0), sl)
                cores.append({"core": core, "defined": wb is not None and sb is not None, "slen": int(sl), "wlen": int(wl),
                              "sbytes": list(sb or b""), "_wbytes": wb or b""})
            key = (lg["name"], w["wname"], c0, c1, json.dumps([(cr["slen"], cr["wlen"], cr["sbytes"][:40], hash(cr["_wbytes"]))
                                                               for cr in cores]), g["bd"], g["part_kernel"], g["ifm_bits"])
            if key in seen:
                continue            # the same sections read again by another stripe of the operation
            seen.add(key)
            sub = sc["ohwi"][c0:c1]
            ev = {"kind": "stripe", "n": c1 - c0, "nc": nc, "B": g["bd"], "kh": kh, "kw": kw, "id": idp,
                  "acc": ACC_NAME[accel], "trav": cfg0["trav"], "bits": g["ifm_bits"], "dily": g["dy"], "dilx": g["dx"],
                  "flip": False, "wraw": sub.reshape(-1).tolist(), "zp": sc["zp"][c0:c1],
                  "bias": [limbs40(v) for v in sc["bias"][c0:c1]], "cores": cores,
                  "_real": sc["real_scale"][c0:c1], "_c0": c0, "_op": "%s %s+%s[%d:%d]" % (sc["kind"], source_name(w["wname"]), source_name(w["bname"]), c0, c1),
                  "_buffered": regs["NPU_SET_WEIGHT_REGION"] != 0, "_vol": sub, "_tied": sc["tied"],
                  "_standalone_scales": bool(c.get("scales"))}
            obs.append(ev)
    return obs


def limbs40(v):
    v &= (1 << 40) - 1
    return [v & 0xFFFF, (v >> 16) & 0xFFFF, v >> 32]


def stripe_channels(ev, core):
    return list(range(core, ev["n"], ev["nc"]))


def python_clauses(ev):
    """Clauses decided in python: the multiplier plausibility (float derivation, see C09) for every stripe, and for
    stripes too large for TLC the scale/weight sections with harness/weight_order.py (cross-checked against
    WeightOrder.tla by TLC in C07)."""
    import numpy as np
    bad = []
    for cr in ev["cores"]:
        if not cr["defined"]:
            continue
        ch = stripe_channels(ev, cr["core"])
        sb = cr["sbytes"]
        if len(sb) >= 10 * len(ch):
            off = [k for k, c_ in enumerate(ch) if not _plausible(sb[10 * k + 5:10 * k + 10], ev["_real"][c_])]
            if off:
                bad.append(("ScaleOfChannel", cr["core"], "channels %s" % [ev["_c0"] + ch[k] for k in off[:6]]))
    return bad


def _plausible(rec5, real):
    m = rec5[0] | (rec5[1] << 8) | (rec5[2] << 16) | (rec5[3] << 24)
    sh = rec5[4] & 63
    got = m / float(1 << sh)
    return abs(got - real) <= 1e-3 * abs(real)


def python_sections(ev):
    import numpy as np
    bad = []
    for cr in ev["cores"]:
        if not cr["defined"]:
            bad.append(("SectionBytesDefined", cr["core"], ""))
            continue
        ch = stripe_channels(ev, cr["core"])
        sb = cr["sbytes"]
        ok = cr["slen"] == -(-10 * len(ch) // 16) * 16 and len(sb) == cr["slen"]
        for k, c_ in enumerate(ch):
            if not ok:
                break
            b = ev["bias"][c_]
            ok = sb[10 * k:10 * k + 5] == [b[0] % 256, b[0] // 256, b[1] % 256, b[1] // 256, b[2] % 256] and sb[10 * k + 9] < 64
        if not ok:
            bad.append(("ScaleSection", cr["core"], "bytes=%s" % sb[:20]))
        if not ch:
            if cr["wlen"]:
                bad.append(("WeightSection", cr["core"], "weights for a core without channels"))
            continue
        cfg = {"od": len(ch), "kh": ev["kh"], "kw": ev["kw"], "id": ev["id"], "acc": ev["acc"], "trav": ev["trav"],
               "bits": ev["bits"], "dily": ev["dily"], "dilx": ev["dilx"], "oblk": (ev["B"] + ev["nc"] - 1 - cr["core"]) // ev["nc"]}
        vol = ev["_vol"][ch] - np.asarray(ev["zp"], dtype=np.int64)[ch].reshape(-1, 1, 1, 1)
        exp = weight_order.reordered(cfg, vol.reshape(-1))
        d = np.asarray(cr["wdec"] if cr["wdec"] is not None else [], dtype=np.int64)
        if cr["wdec"] is None or cr["wlen"] <= 0 or cr["wlen"] % 16 or d.size < exp.size \
                or not (d[:exp.size] == exp).all() or d[exp.size:].any():
            bad.append(("WeightSection", cr["core"], "decoded %d weights, expected %d" % (d.size, exp.size)))
    return bad


def validate_compiled(run, tier, jobs=None):
    """Artefact level: scale and weight bytes read by every compiled CONV_2D / DEPTHWISE_CONV_2D / FULLY_CONNECTED
    operation of corpus networks against the source model.  (jobs: replay of one compilation)"""
    import time
    from .. import logical, vela_run
    t0 = time.time()
    sd = seed()
    col = Collector(run)
    so = private_build(run)
    replaying = jobs is not None
    jobs = jobs or compiled_jobs(tier, sd)
    rs = vela_run.compile_many(jobs, extractor=logical.extract)
    counts = {"skipped": {}, "compiled": 0, "failed_to_compile": 0}
    tlc_events, meta, big = [], {}, []
    classes = {}
    n_checked = n_buffered = n_two = n_tied = n_standalone = n_standalone_multi = 0
    for j, x in zip(jobs, rs):
        if x["rc"] != 0 or "out_bytes" not in x:
            counts["failed_to_compile"] += 1      # C13's business
            continue
        counts["compiled"] += 1
        obs = stripes_of_job(j, x, counts)
        secs = [cr["_wbytes"] for ev in obs for cr in ev["cores"]]
        decs = decode_isolated(so, secs)
        k = 0
        for ev in obs:
            for cr in ev["cores"]:
                cr["wdec"] = decs[k]
                k += 1
                del cr["_wbytes"]
            ident = "%s|%s,%s" % (ev["_op"], j["family"].split(":")[0], ev["acc"])
            replay = {"compiled": {"net": j["net"], "opts": j["opts"], "family": j["family"]}, "op": ev["_op"]}
            n_checked += 1
            cls = "%s/%s/%dbit/%s%s%s" % (ev["_op"].split(" ")[0], ev["trav"], ev["bits"], "2cores" if ev["nc"] == 2 else "1core",
                                        "/buffered" if ev["_buffered"] else "", "/dilated" if ev["dily"] * ev["dilx"] > 1 else "")
            classes[cls] = classes.get(cls, 0) + 1
            n_buffered += ev["_buffered"]
            n_two += ev["nc"] == 2
            n_tied += ev["_tied"]
            n_standalone += ev["_standalone_scales"]
            n_standalone_multi += ev["_standalone_scales"] and (ev["nc"] == 2 or ev["_c0"] > 0)
            run.evaluated()
            run.nontrivial(("compiled", ev["_op"].split(" ")[0], ev["acc"], ev["trav"], ev["bits"], ev["B"], ev["n"], ev["kh"],
                            ev["kw"], ev["id"], ev["_buffered"]))
            for clause, core, detail in python_clauses(ev):
                col.add(clause, "compiled|" + ident, "core %d %s" % (core, detail), replay)
            undec = [cr["core"] for cr in ev["cores"] if cr["wdec"] is None]
            for core in undec:
                col.add("WeightSection", "compiled|" + ident, "core %d: the reference decoder died on the bytes at "
                        "WEIGHT%s_BASE" % (core, "1" if core else ""), replay)
            if undec:
                continue
            if len(ev["wraw"]) > TLC_STRIPE_LIMIT:
                big.append(ev)
                for clause, core, detail in python_sections(ev):
                    col.add(clause, "compiled|" + ident, "core %d %s (compared in python)" % (core, detail), replay)
            else:
                t = len(tlc_events)
                meta[t] = (ident, replay)
                tlc_events.append(dict({k_: v for k_, v in ev.items() if not k_.startswith("_")}, t=t))
    if n_checked == 0 and counts["failed_to_compile"] == 0:
        raise MachineryError("artefact level: no compiled operation could be checked (%s)" % counts)
    # vacuity control only when every job compiled: a tree on which corpus networks fail to compile (C13's business) must
    # give a verdict on what did compile, not a machinery error
    if not replaying and counts["failed_to_compile"] == 0 and (n_buffered == 0 or n_two == 0 or not any(k.startswith("dw/") for k in classes)
                          or not any(k.startswith("fc/") for k in classes) or not counts["skipped"]
                          or n_standalone_multi == 0):
        raise MachineryError("vacuity: artefact level misses a class (buffered, two cores, depthwise, FC, skipped "
                             "rewrites, stand-alone scale tensor with several ranges): %s %s standalone=%d" % (
                                 classes, counts, n_standalone_multi))
    n_tlc = len(tlc_events)
    if tlc_events:
        tlc_viol = validate_layout(run, "compiled operations" if not replaying else "replay",
                                   tlc_events, 6 if tier == "quick" else 12)
        for v in tlc_viol:
            t, clause = v[0], v[1]
            ident, replay = meta[t]
            if clause == "MalformedObservation":
                raise MachineryError("artefact level: malformed stripe record for " + ident)
            cr = tlc_events[t]["cores"][v[2]]
            col.add(clause, "compiled|" + ident, "core %d: SCALE length %d bytes=%s; WEIGHT length %d, %d weights decoded" % (
                v[2], cr["slen"], cr["sbytes"][:20], cr["wlen"], len(cr["wdec"] or [])), replay)
    if tlc_events and not replaying:
        # negative controls on a real record that TLC accepted
        import copy
        rejected = {v[0] for v in tlc_viol}
        base = next((e for e in tlc_events if e["t"] not in rejected and e["n"] >= 2 and e["cores"][0]["wdec"]
                     and len(set(e["cores"][0]["wdec"])) > 2 and len(e["cores"][0]["sbytes"]) >= 10), None)
        if base is None:
            if not run.violations:
                raise MachineryError("artefact level: no accepted record for the negative controls")
            tlc_events = []
    if tlc_events and not replaying:
        base = copy.deepcopy(base)
        bad = []
        for clause, f in (("ScaleSection", lambda e: e["cores"][0]["sbytes"].__setitem__(4, (e["cores"][0]["sbytes"][4] + 1) % 256)),
                          ("ScaleSection", lambda e: e["cores"][0].__setitem__("slen", e["cores"][0]["slen"] + 16)),
                          ("WeightSection", lambda e: e["cores"][0]["wdec"].reverse()),
                          ("WeightSection", lambda e: e["cores"][0]["wdec"].__setitem__(0, e["cores"][0]["wdec"][0] + 1)),
                          ("WeightSection", lambda e: e.__setitem__("zp", [z + 1 for z in e["zp"]])),
                          ("SectionBytesDefined", lambda e: e["cores"][0].__setitem__("defined", False))):
            e = copy.deepcopy(base)
            f(e)
            e["t"] = len(bad)
            bad.append((e, clause))
        _, viol = tlc.validate_traces("WeightTensorTrace", "WeightTensorTrace.cfg", [b for b, _ in bad], timeout=900)
        got = {(v[0], v[1]) for v in viol}
        for b, clause in bad:
            if (b["t"], clause) not in got:
                raise MachineryError("artefact level: negative control %d (%s) not detected: %s" % (b["t"], clause, sorted(got)))
    run.cov["compiled_networks"] = counts["compiled"]
    run.cov["compiled_ops_checked"] = n_checked
    run.cov["compiled_ops_decided_by_tlc"] = n_tlc
    run.cov["compiled_ops_compared_in_python"] = len(big)
    run.cov["skipped"] = counts["skipped"]
    run.cov["buffered_weight_ops"] = n_buffered
    run.cov["two_core_ops"] = n_two
    run.cov["tied_weight_ops"] = n_tied
    run.cov["standalone_scale_tensor_ops"] = n_standalone
    run.cov["standalone_scale_tensor_ops_beyond_first_range"] = n_standalone_multi
    run.cov["compiled_op_classes"] = classes
    run.cov["compiled_wall_s"] = round(time.time() - t0, 1)
    run.assumptions += [
        "artefact level: which source channels a stripe computes (weight box) and which source tensor its weights are "
        "(tensor name) come from the high-level command list observed in the compiling process (harness/logical.py); "
        "regions, addresses, lengths, block depth, traversal, dilation, bit depth and all bytes come from the output file",
        "artefact level: multipliers are only checked for plausibility (1e-3 of ifm*w/ofm scale of the source model) in "
        "python; TLC decides record count, the 5 bias bytes of every record, the shift range and the decoded weight "
        "order; stripes above %d weights are compared in python with harness/weight_order.py" % TLC_STRIPE_LIMIT,
        "artefact level: only CONV_2D / DEPTHWISE_CONV_2D / FULLY_CONNECTED whose weight tensor is found by name and "
        "unchanged in shape are checked; rewritten operators (MEAN, resize, transpose conv, strided rewrites) are counted "
        "as skipped"]


# ------------------------------------------------------------------ main
def main(tier):
    run = Run("C08", tier)
    try:
        return _main(run, tier)
    finally:
        run.cleanup()       # also on MachineryError: no scratch directories left behind


def _main(run, tier):
    sd = seed()
    rng = random.Random(sd * 104729 + 8)
    quick = tier == "quick"
    so = private_build(run)
    col = Collector(run)

    # ---- MC of the layout arithmetic (thread) and of the cache design
    mc_out = {}

    def mc():
        try:
            mc_out["res"] = tlc.run("WeightTensorMC", "WeightTensorMC_%s.cfg" % tier, workers=6, timeout=3000)
        except BaseException as e:
            mc_out["err"] = e
    th = threading.Thread(target=mc)
    th.start()
    for cfg, inv in (("negdb", "BrokenDoubleBuffer"), ("negcov", "BrokenCoverage"), ("b1", "CoverageOK")):
        r = tlc.run("WeightTensorMC", "WeightTensorMC_%s.cfg" % cfg, workers=1)
        if r["status"] != "invariant" or r.get("violated") != inv:
            raise MachineryError("control failed: WeightTensorMC_%s must violate %s, got %s" % (cfg, inv, r["status"]))
        run.add_mc("WeightTensorMC(%s control)" % cfg, r)
    shows = {}
    for cfg, want, what in CACHE_MC:
        r = tlc.run("Cache", "Cache_%s.cfg" % cfg, workers=2, coverage=True)
        if r["status"] != want:
            raise MachineryError("Cache_%s.cfg: expected %s, TLC says %s\n%s" % (cfg, want, r["status"], r["output"][-1500:]))
        if r["actions"].get("Cache.Encode", 0) == 0:
            raise MachineryError("vacuity: Cache.Encode never fired in Cache_%s.cfg" % cfg)
        if cfg in ("acc_fresh", "acc_clear", "assume", "fixed") and r["actions"].get("Cache.NewCompilation", 0) == 0:
            raise MachineryError("vacuity: Cache.NewCompilation never fired in Cache_%s.cfg" % cfg)
        run.add_mc("Cache(%s)" % cfg, r)
        shows[cfg] = "%s -> %s" % (what, "holds" if want == "ok" else "violated")
    run.cov["cache_design_mc"] = shows

    # ---- generated operators through the real encoder
    nops = 300 if quick else 6000
    specs = [gen_spec(rng, i) for i in range(nops)]
    jobs = [{"id": i, "kind": "layout", "spec": s} for i, s in enumerate(specs)]
    results = run_jobs(run, so, jobs, 10)
    events, meta = [], {}
    classes = {}
    for j in jobs:
        r = results.get(j["id"])
        ident = spec_ident(j["spec"])
        if r is None:
            raise MachineryError("no result for " + ident)
        run.evaluated()
        if "died" in r:
            col.add("Assembled" if not r["in_decoder"] else "WeightSection", ident,
                    "process died%s: %s" % (" in the reference decoder" if r["in_decoder"] else "", r["died"][-500:]),
                    {"spec": j["spec"]})
            continue
        e = r["event"]
        meta[len(events)] = (ident, {"spec": j["spec"]})
        events.append(e)
        s = j["spec"]
        cls = (s["kind"], s["ifm"], "nc2" if s["acc"] == "U65_512" else s["acc"], s["slice_mode"], len(s["wscale"]) > 1)
        classes[cls] = classes.get(cls, 0) + 1
        run.nontrivial(("op",) + cls + (s["kh"], s["kw"], s["ic"], s["oc"], s["blk"], tuple(s["slices"]), s["dily"], s["dilx"],
                                        e.get("trav")))
        if e.get("scale_mismatch_channels"):
            col.add("ScaleOfChannel", ident, "multiplier/shift of channels %s do not match the channel's scale"
                    % e["scale_mismatch_channels"][:8], {"spec": j["spec"]})
        if len(events) <= 3:
            run.sample({"spec": ident, "ranges": e.get("wranges"), "db": e.get("db"), "trav": e.get("trav")})
    run.cov["operator_classes"] = len(classes)
    run.cov["operators_two_cores"] = sum(n for c, n in classes.items() if c[2] == "nc2")
    trav = {}
    for e in events:
        trav[e.get("trav")] = trav.get(e.get("trav"), 0) + 1
    run.cov["traversals_observed"] = trav
    for need in ("depth", "part", "dw"):
        if not trav.get(need):
            raise MachineryError("vacuity: no generated operator used traversal %s" % need)
    judge_layout(run, col, "generated operators", events, meta, 6 if quick else 12)

    # ---- request histories from the cache specification
    nh = 500 if quick else 10000
    hs = crafted_histories() + histories_from_tlc(run, nh, sd)
    hjobs = [{"id": i, "kind": "history", "events": h, "vk": ["w1"], "seed": (sd * 7 + i) % 100000, "layout": i % 5 == 0}
             for i, h in enumerate(hs)]
    hres = run_jobs(run, so, hjobs, 10)
    layouts, lmeta, hits = judge_histories(run, col, hres, hjobs)
    if hits["weights"] + hits["full"] < 7:
        raise MachineryError("vacuity: too few real cache hits in the replayed histories: %s" % hits)
    judge_layout(run, col, "scales-only tensors of cache histories", layouts, lmeta, 4)
    run.cov["histories"] = len(hjobs)

    # ---- artefact level: compiled corpus networks against their source models
    validate_compiled(run, tier)

    th.join()
    if "err" in mc_out:
        raise mc_out["err"]
    res = tlc.must_ok(mc_out["res"], "WeightTensorMC")
    maxn = 8 if quick else 12
    want = sum(2 ** (n - 1) for n in range(1, maxn + 1)) * 2 * 4 * 3 + maxn * 2
    if res["distinct"] != want:
        raise MachineryError("vacuity: WeightTensorMC visited %d states, the lattice has %d" % (res["distinct"], want))
    run.add_mc("WeightTensorMC(%s)" % tier, res)
    cov = tlc.must_ok(tlc.run("WeightTensorMC", "WeightTensorMC_cov.cfg", workers=2, coverage=True), "WeightTensorMC coverage")
    if cov["actions"].get("WeightTensorMC.Pick", 0) == 0:
        raise MachineryError("vacuity: WeightTensorMC.Pick never fired")
    run.add_mc("WeightTensorMC(coverage lattice)", cov)

    negative_controls(run, [e for t, e in enumerate(events) if e.get("outcome") == "tensor"])

    run.cov["rule"] = (
        "operators = random valid (kind, accelerator, IFM type, kernel, depths, dilation, scales per channel/tensor, zero "
        "points, bias magnitude class, block depth, slice list full/16-granular/ragged); each is encoded by the real "
        "encode_weight_and_scale_tensor with an emptied cache and its returned tensor validated by TLC "
        "(WeightTensorTrace.tla). histories = %d crafted + TLC -simulate behaviours of Cache.tla (<= 5 requests, 2 weight "
        "tensors one of which has a value-derived id, 2 biases, block depths, slice lists, dilation, IFM bits, flip, 3 "
        "accelerators across compilation boundaries) replayed in one process against the real CompressedWeightCache; on "
        "every hit a fresh encoding with an emptied cache is computed and compared (digests of weight sections, and of "
        "scale sections + layout for full hits). non-trivial = distinct operator shape/config class or distinct "
        "(request, accelerator, hit kind)" % len(crafted_histories()))
    run.assumptions += [
        "block depth >= number of cores and per-core block depth a multiple of the OFM micro-block depth unless a (core, "
        "slice) cell fits in one block (what architecture_allocator produces)",
        "the per-channel (multiplier, shift) values are those returned by Vela's own _prepare_scale_and_bias (observed by a "
        "run-time wrapper); their arithmetic is property C09; a 1e-3 plausibility check ties each to its channel's scale",
        "a cache violation is reported only for omitted key fields for which a public call sequence producing the collision "
        "is known: %s (shared weight tensor in one model; value-derived ids across compilations of one process)"
        % sorted(REACHABLE_FIELDS),
        "FreshW in Cache.tla is injective (worst case); real byte differences are decided on digests in CacheTrace.tla"]
    return run.finish()


def replay(path):
    rp = json.load(open(path))["replay"]
    run = Run("C08", "quick")
    so = private_build(run)
    hits = []
    run.violation = lambda key, what, obj: hits.append(key)
    col = Collector(run)
    if "compiled" in rp:
        j = dict(rp["compiled"], id=0)
        validate_compiled(run, "quick", [j])
    elif "spec" in rp:
        jobs = [{"id": 0, "kind": "layout", "spec": rp["spec"]}]
        r = run_jobs(run, so, jobs, 1)[0]
        if "died" in r:
            print("process died:", r["died"][-600:])
            hits.append("died")
        else:
            e = r["event"]
            print("observation:", json.dumps({k: v for k, v in e.items() if k not in ("wraw", "wdec", "sbytes", "bias", "mult", "shift", "zp")}))
            judge_layout(run, col, "replay", [e], {0: (spec_ident(rp["spec"]), rp)}, 1)
    else:
        jobs = [{"id": 0, "kind": "history", "events": rp["history"], "vk": rp["vk"], "seed": rp["seed"], "layout": False}]
        res = run_jobs(run, so, jobs, 1)
        for e in res[0]["events"]:
            print("event:", json.dumps({k: v for k, v in e.items() if k != "spec"}))
        judge_histories(run, col, res, jobs)
    for k in hits:
        print("STILL VIOLATED:", k)
    run.cleanup()
    return 1 if hits else 0
