"""C03 - no NPU operation consumes memory that was not defined for it.

C2S : every compiled network of the corpus (emphasis on cascades / rolling buffers, double-buffered weights,
      LUT reuse, concat/split offsets, in-place elementwise chains).  The physical cells of every access come
      from the decoded registers of the *output file*; the expected writer tag (storage identity, logical
      offset) comes from the high-level command list observed in the compiling process (harness/logical.py).
      NpuTagTrace.tla executes the stream in program order over tagged memory and decides NoUninitRead,
      ReadsIntended, DmaCopiesDefined, DmaCopiesIntended, ElidedCopySameBytes (a feature-map copy the compiler elided - no
      operation in the stream - moves nothing: source and destination must be the same bytes of the same memory, equal
      offsets in two memories are not), and OutputsDefined: when a stream ends, every byte of the custom
      operator's results - at the arena offsets the output file publishes - has been defined by it.  That discharges the
      assumption "inputs of an NPU subgraph are defined on entry" for tensors produced by an earlier NPU subgraph.
MC  : the producer/consumer interleaving that makes rolling buffers safe is model-checked in Cascade.tla (see C10).
"""
import collections
import json

from .. import artefact, cells, corpus, logical, npuhw, streams, tlc, vela_run
from ..common import Run, MachineryError, seed

CLOBBER = -1
N_MEMONLY, N_FC_BATCH = 6, 6      # networks of the opt-in families per quick run (tiny: well below a second each)


def cterm(f, c):
    return (c // 16) * f["Sc"] + (c % 16) * f["es"] if f["b16"] else c * f["es"]


def fm_segments(regs, pfx, f, h, w, d):
    """(region, addr, n, sid, delta) segments of the box [0,h)x[0,w)x[0,d) of feature map pfx, tagged with the logical
    offsets of descriptor f (from logical.py)."""
    region = npuhw.region_name(regs["NPU_SET_%s_REGION" % pfx])
    y0, x0, c0 = f["start"][1], f["start"][2], f["start"][3]
    out = []
    prec = regs["NPU_SET_%s_PRECISION" % pfx]
    es = npuhw.ELEM[(prec >> 1) & 3] if pfx == "OFM" else npuhw.ELEM[(prec >> 2) & 3]
    b16 = (prec >> 6) & 1
    psx = 16 * es if b16 else regs["NPU_SET_%s_STRIDE_X" % pfx]
    for (a, n, y, x, c) in npuhw.fm_runs(regs, pfx, 0, h, 0, w, 0, d):
        L = f["base"] + y * f["Sy"] + x * f["Sx"] + cterm(f, c0 + c) - cterm(f, c0)
        per_x = min(n, psx)
        nx = n // per_x if per_x else 1
        if nx > 1 and f["Sx"] != psx:
            for k in range(nx):       # logical and physical x strides differ: tag element columns separately
                out.append((region, a + k * psx, per_x, f["sid"], L + k * f["Sx"] - (a + k * psx)))
        else:
            out.append((region, a, n, f["sid"], L - a))
    return out


def merge(segs):
    out = []
    for s in sorted(segs, key=lambda t: (str(t[0]), t[1])):
        if out and out[-1][0] == s[0] and out[-1][3:] == s[3:] and out[-1][1] + out[-1][2] == s[1]:
            out[-1] = (s[0], out[-1][1], out[-1][2] + s[2]) + s[3:]
        else:
            out.append(s)
    return out


def stream_trace(tid, ops, lg, accel, outs=()):
    """events of NpuTagTrace for one stream; ops = decoded operations, lg = logical subgraph description, outs = (name, arena
    offset, size) of the custom operator's results as the output file publishes them (region 1 = the tensor arena)"""
    cmds = lg["cmds"]
    if len(ops) != len(cmds):
        raise MachineryError("pairing: %d operations in the stream, %d high-level commands" % (len(ops), len(cmds)))
    evs = []       # (kind, payload)
    init = [(i["region"], i["addr"], i["size"], i["sid"], -i["addr"]) for i in lg["init"] if i["size"] > 0]
    copies = []
    mech = set()
    aliases = collections.defaultdict(list)
    for al in lg.get("aliases", []):
        aliases[al["before"]].append(al)

    def alias_events(k):
        # elided copy (high-level NOP, nothing in the stream): the compiler claims that the bytes of the source tensor ARE the
        # destination tensor.  The specification gets the cells of both tensors - each in the memory (region) it is allocated
        # in - and decides whether they are the same bytes (Alias action, ElidedCopySameBytes)
        for al in aliases.get(k, []):
            n = min(al["in"]["size"], al["out"]["size"])
            if n <= 0:
                continue
            evs.append(("alias", {"i": min(k, max(len(cmds) - 1, 0)), "src": (al["in"]["region"], al["in"]["addr"], n),
                                  "dst": (al["out"]["region"], al["out"]["addr"], n),
                                  "insid": al["in"]["sid"], "indelta": -al["in"]["addr"], "outsid": al["out"]["sid"],
                                  "outdelta": -al["out"]["addr"], "name": al["name"]}))
            mech.add("elided_copy")
            if (al["in"]["region"], al["in"]["addr"]) != (al["out"]["region"], al["out"]["addr"]):
                mech.add("elided_copy_between_memories")
    for k, (o, c) in enumerate(zip(ops, cmds)):
        alias_events(k)
        regs = o["regs"]
        if (o["kind"] == "dma") != (c["type"] == "dma"):
            raise MachineryError("pairing: operation %d is %s but the command is %s" % (o["index"], o["kind"], c["type"]))
        if o["kind"] == "dma":
            n = regs["NPU_SET_DMA0_LEN"]
            sr, dr = npuhw.region_name(regs["NPU_SET_DMA0_SRC_REGION"]), npuhw.region_name(regs["NPU_SET_DMA0_DST_REGION"])
            sa, da = regs["NPU_SET_DMA0_SRC"], regs["NPU_SET_DMA0_DST"]
            copies.append((sr, sa, dr, da, n))
            # a feature-map copy moves the transfer length (rounded up to 16 bytes); only the bytes of the tensor itself have to be
            # defined - the tail is padding of the allocation that nobody reads (NHWC tensors; bricks carry their padding inside)
            nchk = min(n, c["in"].get("bytes", n)) if c["mode"] == "retag" and n - c["in"].get("bytes", n) in range(1, 16) else n
            evs.append(("dma", {"i": o["index"], "mode": c["mode"], "src": (sr, sa, n), "dst": (dr, da, n), "shift": sa - da, "nchk": nchk,
                                "insid": c["in"]["sid"], "indelta": -c["in"]["addr"], "outsid": c["out"]["sid"],
                                "outdelta": -c["out"]["addr"], "name": c["name"]}))
            mech.add("dma_weights" if dr != npuhw.SHRAM and c["mode"] == "copy" else "dma_lut" if dr == npuhw.SHRAM else "dma_fm")
            continue
        g = npuhw.geometry(o["kind"], regs)
        rd, wr = [], []
        if c["ifm"] is not None:
            segs = fm_segments(regs, "IFM", c["ifm"], g["ih"], g["iw"], g["id"])
            if c.get("tile_padding"):
                segs = [s[:4] + (0,) for s in segs]       # edge replication through tiles: identity only
                mech.add("tile_padding")
            for s in merge(segs):
                rd.append(("ifm" if not c.get("tile_padding") else "ifm~",) + s)
            if c["ifm"]["storage_shape"] and len(c["ifm"]["storage_shape"]) == 4 and c["ifm"]["storage_shape"][1] < c["ifm"]["shape"][1]:
                mech.add("rolling_buffer")
        if o["kind"] == "ew" and o["param"] not in npuhw.EW_UNARY and c.get("ifm2") is not None:
            d2 = npuhw.ifm2_dims(regs, g)
            if d2 is not None:
                for s in merge(fm_segments(regs, "IFM2", c["ifm2"], d2[0], d2[1], d2[2])):
                    rd.append(("ifm2",) + s)
        if o["kind"] in ("conv", "dw") and c.get("weights"):
            wreg = npuhw.region_name(regs["NPU_SET_WEIGHT_REGION"])
            sreg = npuhw.region_name(regs["NPU_SET_SCALE_REGION"])
            for cr in c["weights"]["cores"]:
                sfx = "" if cr["core"] == 0 else "1"
                wl = regs.get("NPU_SET_WEIGHT%s_LENGTH" % sfx, 0)
                if wl:
                    a = regs["NPU_SET_WEIGHT%s_BASE" % sfx]
                    rd.append(("weights", wreg, a, wl, c["weights"]["sid"], cr["off"] + cr["weight_off"] - a))
                sl = regs.get("NPU_SET_SCALE%s_LENGTH" % sfx, 0)
                if sl:
                    a = regs["NPU_SET_SCALE%s_BASE" % sfx]
                    if c.get("scales"):
                        so = next((x for x in c["scales"]["cores"] if x["core"] == cr["core"]), None)
                        if so is not None:
                            rd.append(("scales", sreg, a, sl, c["scales"]["sid"], so["off"] - a))
                    else:
                        rd.append(("scales", sreg, a, sl, c["weights"]["sid"], cr["off"] - a))
            if c["weights"]["buffered"]:
                mech.add("buffered_weights")
        if g["lut"] is not None and c.get("lut"):
            a = npuhw.lut_base(accel) + 256 * g["lut"]
            rd.append(("lut", npuhw.SHRAM, a, npuhw.lut_size(regs, g), c["lut"]["sid"], -a))
            mech.add("lut")
        if c["ofm"] is not None:
            for s in merge(fm_segments(regs, "OFM", c["ofm"], g["oh"], g["ow"], g["od"])):
                wr.append(("ofm",) + s)
        # two different elements of the OFM must not share a byte (row / brick strides smaller than what a row / brick occupies):
        # the tags below cannot see that, because the logical offsets come from the same strides as the addresses
        iv = sorted((s[1], s[2], s[2] + s[3]) for s in wr if s[0] == "ofm")
        wdup = sum(max(0, min(iv[k][2], iv[k + 1][2]) - iv[k + 1][1]) for k in range(len(iv) - 1) if iv[k][0] == iv[k + 1][0])
        wr.append(("shram", npuhw.SHRAM, 0, npuhw.shram_written_end(accel, g["lut"] is not None), CLOBBER, 0))
        # ... and the same between operations, where it cannot be seen from overlapping writes (one row per stripe): the strides
        # of every feature map must address different elements of the box at different bytes
        ninj = [nm for nm, pfx, dims in (("ifm", "IFM", (g.get("ih"), g.get("iw"), g.get("id"))),
                                          ("ofm", "OFM", (g["oh"], g["ow"], g["od"])))
                if c.get(nm) is not None and None not in dims and not (nm == "ifm" and c.get("tile_padding"))     # (edge replication
                # of the half-pixel resize aliases rows and columns of its IFM on purpose)
                and not npuhw.layout_injective(regs, pfx, *dims)]
        evs.append(("k", {"i": o["index"], "rd": rd, "wr": wr, "name": c["name"], "wdup": wdup, "ninj": ninj}))
    alias_events(len(cmds))
    # coordinate compression
    pts = collections.defaultdict(set)

    def mark(r, a, n):
        pts[r].add(a)
        pts[r].add(a + n)
    for (r, a, n, _, _) in init:
        mark(r, a, n)
    for k, p in evs:
        if k == "k":
            for s in p["rd"] + p["wr"]:
                mark(s[1], s[2], s[3])
        elif k == "dma" and p.get("nchk", p["src"][2]) != p["src"][2]:      # end of the tensor inside the transfer
            mark(p["src"][0], p["src"][1], p["nchk"])
        elif k == "alias":                        # elided copy: no DMA registers, the extents of both tensors delimit cells
            mark(*p["src"])
            mark(*p["dst"])
    outs = [(nm, off, n) for (nm, off, n) in outs if n > 0]
    for (_, off, n) in outs:
        mark(1, off, n)
    cellrange, ncell = cells.endpoint_cells(pts, copies)

    def cl(r, a, n):
        return list(cellrange(r, a, n))
    lines = [{"t": tid, "e": "Hdr", "ncells": ncell,
              "init": [{"cells": cl(r, a, n), "sid": s, "delta": d} for (r, a, n, s, d) in init]}]
    for k, p in evs:
        if k == "dma":
            lines.append({"t": tid, "e": "Dma", "i": p["i"], "mode": p["mode"], "src": cl(*p["src"]), "dst": cl(*p["dst"]),
                          "chk": cl(p["src"][0], p["src"][1], p.get("nchk", p["src"][2])),
                          "shift": p["shift"], "insid": p["insid"], "indelta": p["indelta"], "outsid": p["outsid"],
                          "outdelta": p["outdelta"]})
        elif k == "alias":
            lines.append({"t": tid, "e": "Alias", "i": p["i"], "src": cl(*p["src"]), "dst": cl(*p["dst"]), "insid": p["insid"],
                          "indelta": p["indelta"], "outsid": p["outsid"], "outdelta": p["outdelta"]})
        else:
            lines.append({"t": tid, "e": "Kernel", "i": p["i"],
                          "rd": [{"w": s[0].rstrip("~"), "cells": cl(s[1], s[2], s[3]), "sid": s[4], "delta": s[5],
                                 "sidonly": s[0].endswith("~")} for s in p["rd"]],
                          "wr": [{"cells": cl(s[1], s[2], s[3]), "sid": s[4], "delta": s[5]} for s in p["wr"]],
                          "wdup": p.get("wdup", 0), "ninj": p.get("ninj", [])})
    if outs:
        lines.append({"t": tid, "e": "Out", "i": len(cmds), "outs": [{"w": "out:" + nm, "cells": cl(1, off, n)} for (nm, off, n) in outs]})
    lines.append({"t": tid, "e": "Stop"})
    return lines, ncell, mech


def lut_events(tid, ops, lg, accel):
    """LutTrace events of one stream (DMA into the LUT area, operations with / without a table)."""
    base = npuhw.lut_base(accel)
    ev = [{"t": tid, "e": "Hdr", "reserved": npuhw.ACCEL[accel][0] > 16}]
    any_lut = False
    for o, c in zip(ops, lg["cmds"]):
        regs = o["regs"]
        if o["kind"] == "dma":
            if npuhw.region_name(regs["NPU_SET_DMA0_DST_REGION"]) == npuhw.SHRAM:
                a, n = regs["NPU_SET_DMA0_DST"] - base, regs["NPU_SET_DMA0_LEN"]
                ev.append({"t": tid, "e": "Dma", "i": o["index"], "tab": c["in"]["sid"], "a": a // 256, "n": max(1, n // 256)})
            continue
        g = npuhw.geometry(o["kind"], regs)
        if g["lut"] is not None and c.get("lut"):
            any_lut = True
            ev.append({"t": tid, "e": "Use", "i": o["index"], "tab": c["lut"]["sid"], "a": g["lut"],
                       "n": max(1, npuhw.lut_size(regs, g) // 256)})
        else:
            ev.append({"t": tid, "e": "NonLut", "i": o["index"]})
    return ev if any_lut else []


def mc_lut(run, tier):
    import os
    for cfg, want in (("Lut_MC.cfg", "ok"), ("Lut_MC16.cfg", "ok"), ("Lut_Broken.cfg", "invariant")):
        text = open(os.path.join(tlc.SPEC, cfg)).read()
        if tier == "quick":
            text = text.replace("MaxOps = 7", "MaxOps = 6")
        elif want == "ok":
            text = text.replace("MaxOps = 7", "MaxOps = 9")      # thorough: 140 k / 117 k distinct states, ~40 s each
        tmp = "_tmp_%d_%s" % (os.getpid(), cfg)
        with open(os.path.join(tlc.SPEC, tmp), "w") as f:
            f.write(text)
        try:
            res = tlc.run("LutMC", tmp, workers=16, timeout=1500)
        finally:
            os.remove(os.path.join(tlc.SPEC, tmp))
        if res["status"] != want:
            raise MachineryError("Lut %s: expected %s, got %s\n%s" % (cfg, want, res["status"], res["output"][-1500:]))
        run.add_mc("Lut/" + cfg, res)


def jobs_for(tier, sd):
    n = 90 if tier == "quick" else 1600
    jobs = corpus.all_singles(sd, tier=tier)
    # emphasis: cascades (U65 dedicated SRAM with small cache, Size), wide convs with small cache, LUT chains, branches
    fams = ["chain", "chain", "wide", "lut", "branch", "mixed", "u8i16", "inplace", "lutmany", "resize", "pruned", "diamonds",
            "stride3", "widen", "tied", "bigchain", "nncascade", "bcast", "memcpy", "lutcascade", "lutcascade", "s2cascade",
            "s2cascade", "cpuouts"]
    jobs += corpus.draw(n, sd, families=fams, dedicated_bias=0.5)
    if corpus.ops_families():     # operator-coverage families (memory-only operators, mixed precision, fused activations, fall-backs)
        jobs += corpus.draw(10 if tier == "quick" else 250, sd + 3, families=corpus.ops_families(), dedicated_bias=0.5)
    # graph shapes (corpus_shapes.py); emphasis: reshapes between NPU operators, non-square transposes, a table reused across
    # operators without a table on 16-bank parts, tensors read inside and outside their NPU subgraph
    jobs += corpus.shape_jobs(sd, tier, extra=["reshape_between"] * 2 + ["tr_hw"] * 2 + ["lut_gap"] * 3 + ["skip_out"] * 3, thorough=25)
    # opt-in graph shapes: memory-only operators directly on tensors entering the NPU subgraph (copies between the arena and
    # the fast storage, elided in one-memory modes); FULLY_CONNECTED with batches 1..17 laid out over H x W
    jobs += corpus.shape_jobs(sd, tier, families=[], extra=["memonly_first"] * N_MEMONLY + ["fc_batch"] * N_FC_BATCH + ["odd_cascade"] * 3, thorough=12)
    return jobs


def analyse_job(j, x):
    """-> list of (events builder inputs) or raises MachineryError"""
    if "extract" not in x:
        raise MachineryError("no logical command list for %s: %s" % (j["family"], x.get("extract_error")))
    model, ss = streams.analyse(x["out_bytes"], j["opts"]["accel"])
    lgs = x["extract"]
    if len(lgs) != len(ss):
        raise MachineryError("pairing of subgraphs failed for " + j["family"])
    out = []
    off = (model.get("offline") or {}).get("offsets") or []
    for s, lg in zip(ss, lgs):
        if list(s["payload"]["words"]) != lg["words"]:
            raise MachineryError("command stream of the output file differs from the generated one")
        # results of the custom operator at the arena offsets the output file publishes (OutputsDefined)
        s["outs"] = [(model["tensors"][i]["name"], off[i], model["tensors"][i]["size"]) for i in s["io"]["outputs"]
                     if 0 <= i < len(off) and off[i] >= 0]
        out.append((s, lg))
    return out


def main(tier):
    run = Run("C03", tier)
    sd = seed()
    mc_lut(run, tier)
    jobs = jobs_for(tier, sd)
    rs = vela_run.compile_many(jobs, extractor=logical.extract)
    events, index, tid = [], {}, 0
    lutev = []
    mech_count = collections.Counter()
    for j, x in zip(jobs, rs):
        if x["rc"] != 0 or "out_bytes" not in x:
            continue
        for s, lg in analyse_job(j, x):
            tid += 1
            run.evaluated()
            lines, ncell, mech = stream_trace(tid, s["ops"], lg, s["accel"], s.get("outs", ()))
            events += lines
            lutev += lut_events(tid, s["ops"], lg, s["accel"])
            index[tid] = (j, s, lg)
            for m in mech:
                mech_count[m] += 1
            if mech & {"rolling_buffer", "buffered_weights", "lut", "dma_fm"}:
                run.nontrivial((j["family"], json.dumps(j["opts"], sort_keys=True)))
            run.sample({"family": j["family"], "opts": j["opts"], "ops": len(s["ops"]), "cells": ncell, "mechanisms": sorted(mech)})
    if not events:
        raise MachineryError("no stream produced")
    ids = sorted(index)
    B = 60
    for b in range(0, len(ids), B):
        sel = set(ids[b:b + B])
        res, viol = tlc.validate_traces("NpuTagTrace", "NpuTagTrace.cfg", [e for e in events if e["t"] in sel],
                                        timeout=2400, heap="8g")
        run.add_trace_run("NpuTagTrace", res, len(sel))
        for v in viol:
            j, s, lg = index[v[0]]
            if v[1] == "OutputsDefined":
                run.violation("OutputsDefined|%s" % j["family"].split(":")[0],
                              "OutputsDefined: result '%s' of the ethos-u operator has bytes no operation of its stream defined, at the arena "
                              "offset the output file publishes (%s with %s)" % (v[3][4:], j["family"], j["opts"]),
                              {"net": j["net"], "opts": j["opts"], "violated": v[1:], "outs": s.get("outs")})
                continue
            if v[1] == "ElidedCopySameBytes":
                al = next((a for a in lg.get("aliases", []) if min(a["before"], max(len(lg["cmds"]) - 1, 0)) == v[2]
                           and (a["in"]["region"], a["in"]["addr"]) != (a["out"]["region"], a["out"]["addr"])), {})
                run.violation("ElidedCopySameBytes|%s" % j["family"].split(":")[0],
                              "ElidedCopySameBytes: the copy of '%s' (region %s, offset %s) to '%s' (region %s, offset %s) was elided although "
                              "they are not the same bytes: no operation of the stream writes the destination (%s with %s)" % (
                                  al.get("in", {}).get("name"), al.get("in", {}).get("region"), al.get("in", {}).get("addr"),
                                  al.get("out", {}).get("name"), al.get("out", {}).get("region"), al.get("out", {}).get("addr"),
                                  j["family"], j["opts"]),
                              {"net": j["net"], "opts": j["opts"], "violated": v[1:], "alias": al})
                continue
            cmd = lg["cmds"][v[2]] if v[2] < len(lg["cmds"]) else {}
            key = "%s|%s|%s|%s" % (v[1], v[3], cmd.get("op", cmd.get("type")), j["family"].split(":")[0])
            f = cmd.get("ifm") if v[3] == "ifm" else None
            if f and len(f.get("storage_shape", [])) == 4 and f["storage_shape"][1] < f["shape"][1]:
                key += "|rolling|sy=%d" % cmd.get("kernel", {}).get("sy", 0)
            run.violation(key, "%s: %s read by operation %d (%s, %s) of %s with %s" % (
                v[1], v[3], v[2], cmd.get("name"), cmd.get("op"), j["family"], j["opts"]),
                {"net": j["net"], "opts": j["opts"], "violated": v[1:], "command": cmd})
    # LUT-slot cache: the same streams against Lut.tla's hardware slots + compiler model
    if lutev:
        import re
        res, viol = tlc.validate_traces("LutTrace", "LutTrace.cfg", lutev, timeout=1800)
        run.add_trace_run("LutTrace", res, len({e["t"] for e in lutev}))
        for v in viol:
            j, s, lg = index[v[0]]
            run.violation("UsesIntendedTable|slot%s|%s" % (v[3], j["family"].split(":")[0]),
                          "UsesIntendedTable: operation %d of %s (%s) uses LUT slot %s which does not hold its table" % (
                              v[2], j["family"], j["opts"], v[3]), {"net": j["net"], "opts": j["opts"], "violated": v[1:]})
        m = re.search(r'<<\s*"DRIFT",\s*"((?:[^"\\\\]|\\\\.)*)"\s*>>', res["output"], re.S)
        dr = json.loads(json.loads('"' + m.group(1).replace("\n", " ") + '"')) if m and m.group(1) else []
        run.cov["lut_model_drift"] = {"total": len(dr), "examples": dr[:5],
                                      "uses": sum(1 for e in lutev if e["e"] == "Use"), "dmas": sum(1 for e in lutev if e["e"] == "Dma")}
    # negative control: make one stream's first kernel operation read one byte further than what was defined
    ctrl = next((t for t in ids if any(e["t"] == t and e["e"] == "Kernel" and e["rd"] for e in events)), None)
    evs = [json.loads(json.dumps(e)) for e in events if e["t"] == ctrl]
    for e in evs:
        if e["e"] == "Kernel" and e["rd"]:
            e["rd"][0]["delta"] += 1
            break
    _, viol = tlc.validate_traces("NpuTagTrace", "NpuTagTrace.cfg", evs)
    if not any(v[1] == "ReadsIntended" for v in viol):
        raise MachineryError("negative control failed: shifted read accepted")
    run.cov["negative_control"] = "read with logical offset shifted by one byte rejected"
    # negative control of OutputsDefined: the same stream with every operation removed leaves its results undefined
    ctrl = next((t for t in ids if any(e["t"] == t and e["e"] == "Out" for e in events)), None)
    if ctrl is None:
        raise MachineryError("no stream with a published result: OutputsDefined was never evaluated")
    evs = [json.loads(json.dumps(e)) for e in events if e["t"] == ctrl and e["e"] in ("Hdr", "Out", "Stop")]
    evs[0]["init"] = []
    _, viol = tlc.validate_traces("NpuTagTrace", "NpuTagTrace.cfg", evs)
    if not any(v[1] == "OutputsDefined" for v in viol):
        raise MachineryError("negative control failed: results of a stream without operations accepted as defined")
    run.cov["negative_control_outputs"] = "results of a stream whose operations were removed rejected (OutputsDefined)"
    # negative control of ElidedCopySameBytes: a tensor of 2 cells in memory A (cells 0, 1) defined on entry, its copy to the
    # consumer's tensor elided, the consumer reads cells 0, 1 (accepted: the same bytes) / cells 2, 3 = the same OFFSET in
    # another memory (rejected, and the consumer's read is of bytes nothing wrote)
    def elided(t, dst):
        return [{"t": t, "e": "Hdr", "ncells": 5, "init": [{"cells": [0, 1], "sid": 1, "delta": 0}]},
                {"t": t, "e": "Alias", "i": 0, "src": [0, 1], "dst": dst, "insid": 1, "indelta": 0, "outsid": 2, "outdelta": 0},
                {"t": t, "e": "Kernel", "i": 0, "rd": [{"w": "ifm", "cells": dst, "sid": 2, "delta": 0, "sidonly": False}],
                 "wr": [{"cells": [4], "sid": 3, "delta": 0}], "wdup": 0, "ninj": []},
                {"t": t, "e": "Stop"}]
    _, viol = tlc.validate_traces("NpuTagTrace", "NpuTagTrace.cfg", elided(1, [0, 1]) + elided(2, [2, 3]))
    if any(v[0] == 1 for v in viol):
        raise MachineryError("control failed: an elided copy of a tensor onto its own bytes rejected (%s)" % viol)
    if {v[1] for v in viol if v[0] == 2} != {"ElidedCopySameBytes", "NoUninitRead", "ReadsIntended"}:
        raise MachineryError("negative control failed: an elided copy between two memories (equal offsets) accepted (%s)" % viol)
    run.cov["negative_control_elided_copy"] = ("elided copy onto the same bytes accepted; elided copy to the same offset of another "
                                               "memory rejected (ElidedCopySameBytes, and the consumer's read as NoUninitRead)")
    run.cov["elided_copies"] = sum(1 for e in events if e["e"] == "Alias")
    run.cov["elided_copies_between_memories"] = mech_count.get("elided_copy_between_memories", 0)
    run.cov["streams_with_published_results"] = sum(1 for e in events if e["e"] == "Out")
    run.cov["mechanisms"] = dict(mech_count)
    run.cov["rule"] = ("one trace per ethos-u custom operator of each compiled corpus network; non-trivial = the stream uses a "
                       "rolling buffer, a DMA-filled weight buffer, a lookup table or a feature-map DMA")
    run.assumptions += ["A-HW4 footprints; logical dataflow taken from the high-level command list of the compiling process; "
                        "inputs of an NPU subgraph are defined on entry (cross-subgraph liveness is C12)"]
    return run.finish()


def replay(path):
    rp = json.load(open(path))["replay"]
    j = {"id": 0, "net": rp["net"], "opts": rp["opts"], "family": "replay"}
    x = vela_run.compile_many([j], extractor=logical.extract)[0]
    bad = 0
    for t, (s, lg) in enumerate(analyse_job(j, x), 1):
        lines, _, _ = stream_trace(t, s["ops"], lg, s["accel"], s.get("outs", ()))
        _, viol = tlc.validate_traces("NpuTagTrace", "NpuTagTrace.cfg", lines)
        for v in viol:
            print("replay:", v)
            bad += 1
    return 1 if bad else 0
