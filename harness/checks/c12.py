"""C12 - the offline arena plan is self-consistent and the reported memory is sufficient.

C2S : every output model of the corpus (CPU/NPU interleavings, several NPU subgraphs, memory modes, allocators,
      --cpu-tensor-alignment 16..256, arena cache sizes).  The plan is read from the *output file* only
      (OfflineMemoryAllocation metadata + tensor table + operator order), the touched arena extent from the decoded
      command streams (A-HW4 footprints), the reported figures from the summary CSV and the console.
      ArenaTrace.tla decides NoOverlapLive (with the in-place exception; variable tensors live throughout), Aligned,
      PlanComplete (every activation an operator of the output graph reads or writes has a place), ScratchAtZero,
      ScratchSpans and ReportedSufficient (against the plan extent, the touched extent and PeakLive, a lower bound of the
      arena that does not depend on the plan).  Families statevar / dangling of corpus_shapes.py are compiled by this
      check only (opt-in).
"""
import csv
import io
import json
import re

from .. import artefact, corpus, liverange, npuhw, streams, tlc, vela_run
from ..common import Run, MachineryError, seed

AREA_LABEL = {"SRAM": "SRAM", "DRAM": "DRAM", "On-chip Flash": "On-chip Flash", "Off-chip Flash": "Off-chip Flash"}
AREA_ID = {"SRAM": "sram", "DRAM": "dram", "On-chip Flash": "on_chip_flash", "Off-chip Flash": "off_chip_flash"}


N_STATEVAR = 12     # networks of corpus_shapes family "statevar" per quick run (= its styles: every style in every run)
N_DANGLING = 10     # ... of family "dangling"


def plan_record(tid, out_bytes, align, summary_csv, stdout, accel):
    model, ss = streams.analyse(out_bytes, accel)
    off = model.get("offline")
    T = model["tensors"]
    if off is None:
        return None, "no OfflineMemoryAllocation metadata"
    if off["n_tensors"] != len(T) or len(off["offsets"]) != len(T):
        return None, "metadata lists %d tensors, the subgraph has %d" % (off["n_tensors"], len(T))
    nops = len(model["ops"])
    info = [{"first": None, "last": None, "cin": set(), "cout": set(), "cpu": False} for _ in T]
    for i in model["inputs"]:
        info[i]["first"] = -1
    scratch_ids, fast_ids = set(), set()
    for o in model["ops"]:
        cust = o["custom"] == "ethos-u"
        ins = [i for i in o["inputs"] if i >= 0]
        if cust:
            scratch_ids.add(o["inputs"][2])
            fast_ids.add(o["inputs"][3])
            operands = o["inputs"][4:] + o["outputs"]
        else:
            operands = ins + o["outputs"]
        for i in operands:
            if i >= 0:
                info[i]["cpu"] = True
        for i in ins:
            if info[i]["first"] is None:
                info[i]["first"] = -1
            info[i]["last"] = o["k"]
            if cust:
                info[i]["cin"].add(o["k"])
        for i in o["outputs"]:
            if info[i]["first"] is None:
                info[i]["first"] = o["k"]
            info[i]["last"] = max(info[i]["last"] if info[i]["last"] is not None else o["k"], o["k"])
            if cust:
                info[i]["cout"].add(o["k"])
    for i in model["outputs"]:
        info[i]["last"] = nops
        if info[i]["first"] is None:
            info[i]["first"] = -1
    plan = []
    for t, inf, o in zip(T, info, off["offsets"]):
        if o < 0 or t["i"] in scratch_ids or t["i"] in fast_ids or inf["first"] is None:
            continue
        # a variable (state) tensor is live throughout: Arena.tla decides that from "var", the uses are passed as they are
        plan.append({"name": t["name"], "off": o, "size": t["size"], "first": inf["first"], "last": inf["last"],
                     "var": bool(t["is_variable"]), "cpu": inf["cpu"], "cin": sorted(inf["cin"]), "cout": sorted(inf["cout"])})
    # every activation of the output graph, placed or not: no constant data, operand of an operator or subgraph input / output
    acts = [{"name": t["name"], "off": o, "size": t["size"], "first": inf["first"], "last": inf["last"],
             "var": bool(t["is_variable"]), "scratch": t["i"] in scratch_ids or t["i"] in fast_ids}
            for t, inf, o in zip(T, info, off["offsets"]) if inf["first"] is not None and not t["const_len"]]
    if sum(a["size"] for a in acts) >= 1 << 31:
        raise MachineryError("activation sizes of one model add up to more than TLC integers hold")
    cpuops = [o["k"] for o in model["ops"] if o["custom"] != "ethos-u"]
    scratch = [{"off": off["offsets"][i], "size": T[i]["size"]} for i in sorted(scratch_ids)]
    touched = 0
    for s in ss:
        for o in s["ops"]:
            if o["fp"] is None:
                continue
            for (_, reg, iv) in o["fp"]["rd"] + o["fp"]["wr"]:
                if reg == 1 and iv:
                    touched = max(touched, iv[-1][1])
    io_end = 0
    for s in ss:
        for i in s["io"]["inputs"] + s["io"]["outputs"]:
            if i >= 0 and off["offsets"][i] >= 0:
                io_end = max(io_end, off["offsets"][i] + T[i]["size"])
    # fast scratch (custom-operator input 3): when the arena is not in SRAM (spilling memory modes) the model asks the
    # run time for an SRAM buffer of that size, and the stream touches region 2 up to touched_fast
    fast_size = max([T[i]["size"] for i in fast_ids] + [0])
    touched_fast = 0
    for s in ss:
        for o in s["ops"]:
            if o["fp"] is None:
                continue
            for (_, reg, iv) in o["fp"]["rd"] + o["fp"]["wr"]:
                if reg == 2 and iv:
                    touched_fast = max(touched_fast, iv[-1][1])
    reported_fast, console_fast, arena_in_sram = -1, -1, True
    reported, console = -1, -1
    if summary_csv:
        rows = list(csv.reader(io.StringIO(summary_csv)))
        if len(rows) >= 2:
            rec = dict(zip(rows[0], rows[1]))
            area = rec.get("feature_map_storage_area")
            col = AREA_ID.get(area, "") + "_memory_used"
            if col in rec:
                reported = int(round(float(rec[col]) * 1024))
            m = re.search(r"Total %s used\s+([0-9.]+) KiB" % re.escape(AREA_LABEL.get(area, "?")), stdout or "")
            if m:
                console = int(float(m.group(1)) * 1024)
            arena_in_sram = area == "SRAM"
            if not arena_in_sram and "sram_memory_used" in rec:
                reported_fast = int(round(float(rec["sram_memory_used"]) * 1024))
                m = re.search(r"Total SRAM used\s+([0-9.]+) KiB", stdout or "")
                if m:
                    console_fast = int(float(m.group(1)) * 1024)
    return {"t": tid, "align": align, "nops": nops, "cpuops": cpuops, "plan": plan, "acts": acts, "scratch": scratch, "touched": touched, "io_end": io_end,
            "reported": reported, "console": console, "spilling": not arena_in_sram, "fast_size": fast_size,
            "touched_fast": touched_fast, "reported_fast": reported_fast, "console_fast": console_fast}, None


def _rec(t, plan, acts=None, nops=4, cpuops=(1, 3), reported=-1, console=-1):
    def p(name, off, size, first, last, var=False, cin=(), cout=()):
        return {"name": name, "off": off, "size": size, "first": first, "last": last, "var": var, "cpu": True,
                "cin": list(cin), "cout": list(cout)}
    plan = [p(*x) if isinstance(x, tuple) else p(**x) for x in plan]
    if acts is None:
        acts = [{"name": x["name"], "off": x["off"], "size": x["size"], "first": x["first"], "last": x["last"], "var": x["var"],
                 "scratch": False} for x in plan]
    return {"t": t, "align": 16, "nops": nops, "cpuops": list(cpuops), "plan": plan, "acts": acts, "scratch": [], "touched": 0,
            "io_end": 0, "reported": reported, "console": console, "spilling": False, "fast_size": 0, "touched_fast": 0,
            "reported_fast": -1, "console_fast": -1}


def clause_controls():
    """Synthetic records, one clause each, accepted and rejected variants side by side: the verdicts of ArenaTrace.tla must be
    exactly the expected ones (operators 0 and 2 are ethos-u operators, 1 and 3 CPU operators)."""
    def act(name, off, size, first, last, var=False, scratch=False):
        return {"name": name, "off": off, "size": size, "first": first, "last": last, "var": var, "scratch": scratch}
    x = ("x", 0, 64, -1, 0)
    recs = [
        # 1/2: a state tensor read only by operator 0 shares its bytes with tensors born later: rejected because it is a
        #      variable (live throughout), accepted for an ordinary tensor with the same uses
        _rec(1, [x, ("v", 64, 64, -1, 0, True), ("a", 128, 64, 0, 1), ("b", 64, 64, 1, 2), ("c", 0, 64, 2, 4)], reported=192),
        _rec(2, [x, ("v", 64, 64, -1, 0, False), ("a", 128, 64, 0, 1), ("b", 64, 64, 1, 2), ("c", 0, 64, 2, 4)], reported=192),
        # 3: a state tensor that no operator reads at all still holds its bytes
        _rec(3, [x, ("v", 64, 64, -1, -1, True), ("a", 64, 64, 0, 4)], reported=128),
        # 4/5: the second output of CPU operator 1 has no place; placed and reported: accepted
        _rec(4, [x, ("a", 64, 64, 0, 1), ("o0", 0, 64, 1, 4)],
             [act("x", 0, 64, -1, 0), act("a", 64, 64, 0, 1), act("o0", 0, 64, 1, 4), act("o1", -1, 64, 1, 1)], reported=128, console=128),
        _rec(5, [x, ("a", 64, 64, 0, 1), ("o0", 0, 64, 1, 4), ("o1", 128, 64, 1, 1)], reported=192, console=192),
        # 6: everything placed without overlap, but the reported size is below what any plan needs: x and a are both held
        #    between operators 0 and 1 only if x lives on; here a, o0, o1 are live together at CPU operator 1 (192 bytes)
        _rec(6, [x, ("a", 64, 64, 0, 1), ("o0", 0, 64, 1, 4), ("o1", 128, 64, 1, 1)], reported=191),
        # 7: in-place exception: the output of ethos-u operator 2 over its dying input is no conflict and not counted twice
        _rec(7, [x, ("a", 64, 64, 0, 1), ("b", 0, 64, 1, 2, False, [2], []), ("c", 0, 64, 2, 4, False, [], [2])], reported=128),
        # 8: the same at CPU operator 1: conflict, and both operands count for the peak
        _rec(8, [("x", 0, 64, -1, 1), ("a", 0, 64, 1, 4)], reported=64),
        # 9: the ethos-u scratch operand is no value of its own: not counted, no place needed
        _rec(9, [x, ("a", 64, 64, 0, 4)], [act("x", 0, 64, -1, 0), act("a", 64, 64, 0, 4), act("scratch", -1, 4096, -1, 2, scratch=True)],
             reported=128),
    ]
    _, viol = tlc.validate_traces("ArenaTrace", "ArenaTrace.cfg", recs)
    got = sorted((v[0], v[1], v[2]) for v in viol)
    want = sorted([(1, "NoOverlapLive", "v"), (3, "NoOverlapLive", "v"),
                   (4, "PlanComplete", "o1"), (4, "ReportedSufficient", "csv-peak"), (4, "ReportedSufficient", "console-peak"),
                   (6, "ReportedSufficient", "csv-peak"), (8, "NoOverlapLive", "x"), (8, "ReportedSufficient", "csv-peak")])
    if got != want:
        raise MachineryError("clause controls of ArenaTrace.tla: expected %s, got %s" % (want, got))
    return "variable tensors, PlanComplete, PeakLive, in-place exception: %d verdicts on 9 synthetic records as expected" % len(got)


def main(tier):
    run = Run("C12", tier)
    sd = seed()
    n = 72 if tier == "quick" else 1200
    jobs = corpus.all_singles(sd, tier=tier) + corpus.draw(n, sd, families=["mixed", "mixed", "branch", "chain", "lut", "wide", "single", "inplace", "inplace", "widen", "diamonds", "resize",
                                                              "cpuouts", "cpuouts", "memcpy"])
    if corpus.ops_families():     # operator-coverage families (memory-only operators, mixed precision, fused activations, fall-backs)
        jobs += corpus.draw(10 if tier == "quick" else 200, sd + 3, families=corpus.ops_families())
    # graph shapes (corpus_shapes.py); emphasis: tensors read inside and outside their NPU subgraph, tensors that are graph
    # input and output at once, several NPU subgraphs with outputs produced at different times
    jobs += corpus.shape_jobs(sd, tier, extra=["skip_out"] * 3 + ["io_alias"] * 3 + ["islands"], thorough=25)
    # opt-in families of this property (appended: the jobs above keep their networks, options and alignment draws):
    # state tensors read early / late by NPU and CPU operators with later tensors that fit into their bytes; operators with
    # several outputs that stay in the output graph and of whose outputs some are used by nobody
    jobs += corpus.shape_jobs(sd, tier, families=[], extra=["statevar"] * N_STATEVAR + ["dangling"] * N_DANGLING, thorough=12)
    import random
    rng = random.Random(sd)
    for j in jobs:       # alignment is this property's own dimension: sweep it on every job
        j["opts"]["align"] = rng.choice([16, 32, 64, 128, 256])
    # growth beyond the listed property (DESIGN.md section 8): LiveRange.tla - the time assignment of live_range.py covers
    # every simultaneous use (design-level MC + negative controls), and the live ranges every real allocation pass received
    # are validated against the use intervals of the emitted command order.  Its findings are *not* verdicts of C12: a range
    # that is too short only becomes a C12 violation when the plan of the output file overlaps live tensors (checked below).
    for name, res in liverange.mc(tier):
        run.add_mc("LiveRange/" + name, res)
    liverange.negative_trace_control()
    liverange.install()
    try:
        rs = vela_run.compile_many(jobs, extractor=liverange.extractor)
    finally:
        liverange.uninstall()
    lres, lfind, lcnt = liverange.validate([x.get("extract") for x in rs])
    if lres is not None:
        run.add_trace_run("LiveRangeTrace", lres, lcnt.get("passes", 0))
    run.cov["liverange"] = {"counters": lcnt, "latent": sum(1 for f in lfind if f["kind"] == "latent"),
                            "manifest": sum(1 for f in lfind if f["kind"] == "manifest"),
                            "first": [{k: f.get(k) for k in ("kind", "prop", "area", "detail")} |
                                      {"family": jobs[f["job"]]["family"]} for f in lfind[:10]]}
    for f in lfind[:20]:
        print("LATENT: LiveRange %s %s in %s: %s" % (f["kind"], f["prop"], jobs[f["job"]]["family"], str(f.get("detail"))[:200]))
    events, index = [], {}
    tid = 0
    for j, x in zip(jobs, rs):
        if x["rc"] != 0 or "out_bytes" not in x:
            continue
        tid += 1
        run.evaluated()
        rec, err = plan_record(tid, x["out_bytes"], j["opts"]["align"], x.get("summary_csv"), x.get("stdout"), j["opts"]["accel"])
        if rec is None:
            run.violation("PlanPresent|" + err.split(" ")[0], "%s: %s" % (j["family"], err), {"net": j["net"], "opts": j["opts"]})
            continue
        events.append(rec)
        index[tid] = j
        ncpu = sum(1 for p in rec["plan"] if not p["cin"] and not p["cout"])
        if len(rec["plan"]) >= 3:
            run.nontrivial((j["family"], json.dumps(j["opts"], sort_keys=True)))
        run.sample({"family": j["family"], "opts": j["opts"], "plan_tensors": len(rec["plan"]), "touched": rec["touched"],
                    "reported": rec["reported"], "console": rec["console"], "scratch": rec["scratch"]})
    if not events:
        raise MachineryError("no output model produced")
    # vacuity control of the clauses that need special networks: plans with a variable tensor whose last reader is not the last
    # operator; activations written by a CPU operator and used by nobody else
    nvar = sum(1 for e in events if any(p["var"] and p["last"] < e["nops"] - 1 for p in e["plan"]))
    ndang = sum(1 for e in events if any(a["first"] == a["last"] and a["first"] in e["cpuops"] for a in e["acts"]))
    run.cov["clause_population"] = {"plans_with_state_tensor_read_early": nvar, "models_with_unused_cpu_operator_output": ndang}
    if corpus.opt_in_shape_families() and (nvar == 0 or ndang == 0):
        raise MachineryError("no output model with an early-read state tensor (%d) / an unused CPU operator output (%d)" % (nvar, ndang))
    res, viol = tlc.validate_traces("ArenaTrace", "ArenaTrace.cfg", events, timeout=1800)
    run.add_trace_run("ArenaTrace", res, len(events))
    for v in viol:
        j = index[v[0]]
        key = "%s|%s|%s" % (v[1], j["family"].split(":")[0], j["opts"].get("allocator"))
        run.violation(key, "%s (%s, %s) in %s with %s" % (v[1], v[2], v[3], j["family"], j["opts"]),
                      {"net": j["net"], "opts": j["opts"], "violated": v[1:]})
    # negative controls: move one plan tensor onto a live neighbour; misalign one; under-report
    ctrl = next((e for e in events if len(e["plan"]) >= 2 and any(
        a is not b and a["first"] <= b["last"] and b["first"] <= a["last"] for a in e["plan"] for b in e["plan"])), None)
    if ctrl is None:
        raise MachineryError("no plan with two simultaneously live tensors: cannot run the negative control")
    bad = json.loads(json.dumps(ctrl))
    a = bad["plan"][0]
    b = next(p for p in bad["plan"][1:] if a["first"] <= p["last"] and p["first"] <= a["last"])
    b["off"] = a["off"] + 1
    b["cin"], b["cout"], a["cin"], a["cout"] = [], [], [], []
    bad["reported"] = 0
    _, viol = tlc.validate_traces("ArenaTrace", "ArenaTrace.cfg", [bad])
    names = {v[1] for v in viol}
    if not {"NoOverlapLive", "Aligned", "ReportedSufficient"} <= names:
        raise MachineryError("negative control failed: corrupted plan accepted (%s)" % sorted(names))
    run.cov["negative_control"] = "overlapping, misaligned and under-reported plan rejected: %s" % sorted(names)
    run.cov["negative_control_clauses"] = clause_controls()
    run.cov["rule"] = ("one record per output model of the corpus with --cpu-tensor-alignment swept; non-trivial = the plan "
                       "holds at least three arena tensors; distinct = (family, options)")
    run.assumptions += ["liveness from the operator order of the output graph; ethos-u scratch tensors are excluded from the "
                        "overlap test by design; in-place exception for an output of a custom operator sharing bytes with an "
                        "input that dies at that operator (byte-level safety is C03)"]
    return run.finish()


def replay(path):
    rp = json.load(open(path))["replay"]
    x = vela_run.compile_many([{"id": 0, "net": rp["net"], "opts": rp["opts"]}])[0]
    rec, err = plan_record(1, x["out_bytes"], rp["opts"].get("align", 16), x.get("summary_csv"), x.get("stdout"), rp["opts"]["accel"])
    if rec is None:
        print("replay:", err)
        return 1
    _, viol = tlc.validate_traces("ArenaTrace", "ArenaTrace.cfg", [rec])
    for v in viol:
        print("replay:", v)
    return 1 if viol else 0
