"""C05 - the tensor allocators never overlap live buffers, honour alignment and report their footprint;
HillClimb terminates within its iteration bound and stays above the peak live sum.

MC  : Alloc.tla (the property, relational) in a tiny scope against the consequences a caller relies on;
      AllocGreedy / AllocLinear / AllocHillClimb (transcriptions; hill climb with nondeterministic choice
      instead of the RNG) refine Alloc and satisfy one invariant per clause over small-scope lattices.
S2C : the same lattices (constants parsed from the very .cfg files TLC ran; the number of inputs is compared
      with TLC's count of Start transitions) are replayed through the REAL allocators of the working tree,
      plus random small and large sets, x three allocators x iteration limits x memory limits, plus
      tensor_allocation.allocate end to end on synthetic subgraphs.
C2S : every call is one record {ranges, addresses, total, iterations, raised}; AllocTrace.tla evaluates the
      operators of Alloc.tla on it (batches of thousands of records per TLC run, several runs in parallel).
      An exception from an allocator is a violation of Terminates.  Transcription-vs-code differences on the
      deterministic allocators are reported as drift in the evidence file, never as violations.  The hill-climb
      transcription is compared with the code step by step (AllocHillClimbTrace.tla: every ordering the real RNG
      produced must be one the transcription admits, every re-allocation size must agree, a ValueError only where
      the transcription predicts a one-element turn_list) - again drift only.
Controls: corrupted records must be rejected with the clause they break (every run); thorough: the transcription of
      the code as written (Guarded = FALSE) must reach the ValueError on the D10 input, the guarded one must not.
"""
import hashlib
import itertools
import json
import multiprocessing
import os
import random
import re
import sys
import time
from concurrent.futures import ThreadPoolExecutor

from .. import alloc_driver, tlc
from ..common import Run, MachineryError, SPEC, seed

INF = 1 << 30           # "no memory limit" that still fits TLC's integers
D10 = [(2, 4, 32, 128, 0), (0, 2, 16, 128, 0), (1, 4, 32, 16, 0), (3, 3, 32, 64, 0), (0, 1, 80, 128, 0)]
HC_PARAMS = [(1, INF), (10, "peak"), (50, 0), (None, INF)]
ALIGNS = (16, 32, 64, 128)
E2E_ALIGNS = (16, 32, 64, 128, 256)        # --cpu-tensor-alignment


# ------------------------------------------------------------------ lattice shared with TLC
def cfg_constants(cfg):
    out = {}
    for ln in open(os.path.join(SPEC, cfg)):
        m = re.match(r"\s*CONSTANT\s+(\w+)\s*=\s*(.+?)\s*$", ln)
        if not m:
            continue
        v = m.group(2)
        if v.startswith("{"):
            out[m.group(1)] = sorted(int(x) for x in re.findall(r"-?\d+", v))
        elif v in ("TRUE", "FALSE"):
            out[m.group(1)] = v == "TRUE"
        else:
            out[m.group(1)] = int(v)
    return out


def lattice(c):
    """The inputs Extend/Start of the specifications generate: multisets of descriptors as non-decreasing
    sequences w.r.t. Alloc!Key, lengths 1..MaxN."""
    desc = [(s, e, size, al, eq) for s in range(c["T"]) for e in range(s, c["T"]) for size in c["Sizes"]
            for al in c["Aligns"] for eq in c["Eqs"]]
    key = lambda d: (((d[0] * 8 + d[1]) * 1024 + d[2]) * 1024 + d[3]) * 4 + d[4]
    desc.sort(key=key)
    for n in range(1, c["MaxN"] + 1):
        for comb in itertools.combinations_with_replacement(desc, n):
            yield comb


def lattice_size(c):
    from math import comb
    d = (c["T"] * (c["T"] + 1) // 2) * len(c["Sizes"]) * len(c["Aligns"]) * len(c["Eqs"])
    return sum(comb(d + n - 1, n) for n in range(1, c["MaxN"] + 1))


def linear_admissible(r):
    for a in r:
        for b in r:
            if a[3] != b[3] or (a[4] != 0 and a[4] == b[4] and a[2] != b[2]):
                return False
    return True


def action_counts(output):
    """Coverage header lines '<Action line ..>: distinct:generated'; TLC repeats the block in long runs, keep the last."""
    acts = {}
    for m in re.finditer(r"^<(\w+) line \d+, col \d+ to line \d+, col \d+ of module (\w+)>: (\d+):(\d+)", output, re.M):
        acts[m.group(2) + "." + m.group(1)] = int(m.group(4))
    return acts


# ------------------------------------------------------------------ worker pool
def _init_worker(repo):
    os.environ["VERIF_REPO"] = repo
    devnull = os.open(os.devnull, os.O_WRONLY)
    os.dup2(devnull, 1)               # hillclimb prints a warning per call
    sys.setrecursionlimit(10000)
    alloc_driver.setup()


def _chunks(jobs, n):
    for i in range(0, len(jobs), n):
        yield jobs[i:i + n]


def canon(ranges):
    if len(ranges) <= 12:
        return ",".join("(%s)" % ",".join(str(x) for x in (r if r[4] else r[:4])) for r in ranges)
    return "n=%d#%s" % (len(ranges), hashlib.sha256(json.dumps([list(r) for r in ranges]).encode()).hexdigest()[:12])


def key_of(name, rec):
    k = "%s|%s|%s" % (name, rec["alg"], canon(rec["r"]))
    if rec["alg"].startswith("e2e"):
        src = ("uses", rec["uses"]) if "uses" in rec else ("graph", rec["graph"])
        k += "|%s=%s|align=%d" % (src[0], hashlib.sha256(json.dumps(src[1], sort_keys=True).encode()).hexdigest()[:12],
                                 rec["alignment"])
    if "hillclimb" in rec["alg"]:
        k += "|maxit=%s|limit=%s" % (rec["maxit"], rec.get("limit"))
    if rec["raised"]:
        k += "|" + rec["raised"]
    return k


def nontrivial(rec):
    r = rec["r"]
    for i in range(len(r)):
        for j in range(i + 1, len(r)):
            if r[i][0] <= r[j][1] and r[j][0] <= r[i][1]:
                return True
    return False


# ------------------------------------------------------------------ job generation
def hc_limit(lim, ranges):
    return alloc_driver.peak(ranges) if lim == "peak" else lim


class Jobs:
    """Job lists with ids that are unique over all stages of a run."""

    def __init__(self):
        self.next_id = 0
        self.tags = {}

    def direct(self, out, alg, ranges, maxit=None, limit=0, drift=False, tag=""):
        out.append(("direct", alg, tuple(ranges), maxit, limit, self.next_id, drift))
        self._count(tag or alg)

    def e2e(self, out, alg, uses, alignment, maxit, limit, tag):
        out.append(("e2e", alg, tuple(uses), alignment, maxit, limit, self.next_id))
        self._count(tag)

    def e2eg(self, out, alg, graph, alignment, maxit, limit, tag):
        out.append(("e2eg", alg, json.dumps(graph, sort_keys=True), alignment, maxit, limit, self.next_id))
        self._count(tag)

    def _count(self, tag):
        self.next_id += 1
        self.tags[tag] = self.tags.get(tag, 0) + 1


def lattice_plan(tier):
    """(cfg, allocator) pairs: every input of these lattices is model-checked by TLC AND replayed through the code."""
    if tier == "quick":
        return [("AllocGreedy_MC.cfg", "greedy"), ("AllocGreedy_Full2.cfg", "greedy"), ("AllocLinear_MC.cfg", "linear"),
                ("AllocHillClimb_Quick.cfg", "hillclimb")]
    return [("AllocGreedy_Five.cfg", "greedy"), ("AllocGreedy_Full.cfg", "greedy"), ("AllocLinear_MC.cfg", "linear"),
            ("AllocHillClimb_MC.cfg", "hillclimb")]


def stages(tier, sd, J, lat):
    """Yield (stage name, job list).  Stages bound the memory needed for records."""
    rng = random.Random(sd * 7919 + 5)
    quick = tier == "quick"
    out = []
    # regression seeds (inputs on which an allocator is known to have misbehaved)
    for p, lim in HC_PARAMS[:3]:
        J.direct(out, "hillclimb", D10, p, hc_limit(lim, D10), tag="seed")
    J.direct(out, "greedy", D10, drift=True, tag="seed")
    # --- random small sets (2-8 ranges, up to 6 time steps): lattice sizes and odd sizes
    nsmall = 9000 if quick else 160000
    for i in range(nsmall):
        k = rng.randrange(2, 9)
        r = alloc_driver.random_ranges(rng, k, rng.randrange(2, 7), "lattice" if i % 3 else "odd", ALIGNS)
        p, lim = HC_PARAMS[rng.randrange(3)] if i % 50 else HC_PARAMS[3]
        J.direct(out, "hillclimb", r, p, hc_limit(lim, r), tag="random-small")
        if i % 4 == 0:
            J.direct(out, "greedy", r, drift=True, tag="random-small")
            g = max(x[3] for x in r)
            first = {}
            rl = [(s, e, size, g, rng.choice((0, 0, 1, 2, 3))) for (s, e, size, _, _) in r]
            rl = [(s, e, first.setdefault(q, size) if q else size, al, q) for (s, e, size, al, q) in rl]
            J.direct(out, "linear", rl, drift=True, tag="random-small")
    # the full iteration budget with an unreachable memory limit (99999 iterations)
    for i in range(1 if quick else 12):
        r = alloc_driver.random_ranges(rng, rng.randrange(3, 6), 4, "lattice", ALIGNS)
        J.direct(out, "hillclimb", r, None, 0, tag="full-budget")
    # --- random large sets
    scale = 1 if quick else 8
    for i in range(120 * scale):
        r = alloc_driver.random_ranges(rng, rng.randrange(100, 401), rng.randrange(20, 400), "big", ALIGNS)
        J.direct(out, "greedy", r, tag="random-large")
    for i in range(60 * scale):
        g = rng.choice(ALIGNS)
        r = alloc_driver.random_ranges(rng, rng.randrange(100, 401), rng.randrange(1, 50), "big", (g,))
        first = {}
        r = [(s, e, size, al, rng.choice((0, 0, 0, 0, 1, 2, 3))) for (s, e, size, al, _) in r]
        r = [(s, e, first.setdefault(q, size) if q else size, al, q) for (s, e, size, al, q) in r]
        J.direct(out, "linear", r, tag="random-large")
    for i in range(40 * scale):
        r = alloc_driver.random_ranges(rng, rng.randrange(20, 70), rng.randrange(10, 80), "big", ALIGNS)
        p, lim = HC_PARAMS[rng.randrange(3)]
        J.direct(out, "hillclimb", r, p, hc_limit(lim, r), tag="random-medium")
    for i in range(4 if quick else 64):
        # the cost of one run grows with the square of the number of ranges (>= 500 iterations): 100-200 in quick
        r = alloc_driver.random_ranges(rng, rng.randrange(100, 201) if quick else rng.randrange(150, 301),
                                       rng.randrange(50, 300), "big", ALIGNS)
        p, lim = [(1, INF), (10, INF)][i % 2]
        J.direct(out, "hillclimb", r, p, lim, tag="random-large")
    # --- tensor_allocation.allocate end to end
    for i in range(400 * scale):
        ncps = rng.randrange(1, 9 if i % 10 else 60)
        nt = rng.randrange(1, 10 if i % 10 else 120)
        uses = []
        for _ in range(nt):
            a = rng.randrange(ncps)
            b = min(ncps - 1, a + rng.randrange(1 + ncps // 2))
            uses.append((a, b, rng.choice((rng.randrange(1, 300), 16 * rng.randrange(1, 64), rng.randrange(1, 1 << 18)))))
        alg = ("greedy", "linear", "hillclimb")[i % 3]
        p, lim = HC_PARAMS[rng.randrange(3)]
        J.e2e(out, alg, uses, rng.choice(E2E_ALIGNS), p, 4096 if lim == "peak" else lim, "e2e-" + alg)
    # ... and on a CPU subgraph calling NPU subgraphs: ranges requested twice (cpu_tensor_alignment by the CPU side, 16 by
    # the NPU side, in both orders); every graph x cpu_tensor_alignment in {16..256} x the three allocators
    for i in range(60 * scale):
        graph = alloc_driver.random_graph(rng, rng.randrange(1, 7), i % 4 != 0)
        p, lim = HC_PARAMS[rng.randrange(3)]
        for al in E2E_ALIGNS:
            for alg in ("greedy", "linear", "hillclimb"):
                J.e2eg(out, alg, graph, al, p, 4096 if lim == "peak" else lim, "e2e2-" + alg)
    yield "random", out

    # --- S2C: the lattices TLC model-checks, complete
    for cfg, alg in lattice_plan(tier):
        c = cfg_constants(cfg)
        out, n = [], 0
        for r in lattice(c):
            if alg == "linear" and not linear_admissible(r):
                continue
            n += 1
            if alg == "hillclimb":
                for p, lim in HC_PARAMS:
                    J.direct(out, alg, r, p, hc_limit(lim, r), tag="lattice-hillclimb")
            else:
                J.direct(out, alg, r, drift=True, tag="lattice-" + alg)
            if len(out) >= 300000:
                yield "lattice:" + cfg, out
                out = []
        lat[cfg] = n
        if out:
            yield "lattice:" + cfg, out
    # hill climb over a seeded sample of the larger greedy lattice, one parameter combination each
    c = cfg_constants("AllocGreedy_MC.cfg" if quick else "AllocGreedy_Five.cfg")
    total = lattice_size(c)
    want = 15000 if quick else 200000
    out = []
    for r in lattice(c):
        if rng.random() * total < want:
            p, lim = HC_PARAMS[rng.randrange(3)]
            J.direct(out, "hillclimb", r, p, hc_limit(lim, r), tag="lattice-hillclimb-sample")
    yield "lattice-sample:hillclimb", out


# ------------------------------------------------------------------ model checking
def mc_plan(tier):
    quick = tier == "quick"
    plan = [  # (module, cfg, workers, must-fire actions, timeout)
        ("Alloc", "Alloc_MC.cfg", 4, ("Alloc.Extend", "Alloc.Allocate"), 600),
        # the refinement PROPERTY is evaluated per transition and is slow on a busy machine: 2 ranges in quick
        ("AllocGreedy", "AllocGreedy_Refine2.cfg" if quick else "AllocGreedy_Refine.cfg", 4,
         ("AllocGreedy.Start", "AllocGreedy.AllocStep"), 900),
        ("AllocLinear", "AllocLinear_MC.cfg", 4, ("AllocLinear.Start", "AllocLinear.AllocStep"), 900),
    ]
    if quick:
        plan += [("AllocGreedy", "AllocGreedy_MC.cfg", 6, ("AllocGreedy.Start", "AllocGreedy.AllocStep"), 900),
                 ("AllocGreedy", "AllocGreedy_Full2.cfg", 4, ("AllocGreedy.Start", "AllocGreedy.AllocStep"), 900),
                 ("AllocHillClimb", "AllocHillClimb_Quick.cfg", 6,
                  ("AllocHillClimb.Start", "AllocHillClimb.Iterate", "AllocHillClimb.Exit"), 900)]
    else:
        plan += [("AllocGreedy", "AllocGreedy_Five.cfg", 8, ("AllocGreedy.Start", "AllocGreedy.AllocStep"), 3000),
                 ("AllocGreedy", "AllocGreedy_Full.cfg", 8, ("AllocGreedy.Start", "AllocGreedy.AllocStep"), 3000),
                 ("AllocHillClimb", "AllocHillClimb_MC.cfg", 8,
                  ("AllocHillClimb.Start", "AllocHillClimb.Iterate", "AllocHillClimb.Exit"), 3000),
                 ("AllocHillClimb", "AllocHillClimb_D10fixed.cfg", 6,
                  ("AllocHillClimb.Start", "AllocHillClimb.Iterate"), 3000)]
    return plan


def run_mc(item):
    module, cfg, workers, must, timeout = item
    res = tlc.run(module, cfg, workers=workers, coverage=True, timeout=timeout, heap="4g")
    return item, res


def check_mc(run, item, res, lat):
    module, cfg, workers, must, timeout = item
    tlc.must_ok(res, "%s/%s" % (module, cfg))
    acts = action_counts(res["output"])
    res["actions"] = acts
    run.add_mc("%s(%s)" % (module, cfg), res)
    for a in must:
        if acts.get(a, 0) == 0:
            raise MachineryError("vacuity: action %s never taken in %s" % (a, cfg))
    if cfg in lat:
        got = acts.get(module + ".Start", 0)
        div = len(cfg_constants(cfg).get("MaxIters", [0])) * len(cfg_constants(cfg).get("MemLimits", [0]))
        if got != lat[cfg] * div:
            raise MachineryError("S2C binding: TLC started %d inputs of %s, the harness replays %d" % (got, cfg, lat[cfg] * div))


# ------------------------------------------------------------------ trace validation
def tlc_batch(module, cfg, events, timeout=3000, heap="3g"):
    """Like tlc.validate_traces, but reads the <<"TAG", json>> lines wherever TLC's pretty printer put the line
    breaks (a tuple longer than 80 columns is printed as '<< "TAG",\\n   "..." >>')."""
    import shutil
    from ..common import scratch
    d = scratch("c05trace")
    path = os.path.join(d, "trace.ndjson")
    try:
        with open(path, "w") as f:
            for e in events:
                f.write(json.dumps(e, separators=(",", ":")) + "\n")
        res = tlc.run(module, cfg, workers=1, timeout=timeout, heap=heap, env={"TRACE_FILE": path})
    finally:
        shutil.rmtree(d, ignore_errors=True)
    if not res.ok:
        raise MachineryError("trace validation %s/%s: TLC status %s\n%s" % (module, cfg, res["status"], res["output"][-4000:]))
    tagged = {}
    for m in re.finditer(r'<<\s*"(VERDICT|DRIFT)",\s*("(?:[^"\\]|\\.)*")\s*>>', res["output"], re.S):
        items = json.loads(tlc.parse_value(m.group(2)))
        tagged.setdefault(m.group(1), [])
        tagged[m.group(1)] += [x for x in items if x not in tagged[m.group(1)]] if len(items) < 2000 else items
    if "VERDICT" not in tagged:
        raise MachineryError("trace validation %s: no VERDICT\n%s" % (module, res["output"][-3000:]))
    return res, tagged


def validate(batch):
    for r in batch:
        for k in ("uses", "graph", "alignment", "limit"):
            r.pop(k, None)
    t0 = time.time()
    res, tagged = tlc_batch("AllocTrace", "AllocTrace.cfg", batch)
    if "DRIFT" not in tagged:
        raise MachineryError("trace validation AllocTrace: no DRIFT line")
    res["wall"] = time.time() - t0
    return res, tagged["VERDICT"], tagged["DRIFT"]


def cost(rec):
    n = len(rec["r"])
    return 40 + n * n


def batches(records, nbatch):
    """Split into batches of comparable TLC cost (pairs of ranges dominate), at most ~40k records each."""
    out, cur, c = [], [], 0
    total = sum(cost(r) for r in records)
    target = max(total // nbatch + 1, 1)
    for r in records:
        cur.append(r)
        c += cost(r)
        if c >= target or len(cur) >= 40000:
            out.append(cur)
            cur, c = [], 0
    if cur:
        out.append(cur)
    return out


CLAUSES = ("NoOverlapLive", "Aligned", "TotalOK", "AboveLowerBound", "Terminates", "AssignsAll")
MAX_LISTED = 200        # distinct violating inputs written as replay files per run (all are counted)


def negative_controls(run, good):
    """Corrupt genuine records: each corruption must be rejected with exactly the clause it breaks."""
    def pick(pred):
        for r in good:
            if pred(r):
                return json.loads(json.dumps(r))
        raise MachineryError("negative control: no suitable genuine record")

    def two_live(r):
        q = r["r"]
        return r["raised"] == "" and r["alg"] == "greedy" and len(q) >= 2 and q[0][0] <= q[1][1] and q[1][0] <= q[0][1]
    ctl = []
    a = pick(two_live)
    a["addr"][1] = a["addr"][0]
    ctl.append((a, {"NoOverlapLive"}, "two live ranges at one address"))
    b = pick(lambda r: r["raised"] == "" and r["alg"] == "greedy" and len(r["r"]) <= 12)
    b["r"] = b["r"][:1]
    b["addr"] = [b["addr"][0] + 8]
    b["total"] = b["addr"][0] + b["r"][0][2]
    ctl.append((b, {"Aligned"}, "address off by 8"))
    c = pick(lambda r: r["raised"] == "" and r["alg"] == "hillclimb" and len(r["r"]) >= 2)
    c["total"] -= 1
    ctl.append((c, {"TotalOK"}, "total under-reported by one byte"))
    d = pick(lambda r: r["raised"] == "" and r["alg"] == "hillclimb" and len(r["r"]) >= 2)
    d["total"] += 4096
    ctl.append((d, {"TotalOK"}, "total over-reported by a page"))
    e = pick(lambda r: r["raised"] == "" and r["alg"] == "hillclimb" and r["iters"] > 0)
    e["iters"] = e["maxit"] + e["minimp"] * (e["impr"] + 1) + 1
    ctl.append((e, {"Terminates"}, "one iteration beyond the bound"))
    f = pick(lambda r: r["raised"] == "" and r["alg"] == "hillclimb")
    f["raised"], f["addr"], f["total"] = "ValueError: injected @ control", [], -1
    ctl.append((f, {"Terminates"}, "exception"))
    g = pick(lambda r: r["raised"] == "" and r["alg"] == "linear" and len(set(x[4] for x in r["r"] if x[4])) >= 2
             and len(r["r"]) <= 12)
    cls = sorted(set(x[4] for x in g["r"] if x[4]))[:2]
    i0 = [i for i, x in enumerate(g["r"]) if x[4] == cls[0]][0]
    i1 = [i for i, x in enumerate(g["r"]) if x[4] == cls[1]][0]
    g["r"][i1][0], g["r"][i1][1] = g["r"][i0][0], g["r"][i0][1]
    g["addr"][i1] = g["addr"][i0]
    g["drift"] = False
    ctl.append((g, {"NoOverlapLive"}, "ranges of different equivalence classes share an address"))
    h2 = pick(two_live)
    h2["r"] = h2["r"][:2]
    h2["addr"] = [0, 0]
    h2["total"] = max(h2["r"][0][2], h2["r"][1][2])
    ctl.append((h2, {"NoOverlapLive", "AboveLowerBound"}, "stacked live ranges: footprint below the peak live sum"))
    batch = []
    for i, (rec, _, _) in enumerate(ctl):
        rec["t"] = i
        rec["drift"] = False
        batch.append(rec)
    res, viol, _ = validate(batch)
    got = {}
    for t, name in viol:
        got.setdefault(t, set()).add(name)
    out = []
    for i, (rec, want, what) in enumerate(ctl):
        g_ = got.get(i, set())
        # moving a buffer or shrinking the total may also change the highest end / undercut the peak live sum
        ok = want <= g_ and g_ <= want | ({"TotalOK", "AboveLowerBound"} if "Terminates" not in want else set())
        out.append({"control": what, "expected": sorted(want), "rejected_as": sorted(g_)})
        if not ok:
            raise MachineryError("negative control '%s': expected %s, TLC said %s" % (what, sorted(want), sorted(g_)))
    run.cov["negative_controls"] = out
    run.add_trace_run("AllocTrace(negative controls)", res, 0)


# ------------------------------------------------------------------ main
def run_stage(pool, jobs, sd):
    order = sorted(range(len(jobs)), key=lambda i: -_weight(jobs[i]))
    heavy = [jobs[i] for i in order if _weight(jobs[i]) >= 1000]
    light = [jobs[i] for i in order if _weight(jobs[i]) < 1000]
    random.Random(sd).shuffle(light)
    chunks = [[j] for j in heavy] + list(_chunks(light, 500))
    results = pool.map(alloc_driver.run_jobs, chunks, chunksize=1)
    records = [r for ch in results for r in ch]
    if len(records) != len(jobs):
        raise MachineryError("lost records: %d jobs, %d records" % (len(jobs), len(records)))
    records.sort(key=lambda r: r["t"])
    return records


def main(tier):
    run = Run("C05", tier)
    sd = seed()
    quick = tier == "quick"
    from .. import common
    st = alloc_driver.setup()
    run.cov["min_iterations_improve"] = st["min_improve"]
    # model checking in the background (threads -> TLC subprocesses) while the real code is exercised
    mc_pool = ThreadPoolExecutor(3 if quick else 4)
    mc_futs = [mc_pool.submit(run_mc, item) for item in mc_plan(tier)]
    neg_fut = None if quick else mc_pool.submit(tlc.run, "AllocHillClimb", "AllocHillClimb_D10.cfg", 6, 3000)
    J, lat = Jobs(), {}
    stats, drift_examples, ndrift, ncompared, did_controls, nviol = {}, [], 0, 0, False, {}
    stage_log = []
    ctx = multiprocessing.get_context("fork")
    with ctx.Pool(10 if quick else 12, initializer=_init_worker, initargs=(common.REPO,)) as pool, \
            ThreadPoolExecutor(8 if quick else 10) as vex:
        def finalize(pend):
            """Collect the TLC verdicts of a stage whose records were validated while the next stage was replayed."""
            nonlocal ndrift
            name, records, meta, job_of, bs, futs, tlog = pend
            outs = [f.result() for f in futs]
            by_id = {r["t"]: r for r in records}
            for (res, viol, drift), b in zip(outs, bs):
                run.add_trace_run("AllocTrace[%s]" % name, res, len(b))
                ndrift += len(drift)
                for t in drift[:2]:
                    if len(drift_examples) < 6:
                        drift_examples.append({k: by_id[t][k] for k in ("alg", "r", "addr", "total")})
                for t, cl in viol:
                    nviol[cl] = nviol.get(cl, 0) + 1
                    if len(run.violations) >= MAX_LISTED:        # every further one would only add a replay file
                        continue
                    r = dict(by_id[t], **meta[t])
                    what = "%s: %s on %d ranges%s -> addr=%s total=%s iters=%s%s" % (
                        cl, r["alg"], len(r["r"]), (" " + canon(r["r"])) if len(r["r"]) <= 12 else "",
                        r["addr"] if len(r["r"]) <= 12 else "...", r["total"], r["iters"],
                        (" raised " + r["raised"]) if r["raised"] else "")
                    if "hillclimb" in r["alg"]:
                        what += " (max_iterations=%s memory_limit=%s)" % (r["maxit"], r.get("limit"))
                    if r["alg"].startswith("e2e"):
                        what += " (cpu_tensor_alignment=%s)" % r.get("alignment")
                    run.violation(key_of(cl, r), what, {"job": job_of[t], "record": r})
            tlog["validated_after_s"] = round(time.time() - tlog.pop("t0"), 1)
            stage_log.append(tlog)
            if os.environ.get("VERIF_DEBUG"):
                print("stage", tlog, file=sys.stderr)

        def merged(gen):
            """quick: one stage for the random inputs, one for all lattices (fewer TLC start-ups)."""
            first, rest = None, []
            for name, jobs in gen:
                if first is None:
                    first = (name, jobs)
                    yield first
                else:
                    rest += jobs
            if rest:
                yield "lattices", rest

        pending = None
        gen = stages(tier, sd, J, lat)
        for name, jobs in (merged(gen) if quick else gen):
            t0 = time.time()
            records = run_stage(pool, jobs, sd)
            t1 = time.time()
            job_of = {j[5] if j[0] == "direct" else j[6]: j for j in jobs}   # e2e / e2eg carry the id last
            meta = {}
            for r in records:
                for v in r["addr"] + [r["total"], r["iters"]] + [x for q in r["r"] for x in q]:
                    if v >= (1 << 31) or v < -1:
                        raise MachineryError("number out of TLC range in record %d" % r["t"])
                meta[r["t"]] = {k: r.get(k) for k in ("uses", "graph", "alignment", "limit") if r.get(k) is not None}
                run.evaluated()
                if nontrivial(r):
                    run.nontrivial(hash((r["alg"], r["maxit"], tuple(map(tuple, r["r"])))))
                s = stats.setdefault(r["alg"], {"records": 0, "raised": 0, "max_ranges": 0, "max_iters": 0})
                s["records"] += 1
                s["raised"] += 1 if r["raised"] else 0
                s["max_ranges"] = max(s["max_ranges"], len(r["r"]))
                s["max_iters"] = max(s["max_iters"], r["iters"])
                ncompared += 1 if r["drift"] else 0
            bs = batches(records, 8 if quick else 12)
            futs = [vex.submit(validate, [dict(r) for r in b]) for b in bs]
            if not did_controls:
                for r in records[:3] + [x for x in records if x["alg"].startswith("e2e")][:2]:
                    run.sample({k: r[k] for k in ("alg", "r", "addr", "total", "iters", "impr", "maxit", "raised")}
                               if len(r["r"]) <= 8 else {"alg": r["alg"], "ranges": len(r["r"]), "total": r["total"]})
                negative_controls(run, records)
                did_controls = True
            if pending is not None:
                finalize(pending)
            pending = (name, records, meta, job_of, bs, futs,
                       {"stage": name, "records": len(records), "replay_s": round(t1 - t0, 1), "t0": t1})
        # ---- conformance of the hill-climb transcription with the code (drift only)
        t0 = time.time()
        rng = random.Random(sd * 31 + 7)
        sj = [("steps", tuple(D10), 50, 0, 0)]
        for t in range(1, 80 if quick else 700):
            r = alloc_driver.random_ranges(rng, rng.randrange(2, 9), rng.randrange(2, 7), "lattice" if t % 3 else "odd", ALIGNS)
            p, lim = HC_PARAMS[rng.randrange(3)]
            sj.append(("steps", tuple(r), p, hc_limit(lim, r), t))
        traces = [ev for ch in pool.map(alloc_driver.run_jobs, list(_chunks(sj, 8)), chunksize=1) for ev in ch]
        if pending is not None:
            finalize(pending)
        groups, cur, n = [], [], 0
        for ev in traces:
            cur += ev
            n += len(ev)
            if n >= 6000:
                groups.append(cur)
                cur, n = [], 0
        if cur:
            groups.append(cur)
        outs = list(vex.map(lambda g_: tlc_batch("AllocHillClimbTrace", "AllocHillClimbTrace.cfg", g_), groups))
        hdrift = [d for _, v in outs for d in v["VERDICT"]]
        for (res, _), g_ in zip(outs, groups):
            run.add_trace_run("AllocHillClimbTrace", res, len(set(e["t"] for e in g_)))
        hc_conf = {"step_traces": len(traces), "events": sum(len(e) for e in traces),
                   "raised": sum(1 for e in traces if e and e[-1]["ev"] == "raise"),
                   "differing_steps": len(hdrift), "examples": hdrift[:5],
                   "constants": {"MIN_ITERATIONS_IMPROVE": st["min_improve"], "MAX_ITERATIONS_STUCK": st["max_stuck"]}}
        stage_log.append({"stage": "hillclimb-conformance", "records": len(traces), "replay+validate_s": round(time.time() - t0, 1)})
    run.cov["stages"] = stage_log
    run.cov["jobs"] = J.tags
    run.cov["lattice_inputs"] = lat
    # ---- MC results
    for f in mc_futs:
        item, res = f.result()
        check_mc(run, item, res, lat)
    if neg_fut is not None:
        neg = neg_fut.result()
        run.add_mc("AllocHillClimb(D10 input, Guarded=FALSE: control)", neg)
        if neg["status"] != "invariant" or neg.get("violated") != "Terminates":
            raise MachineryError("control failed: the unguarded transcription does not reach the ValueError on the D10 "
                                 "input (status %s)" % neg["status"])
        run.cov["model_findings"] = ["AllocHillClimb with Guarded=FALSE (code as written) reaches Raise (turn_list of "
                                     "length 1) on the D10 input; with Guarded=TRUE every invariant holds on it"]
    mc_pool.shutdown()
    # ---- evidence
    run.cov["per_allocator"] = stats
    run.cov["violating_records_per_clause"] = nviol
    run.cov["drift"] = {"compared": ncompared, "differing": ndrift, "examples": drift_examples,
                        "hillclimb_steps": hc_conf}
    run.cov["rule"] = ("one record per call of a real allocator (greedy_allocation.allocate_live_ranges, "
                       "tensor_allocation.linear_allocate_live_ranges, tensor_allocation.hillclimb_allocate_live_ranges -> "
                       "hillclimb_allocation.allocate_live_ranges, tensor_allocation.allocate on synthetic networks: one CPU "
                       "subgraph, and CPU subgraphs calling NPU subgraphs so that live ranges are requested twice with "
                       "different alignments in both orders, x cpu_tensor_alignment 16..256). Inputs: "
                       "every point of the lattices TLC model-checks (constants parsed from the same .cfg, counts compared), "
                       "seeded random small sets (2-8 ranges, lattice and odd sizes, alignments 16..128), random large sets "
                       "(100-400 ranges, sizes up to 2^20), hill climb x (max_iterations, memory_limit) in "
                       "{(1,inf),(10,peak),(50,0),(default,inf),(default,0)}. non-trivial = at least two ranges alive at a "
                       "common time step; distinct = distinct (allocator, iteration limit, ranges)")
    run.assumptions += [
        "TotalOK reads 'equals the highest end address' as: never below it, at most the highest end rounded up to that "
        "buffer's own alignment, exact when every size is a multiple of its alignment (Greedy and LinearAlloc round sizes up)",
        "end to end: the alignment a live range has to honour is the maximum requested for it (cpu_tensor_alignment where "
        "the tensor is visible in the CPU subgraph, 16 for NPU-subgraph look-ups), computed from the synthetic graph, not "
        "read back from the LiveRange; an AllocationError from verify_alignment/verify_allocation is an observation",
        "LinearAlloc: the requested alignment is the alloc_granularity argument; ranges carry it as their alignment; ranges "
        "of one equivalence class (equal weight_compression_config / clones of one LUT) have one size",
        "HillClimb iteration bound: calls of attempt_bottleneck_fix <= max_iterations + MIN_ITERATIONS_IMPROVE * "
        "(strict improvements + 1)",
        "hill-climb transcription: RNG replaced by nondeterministic choice, tuning constants scaled down "
        "(MinImprove=2, MaxStuck=1)"]
    return run.finish()


def _weight(job):
    if job[0] == "direct":
        n = len(job[2])
        if job[1] == "hillclimb":
            return n * n * 8 if n > 12 else (2000 if job[3] is None and job[4] == 0 else 10)
        return n
    if job[0] == "e2eg":
        return 60 if job[1] == "hillclimb" else 5
    return len(job[2]) * (20 if job[1] == "hillclimb" else 1)


def replay(path):
    rp = json.load(open(path))["replay"]
    job = rp["job"]
    job = tuple(tuple(map(tuple, x)) if isinstance(x, list) and x and isinstance(x[0], list) else x for x in job)
    devnull = os.open(os.devnull, os.O_WRONLY)
    saved = os.dup(1)
    os.dup2(devnull, 1)
    try:
        rec = alloc_driver.run_job(job)
    finally:
        os.dup2(saved, 1)
    rec["t"] = 0
    shown = {k: rec[k] for k in ("alg", "addr", "total", "iters", "impr", "maxit", "raised")}
    res, viol, _ = validate([dict(rec)])
    print("replayed:", json.dumps(shown))
    print("clauses violated:", sorted(set(v[1] for v in viol)))
    return 1 if viol else 0


def selftest():
    """Negative controls only (corrupted records must be rejected)."""
    run = Run("C05", "quick")
    rng = random.Random(1)
    recs = []
    alloc_driver.setup()
    devnull = os.open(os.devnull, os.O_WRONLY)
    saved = os.dup(1)
    os.dup2(devnull, 1)
    try:
        for i in range(300):
            r = alloc_driver.random_ranges(rng, rng.randrange(1, 6), 3, "lattice", ALIGNS)
            recs.append(alloc_driver.call("greedy", r, rec_id=len(recs)))
            recs.append(alloc_driver.call("hillclimb", r, 10, 0, rec_id=len(recs)))
            g = max(x[3] for x in r)
            recs.append(alloc_driver.call("linear", [(s, e, 48, g, (k % 3)) for k, (s, e, _, _, _) in enumerate(r)],
                                          rec_id=len(recs)))
    finally:
        os.dup2(saved, 1)
    negative_controls(run, recs)
    print(json.dumps(run.cov["negative_controls"], indent=1))
    run.cleanup()
    return 0
