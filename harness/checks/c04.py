"""C04 - conflicting NPU/DMA accesses are always separated by a wait or a block dependency.

MC  : WaitDep.tla = transcription of Vela's wait insertion composed with the hardware model NpuHw.tla;
      exhaustive for op sequences of length <= N over 3 cells, both DMA queue depths; a deliberately broken
      watermark must violate NoHazard (negative control).
S2C : OpSeq.tla behaviours (TLC -simulate) are realised as real NpuOperation lists, pushed through
      api.npu_generate_register_command_stream for U55 and U65, decoded, and
C2S : every stream (those and the streams of the compiled corpus) is validated by NpuExecTrace.tla, where TLC
      explores all completion orders and evaluates NoDmaKernelHazard, BlockDepSafe and LutRule.
"""
import json
import random

from .. import apiops, artefact, corpus, npuhw, opseq, stream_events, streams, tlc, vela_run
from ..common import Run, MachineryError, seed

ACCELS = ["ethos-u55-32", "ethos-u55-64", "ethos-u55-128", "ethos-u55-256", "ethos-u65-256", "ethos-u65-512"]


def mc(run, tier):
    n = 4 if tier == "quick" else 5
    for cfg, want in (("WaitDep_U55.cfg", "ok"), ("WaitDep_U65.cfg", "ok"), ("WaitDep_Broken.cfg", "invariant")):
        text = open(tlc.SPEC + "/" + cfg).read().replace("N = 4", "N = %d" % n)
        import os
        tmpcfg = "_tmp_%d_%s_%s" % (os.getpid(), tier, cfg)      # per process: checks run concurrently from this tree
        with open(tlc.SPEC + "/" + tmpcfg, "w") as f:
            f.write(text)
        try:
            res = tlc.run("WaitDep", tmpcfg, workers=16, coverage=(cfg == "WaitDep_U55.cfg" and tier == "quick"),
                          timeout=1500)
        finally:
            os.remove(tlc.SPEC + "/" + tmpcfg)
        if res["status"] != want:
            raise MachineryError("WaitDep %s: expected %s, got %s\n%s" % (cfg, want, res["status"], res["output"][-2000:]))
        run.add_mc("WaitDep/" + cfg, res)
        if res["actions"]:
            for a in ("Gen", "KWait", "DWait", "Issue", "DoneK", "DoneD"):
                if res["actions"].get("WaitDep." + a, 0) == 0:
                    raise MachineryError("vacuity: WaitDep action %s never taken" % a)


def mc_inductive(run, tier):
    """unbounded safety of the wait insertion (WaitDepInd.tla): Apalache discharges Init => IndInv and
    IndInv /\\ Next => IndInv' for both DMA queue depths, operations over arbitrary subsets of 3 (quick) / 4 (thorough)
    cells, so NoHazard (a conjunct of IndInv) holds for streams of ANY length; controls: the broken watermark is not
    inductive, IndInit admits the interesting states; TLC ties the typed copy of the algorithm back to WaitDep.tla
    (refinement) and confirms IndInv on every reachable state of the bounded model."""
    from concurrent.futures import ThreadPoolExecutor
    from .. import apalache
    obl = [("U65 step", "CInitU65", "IndInit", "IndInv", 1, "ok"), ("U55 step", "CInitU55", "IndInit", "IndInv", 1, "ok"),
           ("U65 base", "CInitU65", "Init", "IndInv", 0, "ok"), ("U55 base", "CInitU55", "Init", "IndInv", 0, "ok"),
           ("broken watermark step", "CInitBroken", "IndInit", "IndInv", 1, "violated"),
           ("non-vacuity witness", "CInitU65", "IndInit", "WitnessFull", 0, "violated")]
    if tier != "quick":
        obl.append(("U65 step, 4 cells", "CInitU65Cells4", "IndInit", "IndInv", 1, "ok"))
    with ThreadPoolExecutor(4) as ex:
        futs = [(o, ex.submit(apalache.check, "WaitDepInd_Apa.tla", o[1], o[2], o[3], o[4], 1500)) for o in obl]
        rcfg = [(c, ex.submit(tlc.run, "WaitDepInd_Refines", c, workers=4, timeout=1500, coverage=(c.endswith("U65.cfg"))))
                for c in ("WaitDepInd_Refines_U65.cfg", "WaitDepInd_Refines_U55.cfg")]
        done = []
        for o, f in futs:
            r = apalache.must(f.result(), o[5], "WaitDepInd " + o[0])
            done.append({"obligation": o[0], "outcome": r["status"], "expected": o[5], "wall_s": round(r["wall"], 1), "cmd": r["obligation"]})
        for c, f in rcfg:
            res = f.result()
            tlc.must_ok(res, "WaitDepInd_Refines/" + c)
            run.add_mc("WaitDepInd_Refines/" + c, res)
    run.cov["inductive_proof"] = {"engine": "apalache-mc 0.58 (SMT)", "module": "spec/WaitDepInd.tla", "obligations": done,
                                  "meaning": "IndInv is inductive and implies NoHazard: the waits emitted by the transcribed "
                                             "get_wait_dependency keep streams of unbounded length hazard free under A-HW1/2"}


def mc_blockdep(run):
    lattice = None
    # Deep: the wide parameter lattice (kernels to 5 rows, stride 3, pads to 2, blocks to 4 rows, 3 depth slices, micro-block
    # heights 1/2/4; 224 208 points at MaxH = 16, 1 194 912 at MaxH = 40), DeepD5: the D5 control on that lattice
    deep = [("BlockDep_Deep.cfg", "ok"), ("BlockDep_DeepD5.cfg", "invariant")]
    if run.tier != "quick":
        deep.append(("BlockDep_Deep40.cfg", "ok"))
    for cfg, want in [("BlockDep_MC.cfg", "ok"), ("BlockDep_D5.cfg", "invariant"), ("BlockDep_W3.cfg", "invariant"),
                      ("BlockDep_W0.cfg", "invariant")] + deep:
        res = tlc.run("BlockDep", cfg, workers=16, timeout=900)
        if res["status"] != want:
            raise MachineryError("BlockDep %s: expected %s, got %s\n%s" % (cfg, want, res["status"], res["output"][-2000:]))
        run.add_mc("BlockDep/" + cfg, res)
        if cfg == "BlockDep_MC.cfg":
            lattice = res
    return lattice


def api_streams(run, nlists, sd, accels):
    res, finals = tlc.simulate_final_states("OpSeq", "OpSeq.cfg", nlists, 139, sd + 11)
    run.add_mc("OpSeq(simulate)", res)
    out = []
    for k, st in enumerate(finals):
        for accel in accels:
            descs = opseq.realise_list(st["ops"], accel)
            try:
                words, _ = apiops.generate(descs, accel)
            except Exception as e:     # the generator refused a legal list: a C06/C15 matter, not a hazard
                run.cov.setdefault("api_rejections", []).append("%s: %s" % (type(e).__name__, str(e)[:120]))
                continue
            out.append({"src": "api", "accel": accel, "abstract": st["ops"], "descs": descs, "words": words})
            if k % 4 == 0:
                # history: the same operation objects are handed to the generator a second time with other buffers
                nb = 3
                recs2 = [dict(r, r=r["r"] % nb + 1, w=(r["w"] + 1) % nb + 1, wb=(0 if r["wb"] == 0 else r["wb"] % nb + 1))
                         for r in st["ops"]]
                descs2 = opseq.realise_list(recs2, accel)
                try:
                    words2, _ = apiops.generate_reusing(descs, descs2, accel)
                except Exception as e:
                    run.cov.setdefault("api_rejections", []).append("reuse %s: %s" % (type(e).__name__, str(e)[:120]))
                    continue
                out.append({"src": "api", "accel": accel, "abstract": recs2, "descs": descs2, "words": words2, "reused": True})
    return out


def blockdep_pairs(run, res, tier, sd):
    """S2C for the block dependency: the parameter lattice TLC enumerated for BlockDep.tla (CASE lines of the MC run), crossed
    with an independent horizontal stride, realised as producer / consumer pairs of real operations through the public
    generator; the emitted BLOCKDEP is judged like every other stream (NpuExecTrace: BlockDepSafe)."""
    import random
    import re
    cases = []
    for m in re.finditer(r'<<\s*"CASE"((?:,\s*-?\d+){9})\s*>>', res["output"]):
        v = [int(x) for x in m.group(1).replace(",", " ").split()]
        cases.append(dict(zip(("H", "pb", "k", "s", "pt", "pr", "cb", "idb", "uh"), v)))
    cases = [q for q in cases if q["idb"] == 1 and q["uh"] == 1]     # depth slicing and the micro-block are properties of the realisation
    if len(cases) < 500:
        raise MachineryError("BlockDep MC printed only %d CASE lines" % len(cases))
    rng = random.Random(sd + 77)
    rng.shuffle(cases)
    if tier == "quick":
        cases = cases[:420]
    out, refused = [], 0
    for i, q in enumerate(cases):
        for sx in (1, 2, 3):
            if tier == "quick" and sx != 1 + (i + q["s"]) % 3 and sx == q["s"]:
                continue            # quick: prefer the asymmetric stride pairs
            for accel in ("ethos-u55-128", "ethos-u65-256"):
                descs = opseq.blockdep_pair(q, sx, accel)
                if descs is None:
                    continue
                try:
                    words, _ = apiops.generate(descs, accel)
                except Exception as e:
                    refused += 1
                    run.cov.setdefault("api_rejections", []).append("blockdep pair %s: %s" % (type(e).__name__, str(e)[:120]))
                    continue
                out.append({"src": "api", "accel": accel, "abstract": [dict(q, sx=sx, lattice="BlockDep")], "descs": descs, "words": words})
    if len(out) < 200:
        raise MachineryError("only %d BlockDep lattice points could be realised (%d refused by the generator)" % (len(out), refused))
    run.cov["blockdep_lattice"] = {"cases": len(cases), "streams": len(out), "refused_by_generator": refused}
    return out


def corpus_streams(run, n, sd):
    jobs = corpus.all_singles(sd, tier=run.tier) + corpus.draw(n, sd, dedicated_bias=0.3)
    # graph shapes (corpus_shapes.py); emphasis: consumers with different strides in x and y right behind their producer
    jobs += corpus.shape_jobs(sd, run.tier, extra=["astride"] * 5, thorough=15)
    rs = vela_run.compile_many(jobs)
    out = []
    for j, x in zip(jobs, rs):
        if x["rc"] != 0 or "out_bytes" not in x:
            continue   # C13 judges failures to compile
        _, ss = streams.analyse(x["out_bytes"])
        for s in ss:
            out.append({"src": "compiled", "accel": s["accel"], "family": j["family"], "net": j["net"],
                        "opts": j["opts"], "ops": s["ops"]})
    return out


def to_events(tid, item):
    if "ops" in item:
        ops = item["ops"]
    else:
        ops = artefact.ops_with_waits(artefact.decode(item["words"]))
        for o in ops:
            o["fp"] = npuhw.footprint(o, item["accel"])
    if any(o["fp"] is None for o in ops):
        return None, ops
    ev, _ = stream_events.c04_events(tid, ops, item["accel"])
    return ev, ops


def describe(item, ops, what):
    """stable identity + human description of a violation"""
    name, opi = what[1], what[2]
    o = next((x for x in ops if x["index"] == opi), None)
    if name in ("BlockDepSafe", "LutRule") and o is not None:
        g = o["fp"]["geom"]
        prev = [x for x in ops if x["index"] < opi and x["kind"] != "dma"]
        pg = prev[-1]["fp"]["geom"] if prev else {}
        sig = {"kind": o["kind"], "k": [g["kh"], g["kw"]], "s": [g["sy"], g["sx"]], "pad": [g["pt"], g["pl"], g["pb"], g["pr"]],
               "blk": [g["bh"], g["bw"], g["bd"]], "ofm": [g["oh"], g["ow"], g["od"]], "bd": what[3],
               "prev_blk": [pg.get("bh"), pg.get("bw"), pg.get("bd")], "prev_ofm": [pg.get("oh"), pg.get("ow"), pg.get("od")]}
        R = o["regs"]
        tiled = (R.get("NPU_SET_IFM_HEIGHT0_M1", 0) + 1 < g["ih"]) or (R.get("NPU_SET_IFM_WIDTH0_M1", 0) + 1 < g["iw"])
        if name == "BlockDepSafe" and g["pr"] > g["pt"] and g["sy"] >= 2:
            cls = "BLOCKDEP too large for a consumer with pad_right > pad_top, stride_y >= 2"
        elif (name == "BlockDepSafe" and item["src"] == "compiled" and o["kind"] == "dw" and [g["kh"], g["kw"]] == [2, 2]
              and [g["pt"], g["pl"], g["pb"], g["pr"]] == [0, 0, 0, 0] and tiled):
            cls = "tile-padded 2x2 depthwise (half-pixel resize) reads a replicated row/column its IFM shape omits"
        else:
            cls = "other"
        return "%s|%s|%s" % (name, cls, json.dumps(sig, sort_keys=True)), sig
    return "%s|op%d|%s" % (name, opi, item["src"]), {"op": opi}


def main(tier):
    run = Run("C04", tier)
    sd = seed()
    mc(run, tier)
    lattice = mc_blockdep(run)
    mc_inductive(run, tier)
    nlists = 600 if tier == "quick" else 6000
    accels = ["ethos-u55-64", "ethos-u65-512"] if tier == "quick" else ACCELS
    items = api_streams(run, nlists, sd, accels)
    items += blockdep_pairs(run, lattice, tier, sd)
    items += corpus_streams(run, 40 if tier == "quick" else 600, sd)
    batch = 1500
    tid = 0
    index = {}
    events = []
    needed = 0
    for it in items:
        tid += 1
        ev, ops = to_events(tid, it)
        run.evaluated()
        if ev is None:
            run.violation("StreamDecodes|" + it["src"], "operation issued before its registers were written",
                          {"item": {k: v for k, v in it.items() if k != "ops"}})
            continue
        index[tid] = (it, ops)
        events += ev
        # non-trivial: the model required at least one wait or a BLOCKDEP below 3
        if any(o["waits"] for o in ops) or any(o["kind"] != "dma" and o["regs"].get("NPU_SET_BLOCKDEP", 3) < 3 for o in ops[1:]):
            needed += 1
            run.nontrivial(tid)
        if it["src"] == "api":
            run.sample({"accel": it["accel"], "abstract_ops": it["abstract"][:3], "n_ops": len(ops)}, limit=3)
        else:
            run.sample({"accel": it["accel"], "family": it["family"], "opts": it["opts"], "n_ops": len(ops)}, limit=6)
    # validate in batches
    ids = sorted(index)
    for b in range(0, len(ids), batch):
        sel = set(ids[b:b + batch])
        evs = [e for e in events if e["t"] in sel]
        res, viol = tlc.validate_traces("NpuExecTrace", "NpuExecTrace.cfg", evs, timeout=1800, heap="8g")
        run.add_trace_run("NpuExecTrace", res, len(sel))
        for v in viol:
            it, ops = index[v[0]]
            key, sig = describe(it, ops, v)
            rp = {"violated": v[1:], "signature": sig, "accel": it["accel"], "src": it["src"], "reused_objects": bool(it.get("reused"))}
            if it["src"] == "api":
                rp.update(descs=it["descs"], abstract=it["abstract"])
            else:
                rp.update(net=it["net"], opts=it["opts"], family=it["family"])
            run.violation(key, "%s at operation %d of a %s stream for %s: %s" % (v[1], v[2], it["src"], it["accel"], sig), rp)
    # negative control: drop every wait of one stream that needs them -> must be rejected
    ctrl = next((t for t in ids if any(o["waits"] for o in index[t][1])), None)
    if ctrl is None:
        raise MachineryError("no stream with waits in this run: cannot run the negative control")
    evs = [e for e in events if e["t"] == ctrl and e["e"] != "Wait"]
    _, viol = tlc.validate_traces("NpuExecTrace", "NpuExecTrace.cfg", evs)
    if not any(v[1] == "NoDmaKernelHazard" for v in viol):
        raise MachineryError("negative control failed: stream %d without its waits was accepted" % ctrl)
    run.cov["negative_control"] = "stream without its waits rejected: %d hazards" % len(viol)
    run.cov["rule"] = ("streams = TLC-simulated OpSeq behaviours realised through api.npu_generate_register_command_stream "
                       "+ streams of compiled corpus networks; non-trivial = the stream contains a wait or a BLOCKDEP < 3")
    run.assumptions += ["hardware model A-HW1..A-HW4 of DESIGN.md section 4 (queue depths 2 kernel / 1 or 2 DMA, in-order "
                        "completion, BLOCKDEP job-overlap rule, exact footprints derived from registers)"]
    return run.finish()


def replay(path):
    rp = json.load(open(path))["replay"]
    run = Run("C04", "quick")
    if rp["src"] == "api":
        words, _ = apiops.generate(rp["descs"], rp["accel"])
        it = {"src": "api", "accel": rp["accel"], "words": words, "descs": rp["descs"], "abstract": rp.get("abstract")}
        items = [it]
    else:
        x = vela_run.compile_many([{"id": 0, "net": rp["net"], "opts": rp["opts"]}])[0]
        _, ss = streams.analyse(x["out_bytes"])
        items = [{"src": "compiled", "accel": s["accel"], "ops": s["ops"], "net": rp["net"], "opts": rp["opts"],
                  "family": rp.get("family")} for s in ss]
    bad = 0
    for t, it in enumerate(items, 1):
        ev, ops = to_events(t, it)
        _, viol = tlc.validate_traces("NpuExecTrace", "NpuExecTrace.cfg", ev)
        for v in viol:
            print("replay:", v, describe(it, ops, v)[0])
            bad += 1
    run.cleanup()
    return 1 if bad else 0
