"""C06 - the register command stream encodes exactly the operations it was given.

MC  : CmdGen.tla - emitter with shadow registers and elision against the hardware register file, all
      operation histories up to MaxOps; NBanks = 2 is the negative control.
S2C : OpSeq.tla behaviours realised as real operation lists -> api.npu_generate_register_command_stream.
C2S : every stream (API lists and compiled corpus) is decoded and replayed by RegFileTrace.tla, which at every
      NPU_OP compares the register file with (i) the values intended by the operation according to the
      independent encoder harness/regenc.py and (ii) the registers of the single-operation stream of that
      operation (metamorphic baseline for elision), and checks alignment, stream grammar and the stop rule.
"""
import json

from .. import apiops, artefact, corpus, npuhw, opseq, regenc, streams, tlc, vela_run
from ..common import Run, MachineryError, seed

SKIP_BASE = {"NPU_SET_BLOCKDEP", "NPU_SET_PARALLEL_MODE"}
ACCELS = ["ethos-u55-32", "ethos-u55-64", "ethos-u55-128", "ethos-u55-256", "ethos-u65-256", "ethos-u65-512"]


def regs_of_single(words):
    ev = artefact.decode(words)
    ops = artefact.ops_with_waits(ev)
    if len(ops) != 1:
        return None
    return {k: v for k, v in ops[0]["regs"].items() if k not in SKIP_BASE}


def stream_events(tid, words, accel, exps, bases):
    """RegFileTrace events of one stream; exps/bases: per operation dicts reg -> intended value (or None)."""
    cores = npuhw.ACCEL[accel][1]
    ev = [{"t": tid, "e": "Hdr", "u65": "u65" in accel, "cores": cores}]
    dec = artefact.decode(words)
    for e in dec:
        if e[0] == "set":
            ev.append({"t": tid, "e": "Set", "reg": e[1], "v": regenc.limbs(e[2])})
        elif e[0] == "wait":
            ev.append({"t": tid, "e": "Wait", "q": e[1], "n": e[2]})
        elif e[0] == "op":
            k = e[4]
            exp = exps[k] if k < len(exps) and exps[k] is not None else {}
            base = bases[k] if k < len(bases) and bases[k] is not None else {}
            op = {"kind": e[1], "param": e[2], "regs": e[3]}
            ev.append({"t": tid, "e": "Op", "i": k, "kind": e[1],
                       "exp": [[r, regenc.limbs(v)] for r, v in sorted(exp.items())],
                       "base": [[r, regenc.limbs(v)] for r, v in sorted(base.items())],
                       "align": regenc.alignment_obligations(op, accel)})
        elif e[0] == "stop":
            ev.append({"t": tid, "e": "Stop", "param": e[1]})
        else:
            ev.append({"t": tid, "e": "Other", "name": str(e[1])})
    ev.append({"t": tid, "e": "End"})
    return ev


def api_items(run, nlists, sd, accels):
    res, finals = tlc.simulate_final_states("OpSeq", "OpSeq.cfg", nlists, 139, sd + 23)
    run.add_mc("OpSeq(simulate)", res)
    out = []
    for st in finals:
        for accel in accels:
            descs = opseq.realise_list(st["ops"], accel)
            try:
                words, ops = apiops.generate(descs, accel)
            except Exception as e:
                run.cov.setdefault("api_rejections", []).append("%s: %s" % (type(e).__name__, str(e)[:120]))
                continue
            descs2 = [apiops.describe(o) for o in ops]        # with the block configuration that was chosen
            exps = [regenc.expected(d, accel) for d in descs2]
            bases = []
            for d in descs2:
                try:
                    w1, _ = apiops.generate([d], accel)
                    bases.append(regs_of_single(w1))
                except Exception:
                    bases.append(None)
            out.append({"src": "api", "accel": accel, "descs": descs2, "words": words, "exps": exps, "bases": bases})
            if len(out) % 4 == 0:
                # history: the same operation objects handed to the generator a second time with other buffers
                nb = 3
                recs2 = [dict(r, r=r["r"] % nb + 1, w=(r["w"] + 1) % nb + 1, wb=(0 if r["wb"] == 0 else r["wb"] % nb + 1))
                         for r in st["ops"]]
                try:
                    words3, ops3 = apiops.generate_reusing(descs, opseq.realise_list(recs2, accel), accel)
                except Exception as e:
                    run.cov.setdefault("api_rejections", []).append("reuse %s: %s" % (type(e).__name__, str(e)[:120]))
                    continue
                descs3 = [apiops.describe(o) for o in ops3]
                out.append({"src": "api", "accel": accel, "descs": descs3, "words": words3,
                            "exps": [regenc.expected(d, accel) for d in descs3], "bases": [None] * len(descs3)})
    return out


def _extract(nng, arch, res):
    """runs in the compiling child: captured (op list, single-op baselines) per NPU subgraph"""
    return res.get("_c06")


def corpus_items(run, n, sd):
    from ethosu.vela import register_command_stream_generator as rcsg
    captured = []
    real = rcsg.generate_command_stream

    def wrapper(npu_op_list, arch, verbose, mem_limits, *a, **k):
        words = real(npu_op_list, arch, verbose, mem_limits, *a, **k)
        singles = []
        for op in npu_op_list:
            try:
                singles.append(real([op], arch, False, mem_limits))
            except Exception:
                singles.append(None)
        captured.append({"words": list(words), "descs": [apiops.describe(o) for o in npu_op_list], "singles": singles,
                         "accel": arch.accelerator_config.value})
        return words

    def extractor(nng, arch, res):
        return captured

    rcsg.generate_command_stream = wrapper     # inherited by the forked children; parent never compiles
    try:
        jobs = corpus.all_singles(sd, tier=run.tier) + corpus.draw(n, sd) + corpus.shape_jobs(sd, run.tier, thorough=15)
        rs = vela_run.compile_many(jobs, extractor=extractor)
    finally:
        rcsg.generate_command_stream = real
    out = []
    for j, x in zip(jobs, rs):
        if x["rc"] != 0 or "out_bytes" not in x:
            continue
        if "extract" not in x:
            raise MachineryError("could not observe the operation lists of %s: %s" % (j["family"], x.get("extract_error")))
        _, ss = streams.analyse(x["out_bytes"], j["opts"]["accel"])
        caps = x["extract"]
        if len(caps) != len(ss):
            raise MachineryError("pairing of command streams and operation lists failed for " + j["family"])
        for s, c in zip(ss, caps):
            if list(s["payload"]["words"]) != list(c["words"]):
                raise MachineryError("command stream in the output file differs from the generated one (pairing)")
            exps = [regenc.expected(d, c["accel"]) for d in c["descs"]]
            bases = [regs_of_single(w) if w is not None else None for w in c["singles"]]
            out.append({"src": "compiled", "accel": c["accel"], "family": j["family"], "net": j["net"], "opts": j["opts"],
                        "descs": c["descs"], "words": c["words"], "exps": exps, "bases": bases})
    return out


def main(tier):
    run = Run("C06", tier)
    sd = seed()
    res = tlc.must_ok(tlc.run("CmdGen", "CmdGen_MC.cfg", workers=8, coverage=True), "CmdGen MC")
    run.add_mc("CmdGen", res)
    # deeper bound: 4 + 2 registers, 4 values, 8 operations (918 k transitions)
    deep = tlc.must_ok(tlc.run("CmdGen", "CmdGen_Deep.cfg", workers=16, timeout=900), "CmdGen deep MC")
    run.add_mc("CmdGen(Deep: 6 registers, 4 values, 8 operations)", deep)
    bad = tlc.run("CmdGen", "CmdGen_Broken.cfg", workers=8)
    if bad["status"] != "invariant":
        raise MachineryError("CmdGen negative control (NBanks = 2) did not violate the invariant")
    run.add_mc("CmdGen(NBanks=2 control)", bad)
    # histories of ANY length: the invariant is inductive (TLC enumerates every state satisfying it and checks all successors)
    ind = tlc.must_ok(tlc.run("CmdGen", "CmdGen_Ind.cfg" if tier == "quick" else "CmdGen_IndT.cfg", workers=8), "CmdGen induction step")
    run.add_mc("CmdGen(induction step, unbounded histories)", ind)
    indbad = tlc.run("CmdGen", "CmdGen_IndBroken.cfg", workers=8)
    if indbad["status"] != "invariant":
        raise MachineryError("CmdGen induction-step control (NBanks = 2) is inductive?! %s" % indbad["status"])
    run.add_mc("CmdGen(induction step, NBanks=2 control)", indbad)
    items = api_items(run, 300 if tier == "quick" else 5000, sd,
                      ["ethos-u55-128", "ethos-u65-512"] if tier == "quick" else ACCELS)
    items += corpus_items(run, 40 if tier == "quick" else 800, sd)
    events, index = [], {}
    for tid, it in enumerate(items, 1):
        ev = stream_events(tid, it["words"], it["accel"], it["exps"], it["bases"])
        events += ev
        index[tid] = it
        run.evaluated()
        nset = sum(1 for e in ev if e["e"] == "Set")
        nop = sum(1 for e in ev if e["e"] == "Op")
        full = sum(len(x) for x in it["exps"])
        if nop > 1 and nset < full:      # something was elided
            run.nontrivial(tid)
        run.sample({"src": it["src"], "accel": it["accel"], "ops": [d["type"] for d in it["descs"]][:8], "sets": nset,
                    "registers_intended": full}, limit=5)
    ids = sorted(index)
    B = 400
    for b in range(0, len(ids), B):
        sel = set(ids[b:b + B])
        res, viol = tlc.validate_traces("RegFileTrace", "RegFileTrace.cfg", [e for e in events if e["t"] in sel],
                                        timeout=1800, heap="8g")
        run.add_trace_run("RegFileTrace", res, len(sel))
        for v in viol:
            it = index[v[0]]
            name = v[1]
            if name in ("OpMatchesExpected", "OpMatchesBaseline", "Aligned"):
                d = it["descs"][v[2]] if v[2] < len(it["descs"]) else {}
                key = "%s|%s|%s|%s" % (name, v[3], d.get("type"), it["src"])
                what = "%s: register %s at operation %d (%s) of a %s stream for %s" % (name, v[3], v[2], d.get("type"), it["src"], it["accel"])
            else:
                key = "%s|%s" % (name, it["src"])
                what = "%s in a %s stream for %s" % (name, it["src"], it["accel"])
            rp = {"violated": v[1:], "accel": it["accel"], "src": it["src"], "descs": it["descs"]}
            if it["src"] == "compiled":
                rp.update(net=it["net"], opts=it["opts"])
            run.violation(key, what, rp)
    # negative control: corrupt one Set of an elided register in one stream -> must be rejected
    ctrl = next((t for t in ids if len(index[t]["descs"]) > 1), ids[0])
    evs = [dict(e) for e in events if e["t"] == ctrl]
    for e in evs:
        if e["e"] == "Set" and e["reg"] == "NPU_SET_OFM_WIDTH_M1":
            e["v"] = [0, 0, 0, (e["v"][3] + 1) & 0xFFFF]
            break
    _, viol = tlc.validate_traces("RegFileTrace", "RegFileTrace.cfg", evs)
    if not any(v[1] in ("OpMatchesExpected", "OpMatchesBaseline") for v in viol):
        raise MachineryError("negative control failed: corrupted OFM_WIDTH accepted")
    run.cov["negative_control"] = "corrupted NPU_SET_OFM_WIDTH_M1 rejected (%d complaints)" % len(viol)
    run.cov["rule"] = ("streams from OpSeq.tla behaviours through the public generator and from compiled corpus networks; "
                       "non-trivial = more than one operation and at least one intended register write was elided")
    run.assumptions += ["register layout as in harness/regenc.py (Ethos-U programmer's model); OFM/OPA/OPB scale values and "
                        "SHRAM layout registers are covered by C15, BLOCKDEP and waits by C04"]
    return run.finish()


def replay(path):
    rp = json.load(open(path))["replay"]
    accel = rp["accel"]
    words, ops = apiops.generate(rp["descs"], accel)
    descs2 = [apiops.describe(o) for o in ops]
    exps = [regenc.expected(d, accel) for d in descs2]
    bases = [regs_of_single(apiops.generate([d], accel)[0]) for d in descs2]
    ev = stream_events(1, words, accel, exps, bases)
    _, viol = tlc.validate_traces("RegFileTrace", "RegFileTrace.cfg", ev)
    for v in viol:
        print("replay:", v)
    return 1 if viol else 0
