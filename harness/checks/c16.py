"""C16 - operators inside the documented constraints run on the NPU, operators outside stay on the CPU,
and the report lists exactly the constraint set the compiler enforces.

At check time the working tree generates its own SUPPORTED_OPS.md (`python -m ethosu.vela
--supported-ops-report` in a scratch directory); harness/supported_report.py parses it into the
constants of spec/SupportedOps.tla (module SupportedOpsReport, written next to copies of the
specification in the scratch directory).

MC/S2C : SupportedOpsGen.tla - TLC enumerates the case set (per numeric constraint lo-1 .. hi+1 around a
         nominal instance, categorical values, pairs of simultaneous violations), checks the design-level
         invariants on it and prints every case; the driver builds the single-operator network (and a
         variant with CPU-only neighbours), compiles it for ethos-u55-128 and ethos-u65-256.
C2S    : SupportedOpsTrace.tla - every observed placement (ethos-u operator present / operator preserved
         unchanged, read from the output file with the plain parser) is compared with Expect(case).
Lists  : every constraint docstring of the enforced lists appears in the report under the operator it is
         enforced for, and vice versa.
"""
import json
import os
import random
import shutil
import zlib

from .. import flatmodel, netgen, supported_report as sr, tlc, vela_run
from ..common import Run, MachineryError, SPEC, seed, ensure_repo_on_path
from .c11 import tla_graph, infer_absorbed

ACCELS = ["ethos-u55-128", "ethos-u65-256"]
ALL_ACCELS = ["ethos-u55-128", "ethos-u65-256", "ethos-u55-32", "ethos-u55-64", "ethos-u55-256", "ethos-u65-512"]
FAF = {"NONE": 0, "RELU": 1, "RELU_N1_TO_1": 2, "RELU6": 3, "TANH": 4, "SIGN_BIT": 5}
TT = {"int8": "INT8", "uint8": "UINT8", "int16": "INT16", "int32": "INT32", "float32": "FLOAT32", "int64": "INT64"}
MODULES = ["SupportedOps.tla", "SupportedOpsGen.tla", "SupportedOpsTrace.tla", "SupportedOpsGen.cfg", "SupportedOpsGenDesign.cfg",
           "SupportedOpsGenPairs.cfg", "SupportedOpsTrace.cfg", "SupportedOpsTraceStrict.cfg", "SupportedOpsGenDesignQuick.cfg"]
ROUND1 = set(sr.COVERED[:12])          # operators of the first round: every case in every quick run
UNARY = {"ABS", "EXP", "RSQRT", "LEAKY_RELU", "HARD_SWISH", "SOFTMAX", "LOGISTIC", "TANH", "RELU", "RELU6", "RELU_N1_TO_1"}
BIN2 = {"MINIMUM", "MAXIMUM", "SQUARED_DIFFERENCE"}
# operators that move data without computing (absorbed into a neighbouring NPU subgraph when accepted)
LUT_ACTS = ("TANH", "LOGISTIC", "HARD_SWISH")
MEMORY_ONLY = {"RESHAPE", "SQUEEZE", "EXPAND_DIMS", "CONCATENATION", "SPLIT", "SPLIT_V", "SLICE", "STRIDED_SLICE", "TRANSPOSE"}
# On the unchanged tree every ARG_MAX that reaches the NPU path dies with OverflowError in
# convert_argmax_to_depthwise_conv_and_max_pool (NumPy 2; a C13 matter that is being repaired separately).  Until then the
# ARG_MAX cases the report sends to the NPU are generated and judged by TLC's design invariants but not compiled; the
# cases that must stay on the CPU are compiled as usual.  Set to True once the repair has landed.
ARG_MAX_NPU_PATH_CASES = True 
# Further case classes that make the unchanged tree crash (no output model) although the report sends the operator to the
# NPU.  Each is a genuine defect reported to the lead with a reproduction (harness/repro/c16_round4_findings.py); the class is
# generated, judged by the design invariants, counted in the evidence, but not compiled while its switch is False.
CONCAT_FUSED_ACTIVATION_CASES = True      # CONCATENATION with a fused activation: AssertionError in pass_packing.build_pass
RESIZE_NN_ALIGN_CORNERS_CASES = True      # RESIZE_NEAREST_NEIGHBOR align_corners 2x/4x/8x, depth > 1: ValueError (reshape)
UNQUANTISED_TRANSPOSE_CASES = True        # TRANSPOSE (exempt from 'must have quantization parameters') without them: AttributeError
# Round 5 (equivalent encodings of an attribute).  Reproductions: harness/repro/c16_round5_findings.py.  Both classes are
# generated, judged by the design invariants (EquivalentEncodingsSameExpect), counted in the evidence, but not compiled.
MEAN_NEGATIVE_AXES_CASES = True           # MEAN whose axes tensor counts an axis from the end: constraint_mean_axis rejects the
#                                           operator (CPU) although the same reduction written with axes >= 0 runs on the NPU
SLICE_SIZE_MINUS_ONE_CASES = True         # SLICE with a size entry written -1 ("up to the end"): Operation.get_split_inputs_axis adds
#                                           the raw -1 to the begin offset (read box ends before it starts); depending on the
#                                           dimension, the neighbours and the options this is an AssertionError in
#                                           high_level_command_stream.Box.__init__ or a silently wrong read region
SQDIFF_CONST_OPERAND_CPU_NEIGHBOURS = True   # SQUARED_DIFFERENCE with a constant second operand between CPU-only neighbours
#                                           ("sandwich"): AssertionError in tflite_writer.serialise_tensor (found by the thorough tier)
EXP_INT16_WIDE_RANGE = False              # EXP on int16 with scale 0.05 (|x| up to 1638): OverflowError in create_lut_int16_op


def switched_off(rec):
    """name of the switched-off case class the case belongs to, or None"""
    c = rec["c"]
    npu = rec["expect"] != "CPU"
    if c["op"] == "ARG_MAX" and npu and not ARG_MAX_NPU_PATH_CASES:
        return "ARG_MAX_NPU_PATH_CASES"
    if c["op"] == "CONCATENATION" and c["faf"] != "NONE" and npu and not CONCAT_FUSED_ACTIVATION_CASES:
        return "CONCAT_FUSED_ACTIVATION_CASES"
    if (c["op"] == "RESIZE_NEAREST_NEIGHBOR" and c["align"] and npu and list(c["s1"]) != list(c["so"])
            and not (c["s1"][1] == 1 and c["s1"][2] == 1) and not RESIZE_NN_ALIGN_CORNERS_CASES):
        return "RESIZE_NN_ALIGN_CORNERS_CASES"
    if c["op"] == "MEAN" and any(a < 0 for a in c["axes"]) and not MEAN_NEGATIVE_AXES_CASES:
        return "MEAN_NEGATIVE_AXES_CASES"
    if c["op"] == "SLICE" and -1 in c["sizes"] and npu and not SLICE_SIZE_MINUS_ONE_CASES:
        return "SLICE_SIZE_MINUS_ONE_CASES"
    if c["op"] == "TRANSPOSE" and not c["hasq"] and npu and not UNQUANTISED_TRANSPOSE_CASES:
        return "UNQUANTISED_TRANSPOSE_CASES"
    return None


def switched_off_variant(rec, variant):
    """switched-off classes that depend on the neighbours the case is compiled with"""
    c = rec["c"]
    if (c["op"] == "SQUARED_DIFFERENCE" and c.get("c2const") and variant == "sandwich" and rec["expect"] != "CPU"
            and not SQDIFF_CONST_OPERAND_CPU_NEIGHBOURS):
        return "SQDIFF_CONST_OPERAND_CPU_NEIGHBOURS"
    return None


# c.nopt -> options no bullet of the report mentions: they must not move any operator
NEUTRAL_OPTIONS = {"": [], "size": ["--optimise", "Size"], "align": ["--cpu-tensor-alignment", "64"],
                   "alloc": ["--tensor-allocator", "Greedy"], "blockdep": ["--max-block-dependency", "0"],
                   "debugdb": ["--enable-debug-db"]}


def cli_extra(c):
    """command-line options that are part of the case: the one the report names as changing which constraints apply
    (c.force) and the set of options it does not mention (c.nopt)"""
    if c.get("nopt", "") not in NEUTRAL_OPTIONS:
        raise MachineryError("case with an unknown option set %r" % c.get("nopt"))
    return (["--force-symmetric-int-weights"] if c.get("force") else []) + NEUTRAL_OPTIONS[c.get("nopt", "")]


# ------------------------------------------------------------------------------------------------
# the report of the working tree -> TLA+ constants
# ------------------------------------------------------------------------------------------------
def prepare_spec(run, md=None, mutate=None):
    d = run.tmpdir("c16spec")
    if md is None:
        md = sr.generate(d)
    parsed = sr.parse(md)
    K, listed, unmodelled = sr.constants(parsed)
    if mutate:
        mutate(K, listed)
    for m in MODULES:
        shutil.copy(os.path.join(SPEC, m), os.path.join(d, m))
    with open(os.path.join(d, "SupportedOpsReport.tla"), "w") as f:
        f.write(sr.to_tla_module(K, listed, unmodelled, parsed["table"]))
    return d, md, parsed, K, listed, unmodelled


def cases_from_tlc(run, d, pairs):
    res = tlc.run("SupportedOpsGen", "SupportedOpsGenPairs.cfg" if pairs else "SupportedOpsGen.cfg", workers=1,
                  timeout=1200, cwd=d, coverage=False)
    if not res.ok:
        raise MachineryError("SupportedOpsGen: TLC status %s (%s)\n%s" % (res["status"], res.get("violated"), res["output"][-3000:]))
    run.add_mc("SupportedOpsGen(%s)" % ("pairs" if pairs else "single"), res)
    cases = [json.loads(tlc.parse_value(p)[1]) for p in res["printed"] if p.startswith('<<"CASE"')]
    if len(cases) != res["distinct"]:
        raise MachineryError("case emission incomplete: %d printed, %d states" % (len(cases), res["distinct"]))
    ok = [c for c in cases if well_formed(c)]
    run.cov["ill_formed_cases_skipped"] = run.cov.get("ill_formed_cases_skipped", 0) + len(cases) - len(ok)
    return ok


def well_formed(rec):
    """A case is buildable only if every size is positive (constants of an odd report can produce others)."""
    c = rec["c"]
    nums = [c[k] for k in ("b", "h", "w", "c", "kh", "kw", "sh", "sw", "dh", "dw", "oc", "mult", "wic", "bbits", "n")]
    dims = list(c["s1"]) + list(c["s2"]) + list(c["so"]) + list(rec.get("ofm", []))
    if c["op"] in ("CONV_2D", "DEPTHWISE_CONV_2D", "MAX_POOL_2D", "AVERAGE_POOL_2D"):
        dims += [rec["oh"], rec["ow"]]
    pads = [v for pr in c["pads"] for v in pr]
    return (all(isinstance(x, int) and x >= 1 for x in nums + dims) and all(-len(c["s1"]) <= a < len(c["s1"]) for a in c["axes"])
            and all(isinstance(v, int) and v >= 0 for v in pads) and all(len(pr) == 2 for pr in c["pads"]))


def validate(d, events, timeout=1800, cfg="SupportedOpsTrace.cfg"):
    """SupportedOpsTrace in the scratch spec directory (same protocol as tlc.validate_traces)."""
    path = os.path.join(d, "trace.ndjson")
    with open(path, "w") as f:
        for e in events:
            f.write(json.dumps(e, separators=(",", ":")) + "\n")
    res = tlc.run("SupportedOpsTrace", cfg, workers=1, timeout=timeout, heap="4g", cwd=d,
                  env={"TRACE_FILE": path})
    if not res.ok:
        raise MachineryError("SupportedOpsTrace: TLC status %s\n%s" % (res["status"], res["output"][-4000:]))
    verdicts = [p for p in res["printed"] if p.startswith('<<"VERDICT"')]
    if not verdicts:
        raise MachineryError("SupportedOpsTrace: no VERDICT line\n" + res["output"][-2000:])
    viol = []
    for v in verdicts:
        for item in json.loads(tlc.parse_value(v)[1] or "[]"):
            if item not in viol:
                viol.append(item)
    return res, viol


# ------------------------------------------------------------------------------------------------
# case -> network
# ------------------------------------------------------------------------------------------------
def _fm(n, name, shape, dt, scale, zp, quant=True, is_input=False, per_axis=False):
    if dt == "float32" or not quant:
        return n.fm(name, shape, TT[dt], None, is_input=is_input)
    if dt == "uint8":
        zp = 128 + zp
    if dt in ("int16", "int32"):
        zp = 0
    i = n.fm(name, shape, TT[dt], scale, zp, is_input=is_input)
    if per_axis and shape:
        k = shape[-1]
        n.t[i]["scale"] = [scale * (1 + 0.1 * (j % 3)) for j in range(k)]
        n.t[i]["zp"] = [zp] * k
        n.t[i]["qdim"] = len(shape) - 1
    return i


def _weights(n, c, shape, nch, qdim):
    wt = c["wt"]
    per = c["paq"] == "weights"
    ns = nch if per else 1
    scale = [0.01 + 0.001 * (i % 5) for i in range(ns)]
    zp0 = 128 if wt == "uint8" else 0
    zp = [zp0 + (c["wzp"] if wt == "int8" else 0)] * ns
    if not c["wconst"]:
        i = n.fm("w", shape, TT[wt], 0.01, zp[0], is_input=True)
        return i
    if c["wfill"] == "max":
        data = {"fill": 127}
    elif c["wfill"] == "small":
        data = {"rng": 5, "lo": -1, "hi": 1}
    elif wt == "uint8":
        data = {"rng": 7, "lo": 0, "hi": 255}
    elif wt == "int16":
        data = {"rng": 7, "lo": -1000, "hi": 1000}
    else:
        data = {"rng": 7, "lo": -127, "hi": 127}
    return n.const("w", shape, TT[wt], scale=scale, zp=zp, qdim=qdim if per else None, data=data)


def _second_operand(n, c, scale, zp):
    """IFM2 of a binary operator: produced at run time (an input of the network) or, c.c2const, a constant of the file"""
    if not c.get("c2const"):
        return _fm(n, "x2", c["s2"], c["dt2"], scale, zp, is_input=True)
    dt = c["dt2"]
    if dt == "float32":
        raise MachineryError("constant second operand of type float32 is not generated")
    lo, hi = {"int8": (-120, 120), "uint8": (0, 250), "int16": (-3000, 3000), "int32": (-3000, 3000)}[dt]
    z = 128 + zp if dt == "uint8" else 0 if dt in ("int16", "int32") else zp
    return n.const("x2", c["s2"], TT[dt], scale=[scale], zp=[z], data={"rng": 11, "lo": lo, "hi": hi})


def _unary_out_q(op, dt):
    """customary output quantisation of an activation-like operator (scale, zero point before the uint8 shift of _fm)"""
    if op in ("SOFTMAX", "LOGISTIC"):
        return (1 / 256, -128) if dt in ("int8", "uint8") else (1 / 32768, 0)
    if op == "TANH":
        return (1 / 128, 0) if dt in ("int8", "uint8") else (1 / 32768, 0)
    return 0.05, 0


def _bias(n, c, nch):
    bt = c["bt"]
    if bt == "none":
        return None
    shape = [nch] if c["brank"] == 1 else [1, nch]
    if bt == "int64":
        top = (1 << (c["bbits"] - 1)) + 5
        data = [top] + [(-1) ** k * (1000 + k) for k in range(1, nch)]
    else:
        data = [(-1) ** k * (100 + k) for k in range(nch)]
    return n.const("bias", shape, TT[bt], scale=[0.0005], zp=[0], data=data)


def build_case(rec, variant):
    """rec = {"c": case record, "oh", "ow", "ofm"} as printed by TLC.  variant: "single" (the operator alone),
    "sandwich" (third-party CUSTOM operators before and after: CPU-only neighbours), "lut_post" (the only consumer is a
    stand-alone TANH / LOGISTIC / HARD_SWISH, which the NPU runs as a lookup-table activation it likes to fuse into its
    producer), "npu" (NPU-able
    element-wise neighbours before and after, so the operator sits inside / next to an NPU region), "npu_pre" /
    "npu_post" (an NPU-able neighbour on one side only: the operator is the last / first of the network).
    The operator under test always produces the tensor named 'y' (its first output)."""
    c = rec["c"]
    op = c["op"]
    n = netgen.Net(3)
    more_outputs = []

    def ifm(name, shape, dt, scale=0.05, zp=0, per_axis=False):
        if variant in ("single", "npu_post", "lut_post"):
            return _fm(n, name, shape, dt, scale, zp, is_input=True, per_axis=per_axis)
        src = _fm(n, name + "_src", shape, dt, scale, zp, is_input=True, per_axis=per_axis)
        t = _fm(n, name, shape, dt, scale, zp, per_axis=per_axis)
        if variant == "sandwich":
            n.op("CUSTOM", [src], [t], custom_code="CpuOnlyBefore", custom_options=[1])
        else:
            n.op("ADD", [src, src], [t], ["AddOptions", {"FusedActivationFunction": 0}])
        return t

    def param(name, shape, values, dt="INT32"):
        """parameter tensor of a data-movement operator: constant, or (c.pconst false) an input of the network"""
        if c["pconst"]:
            return n.const(name, shape, dt, data=list(values))
        return n.fm(name, shape, dt, None, is_input=True)

    if op in ("CONV_2D", "DEPTHWISE_CONV_2D", "MAX_POOL_2D", "AVERAGE_POOL_2D"):
        x = ifm("x", [c["b"], c["h"], c["w"], c["c"]], c["dt"])
        och = c["oc"] if op == "CONV_2D" else c["c"] * c["mult"] if op == "DEPTHWISE_CONV_2D" else c["c"]
        same_q = op in ("MAX_POOL_2D", "AVERAGE_POOL_2D")
        y = _fm(n, "y", [c["b"], rec["oh"], rec["ow"], och], c["odt"], 0.05 if same_q else 0.07, 0 if same_q else -5,
                quant=c["hasq"])
        pad = 0 if c["pad"] == "SAME" else 1
        if op == "CONV_2D":
            w = _weights(n, c, [c["oc"], c["kh"], c["kw"], c["wic"]], c["oc"], 0)
            b = _bias(n, c, c["oc"])
            n.op(op, [x, w] + ([b] if b is not None else []), [y],
                 ["Conv2DOptions", {"Padding": pad, "StrideW": c["sw"], "StrideH": c["sh"], "DilationWFactor": c["dw"],
                                    "DilationHFactor": c["dh"], "FusedActivationFunction": FAF[c["faf"]]}])
        elif op == "DEPTHWISE_CONV_2D":
            w = _weights(n, c, [1, c["kh"], c["kw"], och], och, 3)
            b = _bias(n, c, och)
            n.op(op, [x, w] + ([b] if b is not None else []), [y],
                 ["DepthwiseConv2DOptions", {"Padding": pad, "StrideW": c["sw"], "StrideH": c["sh"],
                                             "DepthMultiplier": c["mult"], "DilationWFactor": c["dw"],
                                             "DilationHFactor": c["dh"], "FusedActivationFunction": FAF[c["faf"]]}])
        else:
            n.op(op, [x], [y], ["Pool2DOptions", {"Padding": pad, "StrideW": c["sw"], "StrideH": c["sh"],
                                                  "FilterWidth": c["kw"], "FilterHeight": c["kh"],
                                                  "FusedActivationFunction": FAF[c["faf"]]}])
    elif op in ("ADD", "SUB", "MUL"):
        x = ifm("x", c["s1"], c["dt"], per_axis=c["paq"] == "ifm")
        x2 = _second_operand(n, c, 0.03, 2)
        y = _fm(n, "y", c["so"], c["odt"], 0.1, -1, quant=c["hasq"])
        n.op(op, [x, x2], [y], [{"ADD": "AddOptions", "SUB": "SubOptions", "MUL": "MulOptions"}[op],
                               {"FusedActivationFunction": FAF[c["faf"]]}])
    elif op == "FULLY_CONNECTED":
        x = ifm("x", c["s1"], c["dt"])
        w = _weights(n, c, [c["oc"], c["wic"]], c["oc"], 0)
        b = _bias(n, c, c["oc"])
        y = _fm(n, "y", c["so"], c["odt"], 0.1, 0, quant=c["hasq"])
        n.op(op, [x, w] + ([b] if b is not None else []), [y],
             ["FullyConnectedOptions", {"FusedActivationFunction": FAF[c["faf"]], "KeepNumDims": bool(c["knd"])}])
    elif op == "RESHAPE":
        x = ifm("x", c["s1"], c["dt"])
        if c["sconst"]:
            s = n.const("shape", [len(c["so"])], "INT32", data=list(c["so"]))
        else:
            s = n.fm("shape", [len(c["so"])], "INT32", None, is_input=True)
        y = _fm(n, "y", c["so"], c["odt"], 0.05 if c["qmatch"] else 0.08, 0, quant=c["hasq"])
        n.op(op, [x, s], [y], ["ReshapeOptions", {"NewShape": list(c["so"])}])
    elif op == "SQUEEZE":
        x = ifm("x", c["s1"], c["dt"])
        y = _fm(n, "y", c["so"], c["odt"], 0.05 if c["qmatch"] else 0.08, 0, quant=c["hasq"])
        n.op(op, [x], [y], ["SqueezeOptions", {"SqueezeDims": [0]}])
    elif op == "EXPAND_DIMS":
        x = ifm("x", c["s1"], c["dt"])
        ax = n.const("axis", [], "INT32", data=[0])
        y = _fm(n, "y", c["so"], c["odt"], 0.05 if c["qmatch"] else 0.08, 0, quant=c["hasq"])
        n.op(op, [x, ax], [y], ["ExpandDimsOptions", {}])
    elif op == "MEAN":
        x = ifm("x", c["s1"], c["dt"])
        ax = n.const("axes", [len(c["axes"])], "INT32", data=list(c["axes"]))
        y = _fm(n, "y", rec["ofm"], c["odt"], 0.05, 0, quant=c["hasq"])
        n.op(op, [x, ax], [y], ["ReducerOptions", {"KeepDims": bool(c["keep"])}])
    elif op in UNARY:
        narrow = op == "EXP" and c["dt"] == "int16" and not EXP_INT16_WIDE_RANGE
        x = ifm("x", c["s1"], c["dt"], scale=1 / 2048 if narrow else 0.05)
        osc, ozp = _unary_out_q(op, c["odt"])
        y = _fm(n, "y", c["so"], c["odt"], osc, ozp, quant=c["hasq"])
        opts = None
        if op == "LEAKY_RELU":
            opts = ["LeakyReluOptions", {"Alpha": {"small": 0.1, "one": 1.0, "big": 1.5, "neg": -0.5}[c["alpha"]]}]
        elif op == "SOFTMAX":
            opts = ["SoftmaxOptions", {"Beta": {"pos": 1.0, "zero": 0.0, "neg": -1.0}[c["beta"]]}]
        n.op(op, [x], [y], opts)
    elif op in BIN2:
        x = ifm("x", c["s1"], c["dt"])
        x2 = _second_operand(n, c, 0.05 if c["qmatch"] else 0.03, 0 if c["qmatch"] else 2)
        same = op in ("MINIMUM", "MAXIMUM")
        y = _fm(n, "y", c["so"], c["odt"], 0.05 if same else 0.1, 0 if same else -1, quant=c["hasq"])
        n.op(op, [x, x2], [y])
    elif op == "CONCATENATION":
        x = ifm("x", c["s1"], c["dt"])
        x2 = _fm(n, "x2", c["s2"], c["dt2"], 0.05 if c["qmatch"] else 0.03, 0 if c["qmatch"] else 2, is_input=True)
        y = _fm(n, "y", c["so"], c["odt"], 0.05, 0, quant=c["hasq"])
        n.op(op, [x, x2], [y], ["ConcatenationOptions", {"Axis": c["ax"], "FusedActivationFunction": FAF[c["faf"]]}])
    elif op == "SPLIT":
        x = ifm("x", c["s1"], c["dt"])
        ax = n.const("axis", [], "INT32", data=[c["ax"]])
        outs = [_fm(n, "y" if k == 0 else "y_%d" % k, c["so"], c["odt"], 0.05, 0, quant=c["hasq"]) for k in range(c["n"])]
        n.op(op, [ax, x], outs, ["SplitOptions", {"NumSplits": c["n"]}])
        y, more_outputs = outs[0], outs[1:]
    elif op == "SPLIT_V":
        x = ifm("x", c["s1"], c["dt"])
        a = c["ax"] % len(c["s1"])
        d = c["s1"][a]
        known = sum(v for v in c["sizes"] if v >= 0)
        ninf = max(1, sum(1 for v in c["sizes"] if v < 0))
        szs = [v if v >= 0 else max(1, (d - known) // ninf) for v in c["sizes"]]
        if [szs[0] if k == a else v for k, v in enumerate(c["s1"])] != list(c["so"]):
            raise MachineryError("SPLIT_V case: first output %s differs from the case's so %s" % (szs, c["so"]))
        st = n.const("sizes", [len(szs)], "INT32", data=list(c["sizes"]))
        ax = n.const("axis", [], "INT32", data=[c["ax"]])
        outs = [_fm(n, "y" if k == 0 else "y_%d" % k, [v if j != a else sz for j, v in enumerate(c["s1"])], c["odt"], 0.05, 0,
                    quant=c["hasq"]) for k, sz in enumerate(szs)]
        n.op(op, [x, st, ax], outs, ["SplitVOptions", {"NumSplits": len(szs)}])
        y, more_outputs = outs[0], outs[1:]
    elif op == "SLICE":
        x = ifm("x", c["s1"], c["dt"])
        b_ = param("begin", [len(c["beg"])], c["beg"])
        sz = param("size", [len(c["sizes"])], c["sizes"])
        y = _fm(n, "y", c["so"], c["odt"], 0.05, 0, quant=c["hasq"])
        n.op(op, [x, b_, sz], [y], ["SliceOptions", {}])
    elif op == "STRIDED_SLICE":
        x = ifm("x", c["s1"], c["dt"])
        ins = [x, param("begin", [len(c["beg"])], c["beg"]), param("end", [len(c["end"])], c["end"]),
               param("strides", [len(c["strd"])], c["strd"])]
        y = _fm(n, "y", c["so"], c["odt"], 0.05, 0, quant=c["hasq"])
        n.op(op, ins, [y], ["StridedSliceOptions", {"BeginMask": c["bmask"], "EndMask": c["emask"], "EllipsisMask": c["ell"],
                                                     "NewAxisMask": c["newax"], "ShrinkAxisMask": c["shrink"],
                                                     "Offset": bool(c["offs"])}])
    elif op == "TRANSPOSE":
        x = ifm("x", c["s1"], c["dt"])
        p = param("perm", [len(c["perm"])], c["perm"])
        y = _fm(n, "y", c["so"], c["odt"], 0.05, 0, quant=c["hasq"])
        n.op(op, [x, p], [y], ["TransposeOptions", {}])
    elif op == "PAD":
        x = ifm("x", c["s1"], c["dt"])
        p = param("paddings", [len(c["pads"]), 2], [v for pr in c["pads"] for v in pr], TT[c["pdt"]])
        y = _fm(n, "y", c["so"], c["odt"], 0.05, 0, quant=c["hasq"])
        n.op(op, [x, p], [y], ["PadOptions", {}])
    elif op in ("RESIZE_BILINEAR", "RESIZE_NEAREST_NEIGHBOR"):
        x = ifm("x", c["s1"], c["dt"])
        size = [c["so"][1], c["so"][2]] if c["szmatch"] else [c["so"][1] + 1, c["so"][2]]
        sz = n.const("size", [2], "INT32", data=size)
        y = _fm(n, "y", c["so"], c["odt"], 0.05, 0, quant=c["hasq"])
        n.op(op, [x, sz], [y], ["ResizeBilinearOptions" if op == "RESIZE_BILINEAR" else "ResizeNearestNeighborOptions",
                                {"AlignCorners": bool(c["align"]), "HalfPixelCenters": bool(c["half"])}])
    elif op == "TRANSPOSE_CONV":
        x = ifm("x", [c["b"], c["h"], c["w"], c["c"]], c["dt"])
        osz = n.const("output_shape", [4], "INT32", data=list(rec["ofm"]))
        w = _weights(n, c, [c["oc"], c["kh"], c["kw"], c["c"]], c["oc"], 0)
        b = _bias(n, c, c["oc"])
        y = _fm(n, "y", rec["ofm"], c["odt"], 0.07, -5, quant=c["hasq"])
        n.op(op, [osz, w, x] + ([b] if b is not None else []), [y],
             ["TransposeConvOptions", {"Padding": 0 if c["pad"] == "SAME" else 1, "StrideW": c["sw"], "StrideH": c["sh"],
                                       "FusedActivationFunction": FAF[c["faf"]]}])
    elif op == "ARG_MAX":
        x = ifm("x", c["s1"], c["dt"])
        ax = n.const("axis", [], "INT32", data=[c["ax"]])
        y = _fm(n, "y", rec["ofm"], c["odt"], None, 0, quant=False)
        n.op(op, [x, ax], [y], ["ArgMaxOptions", {"OutputType": getattr(netgen.TT, TT[c["odt"]])}])
    else:
        raise MachineryError("no builder for " + op)
    if variant not in ("single", "npu_pre"):
        z = _fm(n, "z", n.t[y]["shape"], c["odt"], 0.07, -5, quant=c["hasq"] and op != "ARG_MAX")
        if variant == "sandwich":
            n.op("CUSTOM", [y], [z], custom_code="CpuOnlyAfter", custom_options=[2])
        elif variant == "lut_post":
            # the only consumer is a stand-alone activation the NPU executes with a lookup table
            act = LUT_ACTS[zlib.crc32(json.dumps(c, sort_keys=True).encode()) % len(LUT_ACTS)]
            osc, ozp = _unary_out_q(act, c["odt"])
            if c["hasq"] and op != "ARG_MAX" and c["odt"] != "float32":
                q = n.t[z]
                q["scale"], q["zp"] = [osc], [(128 + ozp) if c["odt"] == "uint8" else 0 if c["odt"] in ("int16", "int32") else ozp]
            n.op(act, [y], [z])
        else:
            n.op("ADD", [y, y], [z], ["AddOptions", {"FusedActivationFunction": 0}])
        return n.desc([z] + more_outputs)
    return n.desc([y] + more_outputs)


# ------------------------------------------------------------------------------------------------
# observation
# ------------------------------------------------------------------------------------------------
def _tensor_sigs(g):
    return {t["name"]: "%s|%s|%s|%s" % (",".join(map(str, t["shape"])), t["type"], t["quant"], t["data"] if t["const"] else "")
            for t in g["subgraphs"][0]["tensors"]}


def observe(op, in_bytes, out_bytes):
    """Where did the operator producing 'y' go?  "CPU": still an operator of the output model (+ whether verbatim: same
    version, options, operands, constant data, and the same shape / type / quantisation of every operand and result
    tensor); "NPU": gone, and explained by an ethos-u operator (same inference as C11's absorbed claim: a memory-only
    operator swallowed by a neighbouring NPU subgraph vanishes from the operator list and is reached from the ethos-u
    operator's outputs); "LOST": neither."""
    gs, go = flatmodel.abstract(in_bytes), flatmodel.abstract(out_bytes)
    S = tla_graph(gs)
    O = tla_graph(go)
    idx = next(i for i, o in enumerate(S["ops"], 1) if o["outs"] and o["outs"][0] == "y")
    src = S["ops"][idx - 1]
    kept = [o for o in O["ops"] if o["code"] == src["code"] and o["outs"] == src["outs"]]
    if kept:
        diff = [f for f in ("ver", "opts", "copt", "ins", "cdat") if kept[0][f] != src[f]]
        ts, to = _tensor_sigs(gs), _tensor_sigs(go)
        if any(ts.get(t) != to.get(t) for t in list(src["ins"]) + list(src["outs"]) if t):
            diff.append("tensors")
        return "CPU", not diff and len(kept) == 1, diff
    if any(idx in a for a in infer_absorbed(S, O)):
        return "NPU", True, []
    return "LOST", True, []


def failure_signature(r):
    """Stable name of a failed compilation: exception type and where it was raised, or the compiler's error line."""
    tb = [ln.strip() for ln in (r.get("exc") or "").splitlines() if ln.strip()]
    if tb:
        where = [ln for ln in tb if ln.startswith("File ")]
        loc = where[-1].split(",")[-1].strip() if where else "?"
        return "%s @ %s" % (tb[-1].split(":")[0][:60], loc)
    if r.get("timeout"):
        return "timeout"
    lines = [ln.strip() for ln in (r.get("stdout", "") + r.get("stderr", "")).splitlines() if ln.strip()]
    errs = [ln for ln in lines if ln.startswith("Error")]
    return (errs[-1] if errs else (lines[-1] if lines else "no output"))[:100]


def vela_reason(stdout):
    """What the compiler itself printed about the operator producing 'y' (used to name a finding)."""
    lines = stdout.splitlines()
    for i, ln in enumerate(lines):
        if "'y'" in ln and ("Placing on CPU" in ln or "is a CPU only op" in ln):
            nxt = lines[i + 1].strip() if i + 1 < len(lines) else ""
            return nxt[2:].strip()[:120] if nxt.startswith("- ") else ln.strip()[:120]
        if "'y'" in ln and "asymmetric weights" in ln:
            return "asymmetric weights (needs --force-symmetric-int-weights)"
    return "no reason printed"


# ------------------------------------------------------------------------------------------------
# "the report lists exactly the constraint set the compiler enforces"
# ------------------------------------------------------------------------------------------------
def enforced_lists():
    """{operator name: {"generic": [docstrings], "specific": [docstrings]}} from the constraint lists the
    compiler iterates over (TFLiteSemantic / TFLiteSupportedOperators of the working tree)."""
    ensure_repo_on_path()
    from ethosu.vela.tflite_model_semantic import TFLiteSemantic
    from ethosu.vela.tflite_supported_operators import TFLiteSupportedOperators
    from ethosu.vela.tflite_mapping import builtin_operator_map, builtin_operator_name_map
    sem, sup = TFLiteSemantic(), TFLiteSupportedOperators()
    out = {}
    norm = sr._norm
    for code, ent in builtin_operator_map.items():
        iop = ent[0]
        if iop not in TFLiteSupportedOperators.supported_operators:
            continue
        name = builtin_operator_name_map[code]
        sem_ex = TFLiteSemantic.get_generic_constraint_exclude_list().get(iop, [])
        sup_ex = sup.generic_constraints_exceptions[iop] if iop in sup.generic_constraints_exceptions else []
        gen = [norm(k.__doc__) for k in sem.generic_constraints if k not in sem_ex]
        gen += [norm(k.__doc__) for k in sup.generic_constraints if k not in sup_ex]
        spec = [norm(k.__doc__) for k in sem.specific_constraints.get(iop, [])]
        spec += [norm(k.__doc__) for k in sup.specific_constraints.get(iop, [])]
        out[name] = {"generic": gen, "specific": spec}
    return out


def check_lists(run, parsed):
    enf = enforced_lists()
    rep_ops = set(parsed["table"])
    n = 0
    for op in sorted(rep_ops | set(enf)):
        n += 1
        if op not in enf:
            run.violation("ReportMatchesLists|%s|listed-but-not-supported" % op,
                          "%s is in the report's table but no supported operator maps to it" % op, {"op": op})
            continue
        if op not in rep_ops:
            run.violation("ReportMatchesLists|%s|supported-but-not-listed" % op,
                          "%s is handled by the supported-operator checks but missing from the report" % op, {"op": op})
            continue
        rep_gen = sorted(t for t, ex in parsed["generic"] if op not in ex)
        rep_spec = sorted(parsed["specific"].get(op, []))
        for kind, rep, code in (("generic", rep_gen, sorted(enf[op]["generic"])),
                                ("specific", rep_spec, sorted(enf[op]["specific"]))):
            if rep != code:
                only_rep = [t for t in rep if t not in code]
                only_code = [t for t in code if t not in rep]
                run.violation("ReportMatchesLists|%s|%s" % (op, kind),
                              "%s %s constraints: only in the report %s; only enforced %s" % (op, kind, only_rep, only_code),
                              {"op": op, "report": rep, "enforced": code})
    run.cov["lists_compared"] = n
    return n


# ------------------------------------------------------------------------------------------------
def run_cases(run, d, plan):
    """plan: [(case as printed by TLC, variant, accelerator)]; the command-line options of a case are part of the case."""
    jobs, meta = [], []
    for rec, v, a in plan:
        try:
            net = build_case(rec, v)
        except MachineryError:
            raise
        except Exception as e:
            raise MachineryError("cannot build case %s: %r" % (rec["c"], e))
        jobs.append({"id": len(jobs), "net": net, "opts": {"accel": a, "extra": cli_extra(rec["c"])}})
        meta.append({"rec": rec, "variant": v, "accel": a})
    results = vela_run.compile_many(jobs, timeout=900)
    events, failed = [], {}
    for job, m, r in zip(jobs, meta, results):
        run.evaluated()
        if r["rc"] != 0 or not r.get("out_bytes"):
            sig = failure_signature(r)
            failed.setdefault(sig, []).append((m["rec"]["c"]["op"], m["rec"]["c"]["axis"]))
            m.update(observed="FAIL", unchanged=True, diff=[], reason=sig, t=len(events))
            events.append({"t": len(events), "c": m["rec"]["c"], "observed": "FAIL", "unchanged": True})
            continue
        obs, unchanged, diff = observe(m["rec"]["c"]["op"], r["in_bytes"], r["out_bytes"])
        m.update(observed=obs, unchanged=unchanged, diff=diff, reason=vela_reason(r["stdout"]), t=len(events))
        events.append({"t": len(events), "c": m["rec"]["c"], "observed": obs, "unchanged": unchanged})
    return jobs, meta, events, failed


def report_violations(run, viol, meta, jobs):
    by_t = {m["t"]: (m, j) for m, j in zip(meta, jobs) if "t" in m}
    for t, kind, failing in viol:
        m, j = by_t[t]
        c = m["rec"]["c"]
        if kind == "ViolatesButNpu":
            key = "ViolatesButNpu|%s|%s" % (c["op"], "+".join(sorted(failing)))
            what = "%s violates the listed constraint(s) %s yet runs on the NPU" % (c["op"], sorted(failing))
        elif kind == "SatisfiesButCpu":
            key = "SatisfiesButCpu|%s|%s" % (c["op"], m["reason"])
            what = "%s satisfies every listed constraint yet stays on the CPU; compiler says: %s" % (c["op"], m["reason"])
        elif kind == "ViolatesButFails":
            key = "ViolatesButFails|%s|%s|%s" % (c["op"], "+".join(sorted(failing)), m["reason"])
            what = ("%s violates the listed constraint(s) %s, so the report promises CPU placement, but the compilation "
                    "fails: %s" % (c["op"], sorted(failing), m["reason"]))
        elif kind == "OperatorLost":
            key = "OperatorLost|%s" % c["op"]
            what = "%s is neither preserved in the output model nor explained by an ethos-u operator" % c["op"]
        elif kind == "UndecidedButFails":
            key = "UndecidedButFails|%s|%s|%s" % (c["op"], "+".join(sorted(failing)), m["reason"])
            what = ("the report's wording leaves %s undecided for this %s, but either reading promises an output model and "
                    "the compilation fails: %s" % (sorted(failing), c["op"], m["reason"]))
        elif kind == "SatisfiesButFails":
            key = "SatisfiesButFails|%s|%s" % (c["op"], m["reason"])
            what = "%s satisfies every listed constraint but the compilation fails: %s" % (c["op"], m["reason"])
        else:
            key = "CpuNotUnchanged|%s|%s" % (c["op"], ",".join(m.get("diff", [])))
            what = "%s stays on the CPU but is rewritten (%s)" % (c["op"], m.get("diff"))
        run.violation(key, "%s [axis %s%s, %s, %s%s] case=%s" % (
            what, c["axis"], "+" + c["axis2"] if c["axis2"] else "", m["variant"], m["accel"],
            "".join(" " + o for o in cli_extra(c)),
            json.dumps({k: v for k, v in c.items() if v not in ("", [], None)}, sort_keys=True)[:600]),
            {"net": j["net"], "opts": j["opts"], "case": m["rec"], "variant": m["variant"]})


GOLDEN_DIR = os.path.join(os.path.dirname(os.path.dirname(os.path.abspath(__file__))), "golden")


GOLDEN_AXES_ROUND1 = ("nominal", "kernel_h", "stride_h", "stride_w", "dim_h", "dim_w", "batch", "dtype", "mean_axes", "mean_width",
                      "quant_differs", "weights_zero_point", "weights_zero_point_forced", "per_axis_weights_zero_point",
                      "force_option", "neutral_option",
                      # round 5
                      "broadcast", "broadcast_ranks", "broadcast_ranks_swapped", "broadcast_leading", "broadcast_ranks_mismatch",
                      "second_operand_constant")


def regen_golden():
    """Maintenance (run by hand on the unchanged tree after changing the case record layout):
    /venv/bin/python -c "from harness.checks import c16; c16.regen_golden()"  (cwd /verif)."""
    run = Run("C16", "quick")
    try:
        d = run.tmpdir("c16gold")
        md = sr.generate(d)
        with open(os.path.join(GOLDEN_DIR, "SUPPORTED_OPS.golden.md"), "w") as f:
            f.write(md)
        d, *_ = prepare_spec(run, md)
        cases = cases_from_tlc(run, d, False)
        keep = [c for c in cases if c["expect"] in ("NPU", "CPU") and
                (c["c"]["op"] not in ROUND1 or c["c"]["axis"] in GOLDEN_AXES_ROUND1)]
        keep += [c for c in cases if c["expect"] == "ANY" and c["c"]["axis"] == "bias_bits"]
        ev = [{"t": k, "c": c["c"], "observed": c["expect"] if c["expect"] != "ANY" else "FAIL", "unchanged": True}
              for k, c in enumerate(keep)]
        with open(os.path.join(GOLDEN_DIR, "c16_events.json"), "w") as f:
            json.dump({"_comment": "synthetic placements that agree with SUPPORTED_OPS.golden.md (observed := Expect); base of "
                                   "C16's negative controls, independent of the tree under test", "events": ev}, f)
        print("golden: %d events" % len(ev))
    finally:
        run.cleanup()


def negative_controls(run, tier="thorough"):
    """Frozen inputs only (harness/golden): a report generated by the unchanged tree and placements that agree with it.
    (i) the golden placements are accepted; (ii) every flipped placement is rejected; (iii) a report whose range
    constants are off by one makes golden placements inconsistent.  Nothing depends on the tree under test."""
    import copy
    with open(os.path.join(GOLDEN_DIR, "SUPPORTED_OPS.golden.md")) as f:
        md = f.read()
    with open(os.path.join(GOLDEN_DIR, "c16_events.json")) as f:
        good = json.load(f)["events"]
    d, *_ = prepare_spec(run, md)
    # design-level invariants over the whole case set (quick: single cases; thorough: also the pairs)
    des = tlc.run("SupportedOpsGen", "SupportedOpsGenDesign.cfg" if tier != "quick" else "SupportedOpsGenDesignQuick.cfg", workers=1,
                  timeout=900, cwd=d)
    if not des.ok:
        raise MachineryError("design-level invariants of SupportedOpsGen fail on the golden report: %s %s\n%s" % (
            des["status"], des.get("violated"), des["output"][-1500:]))
    run.add_mc("SupportedOpsGen(design invariants, golden report)", des)
    decided = [e for e in good if e["observed"] in ("NPU", "CPU")]
    undecided_fail = [e for e in good if e["observed"] == "FAIL"]
    flipped = []
    for e in decided:
        if e["c"]["axis"] in ("nominal", "neutral_option"):
            f = copy.deepcopy(e)
            f["observed"] = "CPU" if e["observed"] == "NPU" else "NPU"
            f["t"] = len(good) + len(flipped)
            flipped.append(f)
    ops_flipped = {f["c"]["op"] for f in flipped}
    if not set(sr.COVERED) <= ops_flipped:
        raise MachineryError("negative control: no nominal golden placement for %s" % sorted(set(sr.COVERED) - ops_flipped))
    # one batch: the golden placements themselves (no verdict expected, failed undecided cases included) followed by
    # corrupted copies (exactly the named verdict expected for each)
    if [e["t"] for e in good] != list(range(len(good))):
        raise MachineryError("golden events are not numbered consecutively")
    corrupted = list(good) + list(flipped)
    want = {(f["t"], "SatisfiesButCpu" if f["observed"] == "CPU" else "ViolatesButNpu") for f in flipped}

    def add(e, kind, **changes):
        f = dict(copy.deepcopy(e), t=len(corrupted), **changes)
        corrupted.append(f)
        if kind:
            want.add((f["t"], kind))
        return f
    add(decided[0], "OperatorLost", observed="LOST")
    # ---- the command-line option is part of the case: a record that lies about it is rejected in both directions
    lied = []
    for e in decided:
        c = e["c"]
        if c["axis"] in ("weights_zero_point", "weights_zero_point_forced") and c["wzp"] != 0 and c["dt"] in ("int8", "int16"):
            # observed stays what the compiler did under the other setting
            f = add(e, "ViolatesButNpu" if e["observed"] == "NPU" else "SatisfiesButCpu")
            f["c"]["force"] = not c["force"]
            lied.append(f)
    combos = {(f["c"]["op"], f["c"]["dt"], f["observed"]) for f in lied}
    if len(combos) < 12:
        raise MachineryError("negative control: golden events lack forced / unforced zero-point placements (%s)" % sorted(combos))
    # ---- an eliminated operator: accepted only for a no-op that need not stay on the CPU
    ident = [e for e in decided if e["c"]["op"] == "RESIZE_BILINEAR" and e["c"]["s1"] == e["c"]["so"] and e["observed"] == "NPU"]
    scaled = [e for e in decided if e["c"]["op"] == "RESIZE_BILINEAR" and e["c"]["s1"] != e["c"]["so"] and e["observed"] == "NPU"]
    if not ident or not scaled:
        raise MachineryError("negative control: golden events lack identity / scaling RESIZE_BILINEAR placements")
    add(ident[0], None, observed="LOST")
    add(scaled[0], "OperatorLost", observed="LOST")
    # ---- a CPU placement that is not byte-identical; a memory-only operator swallowed by its NPU neighbour
    kept = next(e for e in decided if e["observed"] == "CPU" and e["c"]["op"] == "RESHAPE")
    add(kept, "CpuNotUnchanged", unchanged=False)
    add(kept, "ViolatesButNpu", observed="NPU")
    # ---- round 5: operands of different ranks, attributes in their other encoding
    BC = {"broadcast_ranks", "broadcast_ranks_swapped", "broadcast_leading", "broadcast_ranks_mismatch"}
    n_bc, n_enc, ops_bc, ops_enc = 0, 0, set(), set()
    for e in decided:
        c = e["c"]
        if c["axis"] in BC and len(c["s1"]) != len(c["s2"]):
            add(e, "SatisfiesButCpu" if e["observed"] == "NPU" else "ViolatesButNpu", observed="CPU" if e["observed"] == "NPU" else "NPU")
            n_bc += 1
            ops_bc.add((c["op"], e["observed"]))
        rank = len(c["so"]) if c["op"] == "CONCATENATION" else len(c["s1"])
        if c["op"] in ("CONCATENATION", "SPLIT", "SPLIT_V", "ARG_MAX") and -rank <= c["ax"] < rank:
            other = c["ax"] + rank if c["ax"] < 0 else c["ax"] - rank
            # the same operator written the other way: same verdict for the same placement, a verdict for the other placement
            f = add(e, None)
            f["c"]["ax"] = other
            f = add(e, "SatisfiesButCpu" if e["observed"] == "NPU" else "ViolatesButNpu", observed="CPU" if e["observed"] == "NPU" else "NPU")
            f["c"]["ax"] = other
            n_enc += 1
            ops_enc.add((c["op"], c["ax"] < 0, e["observed"]))
        if c["op"] == "MEAN" and c["axis"] == "mean_axes" and c["axes"] and all(a >= 0 for a in c["axes"]):
            f = add(e, None)
            f["c"]["axes"] = [a - len(c["s1"]) for a in c["axes"]]
            f = add(e, "SatisfiesButCpu" if e["observed"] == "NPU" else "ViolatesButNpu", observed="CPU" if e["observed"] == "NPU" else "NPU")
            f["c"]["axes"] = [a - len(c["s1"]) for a in c["axes"]]
            n_enc += 1
            ops_enc.add(("MEAN", False, e["observed"]))
    need_bc = {(op, "NPU") for op in ("ADD", "SUB", "MUL", "MINIMUM", "MAXIMUM", "SQUARED_DIFFERENCE")} | \
              {(op, "CPU") for op in ("ADD", "SUB", "MUL", "MINIMUM", "MAXIMUM")}
    need_enc = {(op, neg, "NPU") for op in ("CONCATENATION", "SPLIT", "SPLIT_V", "ARG_MAX") for neg in (False, True)} | \
               {("CONCATENATION", False, "CPU"), ("CONCATENATION", True, "CPU"), ("MEAN", False, "NPU"), ("MEAN", False, "CPU")}
    if not need_bc <= ops_bc or not need_enc <= ops_enc:
        raise MachineryError("negative control: golden events lack unequal-rank / other-encoding placements: %s %s" % (
            sorted(need_bc - ops_bc), sorted(need_enc - ops_enc)))
    # a concatenation whose axis is moved to another dimension is another operator: the recorded placement is rejected
    moved = [e for e in decided if e["c"]["op"] == "CONCATENATION" and e["c"]["axis"] == "concat_axis" and e["c"]["ax"] == -1
             and e["observed"] == "NPU" and len(e["c"]["so"]) == 4]
    if not moved:
        raise MachineryError("negative control: golden events lack a CONCATENATION with axis -1")
    add(moved[0], "ViolatesButNpu")["c"]["ax"] = -2
    _, v = validate(d, corrupted)
    if {(x[0], x[1]) for x in v} != want:
        raise MachineryError("negative control: golden placements rejected or corrupted placements accepted: missing %s, "
                             "unexpected %s" % (sorted(want - {(x[0], x[1]) for x in v})[:5],
                                                sorted({(x[0], x[1]) for x in v} - want)[:5]))

    # ---- a failed compilation of a case the wording leaves undecided: no verdict with the delivered constant (checked
    #      above: the golden events contain such failures), a verdict with UndecidedFailureIsVerdict = TRUE
    if not undecided_fail:
        raise MachineryError("negative control: golden events lack an undecided case")
    uf = [dict(copy.deepcopy(e), t=k) for k, e in enumerate(undecided_fail)]
    _, vu1 = validate(d, uf, cfg="SupportedOpsTraceStrict.cfg")
    if {(x[0], x[1]) for x in vu1} != {(e["t"], "UndecidedButFails") for e in uf}:
        raise MachineryError("negative control: UndecidedFailureIsVerdict = TRUE does not make the failure a verdict (%s)" % vu1)
    good = decided
    by_t = {e["t"]: e for e in good}

    def mutate(K, listed):
        # (a) range constants / sets of the report off by one step
        K["DilHHi"] = {k: x + 1 for k, x in K["DilHHi"].items()}
        K["MpHHi"] -= 1
        K["DimHi"] -= 1
        K["PsHi"] += 1
        K["DwSHi"] -= 1
        K["MeanWMax"] += 1
        K["ArgMaxDepth"] += 1
        K["RzFactors"] = [x for x in K["RzFactors"] if x != 8] + [16]
        K["RzAlignFactors"] = [x for x in K["RzAlignFactors"] if x != 2] + [3]
        K["PadRows"] = [x for x in K["PadRows"] if x != 3]
        K["RzHalfFactor"] += 2
        # (b) a constraint vanishes from the report but is still enforced
        listed["RESHAPE"] = [x for x in listed["RESHAPE"] if x != "rs_quant"]
        listed["CONV_2D"] = [x for x in listed["CONV_2D"] if x not in ("batch", "wsym")]
        listed["TRANSPOSE"] = [x for x in listed["TRANSPOSE"] if x != "tr_perm"]
        listed["STRIDED_SLICE"] = [x for x in listed["STRIDED_SLICE"] if x != "ss_strides"]
        listed["SOFTMAX"] = [x for x in listed["SOFTMAX"] if x != "sm_beta"]
        listed["ADD"] = [x for x in listed["ADD"] if x != "broadcast"]
        listed["MAXIMUM"] = [x for x in listed["MAXIMUM"] if x != "broadcast"]
        listed["CONCATENATION"] = [x for x in listed["CONCATENATION"] if x != "cc_dims"]
    d2, *_ = prepare_spec(run, md, mutate=mutate)
    _, v2 = validate(d2, good)
    hit = {(by_t[x[0]]["c"]["op"], by_t[x[0]]["c"]["axis"], x[1]) for x in v2}
    shifted = {("CONV_2D", "kernel_h"), ("MAX_POOL_2D", "kernel_h"), ("CONV_2D", "dim_h"), ("MAX_POOL_2D", "stride_h"),
               ("DEPTHWISE_CONV_2D", "stride_h"), ("MEAN", "mean_width"), ("ARG_MAX", "depth"), ("RESIZE_BILINEAR", "scale"),
               ("RESIZE_NEAREST_NEIGHBOR", "scale"), ("RESIZE_BILINEAR", "half_pixel"), ("PAD", "padding")}
    unlisted = {("RESHAPE", "quant_differs"), ("CONV_2D", "batch"), ("CONV_2D", "weights_zero_point"), ("TRANSPOSE", "permutation"),
                ("STRIDED_SLICE", "strides"), ("SOFTMAX", "beta"), ("ADD", "broadcast_leading"), ("MAXIMUM", "broadcast_leading"),
                ("CONCATENATION", "dims_differ")}
    miss_a = shifted - {(o, a) for o, a, k in hit}
    miss_b = unlisted - {(o, a) for o, a, k in hit if k == "SatisfiesButCpu"}
    if miss_a or miss_b or not {"SatisfiesButCpu", "ViolatesButNpu"} <= {k for o, a, k in hit}:
        raise MachineryError("negative control: a report with shifted constants / dropped constraints was not detected for %s / %s"
                             % (sorted(miss_a), sorted(miss_b)))
    # ---- round 5: a specification whose Broadcast aligns the LEADING dimensions, and one that does not normalise an axis
    #      counted from the end, are rejected by the design invariants (checked over the whole case set)
    broken = [("BroadcastIsTrailingAligned", "Ext(s, r) == IF Len(s) >= r THEN s ELSE [i \\in 1..r |-> IF i <= r - Len(s) THEN 1 ELSE s[i - (r - Len(s))]]",
               "Ext(s, r) == IF Len(s) >= r THEN s ELSE [i \\in 1..r |-> IF i <= Len(s) THEN s[i] ELSE 1]"),
              ("EquivalentEncodingsSameExpect", "CanonAx(a, r) == IF InR(a, -r, -1) THEN a + r ELSE a", "CanonAx(a, r) == a")]
    for inv, old, new in broken:
        d3, *_ = prepare_spec(run, md)
        with open(os.path.join(d3, "SupportedOps.tla")) as f:
            text = f.read()
        if text.count(old) != 1:
            raise MachineryError("negative control: SupportedOps.tla no longer contains the definition %r" % old[:40])
        with open(os.path.join(d3, "SupportedOps.tla"), "w") as f:
            f.write(text.replace(old, new))
        bad = tlc.run("SupportedOpsGen", "SupportedOpsGenDesignQuick.cfg", workers=1, timeout=900, cwd=d3)
        if bad["status"] != "invariant" or inv not in str(bad.get("violated")):
            raise MachineryError("negative control: the specification with a broken %s passes the design invariants (%s %s)\n%s" % (
                old.split("(")[0], bad["status"], bad.get("violated"), bad["output"][-1500:]))
    run.cov["negative_controls"] = ["golden placements accepted (%d, among them %d failed compilations of undecided cases)" % (
                                        len(good) + len(uf), len(uf)),
                                    "flipped placement x%d (every covered operator), lost operator, rewritten CPU operator, "
                                    "absorbed memory-only operator" % len(flipped),
                                    "wrong --force-symmetric-int-weights flag in the case record x%d: rejected" % len(lied),
                                    "eliminated operator: identity resize accepted, scaling resize rejected",
                                    "operands of different ranks: flipped placement x%d rejected; attribute in its other encoding "
                                    "(axis from the end / from the front) x%d: same placement accepted, flipped placement rejected; "
                                    "CONCATENATION axis moved to another dimension rejected" % (n_bc, n_enc),
                                    "specification with leading-aligned broadcasting / without axis normalisation: rejected by "
                                    "BroadcastIsTrailingAligned / EquivalentEncodingsSameExpect",
                                    "failed compilation of an undecided case x%d: verdict with UndecidedFailureIsVerdict = TRUE" % len(uf),
                                    "report with constants shifted by one step and constraints dropped: %d inconsistencies, every "
                                    "one of the %d mutated constraints detected" % (len(v2), len(shifted) + len(unlisted))]


def main(tier, only=None):
    from concurrent.futures import ThreadPoolExecutor
    run = Run("C16", tier)
    # the negative controls use frozen inputs only (harness/golden) and TLC: they run beside the compilations
    pool = ThreadPoolExecutor(1)
    neg = pool.submit(negative_controls, run, tier)
    try:
        return _main(run, tier, neg)
    except BaseException:
        try:
            neg.result()       # let the controls finish before their scratch directories go away
        except BaseException:
            pass
        run.cleanup()          # scratch directories must not outlive a machinery error
        raise
    finally:
        pool.shutdown(wait=True)


def _main(run, tier, neg):
    sd = seed()
    rng = random.Random(sd)
    try:
        d, md, parsed, K, listed, unmodelled = prepare_spec(run)
    except MachineryError as e:
        if "supported-ops-report failed" not in str(e):
            raise
        run.violation("ReportGeneration|failed", "the working tree cannot generate its supported-operators report: %s"
                      % str(e)[-300:], {})
        neg.result()
        return run.finish()
    for op in sr.COVERED:
        if op not in parsed["table"]:
            run.violation("ReportMatchesLists|%s|missing-from-report" % op, "%s is not in the generated report" % op, {})
    check_lists(run, parsed)
    quick = tier == "quick"
    cases = cases_from_tlc(run, d, pairs=not quick)
    off = {}
    for c in cases:
        name = switched_off(c)
        if name:
            off[name] = off.get(name, 0) + 1
    cases = [c for c in cases if not switched_off(c)]
    single = [c for c in cases if not c["c"]["axis2"]]
    pairs = [c for c in cases if c["c"]["axis2"]]
    rng.shuffle(pairs)
    first = [c for c in single if c["c"]["op"] in ROUND1]
    later = [c for c in single if c["c"]["op"] not in ROUND1]
    one_sided = ("npu_pre", "npu_post")
    plan = []
    if quick:
        # options the report does not mention: a third of the (operator, option set) combinations per run, rotating with the seed
        neutral = [c for c in single if c["c"]["axis"] == "neutral_option"]
        first = [c for c in first if c["c"]["axis"] != "neutral_option"]
        later = [c for c in later if c["c"]["axis"] != "neutral_option"]
        plan += [(r, "single", ACCELS[i % 2]) for i, r in enumerate(neutral) if i % 3 == sd % 3]
        # operators of the first round: every case alone and inside an NPU region, a slice of them between CPU-only neighbours
        for i, r in enumerate(first):
            plan.append((r, "single", ACCELS[i % 2]))
            plan.append((r, "npu", ACCELS[(i + 1) % 2]))
            if i % 4 == sd % 4:
                plan.append((r, "sandwich", ACCELS[i % 2]))
        # operators added later: every case alone, a third of them (rotating with the seed) inside an NPU region
        for i, r in enumerate(later):
            plan.append((r, "single", ACCELS[i % 2]))
            if i % 3 == sd % 3:
                plan.append((r, "npu", ACCELS[(i + 1) % 2]))
        # data-movement operators that must stay on the CPU, next to an NPU operator on both sides / one side: a rejected
        # memory-only operator must not be swallowed by the neighbouring NPU subgraph
        k = 0
        for r in single:
            if r["c"]["op"] in MEMORY_ONLY and r["expect"] == "CPU":
                k += 1
                if r["c"]["op"] in ROUND1:
                    plan += [(r, v, ACCELS[k % 2]) for v in one_sided]
                else:
                    plan.append((r, ("npu", "npu_pre", "npu_post")[(k + sd) % 3], ACCELS[k % 2]))
        # an operator that must stay on the CPU whose only consumer is a lookup-table activation (which the NPU would like to
        # fuse into its producer): a fifth of them per run, rotating with the seed
        cpu = [r for r in single if r["expect"] == "CPU" and r["c"]["axis"] != "neutral_option"]
        plan += [(r, "lut_post", ACCELS[i % 2]) for i, r in enumerate(cpu) if i % 5 == sd % 5]
    else:
        plan += [(r, "lut_post", ALL_ACCELS[i % 6]) for i, r in enumerate(single)]
        for r in first:
            plan += [(r, v, a) for v in ("single", "sandwich", "npu") for a in ALL_ACCELS]
        for i, r in enumerate(later):
            plan += [(r, v, a) for v in ("single", "npu") for a in ALL_ACCELS]
            plan += [(r, v, ALL_ACCELS[(i + j) % 6]) for j, v in enumerate(("sandwich",) + one_sided)]
        for i, r in enumerate(first):
            if r["c"]["op"] in MEMORY_ONLY:
                plan += [(r, v, ALL_ACCELS[(i + j) % 6]) for j, v in enumerate(one_sided)]
        plan += [(r, "single", a) for i, r in enumerate(pairs[:4000]) for a in (ALL_ACCELS[i % 6], ALL_ACCELS[(i + 3) % 6])]
        plan += [(r, "npu", ALL_ACCELS[i % 6]) for i, r in enumerate(pairs[4000:5000])]
    for r, v, a in plan:
        name = switched_off_variant(r, v)
        if name:
            off[name] = off.get(name, 0) + 1
    plan = [(r, v, a) for r, v, a in plan if not switched_off_variant(r, v)]
    jobs, meta, events, failed = run_cases(run, d, plan)
    nfail = sum(len(v) for v in failed.values())
    res, viol = validate(d, events)
    run.add_trace_run("SupportedOpsTrace", res, len(events))
    report_violations(run, viol, meta, jobs)
    # ---- vacuity: every numeric / categorical constraint kind of a covered operator was hit on both sides
    hit = {}
    for m in meta:
        if m.get("observed") in ("NPU", "CPU"):
            r = m["rec"]
            for cid in r["failing"]:
                hit.setdefault((r["c"]["op"], cid), set()).add(m["observed"])
            run.nontrivial((r["c"]["op"], r["c"]["axis"], r["c"]["axis2"], tuple(r["failing"]), m["variant"], m["accel"][:9]))
    exp = {e: sum(1 for m in meta if m["rec"]["expect"] == e) for e in ("NPU", "CPU", "ANY")}
    for x in (m for m in meta if m.get("observed") in ("NPU", "CPU")):
        if len(run.cov["samples"]) < 6 and x["rec"]["c"]["axis"] in ("kernel_h", "stride_w", "dim_h", "broadcast"):
            run.sample({"case": {k: v for k, v in x["rec"]["c"].items() if v not in ("", [], None)},
                        "expect": x["rec"]["expect"], "failing": x["rec"]["failing"], "observed": x["observed"],
                        "accel": x["accel"], "variant": x["variant"]})
    # ---- vacuity: the option dimension was really driven into the compiler for every operator that lists the bullet
    forced = {(m["rec"]["c"]["op"], m["rec"]["c"]["dt"]) for m, j in zip(meta, jobs)
              if m["rec"]["c"]["force"] and m["rec"]["c"]["wzp"] != 0 and "--force-symmetric-int-weights" in j["opts"]["extra"]}
    need = {(op, dt) for op in sr.COVERED if op in parsed["table"] and "wsym" in listed[op] for dt in ("int8", "int16")}
    if not need <= forced:
        raise MachineryError("vacuity: no compilation with --force-symmetric-int-weights and a non-zero weight zero point for %s"
                             % sorted(need - forced))
    if not quick and {m["rec"]["c"]["nopt"] for m in meta} != set(NEUTRAL_OPTIONS):
        raise MachineryError("vacuity: option sets not swept: %s" % sorted(set(NEUTRAL_OPTIONS) - {m["rec"]["c"]["nopt"] for m in meta}))
    neg.result()               # a failed control raises MachineryError here
    run.cov["expectations"] = exp
    run.cov["constraint_kinds_exercised"] = sorted("%s:%s" % k for k in hit)
    run.cov["not_compiled"] = {k: v[:6] for k, v in failed.items()}
    run.cov["switched_off_case_classes"] = off
    run.cov["options_swept"] = sorted({" ".join(cli_extra(m["rec"]["c"])) for m in meta} - {""})
    run.cov["unmodelled_report_text"] = unmodelled
    run.cov["report_constants"] = {k: v for k, v in K.items() if not isinstance(v, dict)}
    run.cov["rule"] = ("cases = elements of Cases in SupportedOps.tla enumerated by TLC from the constants parsed out of the "
                       "report the working tree generates; the command-line option the report names "
                       "(--force-symmetric-int-weights) is a field of the case and is passed to the compiler; each case is "
                       "compiled as a one-operator network (and with CPU-only / NPU-able neighbours on both sides or one side, "
                       "or a lookup-table activation as only consumer) for ethos-u55-128 / ethos-u65-256 (all six configurations in the thorough tier); non-trivial = distinct "
                       "(operator, axis, failing constraints, variant, accelerator family) with an observed placement")
    run.assumptions += [
        "constraint kinds the generated networks always satisfy (attributes present, static shapes, finite scales, "
        "integer strides) are taken as holding",
        "'Tensors must be of type' / 'int32' / 'dimensions' are read as statements about IFM, IFM2, weights and OFM (not bias)",
        "wording that does not decide a case (stride width > 3 criteria, 40-bit bias magnitude, batch of tensors with "
        "fewer than 4 dimensions, FC '2D output', identity TRANSPOSE, align_corners scaling of "
        "an extent of 1, beta = 0, slice ranges where masks and raw values disagree) gives Expect = ANY: no verdict",
        "parameter tensors (axis, begin / size / strides, permutation, paddings, resize size) are not 'Tensors' of the "
        "generic type / int32 / dimension constraints",
        "an operator whose result equals its input (RESIZE_* to the same size) may be eliminated instead of placed",
        "the bullets are statements about the operator, not about its encoding: an axis counted from the end (CONCATENATION, "
        "SPLIT, SPLIT_V, ARG_MAX, MEAN) and a SLICE size of -1 are judged as their canonical form (Canon in SupportedOps.tla)",
        "broadcasting aligns trailing dimensions (TFLite / numpy); the batch of an operand of a broadcasting operator is read "
        "off the shape it is extended to (leading 1s)",
    ]
    return run.finish()


def replay(path):
    rp = json.load(open(path))["replay"]
    if "net" not in rp:
        print("nothing to replay for", path)
        return 0
    r = vela_run.compile_many([{"id": 0, "net": rp["net"], "opts": rp["opts"]}])[0]
    if r["rc"] != 0 or not r.get("out_bytes"):
        print("expected by the report: %s (failing %s); the compilation produces no output model: %s" % (
            rp["case"]["expect"], rp["case"]["failing"], failure_signature(r)))
        return 1 if rp["case"]["expect"] in ("NPU", "CPU") else 0
    obs, unchanged, diff = observe(rp["case"]["c"]["op"], r["in_bytes"], r["out_bytes"])
    print("expected by the report: %s (failing %s); observed: %s unchanged=%s; compiler says: %s" % (
        rp["case"]["expect"], rp["case"]["failing"], obs, unchanged, vela_reason(r["stdout"])))
    bad = (rp["case"]["expect"] == "NPU" and obs == "CPU") or (rp["case"]["expect"] == "CPU" and obs == "NPU") or \
          (obs == "CPU" and not unchanged)
    return 1 if bad else 0
